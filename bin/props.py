"""Per-property configuration of bin/check."""

COMMON_TRUSTED = [
    "Lean 4.33.0 kernel (thorough tier: re-checked with leanchecker)",
    "statement of the theorems in lean/VrlProofs/Props/<ID>.lean and of the Spec predicates they use",
    "correspondence check: harness generators, canonical wire format (harness/src/wire.rs, lean/VrlModel/Wire.lean), "
    "Lean driver parser (uses `partial def`; not part of any theorem), bin/check diff; agreement on N cases is sampling",
    "Rust compiler/std (BTreeMap, Vec, isize arithmetic) modelled, not verified",
]

PROPS = {
    "C18": {
        "level": "proof",
        "lean_modules": ["VrlProofs.Props.C18", "VrlProofs.Witness.C18"],
        "ops": ["val.get", "val.insert", "val.remove", "o.c18"],
        "n": {"quick": 4000, "thorough": 300000},
        "technique": "Lean 4 theorems by induction on the path over a model of crud::{get,insert,remove}; "
                     "model tied to the code by differential correspondence",
        "claim": "Proof (Lean 4 kernel) for all values, paths, inserted values and prune flags of: read-your-write, "
                 "remove-returns-get, absent/non-container paths change nothing, sorted-key invariant, panic only at "
                 "isize::MIN. The frame law is proved under the decidable frame condition `frameOK` (no coercion, padding "
                 "or shifting); outside it the law is false of the code: three witness theorems + known findings.",
        "note": "The theorems are about lean/VrlModel/Value.lean; the tie to src/value/value/crud is the val.* "
                "correspondence (sampling). Rust std containers are modelled. Opposite-sign index pairs at the "
                "divergence point are excluded from the frame theorem (aliasing depends on the array length).",
        "trusted": ["modelled: src/value/value/crud/{get,insert,remove,mod}.rs and Value::{get,insert,remove}; "
                    "allocation failure for huge indices (memory exhaustion) is outside the model"],
        "assumptions": ["indices are isize values; a path segment is Field or Index (OwnedSegment)"],
        "nontrivial_rule": "distinct case lines whose implementation reply is neither `none` nor `none<tab>none` "
                           "(i.e. the path addressed something or the operation changed the value)",
        "explanation": "theorems over all values/paths; the frame law is proved under frameOK and its three "
                       "counterexample classes are witnessed in Lean and re-observed on the implementation",
    },
}

NOT_YET = {}
