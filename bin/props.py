"""Per-property configuration of bin/check: one JSON file per property in /verif/props/."""
import glob
import json
import os

ROOT = os.path.dirname(os.path.dirname(os.path.abspath(__file__)))

COMMON_TRUSTED = [
    "Lean 4.33.0 kernel (thorough tier: re-checked with leanchecker)",
    "statement of the theorems in lean/VrlProofs/Props/<ID>.lean and of the Spec predicates they use",
    "correspondence check: harness generators, canonical wire format (harness/src/wire.rs, lean/VrlModel/Wire.lean), "
    "Lean driver parser (uses `partial def`; not part of any theorem), bin/check diff; agreement on N cases is sampling",
    "Rust compiler/std (BTreeMap, Vec, integer arithmetic) modelled, not verified",
]

PROPS = {}
for f in sorted(glob.glob(os.path.join(ROOT, "props", "C*.json"))):
    PROPS[os.path.basename(f)[:-5]] = json.load(open(f))

# reasons for properties not (yet) claimed; default text in bin/mkmanifest
NOT_YET = {}
