/-
  VrlModel.KindWire — canonical text form of kinds (mirrors harness/src/kindwire.rs).

    kind    := K <prims> ocol ocol           prims: letters of "bifotrnu" in this order, "-" if none
                                              first ocol = array, second = object
    ocol    := _ | C { (key kind)* } unknown  key: `#<dec>` (index) or `k:<hex utf8>` (field)
    unknown := E kind | I <inf>               inf: letters of "bifotrnAO" in this order, "-" if none

  Index keys are the singleton lists `[n]` of the model (`Key.ofIdx`); in an array slot keys are
  printed as `#n`, in an object slot as `k:<hex>`.
-/
import VrlModel.Wire
import VrlModel.Kind

namespace KindWire
open Wire

def flagStr (fl : List (Bool × Char)) : String :=
  let cs := fl.filterMap fun (b, c) => if b then some c else none
  if cs.isEmpty then "-" else String.ofList cs

def showPrim (p : Prim) : String :=
  flagStr [(p.bytes, 'b'), (p.integer, 'i'), (p.float, 'f'), (p.boolean, 'o'), (p.timestamp, 't'),
    (p.regex, 'r'), (p.null, 'n'), (p.undefined, 'u')]

def showInf (i : Inf) : String :=
  flagStr [(i.bytes, 'b'), (i.integer, 'i'), (i.float, 'f'), (i.boolean, 'o'), (i.timestamp, 't'),
    (i.regex, 'r'), (i.null, 'n'), (i.array, 'A'), (i.object, 'O')]

def showKey (isArr : Bool) (k : Key) : String :=
  if isArr then "#" ++ toString k.idx else "k:" ++ hexOfBytes k

mutual
  def showKind : Kind → String
    | .mk p a o => "K " ++ showPrim p ++ " " ++ showOCol true a ++ " " ++ showOCol false o
  def showOCol (isArr : Bool) : OCol → String
    | .none => "_"
    | .some c => showCol isArr c
  def showCol (isArr : Bool) : Col → String
    | .mk k u => "C {" ++ showKList isArr k ++ " } " ++ showUnknown u
  def showKList (isArr : Bool) : KList → String
    | .nil => ""
    | .cons k v m => " " ++ showKey isArr k ++ " " ++ showKind v ++ showKList isArr m
  def showUnknown : Unknown → String
    | .exact k => "E " ++ showKind k
    | .infinite i => "I " ++ showInf i
end

def primOfString (s : String) : Option Prim :=
  if s == "-" then some {}
  else s.toList.foldlM (fun (p : Prim) c =>
    match c with
    | 'b' => some { p with bytes := true }
    | 'i' => some { p with integer := true }
    | 'f' => some { p with float := true }
    | 'o' => some { p with boolean := true }
    | 't' => some { p with timestamp := true }
    | 'r' => some { p with regex := true }
    | 'n' => some { p with null := true }
    | 'u' => some { p with undefined := true }
    | _ => none) {}

def infOfString (s : String) : Option Inf :=
  if s == "-" then some {}
  else s.toList.foldlM (fun (p : Inf) c =>
    match c with
    | 'b' => some { p with bytes := true }
    | 'i' => some { p with integer := true }
    | 'f' => some { p with float := true }
    | 'o' => some { p with boolean := true }
    | 't' => some { p with timestamp := true }
    | 'r' => some { p with regex := true }
    | 'n' => some { p with null := true }
    | 'A' => some { p with array := true }
    | 'O' => some { p with object := true }
    | _ => none) {}

mutual
  partial def parseKind : List String → Option (Kind × List String)
    | "K" :: p :: rest => do
      let p ← primOfString p
      let (a, r1) ← parseOCol rest
      let (o, r2) ← parseOCol r1
      pure (.mk p a o, r2)
    | _ => none
  partial def parseOCol : List String → Option (OCol × List String)
    | "_" :: rest => some (.none, rest)
    | "C" :: "{" :: rest => do
      let (k, r1) ← parseKList rest
      let (u, r2) ← parseUnknown r1
      pure (.some (.mk k u), r2)
    | _ => none
  partial def parseKList : List String → Option (KList × List String)
    | [] => none
    | tok :: rest =>
      if tok == "}" then some (.nil, rest)
      else do
        let key ←
          if tok.startsWith "#" then (dropPrefix tok 1).toNat?.map Key.ofIdx
          else if tok.startsWith "k:" then bytesOfHex (dropPrefix tok 2)
          else none
        let (v, r1) ← parseKind rest
        let (m, r2) ← parseKList r1
        pure (.cons key v m, r2)
  partial def parseUnknown : List String → Option (Unknown × List String)
    | "E" :: rest => do
      let (k, r) ← parseKind rest
      pure (.exact k, r)
    | "I" :: i :: rest => do
      let i ← infOfString i
      pure (.infinite i, rest)
    | _ => none
end

def kindOfString (s : String) : Option Kind :=
  match parseKind (tokens s) with
  | some (k, []) => some k
  | _ => none

def showOutcomeKind : Outcome Kind → String
  | .panic => "panic"
  | .ok k => "ok\t" ++ showKind k

end KindWire
