/-
  VrlModel.Lang.Default — `DefaultValue::default_value` of `Kind` (src/compiler/value/kind.rs): the
  value an infallible assignment `ok, err = e` stores in `ok` when `e` fails. An exact scalar or
  container kind has a fixed default, every other kind `null`.
-/
import VrlModel.Kind
import VrlModel.KindOps
import VrlModel.KindSpec

namespace Lang

def defaultValue (k : Kind) : Value :=
  if k.isBytes then .bytes []
  else if k.isInteger then .int 0
  else if k.isFloat then .float 0
  else if k.isBoolean then .bool false
  else if k.isTimestamp then .ts 0
  else if k.isRegex then .regex []
  else if k.isArray then .arr .nil
  else if k.isObject then .obj .nil
  else .null

/-- Spec of C08 clause (c) on one run of `.ok, err = e`: `T` is the type the compiler reports for
    `.ok` after the assignment, `okv` what `.ok` holds after a run in which `e` failed. -/
def defaultSpec (T : Kind) (okv : Value) : Bool :=
  decide (okv = defaultValue T) && Spec.mem okv T

end Lang
