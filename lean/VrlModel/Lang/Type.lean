/-
  VrlModel.Lang.Type — `Impl` model of the compiler's type inference on the *compiled* expression tree:
  `Expression::type_info` / `apply_type_info` / `resolve_constant` of every expression form of
  src/compiler/expression/*.rs (+ `DelFn` / `ExistsFn` of src/stdlib/{del,exists}.rs seen through
  `FunctionCall::type_info`), `TypeDef` (src/compiler/type_def.rs) and `TypeState` / `LocalEnv` /
  `ExternalEnv` (src/compiler/state.rs), for the call-free fragment.

  Code-shaped (DESIGN §1), quirks included:
  * `Block::type_info` keeps typing after a `never` expression and reports the whole block's state
    (also when a `return`/`abort` ends it early);
  * `Return::type_info` / `Abort::type_info` do not apply the state changes of their operand;
  * `Op::type_info`: the right operand of `??`/`||`/`&&` is typed in the state *after* the left one
    even when the left one failed half-way; `maybe_rhs` merges with `LocalEnv::merge`, which adds a
    variable first assigned by the right operand as if it were always assigned;
  * a `del` whose `compact` is not a constant merges the external environment with itself
    (also for `del` on a variable, whose type is updated by `DelFn::type_info` itself);
  * `del({…}.a)` applies the effects of the container twice (once as argument, once in `DelFn`);
  * assignments take the constant of the right-hand side in the state *after* it;
  * `Details::merge` keeps a constant when both sides are `==` (so `0.0` and `-0.0` agree).

  Simplifications that no public observation can distinguish:
  * `Fallibility` is a `Bool` (`is_fallible`): `AlwaysFails` is only produced by stdlib functions;
  * `Purity` is dropped;
  * `ExternalEnv.target` is a `Details` in Rust; its `fallibility`/`returns`/`value` are written but
    never read (queries use `target_kind()` only), so the model keeps the kind;
  * `LocalEnv.bindings` is a `HashMap`: the model keeps an association list with at most one entry
    per name; `merge` / `apply_child_scope` are written as maps over it (order-independent results).

  One more annotation that is not part of the Rust `TypeState` (like the `oom` marker): `leaked`,
  the names of variables that `apply_child_scope` dropped from the scope at the end of a block. At
  run time they stay alive (`Block::resolve` does not remove them); nothing of the type inference
  reads the annotation (it is used by the side conditions of the soundness theorem only).

  Panics of the kind operations (`-isize::MIN`; the subtraction underflow of `remove` is gone since
  e3023e2) are compile-time panics of
  the real compiler (C04): `typeInfo` is total, keeps the kind and sets the `oom` marker.
  Function calls are outside this model: `typeInfo` sets `oom` for every tree containing a `call`.
-/
import VrlModel.Lang.Ops
import VrlModel.KindSpec

namespace Lang

/-- `TypeDef { fallibility, kind, purity, returns }` -/
structure TypeDef where
  kind : Kind
  fallible : Bool := false
  returns : Kind := Kind.never
  deriving DecidableEq

/-- `Details { type_def, value }` -/
structure Details where
  td : TypeDef
  value : Option Value := none

/-- `TypeState { local, external }` -/
structure TState where
  locals : List (String × Details) := []
  target : Kind
  metadata : Kind
  oom : Bool := false
  leaked : List String := []    -- annotation: names dropped by `apply_child_scope` so far

namespace TypeDef

/-- `impl From<Kind> for TypeDef` -/
def ofKind (k : Kind) : TypeDef := { kind := k }

def never : TypeDef := ofKind Kind.never
def null : TypeDef := ofKind Kind.null
def boolean : TypeDef := ofKind Kind.boolean
def float : TypeDef := ofKind Kind.float
def undefined : TypeDef := ofKind Kind.undefined

def withKind (t : TypeDef) (k : Kind) : TypeDef := { t with kind := k }
def withReturns (t : TypeDef) (k : Kind) : TypeDef := { t with returns := k }
def setFallible (t : TypeDef) : TypeDef := { t with fallible := true }
def infallible (t : TypeDef) : TypeDef := { t with fallible := false }
def maybeFallible (t : TypeDef) (b : Bool) : TypeDef := { t with fallible := b }
def upgradeUndefined (t : TypeDef) : TypeDef := { t with kind := t.kind.upgradeUndefined }
def orNull (t : TypeDef) : TypeDef := { t with kind := t.kind.orNull }
def orBytes (t : TypeDef) : TypeDef := { t with kind := t.kind.orBytes }
def atPath (t : TypeDef) (p : Path) : TypeDef := { t with kind := t.kind.atPath p }

/-- `fallible_unless(kind)` -/
def fallibleUnless (t : TypeDef) (k : Kind) : TypeDef :=
  if k.isSuperset t.kind then t else t.setFallible

/-- `TypeDef::union` -/
def union (a b : TypeDef) : TypeDef :=
  { kind := a.kind.union b.kind, fallible := a.fallible || b.fallible,
    returns := a.returns.union b.returns }

/-- `merge_overwrite` (`Kind::merge` with `CollisionStrategy::Overwrite`) -/
def mergeOverwrite (a b : TypeDef) : TypeDef :=
  { kind := a.kind.merge b.kind .overwrite, fallible := a.fallible || b.fallible,
    returns := a.returns.union b.returns }

/-- `with_type_inserted(path, other)`: `returns` stays that of `self`. -/
def withTypeInserted (a : TypeDef) (p : Path) (b : TypeDef) : TypeDef :=
  { kind := a.kind.insert p b.kind, fallible := a.fallible || b.fallible, returns := a.returns }

end TypeDef

/-- `Option<Value> == Option<Value>` with the derived `PartialEq for Value` (`Arith.veq`). -/
def optValueEq : Option Value → Option Value → Bool
  | none, none => true
  | some a, some b => Arith.veq a b
  | _, _ => false

/-- `Details::merge` -/
def Details.merge (a b : Details) : Details :=
  { td := a.td.union b.td, value := if optValueEq a.value b.value then a.value else none }

/-! ### `LocalEnv` -/

abbrev Locals := List (String × Details)

namespace Locals

def get (l : Locals) (n : String) : Option Details := (l.find? (·.1 == n)).map (·.2)

/-- `insert_variable` -/
def set (l : Locals) (n : String) (d : Details) : Locals := (n, d) :: l.filter (·.1 != n)

/-- `apply_child_scope`: what the child changed of the parent's variables is copied back. -/
def applyChildScope (parent child : Locals) : Locals :=
  parent.map fun x => (x.1, (get child x.1).getD x.2)

/-- the names of the child scope that `apply_child_scope` drops (not in the parent) -/
def droppedNames (parent child : Locals) : List String :=
  (child.filter fun x => (get parent x.1).isNone).map (·.1)

/-- one variable of `self` in `LocalEnv::merge` -/
def mergeEntry (other : Locals) (x : String × Details) : String × Details :=
  match get other x.1 with
  | some od => (x.1, x.2.merge od)
  | none => x

/-- `LocalEnv::merge`: variables of both sides; the `Details::merge` where both have one. -/
def merge (self other : Locals) : Locals :=
  self.map (mergeEntry other) ++ other.filter fun x => (get self x.1).isNone

end Locals

namespace TState

def getVar (T : TState) (n : String) : Option Details := Locals.get T.locals n

def setVar (T : TState) (n : String) (d : Details) : TState := { T with locals := Locals.set T.locals n d }

/-- `ExternalEnv::kind(prefix)` -/
def extKind (T : TState) (isMeta : Bool) : Kind := if isMeta then T.metadata else T.target

def setExt (T : TState) (isMeta : Bool) (k : Kind) : TState :=
  if isMeta then { T with metadata := k } else { T with target := k }

/-- `TypeState::merge` (`LocalEnv::merge`, `ExternalEnv::merge`) -/
def merge (a b : TState) : TState :=
  { locals := Locals.merge a.locals b.locals,
    target := a.target.union b.target,
    metadata := a.metadata.union b.metadata,
    oom := a.oom || b.oom,
    leaked := a.leaked ++ b.leaked }

/-- `ExternalEnv::merge` alone (the locals of `a`) -/
def mergeExternal (a b : TState) : TState :=
  { a with target := a.target.union b.target, metadata := a.metadata.union b.metadata,
           oom := a.oom || b.oom }

end TState

/-! ### `resolve_constant` -/

def isNumber : Value → Bool
  | .int _ | .float _ => true
  | _ => false

def arithOk : Arith.Res Value → Option Value
  | .ok v => some v
  | _ => none

/-- `Op::resolve_constant` on two constant operands -/
def constOp (o : Opcode) (l r : Value) : Option Value :=
  if !isNumber l || !isNumber r then none
  else match o with
    | .mul => arithOk (Arith.tryMul l r)
    | .div => arithOk (Arith.tryDiv l r)
    | .add => arithOk (Arith.tryAdd l r)
    | .sub => arithOk (Arith.trySub l r)
    | _ => none

mutual
  /-- `Expression::resolve_constant` (the default is `None`) -/
  def constOf : Expr → TState → Option Value
    | .lit v, _ => some v
    | .grp e, T => constOf e T
    | .arr es, T => (constList es T).map Value.arr
    | .obj kvs, T => (constKVs kvs T).map Value.obj
    | .op o l r, T =>
      (match constOf l T, constOf r T with
       | some a, some b => constOp o a b
       | _, _ => none)
    | .var n, T => (T.getVar n).bind (·.value)
    | .qvar n p, T => ((T.getVar n).bind (·.value)).bind (·.get p)
    | _, _ => none
  def constList : Exprs → TState → Option VList
    | .nil, _ => some .nil
    | .cons e es, T =>
      (match constOf e T, constList es T with
       | some v, some vs => some (.cons v vs)
       | _, _ => none)
  def constKVs : KExprs → TState → Option VMap
    | .nil, _ => some .nil
    | .cons k e kes, T =>
      (match constOf e T, constKVs kes T with
       | some v, some m => some (.cons k v m)
       | _, _ => none)
end

/-! ### `Literal::type_info` -/

/-- literals are scalars; a container value (never produced by the compiler, which turns them into
    array/object expressions) is given `Kind::from(&value)`. -/
def litKind : Value → Kind
  | .null => Kind.null
  | .bool _ => Kind.boolean
  | .int _ => Kind.integer
  | .float _ => Kind.float
  | .bytes _ => Kind.bytes
  | .ts _ => Kind.timestamp
  | .regex _ => Kind.regex
  | v => v.kindOf

/-! ### `Target::insert_type_def` -/

def Tgt.insertTypeDef (t : Tgt) (T : TState) (new : TypeDef) (value : Option Value) : TState :=
  match t with
  | .noop => T
  | .internal n p =>
    let base := match T.getVar n with
      | none => TypeDef.never
      | some d => d.td
    let oom := T.oom || Kind.insertPanics p new.kind.upgradeUndefined
    { T.setVar n { td := base.withTypeInserted p new, value := if p.isEmpty then value else none }
      with oom := oom }
  | .external m p =>
    let oom := T.oom || Kind.insertPanics p new.kind.upgradeUndefined
    { T.setExt m ((T.extKind m).insert p new.kind) with oom := oom }

/-! ### `Op::type_info` after both operands were typed -/

/-- `maybe_rhs`: the state after an operand that may or may not run. -/
def maybeRhs (T1 Tr : TState) : TState := T1.merge Tr

/-- `constant_arithmetic_produces_nan` -/
def constNaN (o : Opcode) (lv rv : Option Value) : Bool :=
  match lv, rv with
  | some l, some r =>
    if !isNumber l || !isNumber r then false
    else if !(match l with | .float _ => true | _ => false) && !(match r with | .float _ => true | _ => false) then false
    else
      let res := match o with
        | .add => Arith.tryAdd l r
        | .sub => Arith.trySub l r
        | _ => Arith.tryMul l r
      (match res with
       | .err .nanFloat => true
       | _ => false)
  | _, _ => false

def numKind : Kind := Kind.integer.orFloat
def nullBool : Kind := Kind.null.orBoolean
def bytesNull : Kind := Kind.bytes.orNull

/-- the arithmetic rules of `+`, `-`, `*` -/
def arithDef (o : Opcode) (l r : TypeDef) (nanFallible : Bool) : TypeDef :=
  if o == .add && (l.kind.isBytes || r.kind.isBytes) then
    ((l.fallibleUnless bytesNull).union (r.fallibleUnless bytesNull)).withKind Kind.bytes
  else if l.kind.isFloat || r.kind.isFloat then
    let t := ((l.fallibleUnless numKind).union (r.fallibleUnless numKind)).withKind Kind.float
    if nanFallible then t.setFallible else t
  else if l.kind.isInteger && r.kind.isInteger then (l.union r).withKind Kind.integer
  else if o == .mul && l.kind.isBytes && r.kind.isInteger then (l.union r).withKind Kind.bytes
  else if o == .mul && l.kind.isInteger && r.kind.isBytes then (l.union r).withKind Kind.bytes
  else if o == .sub then (l.union r).setFallible.withKind numKind
  else (l.union r).setFallible.withKind (Kind.bytes.orInteger.orFloat)

/-- the condition under which `Op::type_info` types `/` infallible: "the rhs is a literal normal
    float or non-zero integer" and the lhs is exactly float or exactly integer -/
def divInfallible (l : TypeDef) (rv : Option Value) : Bool :=
  (l.kind.isFloat || l.kind.isInteger) &&
  (match rv with
   | some (.float b) => F64.isNormal b
   | some (.int i) => i != 0
   | _ => false)

/-- `Op::type_info`, the result type: `l` typed in the incoming state, `r` typed in the state after
    `l`; `lv` the constant of the lhs in the incoming state, `rv` the constant of the rhs in the state
    after `l`. -/
def opDef (o : Opcode) (l : TypeDef) (lv : Option Value) (r : TypeDef) (rv : Option Value) : TypeDef :=
  match o with
  | .err => (l.union r).maybeFallible (l.fallible && r.fallible)
  | .or =>
    let l := l.upgradeUndefined
    -- always "false": the value is the rhs's, the lhs keeps its fallibility and `returns`
    if l.kind.isNull || optValueEq lv (some (.bool false)) then (l.withKind Kind.never).union r
    else if !(l.kind.containsNull || l.kind.containsBoolean) || optValueEq lv (some (.bool true)) then l
    else (l.withKind l.kind.withoutNull).union r
  | .merge => l.mergeOverwrite r
  | .and =>
    if l.kind.isNull || optValueEq lv (some (.bool false)) then l.withKind Kind.boolean
    else if optValueEq lv (some (.bool true)) then (l.union (r.fallibleUnless nullBool)).withKind Kind.boolean
    else ((l.fallibleUnless nullBool).union (r.fallibleUnless nullBool)).withKind Kind.boolean
  | .eq | .ne => (l.union r).withKind Kind.boolean
  | .gt | .ge | .lt | .le =>
    if (l.kind.isBytes && r.kind.isBytes) || (l.kind.isTimestamp && r.kind.isTimestamp) then
      (l.union r).withKind Kind.boolean
    else ((l.fallibleUnless numKind).union (r.fallibleUnless numKind)).withKind Kind.boolean
  | .div =>
    -- both operands are always evaluated: their fallibility and `returns` count
    if divInfallible l rv then (l.union r).withKind Kind.float
    else ((l.union r).withKind Kind.float).setFallible
  | .add | .sub | .mul => arithDef o l r (constNaN o lv rv)

/-- `Op::type_info`, the state: `T1` after the lhs, `Tr` after the rhs typed in `T1`. -/
def opState (o : Opcode) (l : TypeDef) (lv : Option Value) (T1 Tr : TState) : TState :=
  match o with
  | .err => maybeRhs T1 Tr
  | .or =>
    let l := l.upgradeUndefined
    if l.kind.isNull || optValueEq lv (some (.bool false)) then Tr
    else if !(l.kind.containsNull || l.kind.containsBoolean) || optValueEq lv (some (.bool true)) then T1
    else maybeRhs T1 Tr
  | .and =>
    if l.kind.isNull || optValueEq lv (some (.bool false)) then T1
    else if optValueEq lv (some (.bool true)) then Tr
    else maybeRhs T1 Tr
  | _ => Tr

def opInfo (o : Opcode) (l : TypeDef) (lv : Option Value) (T1 : TState) (r : TypeDef) (Tr : TState)
    (rv : Option Value) : TypeDef × TState :=
  (opDef o l lv r rv, opState o l lv T1 Tr)

/-! ### `Block::type_info` -/

/-- the loop state of `Block::type_info` -/
structure BlockAcc where
  result : TypeDef := TypeDef.null
  fallible : Bool := false
  returns : Kind := Kind.never
  afterNever : Bool := false

def BlockAcc.step (a : BlockAcc) (r : TypeDef) : BlockAcc :=
  { result := r,
    fallible := a.fallible || (!a.afterNever && r.fallible),
    afterNever := a.afterNever || r.kind.isNever,
    returns := a.returns.union r.returns }

def BlockAcc.finish (a : BlockAcc) : TypeDef :=
  (a.result.maybeFallible a.fallible).withReturns a.returns

/-! ### `Array::type_info` / `Object::type_info` loop states -/

/-- `type_defs` so far (in order), `fallible`, and whether an element was `never` (then `stop` holds
    the result and no further element is typed). -/
structure ArrAcc where
  tds : List TypeDef := []
  fallible : Bool := false
  stop : Option TypeDef := none

def kindsFromIdx : List TypeDef → Nat → KList
  | [], _ => .nil
  | t :: ts, i => .cons (Key.ofIdx i) t.kind (kindsFromIdx ts (i + 1))

def ArrAcc.finish (a : ArrAcc) : TypeDef :=
  match a.stop with
  | some t => t
  | none =>
    let returns := a.tds.foldl (fun r t => r.union t.returns) Kind.never
    { kind := Kind.ofArray (Col.ofKnown (kindsFromIdx a.tds 0)), fallible := a.fallible,
      returns := returns }

/-- one element (already `upgrade_undefined`ed) -/
def ArrAcc.step (a : ArrAcc) (t : TypeDef) : ArrAcc :=
  let fallible := a.fallible || t.fallible
  if t.kind.isNever then
    let returns := a.tds.foldl (fun r t => r.union t.returns) t.returns
    { a with fallible := fallible,
             stop := some ((TypeDef.never.maybeFallible fallible).withReturns returns) }
  else { a with tds := a.tds ++ [t], fallible := fallible }

structure ObjAcc where
  known : KList := .nil          -- `type_defs` (a `BTreeMap`; the keys arrive in increasing order)
  fallible : Bool := false
  returns : Kind := Kind.never
  stop : Option TypeDef := none

def ObjAcc.finish (a : ObjAcc) : TypeDef :=
  match a.stop with
  | some t => t
  | none =>
    { kind := Kind.ofObject (Col.ofKnown a.known), fallible := a.fallible, returns := a.returns }

def ObjAcc.step (a : ObjAcc) (k : Key) (t : TypeDef) : ObjAcc :=
  let returns := a.returns.union t.returns
  let fallible := a.fallible || t.fallible
  if t.kind.isNever then
    { a with returns := returns, fallible := fallible,
             stop := some ((TypeDef.never.maybeFallible fallible).withReturns returns) }
  else { a with known := a.known.insert k t.kind, returns := returns, fallible := fallible }

/-! ### `DelFn::type_info` (after `FunctionCall::type_info` applied the arguments) -/

/-- `Query::delete_type_def` on an external path; `none` = `Kind::remove` panics. -/
def deleteExt (T : TState) (isMeta : Bool) (p : Path) (compact : Bool) : TState :=
  match (T.extKind isMeta).remove p compact with
  | .ok (k, _) => T.setExt isMeta k
  | .panic => { T with oom := true }

def asBoolean : Value → Option Bool
  | .bool b => some b
  | _ => none

/-- the external environment after `del`: `ext = some (isMeta, path)` for an external query,
    `none` for variables and expressions (nothing is deleted at the type level). -/
def delExternal (T : TState) (ext : Option (Bool × Path)) (compact : Option Bool) : TState :=
  let del (b : Bool) : TState := match ext with
    | some (m, p) => deleteExt T m p b
    | none => T
  match compact with
  | some b => del b
  | none => (del false).mergeExternal (del true)

/-- `type_def.remove(path, compact)` (the kind only; a panic of `Kind::remove` keeps the kind) -/
def removeTd (t : TypeDef) (p : Path) (compact : Bool) : TypeDef :=
  match t.kind.remove p compact with
  | .ok (k, _) => { t with kind := k }
  | .panic => t

def removeTdPanics (t : TypeDef) (p : Path) (compact : Bool) : Bool :=
  match t.kind.remove p compact with
  | .ok _ => false
  | .panic => true

/-- `DelFn::type_info` on a variable that is in scope: its type loses the path (with either outcome
    when `compact` is not known) and its constant is dropped. -/
def delVarUpdate (T : TState) (n : String) (p : Path) (compact : Option Bool) : TState :=
  match T.getVar n with
  | none => T
  | some d =>
    let td := match compact with
      | some b => removeTd d.td p b
      | none => (removeTd d.td p false).union (removeTd d.td p true)
    let oom := T.oom || (match compact with
      | some b => removeTdPanics d.td p b
      | none => removeTdPanics d.td p false || removeTdPanics d.td p true)
    { T.setVar n { td := td, value := none } with oom := oom }

/-- `arguments_with_unknown_type_validity` of a `del` call without `!`: the `compact` argument's
    kind (in the state before the arguments) is not within `boolean`. -/
def delFallible (hasCompact : Bool) (compactKind : Kind) : Bool :=
  hasCompact && !Kind.boolean.isSuperset compactKind

/-- the state after a scoped block (`state.local = parent_locals.apply_child_scope(state.local)`) -/
def scopedState (parent : Locals) (child : TState) : TState :=
  { child with locals := Locals.applyChildScope parent child.locals,
               leaked := child.leaked ++ Locals.droppedNames parent child.locals }

/-- `Variable::type_info` -/
def varDef (T : TState) (n : String) : TypeDef :=
  match T.getVar n with
  | none => TypeDef.undefined
  | some d => d.td

/-- `IfStatement::type_info` after predicate (`pred`, leaving `predT`), if-block (`ifD`, `ifT`) and
    else-block (`elD`, `elT`) were typed, both blocks in `predT`. -/
def ifResult (hasElse : Bool) (pred ifD : TypeDef) (ifT : TState) (elD : TypeDef) (elT predT : TState) :
    TypeDef × TState :=
  if hasElse then
    let r := ifD.union elD
    (r.withReturns (r.returns.union pred.returns), ifT.merge elT)
  else
    let r := ifD.orNull
    (r.withReturns (r.returns.union pred.returns), ifT.merge predT)

mutual
  /-- `Expression::type_info`: result type and the type state after the expression. -/
  def typeInfo : Expr → TState → TypeDef × TState
    | .lit v, T => (TypeDef.ofKind (litKind v), T)
    | .noop, T => (TypeDef.null, T)
    | .grp e, T => typeInfo e T
    | .blk es, T =>
      let a := typeSeq es T {}
      (a.1.finish, scopedState T.locals a.2)
    | .arr es, T =>
      let a := typeArr es T {}
      (a.1.finish, a.2)
    | .obj kvs, T =>
      let a := typeObj kvs T {}
      (a.1.finish, a.2)
    | .ifte pred thn hasElse els, T =>
      let p := typeSeq pred T {}
      let t := typeSeq thn p.2 {}
      let ifT : TState := scopedState p.2.locals t.2
      let e := typeSeq els p.2 {}
      let elT : TState := scopedState p.2.locals e.2
      ifResult hasElse p.1.finish t.1.finish ifT e.1.finish elT p.2
    | .op o l r, T =>
      let a := typeInfo l T
      let b := typeInfo r a.2
      opInfo o a.1 (constOf l T) a.2 b.1 b.2 (constOf r a.2)
    | .asg t e, T =>
      let a := typeInfo e T
      (a.1, t.insertTypeDef a.2 a.1 (constOf e a.2))
    | .iasg okT errT e dflt, T =>
      let a := typeInfo e T
      let okType := (a.1.union (TypeDef.ofKind dflt.kindOf)).infallible
      let T1 := okT.insertTypeDef a.2 okType (constOf e a.2)
      let T2 := errT.insertTypeDef T1 (TypeDef.ofKind bytesNull) none
      (a.1.infallible.orBytes, T2)
    | .qext m p, T => (TypeDef.ofKind ((T.extKind m).atPath p), T)
    | .qvar n p, T => ((varDef T n).atPath p, T)
    | .qexpr e p, T =>
      let a := typeInfo e T
      (a.1.atPath p, a.2)
    | .var n, T => (varDef T n, T)
    | .not e, T =>
      let a := typeInfo e T
      ((TypeDef.boolean.maybeFallible a.1.fallible).withReturns a.1.returns, a.2)
    | .abort hasMsg msg, T =>
      -- the state changes of the message are not applied (only the out-of-model marker is kept)
      (TypeDef.never.withReturns (if hasMsg then (typeInfo msg T).1.returns else Kind.never),
       { T with oom := T.oom || (hasMsg && (typeInfo msg T).2.oom) })
    | .ret e, T =>
      -- the state changes of the operand are not applied (only the out-of-model marker is kept);
      -- `returns`: the operand's value, or whatever the operand itself may return
      (TypeDef.never.withReturns ((typeInfo e T).1.kind.union (typeInfo e T).1.returns),
       { T with oom := T.oom || (typeInfo e T).2.oom })
    | .delExt m p hasC c, T =>
      let cT := typeInfo c T
      let T2 := if hasC then cT.2 else T
      let rt := TypeDef.ofKind ((T2.extKind m).atPath p)
      let compact := if hasC then (constOf c T2).bind asBoolean else none
      (rt.maybeFallible (rt.fallible || delFallible hasC cT.1.kind), delExternal T2 (some (m, p)) compact)
    | .delVar n p hasC c, T =>
      let cT := typeInfo c T
      let T2 := if hasC then cT.2 else T
      let rt := (varDef T2 n).atPath p
      let compact := if hasC then (constOf c T2).bind asBoolean else none
      (rt.maybeFallible (rt.fallible || delFallible hasC cT.1.kind),
       delVarUpdate (delExternal T2 none compact) n p compact)
    | .delExpr e p hasC c, T =>
      let a := typeInfo e T                       -- the argument `{…}.a` (`FunctionCall::type_info`)
      let cT := typeInfo c a.2
      let T2 := if hasC then cT.2 else a.2
      let b := typeInfo e T2                      -- the query again (`DelFn::type_info`)
      let rt := b.1.atPath p
      let compact := if hasC then (constOf c b.2).bind asBoolean else none
      (rt.maybeFallible (rt.fallible || delFallible hasC (typeInfo c T).1.kind),
       delExternal b.2 none compact)
    | .existsExt _ _, T => (TypeDef.boolean, T)
    | .existsVar _ _, T => (TypeDef.boolean, T)
    | .existsExpr e _, T => (TypeDef.boolean, (typeInfo e T).2)
    | .call _ _ _ _ _ _ _, T => ({ kind := Kind.any, fallible := true }, { T with oom := true })

  /-- the loop of `Block::type_info` (no scoping) -/
  def typeSeq : Exprs → TState → BlockAcc → BlockAcc × TState
    | .nil, T, acc => (acc, T)
    | .cons e es, T, acc =>
      let a := typeInfo e T
      typeSeq es a.2 (acc.step a.1)

  /-- the loop of `Array::type_info` (stops at the first `never` element) -/
  def typeArr : Exprs → TState → ArrAcc → ArrAcc × TState
    | .nil, T, acc => (acc, T)
    | .cons e es, T, acc =>
      let a := typeInfo e T
      let acc' := acc.step a.1.upgradeUndefined
      if acc'.stop.isSome then (acc', a.2) else typeArr es a.2 acc'

  def typeObj : KExprs → TState → ObjAcc → ObjAcc × TState
    | .nil, T, acc => (acc, T)
    | .cons k e kes, T, acc =>
      let a := typeInfo e T
      let acc' := acc.step k a.1.upgradeUndefined
      if acc'.stop.isSome then (acc', a.2) else typeObj kes a.2 acc'
end

end Lang
