/-
  VrlModel.Lang.Eval — `Impl` model of the tree-walking runtime:
  `Runtime::resolve`, every `Expression::resolve` of src/compiler/expression/*.rs,
  `function/closure.rs` (`Runner`), `RuntimeState`, the `Target` interface with injectable faults and
  an access log, and a first set of stdlib functions.

  Code-shaped on purpose (DESIGN §1): the catchers that swallow or rewrite `return`/`abort`
  (`??` via `or_else`, `||` via `try_or`, infallible assignment, `FunctionCall::resolve`) and the
  closure-parameter leak on error are reproduced, not repaired.
-/
import VrlModel.Lang.Ops

namespace Lang

/-- one target operation, for C16/C17: kind 0 = get, 1 = insert, 2 = remove. -/
structure Access where
  kind : Nat
  isMeta : Bool
  path : Path
  rejected : Bool
  deriving Repr

structure St where
  vars : List (String × Value)      -- `RuntimeState.variables` (a HashMap: at most one entry per name)
  event : Value
  metadata : Value
  faults : List Nat                  -- indices of the target operations the target rejects
  ops : Nat                          -- target operations performed so far
  log : List Access                  -- newest first
  errs : List (List Nat)             -- texts of the errors caught by infallible assignments, in
                                     -- order, as recorded on the implementation (opaque to the model)
  evRet : Bool := false              -- a `return` was evaluated            (relevance flags used by
  evAbort : Bool := false            -- an `abort` was evaluated              the per-property oracles)
  evClosure : Bool := false          -- a closure-taking function was called
  evCatch : Bool := false            -- `??` or `ok, err =` was evaluated
  evShort : Bool := false            -- `||`, `&&` or `if` was evaluated

abbrev Thunk := St → Res × St

namespace St

def getVar (s : St) (n : String) : Option Value :=
  (s.vars.find? (·.1 == n)).map (·.2)

def setVar (s : St) (n : String) (v : Value) : St :=
  { s with vars := (n, v) :: s.vars.filter (·.1 != n) }

def delVar (s : St) (n : String) : St :=
  { s with vars := s.vars.filter (·.1 != n) }

/-- does the target reject the operation about to be performed? advances the counter and logs. -/
def tick (s : St) (kind : Nat) (isMeta : Bool) (p : Path) : Bool × St :=
  let rej := s.faults.contains s.ops
  (rej, { s with ops := s.ops + 1, log := ⟨kind, isMeta, p, rej⟩ :: s.log })

/-- `target_get` : `.ok().flatten()` view (a rejected read is a missing field). -/
def targetGet (s : St) (isMeta : Bool) (p : Path) : Option Value × St :=
  let (rej, s) := s.tick 0 isMeta p
  if rej then (none, s) else ((if isMeta then s.metadata else s.event).get p, s)

/-- `drop(target_insert(..))`; `Value::insert` panics on `-isize::MIN`. -/
def targetInsert (s : St) (isMeta : Bool) (p : Path) (v : Value) : Option St :=
  let (rej, s) := s.tick 1 isMeta p
  if rej then some s
  else
    match (if isMeta then s.metadata else s.event).insert p v with
    | .panic => none
    | .ok (v', _) => some (if isMeta then { s with metadata := v' } else { s with event := v' })

def targetRemove (s : St) (isMeta : Bool) (p : Path) (compact : Bool) : Option Value × St :=
  let (rej, s) := s.tick 2 isMeta p
  if rej then (none, s)
  else
    let (r, v') := (if isMeta then s.metadata else s.event).remove p compact
    (r, if isMeta then { s with metadata := v' } else { s with event := v' })

end St

/-- `assignment::Target::insert`. `none` = panic. -/
def Tgt.insert (t : Tgt) (v : Value) (s : St) : Option St :=
  match t with
  | .noop => some s
  | .internal n p =>
    if p.isEmpty then some (s.setVar n v)
    else
      match s.getVar n with
      | some stored =>
        match stored.insert p v with
        | .panic => none
        | .ok (v', _) => some (s.setVar n v')
      | none =>
        -- `value.at_path(path)` = insert into `Value::Null`
        match Value.null.insert p v with
        | .panic => none
        | .ok (v', _) => some (s.setVar n v')
  | .external m p => s.targetInsert m p v

/-! ### closures (`function/closure.rs`) -/

def cIdent (vars : List String) (i : Nat) : Option String :=
  match vars[i]? with
  | some n => if n.isEmpty then none else some n
  | none => none

/-- `insert` of closure.rs: `swap_variable` -/
def cInsert (s : St) (ident : Option String) (v : Value) : Option Value × St :=
  match ident with
  | none => (none, s)
  | some n => (s.getVar n, s.setVar n v)

def cCleanup (s : St) (ident : Option String) (old : Option Value) : St :=
  match ident, old with
  | some n, some v => s.setVar n v
  | some n, none => s.delVar n
  | none, _ => s

/-- `Runner::run`: a `return` in the body ends the iteration with the returned value. -/
def runBody (body : Thunk) (s : St) : Res × St :=
  match body s with
  | (.ret v, s) => (.ok v, s)
  | r => r

/-- `Runner::run_key_value`: bind the parameters, run the body, restore the parameters (on every
    outcome), then propagate the result. -/
def runKeyValue (vars : List String) (body : Thunk) (key : List Nat) (value : Value) (s : St) :
    Res × St :=
  let (oldK, s) := cInsert s (cIdent vars 0) (.bytes key)
  let (oldV, s) := cInsert s (cIdent vars 1) value
  let (r, s) := runBody body s
  let s := cCleanup s (cIdent vars 1) oldV
  let s := cCleanup s (cIdent vars 0) oldK
  (r, s)

/-- `Runner::run_index_value` -/
def runIndexValue (vars : List String) (body : Thunk) (index : Nat) (value : Value) (s : St) :
    Res × St :=
  let (oldI, s) := cInsert s (cIdent vars 0) (.int index)
  let (oldV, s) := cInsert s (cIdent vars 1) value
  let (r, s) := runBody body s
  let s := cCleanup s (cIdent vars 1) oldV
  let s := cCleanup s (cIdent vars 0) oldI
  (r, s)

/-- `Runner::map_key` -/
def mapKey (vars : List String) (body : Thunk) (key : List Nat) (s : St) : Except Res (List Nat) × St :=
  let (old, s) := cInsert s (cIdent vars 0) (.bytes key)
  let (r, s) := runBody body s
  let s := cCleanup s (cIdent vars 0) old
  match r with
  | .ok (.bytes b) => (.ok b, s)
  | .ok _ => (.error .err, s)          -- `try_bytes_utf8_lossy()?`
  | r => (.error r, s)

/-- `Runner::map_value` -/
def mapValue (vars : List String) (body : Thunk) (value : Value) (s : St) : Res × St :=
  let (old, s) := cInsert s (cIdent vars 0) value
  let (r, s) := runBody body s
  (r, cCleanup s (cIdent vars 0) old)

/-! iteration over runtime collections (structural recursion on the collection) -/

def forEachMap (vars : List String) (body : Thunk) : VMap → St → Res × St
  | .nil, s => (.ok .null, s)
  | .cons k v m, s =>
    match runKeyValue vars body k v s with
    | (.ok _, s) => forEachMap vars body m s
    | r => r

def forEachList (vars : List String) (body : Thunk) : VList → Nat → St → Res × St
  | .nil, _, s => (.ok .null, s)
  | .cons v vs, i, s =>
    match runIndexValue vars body i v s with
    | (.ok _, s) => forEachList vars body vs (i + 1) s
    | r => r

/-- result of `filter` over an object: kept entries (in order) or the first failure.
    A non-boolean closure result hits `.expect("compiler guarantees boolean return type")`. -/
def filterMap (vars : List String) (body : Thunk) : VMap → St → Except Res VMap × St
  | .nil, s => (.ok .nil, s)
  | .cons k v m, s =>
    match runKeyValue vars body k v s with
    | (.ok (.bool b), s) =>
      match filterMap vars body m s with
      | (.ok rest, s) => (.ok (if b then .cons k v rest else rest), s)
      | r => r
    | (.ok _, s) => (.error .panic, s)
    | (r, s) => (.error r, s)

def filterList (vars : List String) (body : Thunk) : VList → Nat → St → Except Res VList × St
  | .nil, _, s => (.ok .nil, s)
  | .cons v vs, i, s =>
    match runIndexValue vars body i v s with
    | (.ok (.bool b), s) =>
      match filterList vars body vs (i + 1) s with
      | (.ok rest, s) => (.ok (if b then .cons v rest else rest), s)
      | r => r
    | (.ok _, s) => (.error .panic, s)
    | (r, s) => (.error r, s)

/-- `map_keys` (non-recursive) over an object: the `(key, value)` vector with rewritten keys. -/
def mapKeysMap (vars : List String) (body : Thunk) : VMap → St → Except Res (List (List Nat × Value)) × St
  | .nil, s => (.ok [], s)
  | .cons k v m, s =>
    match mapKey vars body k s with
    | (.ok k', s) =>
      match mapKeysMap vars body m s with
      | (.ok rest, s) => (.ok ((k', v) :: rest), s)
      | r => r
    | (.error r, s) => (.error r, s)

def mapValuesMap (vars : List String) (body : Thunk) : VMap → St → Except Res VMap × St
  | .nil, s => (.ok .nil, s)
  | .cons k v m, s =>
    match mapValue vars body v s with
    | (.ok v', s) =>
      match mapValuesMap vars body m s with
      | (.ok rest, s) => (.ok (.cons k v' rest), s)
      | r => r
    | (r, s) => (.error r, s)

def mapValuesList (vars : List String) (body : Thunk) : VList → St → Except Res VList × St
  | .nil, s => (.ok .nil, s)
  | .cons v vs, s =>
    match mapValue vars body v s with
    | (.ok v', s) =>
      match mapValuesList vars body vs s with
      | (.ok rest, s) => (.ok (.cons v' rest), s)
      | r => r
    | (r, s) => (.error r, s)

/-- `Vec<(KeyString, Value)>` collected into a `BTreeMap` (later duplicates win). -/
def collectMap : List (List Nat × Value) → VMap
  | [] => .nil
  | (k, v) :: rest => (collectMap rest |> fun m => if (m.get k).isSome then m else m.insert k v)

/-! ### stdlib subset -/

/-- parameter keywords of the modelled functions, in declaration order. -/
def fnParams : String → Option (List String)
  | "string" | "int" | "float" | "bool" | "array" | "object" | "timestamp" => some ["value"]
  | "is_string" | "is_integer" | "is_float" | "is_boolean" | "is_null" | "is_array" | "is_object"
  | "is_timestamp" => some ["value"]
  | "length" | "to_int" => some ["value"]
  | "push" => some ["value", "item"]
  | "for_each" | "filter" => some ["value"]
  | "map_keys" | "map_values" => some ["value", "recursive"]
  | "del" => some ["target", "compact"]
  | "exists" => some ["field"]
  | _ => none

/-- `ArgumentList` construction (`resolve_arguments`): named arguments take their slot, unnamed ones
    fill the remaining slots in order. -/
def placeArgs (params : List String) (args : List (Option String × Thunk)) : Option (List (Option Thunk)) :=
  let named := args.filterMap fun (k, t) => k.map (·, t)
  let unnamed := args.filterMap fun (k, t) => if k.isNone then some t else none
  if named.any (fun (k, _) => !params.contains k) then none
  else
    let slots : List (Option Thunk) := params.map fun p => (named.find? (·.1 == p)).map (·.2)
    let rec fill : List (Option Thunk) → List Thunk → Option (List (Option Thunk))
      | [], [] => some []
      | [], _ :: _ => none
      | some t :: rest, us => (fill rest us).map (some t :: ·)
      | none :: rest, u :: us => (fill rest us).map (some u :: ·)
      | none :: rest, [] => (fill rest []).map (none :: ·)
    fill slots unnamed

/-- evaluate the present arguments in parameter order, each with `?`. -/
def evalSlots : List (Option Thunk) → St → Except Res (List (Option Value)) × St
  | [], s => (.ok [], s)
  | none :: rest, s =>
    match evalSlots rest s with
    | (.ok vs, s) => (.ok (none :: vs), s)
    | r => r
  | some t :: rest, s =>
    match t s with
    | (.ok v, s) =>
      match evalSlots rest s with
      | (.ok vs, s) => (.ok (some v :: vs), s)
      | r => r
    | (r, s) => (.error r, s)

def parseI64 (b : List Nat) : Option Int :=
  -- `str::parse::<i64>`: optional sign, at least one ASCII digit, no overflow
  let (neg, ds) := match b with
    | 45 :: r => (true, r)
    | 43 :: r => (false, r)
    | r => (false, r)
  if ds.isEmpty || ds.any (fun d => d < 48 || d > 57) then none
  else
    let n : Nat := ds.foldl (fun acc d => acc * 10 + (d - 48)) 0
    let i : Int := if neg then -(n : Int) else n
    if i < -9223372036854775808 || i > 9223372036854775807 then none else some i

/-- UTF-8 validity (`str::from_utf8`), as a state machine over the bytes: `need` continuation
    bytes are still expected, the next one within `[lo, hi)`. -/
def validUtf8Aux : Nat → Nat → Nat → List Nat → Bool
  | 0, _, _, [] => true
  | _ + 1, _, _, [] => false
  | 0, _, _, b :: rest =>
    if b < 0x80 then validUtf8Aux 0 0 0 rest
    else if b < 0xC2 then false
    else if b < 0xE0 then validUtf8Aux 1 0x80 0xC0 rest
    else if b < 0xF0 then
      validUtf8Aux 2 (if b == 0xE0 then 0xA0 else 0x80) (if b == 0xED then 0xA0 else 0xC0) rest
    else if b < 0xF5 then
      validUtf8Aux 3 (if b == 0xF0 then 0x90 else 0x80) (if b == 0xF4 then 0x90 else 0xC0) rest
    else false
  | n + 1, lo, hi, b :: rest => decide (lo ≤ b) && decide (b < hi) && validUtf8Aux n 0x80 0xC0 rest

def validUtf8 (b : List Nat) : Bool := validUtf8Aux 0 0 0 b

/-- value-level semantics of the pure functions (`none` = not modelled for this input). -/
def purFn (name : String) (args : List (Option Value)) : Res :=
  match name, args with
  | "string", [some v] => match v with | .bytes _ => .ok v | _ => .err
  | "int", [some v] => match v with | .int _ => .ok v | _ => .err
  | "float", [some v] => match v with | .float _ => .ok v | _ => .err
  | "bool", [some v] => match v with | .bool _ => .ok v | _ => .err
  | "array", [some v] => match v with | .arr _ => .ok v | _ => .err
  | "object", [some v] => match v with | .obj _ => .ok v | _ => .err
  | "timestamp", [some v] => match v with | .ts _ => .ok v | _ => .err
  | "is_string", [some v] => .ok (.bool (match v with | .bytes _ => true | _ => false))
  | "is_integer", [some v] => .ok (.bool (match v with | .int _ => true | _ => false))
  | "is_float", [some v] => .ok (.bool (match v with | .float _ => true | _ => false))
  | "is_boolean", [some v] => .ok (.bool (match v with | .bool _ => true | _ => false))
  | "is_null", [some v] => .ok (.bool (match v with | .null => true | _ => false))
  | "is_array", [some v] => .ok (.bool (match v with | .arr _ => true | _ => false))
  | "is_object", [some v] => .ok (.bool (match v with | .obj _ => true | _ => false))
  | "is_timestamp", [some v] => .ok (.bool (match v with | .ts _ => true | _ => false))
  | "length", [some v] =>
    match v with
    | .arr a => .ok (.int a.length)
    | .obj m => .ok (.int m.length)
    | .bytes b => .ok (.int b.length)
    | _ => .err
  | "push", [some l, some x] =>
    match l with
    | .arr a => .ok (.arr (a.append (.cons x .nil)))
    | _ => .err
  | "to_int", [some v] =>
    match v with
    | .int _ => .ok v
    | .bool b => .ok (.int (if b then 1 else 0))
    | .null => .ok (.int 0)
    | .bytes b => if validUtf8 b then (match parseI64 b with | some i => .ok (.int i) | none => .err) else .oom
    | .ts ns => .ok (.int (ns / 1000000000))
    | .float _ => .oom
    | _ => .err
  | _, _ => .oom

/-- the optional `recursive` argument of `map_keys` / `map_values` (default `false`) -/
def recArg (rec : Option Thunk) (s : St) : Res × St :=
  match rec with
  | none => (.ok (.bool false), s)
  | some t => t s

/-- `map_keys` after its `recursive` argument was evaluated (recursive iteration is not modelled) -/
def mapKeysCall (vars : List String) (body value : Thunk) : Res × St → Res × St
  | (.ok (.bool false), s) =>
    (match value s with
     | (.ok (.obj m), s) =>
       (match mapKeysMap vars body m s with
        | (.ok kvs, s) => (.ok (.obj (collectMap kvs)), s)
        | (.error r, s) => (r, s))
     | r => r)
  | (.ok (.bool true), s) => (.oom, s)
  | (.ok _, s) => (.err, s)
  | r => r

/-- `map_values` after its `recursive` argument was evaluated -/
def mapValuesCall (vars : List String) (body value : Thunk) : Res × St → Res × St
  | (.ok (.bool false), s) =>
    (match value s with
     | (.ok (.obj m), s) =>
       (match mapValuesMap vars body m s with
        | (.ok m', s) => (.ok (.obj m'), s)
        | (.error r, s) => (r, s))
     | (.ok (.arr a), s) =>
       (match mapValuesList vars body a s with
        | (.ok a', s) => (.ok (.arr a'), s)
        | (.error r, s) => (r, s))
     | (.ok v, s) => mapValue vars body v s
     | r => r)
  | (.ok (.bool true), s) => (.oom, s)
  | (.ok _, s) => (.err, s)
  | r => r

/-- a function call whose arguments are ordinary expressions (not `del`/`exists`). -/
def callFn (name : String) (args : List (Option String × Thunk)) (closure : Option (List String × Thunk))
    (s : St) : Res × St :=
  match fnParams name with
  | none => (.oom, s)
  | some params =>
    match placeArgs params args with
    | none => (.oom, s)
    | some slots =>
      match name, slots, closure with
      | "for_each", [some value], some (vars, body) =>
        (match value s with
         | (.ok (.obj m), s) => forEachMap vars body m s
         | (.ok (.arr a), s) => forEachList vars body a 0 s
         | (.ok _, s) => (.ok .null, s)
         | r => r)
      | "filter", [some value], some (vars, body) =>
        (match value s with
         | (.ok (.obj m), s) =>
           (match filterMap vars body m s with
            | (.ok m', s) => (.ok (.obj m'), s)
            | (.error r, s) => (r, s))
         | (.ok (.arr a), s) =>
           (match filterList vars body a 0 s with
            | (.ok a', s) => (.ok (.arr a'), s)
            | (.error r, s) => (r, s))
         | (.ok _, s) => (.err, s)
         | r => r)
      | "map_keys", [some value, rec], some (vars, body) => mapKeysCall vars body value (recArg rec s)
      | "map_values", [some value, rec], some (vars, body) => mapValuesCall vars body value (recArg rec s)
      | _, _, none =>
        (match evalSlots slots s with
         | (.ok vals, s) => (purFn name vals, s)
         | (.error r, s) => (r, s))
      | _, _, _ => (.oom, s)

def valueToBool : Value → Option Bool
  | .bool b => some b
  | _ => none

mutual
  /-- `Expression::resolve` -/
  def eval : Expr → St → Res × St
    | .lit v, s => (.ok v, s)
    | .noop, s => (.ok .null, s)
    | .grp e, s => eval e s
    | .blk es, s => evalSeq es s
    | .arr es, s =>
      (match evalList es s with
       | (.ok vs, s) => (.ok (.arr vs), s)
       | (.error r, s) => (r, s))
    | .obj kvs, s =>
      (match evalKVs kvs s with
       | (.ok mp, s) => (.ok (.obj mp), s)
       | (.error r, s) => (r, s))
    | .ifte pred thn hasElse els, s =>
      (match evalSeq pred { s with evShort := true } with
       | (.ok (.bool true), s) => evalSeq thn s
       | (.ok (.bool false), s) => if hasElse then evalSeq els s else (.ok .null, s)
       | (.ok _, s) => (.err, s)                       -- `try_boolean()?`
       | r => r)
    | .op .err l r, s =>
      -- `??`: only a runtime error of the lhs is handled; `abort`/`return` pass through
      (match eval l { s with evCatch := true } with
       | (.err, s) => eval r s
       | r => r)
    | .op .or l r, s =>
      (match eval l { s with evShort := true } with
       | (.ok .null, s) | (.ok (.bool false), s) =>
         -- an error of the rhs is wrapped into `ValueError::Or` (still an error);
         -- `abort`/`return` pass through
         (match eval r s with
          | (.ok v, s) => (.ok v, s)
          | (.panic, s) => (.panic, s)
          | (.oom, s) => (.oom, s)
          | r => r)
       | r => r)
    | .op .and l r, s =>
      (match eval l { s with evShort := true } with
       | (.ok .null, s) | (.ok (.bool false), s) => (.ok (.bool false), s)
       | (.ok v, s) =>
         (match eval r s with
          | (.ok w, s) => (tryAnd v w, s)
          | r => r)
       | r => r)
    | .op o l r, s =>
      (match eval l s with
       | (.ok v, s) =>
         (match eval r s with
          | (.ok w, s) => (binop o v w, s)
          | r => r)
       | r => r)
    | .asg t e, s =>
      (match eval e s with
       | (.ok v, s) =>
         (match t.insert v s with
          | some s => (.ok v, s)
          | none => (.panic, s))
       | r => r)
    | .iasg okT errT e dflt, s =>
      (match eval e { s with evCatch := true } with
       | (.ok v, s) =>
         (match okT.insert v s with
          | none => (.panic, s)
          | some s =>
            match errT.insert .null s with
            | none => (.panic, s)
            | some s => (.ok v, s))
       | (.panic, s) => (.panic, s)
       | (.oom, s) => (.oom, s)
       | (.abort x, s) => (.abort x, s)
       | (.ret x, s) => (.ret x, s)
       | (.err, s) =>
         -- only a runtime error is captured; `err` receives `error.to_string()`
         (match okT.insert dflt s with
          | none => (.panic, s)
          | some s =>
            match s.errs with
            | [] => (.oom, s)
            | msg :: rest =>
              let s := { s with errs := rest }
              match errT.insert (.bytes msg) s with
              | none => (.panic, s)
              | some s => (.ok (.bytes msg), s)))
    | .qext mt p, s =>
      let (r, s) := s.targetGet mt p
      (.ok (r.getD .null), s)
    | .qvar n p, s => (.ok (((s.getVar n).getD .null).get p |>.getD .null), s)
    | .qexpr e p, s =>
      (match eval e s with
       | (.ok v, s) => (.ok ((v.get p).getD .null), s)
       | r => r)
    | .var n, s => (.ok ((s.getVar n).getD .null), s)
    | .not e, s =>
      (match eval e s with
       | (.ok (.bool b), s) => (.ok (.bool (!b)), s)
       | (.ok _, s) => (.err, s)
       | r => r)
    | .abort hasMsg msg, s =>
      if hasMsg then
        (match eval msg s with
         | (.ok (.bytes b), s) =>
           if validUtf8 b then (.abort (some b), { s with evAbort := true }) else (.oom, s)
         | (.ok _, s) => (.err, s)
         | r => r)
      else (.abort none, { s with evAbort := true })
    | .ret e, s =>
      (match eval e s with
       | (.ok v, s) => (.ret v, { s with evRet := true })
       | r => r)
    | .delExt mt p hasC c, s =>
      (match (if hasC then eval c s else (.ok (.bool false), s)) with
       | (.ok (.bool compact), s) =>
         let (r, s) := s.targetRemove mt p compact
         (.ok (r.getD .null), s)
       | (.ok _, s) => (.err, s)
       | r => r)
    | .delVar n p hasC c, s =>
      (match (if hasC then eval c s else (.ok (.bool false), s)) with
       | (.ok (.bool compact), s) =>
         (match s.getVar n with
          | some v =>
            let (r, v') := v.remove p compact
            (.ok (r.getD .null), s.setVar n v')
          | none => (.ok .null, s))
       | (.ok _, s) => (.err, s)
       | r => r)
    | .delExpr e p hasC c, s =>
      (match (if hasC then eval c s else (.ok (.bool false), s)) with
       | (.ok (.bool _), s) =>
         (match eval e s with
          | (.ok v, s) => (.ok ((v.get p).getD .null), s)
          | r => r)
       | (.ok _, s) => (.err, s)
       | r => r)
    | .existsExt mt p, s =>
      let (r, s) := s.targetGet mt p
      (.ok (.bool r.isSome), s)
    | .existsVar n p, s =>
      (match s.getVar n with
       | some v => (.ok (.bool (v.get p).isSome), s)
       | none => (.ok (.bool false), s))
    | .existsExpr e p, s =>
      (match eval e s with
       | (.ok v, s) => (.ok (.bool (v.get p).isSome), s)
       | r => r)
    | .call name _ _ args hasClosure cvars cbody, s =>
      let closure := if hasClosure then some (cvars, fun s => evalSeq cbody s) else none
      callFn name (thunks args) closure (if hasClosure then { s with evClosure := true } else s)

  /-- `Block::resolve` (also the program and predicates): all but the last with `?`, then the last. -/
  def evalSeq : Exprs → St → Res × St
    | .nil, s => (.panic, s)                           -- `split_last().expect(..)`
    | .cons e .nil, s => eval e s
    | .cons e es, s =>
      (match eval e s with
       | (.ok _, s) => evalSeq es s
       | r => r)

  /-- array literal: `collect::<Result<Vec<_>, _>>()` stops at the first error. -/
  def evalList : Exprs → St → Except Res VList × St
    | .nil, s => (.ok .nil, s)
    | .cons e es, s =>
      (match eval e s with
       | (.ok v, s) =>
         (match evalList es s with
          | (.ok vs, s) => (.ok (.cons v vs), s)
          | r => r)
       | (r, s) => (.error r, s))

  def evalKVs : KExprs → St → Except Res VMap × St
    | .nil, s => (.ok .nil, s)
    | .cons k e kes, s =>
      (match eval e s with
       | (.ok v, s) =>
         (match evalKVs kes s with
          | (.ok mp, s) => (.ok (.cons k v mp), s)
          | r => r)
       | (r, s) => (.error r, s))

  def thunks : Args → List (Option String × Thunk)
    | .nil => []
    | .cons kw e as => (kw, fun s => eval e s) :: thunks as
end

/-- outcome of `Runtime::resolve` -/
inductive RunOutcome where
  | ok (v : Value)
  | error
  | abort (msg : Option (List Nat))
  | panic
  | oom
  deriving DecidableEq

/-- `Runtime::resolve`: root check (one target read), then the program block;
    `Return` at top level is success. -/
def run (prog : Exprs) (s : St) : RunOutcome × St :=
  let (rej, s) := s.tick 0 false []
  if rej then (.error, s)
  else
    match evalSeq prog s with
    | (.ok v, s) | (.ret v, s) => (.ok v, s)
    | (.abort m, s) => (.abort m, s)
    | (.err, s) => (.error, s)
    | (.panic, s) => (.panic, s)
    | (.oom, s) => (.oom, s)

end Lang
