/-
  VrlModel.Lang.Eval — `Impl` model of the tree-walking runtime:
  `Runtime::resolve`, every `Expression::resolve` of src/compiler/expression/*.rs,
  `function/closure.rs` (`Runner`), `RuntimeState`, the `Target` interface with injectable faults and
  an access log, and a first set of stdlib functions.

  Code-shaped on purpose (DESIGN §1): the catchers that swallow or rewrite `return`/`abort`
  (`??` via `or_else`, `||` via `try_or`, infallible assignment, `FunctionCall::resolve`) and the
  closure-parameter leak on error are reproduced, not repaired.
-/
import VrlModel.Lang.Ops

namespace Lang

/-- one target operation, for C16/C17: kind 0 = get, 1 = insert, 2 = remove. -/
structure Access where
  kind : Nat
  isMeta : Bool
  path : Path
  rejected : Bool
  deriving Repr

structure St where
  vars : List (String × Value)      -- `RuntimeState.variables` (a HashMap: at most one entry per name)
  event : Value
  metadata : Value
  faults : List Nat                  -- indices of the target operations the target rejects
  ops : Nat                          -- target operations performed so far
  log : List Access                  -- newest first
  errs : List (List Nat)             -- texts of the errors caught by infallible assignments, in
                                     -- order, as recorded on the implementation (opaque to the model)

abbrev Thunk := St → Res × St

namespace St

def getVar (s : St) (n : String) : Option Value :=
  (s.vars.find? (·.1 == n)).map (·.2)

def setVar (s : St) (n : String) (v : Value) : St :=
  { s with vars := (n, v) :: s.vars.filter (·.1 != n) }

def delVar (s : St) (n : String) : St :=
  { s with vars := s.vars.filter (·.1 != n) }

/-- does the target reject the operation about to be performed? advances the counter and logs. -/
def tick (s : St) (kind : Nat) (isMeta : Bool) (p : Path) : Bool × St :=
  let rej := s.faults.contains s.ops
  (rej, { s with ops := s.ops + 1, log := ⟨kind, isMeta, p, rej⟩ :: s.log })

/-- `target_get` : `.ok().flatten()` view (a rejected read is a missing field). -/
def targetGet (s : St) (isMeta : Bool) (p : Path) : Option Value × St :=
  let (rej, s) := s.tick 0 isMeta p
  if rej then (none, s) else ((if isMeta then s.metadata else s.event).get p, s)

/-- `drop(target_insert(..))`; `Value::insert` panics on `-isize::MIN`. -/
def targetInsert (s : St) (isMeta : Bool) (p : Path) (v : Value) : Option St :=
  let (rej, s) := s.tick 1 isMeta p
  if rej then some s
  else
    match (if isMeta then s.metadata else s.event).insert p v with
    | .panic => none
    | .ok (v', _) => some (if isMeta then { s with metadata := v' } else { s with event := v' })

def targetRemove (s : St) (isMeta : Bool) (p : Path) (compact : Bool) : Option Value × St :=
  let (rej, s) := s.tick 2 isMeta p
  if rej then (none, s)
  else
    let (r, v') := (if isMeta then s.metadata else s.event).remove p compact
    (r, if isMeta then { s with metadata := v' } else { s with event := v' })

end St

/-- `assignment::Target::insert`. `none` = panic. -/
def Tgt.insert (t : Tgt) (v : Value) (s : St) : Option St :=
  match t with
  | .noop => some s
  | .internal n p =>
    if p.isEmpty then some (s.setVar n v)
    else
      match s.getVar n with
      | some stored =>
        match stored.insert p v with
        | .panic => none
        | .ok (v', _) => some (s.setVar n v')
      | none =>
        -- `value.at_path(path)` = insert into `Value::Null`
        match Value.null.insert p v with
        | .panic => none
        | .ok (v', _) => some (s.setVar n v')
  | .external m p => s.targetInsert m p v

/-! ### closures (`function/closure.rs`) -/

def cIdent (vars : List String) (i : Nat) : Option String :=
  match vars[i]? with
  | some n => if n.isEmpty then none else some n
  | none => none

/-- `insert` of closure.rs: `swap_variable` -/
def cInsert (s : St) (ident : Option String) (v : Value) : Option Value × St :=
  match ident with
  | none => (none, s)
  | some n => (s.getVar n, s.setVar n v)

def cCleanup (s : St) (ident : Option String) (old : Option Value) : St :=
  match ident, old with
  | some n, some v => s.setVar n v
  | some n, none => s.delVar n
  | none, _ => s

/-- `Runner::run_key_value`: converts `Return` into the iteration's value; on any other error the
    parameters are NOT restored (`let value = result?;` comes before `cleanup`). -/
def runKeyValue (vars : List String) (body : Thunk) (key : List Nat) (value : Value) (s : St) :
    Res × St :=
  let (oldK, s) := cInsert s (cIdent vars 0) (.bytes key)
  let (oldV, s) := cInsert s (cIdent vars 1) value
  match body s with
  | (.ok v, s) | (.ret v, s) =>
    let s := cCleanup s (cIdent vars 0) oldK
    let s := cCleanup s (cIdent vars 1) oldV
    (.ok v, s)
  | r => r

/-- `Runner::run_index_value`: does not convert `Return`. -/
def runIndexValue (vars : List String) (body : Thunk) (index : Nat) (value : Value) (s : St) :
    Res × St :=
  let (oldI, s) := cInsert s (cIdent vars 0) (.int index)
  let (oldV, s) := cInsert s (cIdent vars 1) value
  match body s with
  | (.ok v, s) =>
    let s := cCleanup s (cIdent vars 0) oldI
    let s := cCleanup s (cIdent vars 1) oldV
    (.ok v, s)
  | r => r

/-- `Runner::map_key` -/
def mapKey (vars : List String) (body : Thunk) (key : List Nat) (s : St) : Except Res (List Nat) × St :=
  let (old, s) := cInsert s (cIdent vars 0) (.bytes key)
  match body s with
  | (.ok (.bytes b), s) => (.ok b, cCleanup s (cIdent vars 0) old)
  | (.ok _, s) => (.error .err, s)          -- `try_bytes_utf8_lossy()?`
  | (r, s) => (.error r, s)

/-- `Runner::map_value` -/
def mapValue (vars : List String) (body : Thunk) (value : Value) (s : St) : Res × St :=
  let (old, s) := cInsert s (cIdent vars 0) value
  match body s with
  | (.ok v, s) => (.ok v, cCleanup s (cIdent vars 0) old)
  | r => r

/-! iteration over runtime collections (structural recursion on the collection) -/

def forEachMap (vars : List String) (body : Thunk) : VMap → St → Res × St
  | .nil, s => (.ok .null, s)
  | .cons k v m, s =>
    match runKeyValue vars body k v s with
    | (.ok _, s) => forEachMap vars body m s
    | r => r

def forEachList (vars : List String) (body : Thunk) : VList → Nat → St → Res × St
  | .nil, _, s => (.ok .null, s)
  | .cons v vs, i, s =>
    match runIndexValue vars body i v s with
    | (.ok _, s) => forEachList vars body vs (i + 1) s
    | r => r

/-- result of `filter` over an object: kept entries (in order) or the first failure.
    A non-boolean closure result hits `.expect("compiler guarantees boolean return type")`. -/
def filterMap (vars : List String) (body : Thunk) : VMap → St → Except Res VMap × St
  | .nil, s => (.ok .nil, s)
  | .cons k v m, s =>
    match runKeyValue vars body k v s with
    | (.ok (.bool b), s) =>
      match filterMap vars body m s with
      | (.ok rest, s) => (.ok (if b then .cons k v rest else rest), s)
      | r => r
    | (.ok _, s) => (.error .panic, s)
    | (r, s) => (.error r, s)

def filterList (vars : List String) (body : Thunk) : VList → Nat → St → Except Res VList × St
  | .nil, _, s => (.ok .nil, s)
  | .cons v vs, i, s =>
    match runIndexValue vars body i v s with
    | (.ok (.bool b), s) =>
      match filterList vars body vs (i + 1) s with
      | (.ok rest, s) => (.ok (if b then .cons v rest else rest), s)
      | r => r
    | (.ok _, s) => (.error .panic, s)
    | (r, s) => (.error r, s)

/-- `map_keys` (non-recursive) over an object: the `(key, value)` vector with rewritten keys. -/
def mapKeysMap (vars : List String) (body : Thunk) : VMap → St → Except Res (List (List Nat × Value)) × St
  | .nil, s => (.ok [], s)
  | .cons k v m, s =>
    match mapKey vars body k s with
    | (.ok k', s) =>
      match mapKeysMap vars body m s with
      | (.ok rest, s) => (.ok ((k', v) :: rest), s)
      | r => r
    | (.error r, s) => (.error r, s)

def mapValuesMap (vars : List String) (body : Thunk) : VMap → St → Except Res VMap × St
  | .nil, s => (.ok .nil, s)
  | .cons k v m, s =>
    match mapValue vars body v s with
    | (.ok v', s) =>
      match mapValuesMap vars body m s with
      | (.ok rest, s) => (.ok (.cons k v' rest), s)
      | r => r
    | (r, s) => (.error r, s)

def mapValuesList (vars : List String) (body : Thunk) : VList → St → Except Res VList × St
  | .nil, s => (.ok .nil, s)
  | .cons v vs, s =>
    match mapValue vars body v s with
    | (.ok v', s) =>
      match mapValuesList vars body vs s with
      | (.ok rest, s) => (.ok (.cons v' rest), s)
      | r => r
    | (r, s) => (.error r, s)

/-- `Vec<(KeyString, Value)>` collected into a `BTreeMap` (later duplicates win). -/
def collectMap : List (List Nat × Value) → VMap
  | [] => .nil
  | (k, v) :: rest => (collectMap rest |> fun m => if (m.get k).isSome then m else m.insert k v)

/-! ### stdlib subset -/

/-- parameter keywords of the modelled functions, in declaration order. -/
def fnParams : String → Option (List String)
  | "string" | "int" | "float" | "bool" | "array" | "object" | "timestamp" => some ["value"]
  | "is_string" | "is_integer" | "is_float" | "is_boolean" | "is_null" | "is_array" | "is_object"
  | "is_timestamp" => some ["value"]
  | "length" | "to_int" => some ["value"]
  | "push" => some ["value", "item"]
  | "for_each" | "filter" => some ["value"]
  | "map_keys" | "map_values" => some ["value", "recursive"]
  | "del" => some ["target", "compact"]
  | "exists" => some ["field"]
  | _ => none

/-- `ArgumentList` construction (`resolve_arguments`): named arguments take their slot, unnamed ones
    fill the remaining slots in order. -/
def placeArgs (params : List String) (args : List (Option String × Thunk)) : Option (List (Option Thunk)) :=
  let named := args.filterMap fun (k, t) => k.map (·, t)
  let unnamed := args.filterMap fun (k, t) => if k.isNone then some t else none
  if named.any (fun (k, _) => !params.contains k) then none
  else
    let slots : List (Option Thunk) := params.map fun p => (named.find? (·.1 == p)).map (·.2)
    let rec fill : List (Option Thunk) → List Thunk → Option (List (Option Thunk))
      | [], [] => some []
      | [], _ :: _ => none
      | some t :: rest, us => (fill rest us).map (some t :: ·)
      | none :: rest, u :: us => (fill rest us).map (some u :: ·)
      | none :: rest, [] => (fill rest []).map (none :: ·)
    fill slots unnamed

/-- evaluate the present arguments in parameter order, each with `?`. -/
def evalSlots : List (Option Thunk) → St → Except Res (List (Option Value)) × St
  | [], s => (.ok [], s)
  | none :: rest, s =>
    match evalSlots rest s with
    | (.ok vs, s) => (.ok (none :: vs), s)
    | r => r
  | some t :: rest, s =>
    match t s with
    | (.ok v, s) =>
      match evalSlots rest s with
      | (.ok vs, s) => (.ok (some v :: vs), s)
      | r => r
    | (r, s) => (.error r, s)

def parseI64 (b : List Nat) : Option Int :=
  -- `str::parse::<i64>`: optional sign, at least one ASCII digit, no overflow
  let (neg, ds) := match b with
    | 45 :: r => (true, r)
    | 43 :: r => (false, r)
    | r => (false, r)
  if ds.isEmpty || ds.any (fun d => d < 48 || d > 57) then none
  else
    let n : Nat := ds.foldl (fun acc d => acc * 10 + (d - 48)) 0
    let i : Int := if neg then -(n : Int) else n
    if i < -9223372036854775808 || i > 9223372036854775807 then none else some i

def validUtf8 : List Nat → Bool
  | [] => true
  | b :: rest =>
    if b < 0x80 then validUtf8 rest
    else if b < 0xC2 then false
    else if b < 0xE0 then
      match rest with
      | c :: r => 0x80 ≤ c && c < 0xC0 && validUtf8 r
      | _ => false
    else if b < 0xF0 then
      match rest with
      | c :: d :: r =>
        let lo := if b == 0xE0 then 0xA0 else 0x80
        let hi := if b == 0xED then 0xA0 else 0xC0
        lo ≤ c && c < hi && 0x80 ≤ d && d < 0xC0 && validUtf8 r
      | _ => false
    else if b < 0xF5 then
      match rest with
      | c :: d :: e :: r =>
        let lo := if b == 0xF0 then 0x90 else 0x80
        let hi := if b == 0xF4 then 0x90 else 0xC0
        lo ≤ c && c < hi && 0x80 ≤ d && d < 0xC0 && 0x80 ≤ e && e < 0xC0 && validUtf8 r
      | _ => false
    else false
termination_by l => l.length

/-- value-level semantics of the pure functions (`none` = not modelled for this input). -/
def purFn (name : String) (args : List (Option Value)) : Res :=
  match name, args with
  | "string", [some v] => match v with | .bytes _ => .ok v | _ => .err
  | "int", [some v] => match v with | .int _ => .ok v | _ => .err
  | "float", [some v] => match v with | .float _ => .ok v | _ => .err
  | "bool", [some v] => match v with | .bool _ => .ok v | _ => .err
  | "array", [some v] => match v with | .arr _ => .ok v | _ => .err
  | "object", [some v] => match v with | .obj _ => .ok v | _ => .err
  | "timestamp", [some v] => match v with | .ts _ => .ok v | _ => .err
  | "is_string", [some v] => .ok (.bool (match v with | .bytes _ => true | _ => false))
  | "is_integer", [some v] => .ok (.bool (match v with | .int _ => true | _ => false))
  | "is_float", [some v] => .ok (.bool (match v with | .float _ => true | _ => false))
  | "is_boolean", [some v] => .ok (.bool (match v with | .bool _ => true | _ => false))
  | "is_null", [some v] => .ok (.bool (match v with | .null => true | _ => false))
  | "is_array", [some v] => .ok (.bool (match v with | .arr _ => true | _ => false))
  | "is_object", [some v] => .ok (.bool (match v with | .obj _ => true | _ => false))
  | "is_timestamp", [some v] => .ok (.bool (match v with | .ts _ => true | _ => false))
  | "length", [some v] =>
    match v with
    | .arr a => .ok (.int a.length)
    | .obj m => .ok (.int m.length)
    | .bytes b => .ok (.int b.length)
    | _ => .err
  | "push", [some l, some x] =>
    match l with
    | .arr a => .ok (.arr (a.append (.cons x .nil)))
    | _ => .err
  | "to_int", [some v] =>
    match v with
    | .int _ => .ok v
    | .bool b => .ok (.int (if b then 1 else 0))
    | .null => .ok (.int 0)
    | .bytes b => if validUtf8 b then (match parseI64 b with | some i => .ok (.int i) | none => .err) else .oom
    | .ts ns => .ok (.int (ns / 1000000000))
    | .float _ => .oom
    | _ => .err
  | _, _ => .oom

/-- a function call whose arguments are ordinary expressions (not `del`/`exists`). -/
def callFn (name : String) (args : List (Option String × Thunk)) (closure : Option (List String × Thunk))
    (s : St) : Res × St :=
  match fnParams name with
  | none => (.oom, s)
  | some params =>
    match placeArgs params args with
    | none => (.oom, s)
    | some slots =>
      match name, slots, closure with
      | "for_each", [some value], some (vars, body) =>
        (match value s with
         | (.ok (.obj m), s) => forEachMap vars body m s
         | (.ok (.arr a), s) => forEachList vars body a 0 s
         | (.ok _, s) => (.ok .null, s)
         | r => r)
      | "filter", [some value], some (vars, body) =>
        (match value s with
         | (.ok (.obj m), s) =>
           (match filterMap vars body m s with
            | (.ok m', s) => (.ok (.obj m'), s)
            | (.error r, s) => (r, s))
         | (.ok (.arr a), s) =>
           (match filterList vars body a 0 s with
            | (.ok a', s) => (.ok (.arr a'), s)
            | (.error r, s) => (r, s))
         | (.ok _, s) => (.err, s)
         | r => r)
      | "map_keys", [some value, rec], some (vars, body) =>
        let recRes : Res × St := match rec with
          | none => (.ok (.bool false), s)
          | some t => t s
        (match recRes with
         | (.ok (.bool false), s) =>
           (match value s with
            | (.ok (.obj m), s) =>
              (match mapKeysMap vars body m s with
               | (.ok kvs, s) => (.ok (.obj (collectMap kvs)), s)
               | (.error r, s) => (r, s))
            | r => r)
         | (.ok (.bool true), s) => (.oom, s)
         | (.ok _, s) => (.err, s)
         | r => r)
      | "map_values", [some value, rec], some (vars, body) =>
        let recRes : Res × St := match rec with
          | none => (.ok (.bool false), s)
          | some t => t s
        (match recRes with
         | (.ok (.bool false), s) =>
           (match value s with
            | (.ok (.obj m), s) =>
              (match mapValuesMap vars body m s with
               | (.ok m', s) => (.ok (.obj m'), s)
               | (.error r, s) => (r, s))
            | (.ok (.arr a), s) =>
              (match mapValuesList vars body a s with
               | (.ok a', s) => (.ok (.arr a'), s)
               | (.error r, s) => (r, s))
            | (.ok v, s) => mapValue vars body v s
            | r => r)
         | (.ok (.bool true), s) => (.oom, s)
         | (.ok _, s) => (.err, s)
         | r => r)
      | _, _, none =>
        (match evalSlots slots s with
         | (.ok vals, s) => (purFn name vals, s)
         | (.error r, s) => (r, s))
      | _, _, _ => (.oom, s)

/-- `FunctionCall::resolve`: `Abort` propagates, `Return` and errors become an error. -/
def wrapCall : Res → Res
  | .ok v => .ok v
  | .abort m => .abort m
  | .ret _ => .err
  | .err => .err
  | .panic => .panic
  | .oom => .oom

def valueToBool : Value → Option Bool
  | .bool b => some b
  | _ => none

mutual
  /-- `Expression::resolve` -/
  def eval : Expr → St → Res × St
    | .lit v, s => (.ok v, s)
    | .noop, s => (.ok .null, s)
    | .grp e, s => eval e s
    | .blk es, s => evalSeq es s
    | .arr es, s =>
      (match evalList es s with
       | (.ok vs, s) => (.ok (.arr vs), s)
       | (.error r, s) => (r, s))
    | .obj kvs, s =>
      (match evalKVs kvs s with
       | (.ok m, s) => (.ok (.obj m), s)
       | (.error r, s) => (r, s))
    | .ifte pred thn hasElse els, s =>
      (match evalSeq pred s with
       | (.ok (.bool true), s) => evalSeq thn s
       | (.ok (.bool false), s) => if hasElse then evalSeq els s else (.ok .null, s)
       | (.ok _, s) => (.err, s)                       -- `try_boolean()?`
       | r => r)
    | .op .err l r, s =>
      -- `lhs.resolve(ctx).or_else(|_| rhs.resolve(ctx))`: every `Err` is caught
      (match eval l s with
       | (.ok v, s) => (.ok v, s)
       | (.panic, s) => (.panic, s)
       | (.oom, s) => (.oom, s)
       | (_, s) => eval r s)
    | .op .or l r, s =>
      (match eval l s with
       | (.ok .null, s) | (.ok (.bool false), s) =>
         -- `rhs().map_err(ValueError::Or)`: abort/return/error all become an error
         (match eval r s with
          | (.ok v, s) => (.ok v, s)
          | (.panic, s) => (.panic, s)
          | (.oom, s) => (.oom, s)
          | (_, s) => (.err, s))
       | r => r)
    | .op .and l r, s =>
      (match eval l s with
       | (.ok .null, s) | (.ok (.bool false), s) => (.ok (.bool false), s)
       | (.ok v, s) =>
         (match eval r s with
          | (.ok w, s) => (tryAnd v w, s)
          | r => r)
       | r => r)
    | .op o l r, s =>
      (match eval l s with
       | (.ok v, s) =>
         (match eval r s with
          | (.ok w, s) => (binop o v w, s)
          | r => r)
       | r => r)
    | .asg t e, s =>
      (match eval e s with
       | (.ok v, s) =>
         (match t.insert v s with
          | some s => (.ok v, s)
          | none => (.panic, s))
       | r => r)
    | .iasg okT errT e dflt, s =>
      (match eval e s with
       | (.ok v, s) =>
         (match okT.insert v s with
          | none => (.panic, s)
          | some s =>
            match errT.insert .null s with
            | none => (.panic, s)
            | some s => (.ok v, s))
       | (.panic, s) => (.panic, s)
       | (.oom, s) => (.oom, s)
       | (_, s) =>
         -- every `Err(error)` (error, abort, return) is caught; `err` receives `error.to_string()`
         (match okT.insert dflt s with
          | none => (.panic, s)
          | some s =>
            match s.errs with
            | [] => (.oom, s)
            | msg :: rest =>
              let s := { s with errs := rest }
              match errT.insert (.bytes msg) s with
              | none => (.panic, s)
              | some s => (.ok (.bytes msg), s)))
    | .qext m p, s =>
      let (r, s) := s.targetGet m p
      (.ok (r.getD .null), s)
    | .qvar n p, s => (.ok (((s.getVar n).getD .null).get p |>.getD .null), s)
    | .qexpr e p, s =>
      (match eval e s with
       | (.ok v, s) => (.ok ((v.get p).getD .null), s)
       | r => r)
    | .var n, s => (.ok ((s.getVar n).getD .null), s)
    | .not e, s =>
      (match eval e s with
       | (.ok (.bool b), s) => (.ok (.bool (!b)), s)
       | (.ok _, s) => (.err, s)
       | r => r)
    | .abort hasMsg msg, s =>
      if hasMsg then
        (match eval msg s with
         | (.ok (.bytes b), s) => if validUtf8 b then (.abort (some b), s) else (.oom, s)
         | (.ok _, s) => (.err, s)
         | r => r)
      else (.abort none, s)
    | .ret e, s =>
      (match eval e s with
       | (.ok v, s) => (.ret v, s)
       | r => r)
    | .call name _ _ args hasClosure cvars cbody, s =>
      if name == "del" then
        (match args with
         | .cons _ q rest =>
           let compactR : Res × St := match rest with
             | .cons _ c _ => eval c s
             | .nil => (.ok (.bool false), s)
           (match compactR with
            | (.ok (.bool compact), s) =>
              let r : Res × St := match q with
                | .qext m p =>
                  let (r, s) := s.targetRemove m p compact
                  (.ok (r.getD .null), s)
                | .qvar n p =>
                  (match s.getVar n with
                   | some v =>
                     let (r, v') := v.remove p compact
                     (.ok (r.getD .null), s.setVar n v')
                   | none => (.ok .null, s))
                | .qexpr e p =>
                  (match eval e s with
                   | (.ok v, s) => (.ok ((v.get p).getD .null), s)
                   | r => r)
                | _ => (.oom, s)
              (wrapCall r.1, r.2)
            | (.ok _, s) => (.err, s)
            | (r, s) => (wrapCall r, s))
         | .nil => (.oom, s))
      else if name == "exists" then
        (match args with
         | .cons _ q .nil =>
           let r : Res × St := match q with
             | .qext m p =>
               let (r, s) := s.targetGet m p
               (.ok (.bool r.isSome), s)
             | .qvar n p =>
               (match s.getVar n with
                | some v => (.ok (.bool (v.get p).isSome), s)
                | none => (.ok (.bool false), s))
             | .qexpr e p =>
               (match eval e s with
                | (.ok v, s) => (.ok (.bool (v.get p).isSome), s)
                | r => r)
             | _ => (.oom, s)
           (wrapCall r.1, r.2)
         | _ => (.oom, s))
      else
        let closure := if hasClosure then some (cvars, fun s => evalSeq cbody s) else none
        let r := callFn name (thunks args) closure s
        (wrapCall r.1, r.2)

  /-- `Block::resolve` (also the program and predicates): all but the last with `?`, then the last. -/
  def evalSeq : Exprs → St → Res × St
    | .nil, s => (.panic, s)                           -- `split_last().expect(..)`
    | .cons e .nil, s => eval e s
    | .cons e es, s =>
      (match eval e s with
       | (.ok _, s) => evalSeq es s
       | r => r)

  /-- array literal: `collect::<Result<Vec<_>, _>>()` stops at the first error. -/
  def evalList : Exprs → St → Except Res VList × St
    | .nil, s => (.ok .nil, s)
    | .cons e es, s =>
      (match eval e s with
       | (.ok v, s) =>
         (match evalList es s with
          | (.ok vs, s) => (.ok (.cons v vs), s)
          | r => r)
       | (r, s) => (.error r, s))

  def evalKVs : KExprs → St → Except Res VMap × St
    | .nil, s => (.ok .nil, s)
    | .cons k e kes, s =>
      (match eval e s with
       | (.ok v, s) =>
         (match evalKVs kes s with
          | (.ok m, s) => (.ok (.cons k v m), s)
          | r => r)
       | (r, s) => (.error r, s))

  def thunks : Args → List (Option String × Thunk)
    | .nil => []
    | .cons kw e as => (kw, fun s => eval e s) :: thunks as
end

/-- outcome of `Runtime::resolve` -/
inductive RunOutcome where
  | ok (v : Value)
  | error
  | abort (msg : Option (List Nat))
  | panic
  | oom

/-- `Runtime::resolve`: root check (one target read), then the program block;
    `Return` at top level is success. -/
def run (prog : Exprs) (s : St) : RunOutcome × St :=
  let (rej, s) := s.tick 0 false []
  if rej then (.error, s)
  else
    match evalSeq prog s with
    | (.ok v, s) | (.ret v, s) => (.ok v, s)
    | (.abort m, s) => (.abort m, s)
    | (.err, s) => (.error, s)
    | (.panic, s) => (.panic, s)
    | (.oom, s) => (.oom, s)

end Lang
