/-
  VrlModel.Lang.Info — the target queries / assignments a compiled program can perform, computed
  from the compiled tree the way `compiler.rs` collects `ProgramInfo.target_queries` /
  `target_assignments`: every external `Query` node (also when it is the argument of `del` /
  `exists`), every external assignment target, and the event root for calls to `get`.
-/
import VrlModel.Lang.Ast

namespace Lang

def tgtAssign : Tgt → List (Bool × Path)
  | .external m p => [(m, p)]
  | _ => []

mutual
  def queriesE : Expr → List (Bool × Path)
    | .lit _ | .noop | .var _ | .qvar _ _ | .existsVar _ _ => []
    | .grp e | .not e | .ret e | .asg _ e | .iasg _ _ e _ | .qexpr e _ | .existsExpr e _ => queriesE e
    | .blk es | .arr es => queriesS es
    | .obj kvs => queriesK kvs
    | .ifte p t _ e => queriesS p ++ queriesS t ++ queriesS e
    | .op _ l r => queriesE l ++ queriesE r
    | .qext m p => [(m, p)]
    | .existsExt m p => [(m, p)]
    | .abort _ e => queriesE e
    | .delExt m p _ c => (m, p) :: queriesE c
    | .delVar _ _ _ c => queriesE c
    | .delExpr e _ _ c => queriesE e ++ queriesE c
    | .call name _ _ args _ _ body =>
      (if name == "get" then [(false, [])] else []) ++ queriesA args ++ queriesS body
  def queriesS : Exprs → List (Bool × Path)
    | .nil => []
    | .cons e es => queriesE e ++ queriesS es
  def queriesK : KExprs → List (Bool × Path)
    | .nil => []
    | .cons _ e kes => queriesE e ++ queriesK kes
  def queriesA : Args → List (Bool × Path)
    | .nil => []
    | .cons _ e as => queriesE e ++ queriesA as
end

mutual
  def assignsE : Expr → List (Bool × Path)
    | .lit _ | .noop | .var _ | .qvar _ _ | .existsVar _ _ | .qext _ _ | .existsExt _ _ => []
    | .grp e | .not e | .ret e | .qexpr e _ | .existsExpr e _ => assignsE e
    | .asg t e => assignsE e ++ tgtAssign t
    | .iasg ok err e _ => assignsE e ++ tgtAssign ok ++ tgtAssign err
    | .blk es | .arr es => assignsS es
    | .obj kvs => assignsK kvs
    | .ifte p t _ e => assignsS p ++ assignsS t ++ assignsS e
    | .op _ l r => assignsE l ++ assignsE r
    | .abort _ e => assignsE e
    | .delExt _ _ _ c => assignsE c
    | .delVar _ _ _ c => assignsE c
    | .delExpr e _ _ c => assignsE e ++ assignsE c
    | .call _ _ _ args _ _ body => assignsA args ++ assignsS body
  def assignsS : Exprs → List (Bool × Path)
    | .nil => []
    | .cons e es => assignsE e ++ assignsS es
  def assignsK : KExprs → List (Bool × Path)
    | .nil => []
    | .cons _ e kes => assignsE e ++ assignsK kes
  def assignsA : Args → List (Bool × Path)
    | .nil => []
    | .cons _ e as => assignsE e ++ assignsA as
end

end Lang
