/-
  VrlModel.Lang.Parse — reader for the program text printed by `compiler::verif::dump_program`.
  Driver code only (`partial def`); no theorem depends on it.
-/
import VrlModel.Wire
import VrlModel.Lang.Ast

namespace Lang.Parse
open Wire

abbrev P (α : Type) := List String → Option (α × List String)

def expect (t : String) : P Unit
  | tok :: rest => if tok == t then some ((), rest) else none
  | [] => none

def name : P String
  | tok :: rest => if tok.startsWith "v:" then some (dropPrefix tok 2, rest) else none
  | [] => none

def nat : P Nat
  | tok :: rest => tok.toNat?.map (·, rest)
  | [] => none

partial def segs : List String → Option (Path × List String)
  | ")" :: rest => some ([], rest)
  | tok :: rest => do
    let s ← segOfString tok
    let (p, r) ← segs rest
    pure (s :: p, r)
  | [] => none

def path : P Path
  | "(p" :: rest => segs rest
  | _ => none

def opcode : String → Option Opcode
  | "Mul" => some .mul | "Div" => some .div | "Add" => some .add | "Sub" => some .sub
  | "Or" => some .or | "And" => some .and | "Err" => some .err | "Ne" => some .ne
  | "Eq" => some .eq | "Ge" => some .ge | "Gt" => some .gt | "Le" => some .le
  | "Lt" => some .lt | "Merge" => some .merge | _ => none

def isMeta : P Bool
  | "e" :: rest => some (false, rest)
  | "m" :: rest => some (true, rest)
  | _ => none

def tgt : P Tgt
  | "(tnoop" :: ")" :: rest => some (.noop, rest)
  | "(tint" :: rest => do
    let (n, r) ← name rest
    let (p, r) ← path r
    let (_, r) ← expect ")" r
    pure (.internal n p, r)
  | "(text" :: rest => do
    let (m, r) ← isMeta rest
    let (p, r) ← path r
    let (_, r) ← expect ")" r
    pure (.external m p, r)
  | _ => none

partial def names : List String → Option (List String × List String)
  | ")" :: rest => some ([], rest)
  | toks => do
    let (n, r) ← name toks
    let (ns, r) ← names r
    pure (n :: ns, r)

mutual
  partial def expr : List String → Option (Expr × List String)
    | "(lit" :: rest => do
      let (v, r) ← parseValue rest
      let (_, r) ← expect ")" r
      pure (.lit v, r)
    | "(noop" :: ")" :: rest => some (.noop, rest)
    | "(grp" :: rest => do
      let (e, r) ← expr rest
      let (_, r) ← expect ")" r
      pure (.grp e, r)
    | "(blk" :: rest => do
      let (es, r) ← exprs rest
      pure (.blk es, r)
    | "(arr" :: rest => do
      let (es, r) ← exprs rest
      pure (.arr es, r)
    | "(obj" :: rest => do
      let (kvs, r) ← kexprs rest
      pure (.obj kvs, r)
    | "(if" :: "(pred" :: rest => do
      let (pred, r) ← exprs rest
      let (_, r) ← expect "(then" r
      let (thn, r) ← exprs r
      match r with
      | "(noelse" :: ")" :: ")" :: r => pure (.ifte pred thn false .nil, r)
      | "(else" :: r => do
        let (els, r) ← exprs r
        let (_, r) ← expect ")" r
        pure (.ifte pred thn true els, r)
      | _ => none
    | "(op" :: o :: rest => do
      let o ← opcode o
      let (l, r) ← expr rest
      let (rr, r) ← expr r
      let (_, r) ← expect ")" r
      pure (.op o l rr, r)
    | "(asg" :: rest => do
      let (t, r) ← tgt rest
      let (e, r) ← expr r
      let (_, r) ← expect ")" r
      pure (.asg t e, r)
    | "(iasg" :: rest => do
      let (ok, r) ← tgt rest
      let (er, r) ← tgt r
      let (e, r) ← expr r
      let (d, r) ← parseValue r
      let (_, r) ← expect ")" r
      pure (.iasg ok er e d, r)
    | "(qext" :: rest => do
      let (m, r) ← isMeta rest
      let (p, r) ← path r
      let (_, r) ← expect ")" r
      pure (.qext m p, r)
    | "(qvar" :: rest => do
      let (n, r) ← name rest
      let (p, r) ← path r
      let (_, r) ← expect ")" r
      pure (.qvar n p, r)
    | "(qexpr" :: rest => do
      let (e, r) ← expr rest
      let (p, r) ← path r
      let (_, r) ← expect ")" r
      pure (.qexpr e p, r)
    | "(var" :: rest => do
      let (n, r) ← name rest
      let (_, r) ← expect ")" r
      pure (.var n, r)
    | "(not" :: rest => do
      let (e, r) ← expr rest
      let (_, r) ← expect ")" r
      pure (.not e, r)
    | "(abort0" :: ")" :: rest => some (.abort false .noop, rest)
    | "(abort" :: rest => do
      let (e, r) ← expr rest
      let (_, r) ← expect ")" r
      pure (.abort true e, r)
    | "(ret" :: rest => do
      let (e, r) ← expr rest
      let (_, r) ← expect ")" r
      pure (.ret e, r)
    | "(call" :: fname :: _bang :: rest => do
      let (st, r) ← nat rest
      let (en, r) ← nat r
      let (_, r) ← expect "(args" r
      let (as, r) ← args r
      match r with
      | "(noclosure" :: ")" :: ")" :: r =>
        let plain : Expr := .call fname st en as false [] .nil
        let e : Expr :=
          if fname == "del" then
            (match as with
             | .cons _ q rest =>
               let (hasC, c) : Bool × Expr := match rest with
                 | .cons _ c _ => (true, c)
                 | .nil => (false, .noop)
               (match q with
                | .qext m p => .delExt m p hasC c
                | .qvar n p => .delVar n p hasC c
                | .qexpr e p => .delExpr e p hasC c
                | _ => plain)
             | .nil => plain)
          else if fname == "exists" then
            (match as with
             | .cons _ (.qext m p) .nil => .existsExt m p
             | .cons _ (.qvar n p) .nil => .existsVar n p
             | .cons _ (.qexpr e p) .nil => .existsExpr e p
             | _ => plain)
          else plain
        pure (e, r)
      | "(closure" :: "(vars" :: r => do
        let (vs, r) ← names r
        let (_, r) ← expect "(body" r
        let (body, r) ← exprs r
        let (_, r) ← expect ")" r
        let (_, r) ← expect ")" r
        pure (.call fname st en as true vs body, r)
      | _ => none
    | _ => none
  /-- expressions up to the closing `)` of the enclosing list -/
  partial def exprs : List String → Option (Exprs × List String)
    | ")" :: rest => some (.nil, rest)
    | toks => do
      let (e, r) ← expr toks
      let (es, r) ← exprs r
      pure (.cons e es, r)
  partial def kexprs : List String → Option (KExprs × List String)
    | ")" :: rest => some (.nil, rest)
    | "(kv" :: k :: rest => do
      if !k.startsWith "k:" then none
      let key ← bytesOfHex (dropPrefix k 2)
      let (e, r) ← expr rest
      let (_, r) ← expect ")" r
      let (kes, r) ← kexprs r
      pure (.cons key e kes, r)
    | _ => none
  partial def args : List String → Option (Args × List String)
    | ")" :: rest => some (.nil, rest)
    | "(a" :: kw :: rest => do
      let k : Option String := if kw == "-" then none else some (dropPrefix kw 2)
      let (e, r) ← expr rest
      let (_, r) ← expect ")" r
      let (as, r) ← args r
      pure (.cons k e as, r)
    | _ => none
end

def program (s : String) : Option Exprs :=
  match tokens s with
  | "(prog" :: rest =>
    match exprs rest with
    | some (es, []) => some es
    | _ => none
  | _ => none

end Lang.Parse
