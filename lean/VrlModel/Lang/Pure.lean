/-
  VrlModel.Lang.Pure — the syntactically effect-free, target-free fragment: evaluating such an
  expression leaves the whole state untouched (used by C34: a discarded expression of this
  fragment can be deleted).
-/
import VrlModel.Lang.Eval

namespace Lang

/-- stdlib functions of the modelled subset that only compute a value from their arguments -/
def pureFnName (n : String) : Bool :=
  n == "string" || n == "int" || n == "float" || n == "bool" || n == "array" || n == "object" ||
  n == "timestamp" || n == "is_string" || n == "is_integer" || n == "is_float" || n == "is_boolean" ||
  n == "is_null" || n == "is_array" || n == "is_object" || n == "is_timestamp" || n == "length" ||
  n == "to_int" || n == "push"

def plainOp : Opcode → Bool
  | .err | .or | .and => false
  | _ => true

mutual
  /-- literals, variable reads, strict operators, `!`, array/object literals and calls of pure
      functions over such expressions (no assignment, no `del`, no target access, no closure,
      no `abort`/`return`, no short-circuit operator). -/
  def pureE : Expr → Bool
    | .lit _ | .noop | .var _ | .qvar _ _ | .existsVar _ _ => true
    | .grp e | .not e | .qexpr e _ | .existsExpr e _ => pureE e
    | .arr es => pureS es
    | .obj kvs => pureK kvs
    | .op o l r => plainOp o && pureE l && pureE r
    | .call name _ _ args hasClosure _ _ => pureFnName name && !hasClosure && pureA args
    | _ => false
  def pureS : Exprs → Bool
    | .nil => true
    | .cons e es => pureE e && pureS es
  def pureK : KExprs → Bool
    | .nil => true
    | .cons _ e kes => pureE e && pureK kes
  def pureA : Args → Bool
    | .nil => true
    | .cons _ e as => pureE e && pureA as
end

end Lang
