/-
  VrlModel.Lang.Writes — the target paths a compiled program can *modify*, computed from the compiled
  tree: the external assignment targets (`assignsS`, VrlModel/Lang/Info.lean — each one was checked
  by `verify_mutable`, assignment.rs) and the external paths handed to `del` (`delsS` — each one
  was checked by `Del::compile`, stdlib/del.rs: "is_read_only_path ⇒ E315"). `ProgramInfo` reports
  the latter only among the `target_queries`; here they are a list of their own so that the
  read-only check of a whole program is a decidable predicate on the compiled tree.
-/
import VrlModel.Lang.Info
import VrlModel.ReadOnly

namespace Lang

mutual
  /-- external paths removed by `del(<external query>)` nodes -/
  def delsE : Expr → List (Bool × Path)
    | .lit _ | .noop | .var _ | .qvar _ _ | .existsVar _ _ | .qext _ _ | .existsExt _ _ => []
    | .grp e | .not e | .ret e | .qexpr e _ | .existsExpr e _ | .asg _ e | .iasg _ _ e _ => delsE e
    | .blk es | .arr es => delsS es
    | .obj kvs => delsK kvs
    | .ifte p t _ e => delsS p ++ delsS t ++ delsS e
    | .op _ l r => delsE l ++ delsE r
    | .abort _ e => delsE e
    | .delExt m p _ c => (m, p) :: delsE c
    | .delVar _ _ _ c => delsE c
    | .delExpr e _ _ c => delsE e ++ delsE c
    | .call _ _ _ args _ _ body => delsA args ++ delsS body
  def delsS : Exprs → List (Bool × Path)
    | .nil => []
    | .cons e es => delsE e ++ delsS es
  def delsK : KExprs → List (Bool × Path)
    | .nil => []
    | .cons _ e kes => delsE e ++ delsK kes
  def delsA : Args → List (Bool × Path)
    | .nil => []
    | .cons _ e as => delsE e ++ delsA as
end

/-- every target location the program can write to or remove -/
def writeTargets (prog : Exprs) : List (Bool × Path) := assignsS prog ++ delsS prog

end Lang

namespace ReadOnly

/-- one write target passes the read-only check and consists of field segments only -/
def okTarget (cfg : List RO) (x : Bool × Path) : Bool := !isReadOnly cfg x.1 x.2 && fieldOnly x.2

/-- the compile-time read-only checks of a whole program (every assignment target: `verify_mutable`;
    every `del` path: `Del::compile`), restricted to field-only write paths. -/
def acceptsFieldProg (cfg : List RO) (prog : Lang.Exprs) : Bool :=
  (Lang.writeTargets prog).all (okTarget cfg)

end ReadOnly
