/-
  VrlModel.Lang.Ast — the *compiled* expression tree of vrl (`compiler::expression::Expr`), as dumped
  by the `cfg(vrl_verif)` hook `compiler::verif::dump_program` from the real compiler's output.
  The model therefore runs what the real compiler produced: `|=` is already rewritten to `= … | …`,
  template strings are already rewritten to concatenations, object literals are already
  key-sorted/deduplicated (`BTreeMap<KeyString, Expr>`), and the default value of an infallible
  assignment is the one the compiler computed.
-/
import VrlModel.Value

namespace Lang

inductive Opcode where
  | mul | div | add | sub | or | and | err | ne | eq | ge | gt | le | lt | merge
  deriving DecidableEq, Repr

/-- `assignment::Target` -/
inductive Tgt where
  | noop
  | internal (name : String) (path : Path)
  | external (isMeta : Bool) (path : Path)
  deriving DecidableEq, Repr

mutual
  inductive Expr where
    | lit (v : Value)
    | noop
    | grp (e : Expr)
    | blk (es : Exprs)                              -- scoped block `{ … }`
    | arr (es : Exprs)
    | obj (kvs : KExprs)                            -- in key order
    | ifte (pred : Exprs) (thn : Exprs) (hasElse : Bool) (els : Exprs)
    | op (o : Opcode) (l r : Expr)
    | asg (t : Tgt) (e : Expr)
    | iasg (ok err : Tgt) (e : Expr) (dflt : Value)
    | qext (isMeta : Bool) (p : Path)               -- `.a.b`, `%a`
    | qvar (name : String) (p : Path)               -- `x.a`
    | qexpr (e : Expr) (p : Path)                   -- `{…}.a`, `f().a`
    | var (name : String)
    | not (e : Expr)
    | abort (hasMsg : Bool) (msg : Expr)
    | ret (e : Expr)
    -- `del(<query>, compact: c)` and `exists(<query>)` take a *query*, not a value: the three query
    -- shapes are separate constructors (`del.rs`, `exists.rs`)
    | delExt (isMeta : Bool) (p : Path) (hasCompact : Bool) (compact : Expr)
    | delVar (name : String) (p : Path) (hasCompact : Bool) (compact : Expr)
    | delExpr (e : Expr) (p : Path) (hasCompact : Bool) (compact : Expr)
    | existsExt (isMeta : Bool) (p : Path)
    | existsVar (name : String) (p : Path)
    | existsExpr (e : Expr) (p : Path)
    | call (name : String) (spanStart spanEnd : Nat) (args : Args) (hasClosure : Bool)
        (cvars : List String) (cbody : Exprs)
  inductive Exprs where
    | nil
    | cons (e : Expr) (es : Exprs)
  inductive KExprs where
    | nil
    | cons (k : List Nat) (e : Expr) (kes : KExprs)
  inductive Args where
    | nil
    | cons (kw : Option String) (e : Expr) (as : Args)
end

instance : Inhabited Expr := ⟨.noop⟩

def Exprs.length : Exprs → Nat
  | .nil => 0
  | .cons _ es => es.length + 1

end Lang
