/-
  VrlModel.Lang.Ops — value-level binary operators used by `Op::resolve`
  (src/compiler/value/arithmetic.rs): delegated to `VrlModel.Arith` (the C10/C11 model, including the
  soft-float `F64`). The error class is dropped here: the language model only distinguishes
  "a runtime error" (messages are opaque tokens).
-/
import VrlModel.Lang.Ast
import VrlModel.Arith

namespace Lang

/-- result of evaluating an expression (`Result<Value, ExpressionError>` plus the two outcomes the
    Rust type does not have: a panic, and "this case is outside the modelled fragment"). -/
inductive Res where
  | ok (v : Value)
  | err
  | abort (msg : Option (List Nat))
  | ret (v : Value)
  | panic
  | oom
  deriving DecidableEq

def ofArith : Arith.Res Value → Res
  | .ok v => .ok v
  | .err _ => .err
  | .panic => .panic

def tryAnd (v w : Value) : Res := ofArith (Arith.tryAnd v w)

/-- the operators of `Op::resolve` that evaluate both operands first. -/
def binop (o : Opcode) (v w : Value) : Res :=
  match o with
  | .mul => ofArith (Arith.tryMul v w)
  | .div => ofArith (Arith.tryDiv v w)
  | .add => ofArith (Arith.tryAdd v w)
  | .sub => ofArith (Arith.trySub v w)
  | .eq => .ok (.bool (Arith.eqImpl v w))
  | .ne => .ok (.bool (!Arith.eqImpl v w))
  | .gt => ofArith (Arith.tryCmp .gt v w)
  | .ge => ofArith (Arith.tryCmp .ge v w)
  | .lt => ofArith (Arith.tryCmp .lt v w)
  | .le => ofArith (Arith.tryCmp .le v w)
  | .merge => ofArith (Arith.tryMerge v w)
  | .or | .and | .err => .panic    -- `unreachable!()`

end Lang
