/-
  VrlModel.Lang.Ops — value-level binary operators used by `Op::resolve`
  (src/compiler/value/arithmetic.rs). Float operands are delegated to the soft-float model where
  available; until then they are reported as out-of-model (`Res.oom`), never guessed.
-/
import VrlModel.Lang.Ast

namespace Lang

/-- result of evaluating an expression (`Result<Value, ExpressionError>` plus the two outcomes the
    Rust type does not have: a panic, and "this case is outside the modelled fragment"). -/
inductive Res where
  | ok (v : Value)
  | err
  | abort (msg : Option (List Nat))
  | ret (v : Value)
  | panic
  | oom
  deriving DecidableEq

def wrapI64 (i : Int) : Int :=
  let m := i % 18446744073709551616
  if m ≥ 9223372036854775808 then m - 18446744073709551616 else m

def natBits : Nat → Nat
  | 0 => 0
  | n + 1 => Nat.log2 (n + 1) + 1

/-- the integer value of `i as f64` (round to nearest, ties to even); exact below 2^53. -/
def i64RoundF64 (i : Int) : Int :=
  let a := i.natAbs
  let bits := natBits a
  if bits ≤ 53 then i
  else
    let e := bits - 53
    let q := a / 2 ^ e
    let r := a % 2 ^ e
    let half := 2 ^ (e - 1)
    let q' := if r > half || (r == half && q % 2 == 1) then q + 1 else q
    let v : Int := (q' * 2 ^ e : Nat)
    if i < 0 then -v else v

def bytesLt : List Nat → List Nat → Bool := Key.lt

def hasFloat : Value → Bool
  | .float _ => true
  | _ => false

def isZeroBits (b : Nat) : Bool := b == 0 || b == 0x8000000000000000

mutual
  /-- `PartialEq for Value`: structural; floats by IEEE equality of non-NaN values (`-0.0 == 0.0`). -/
  def valueEq : Value → Value → Bool
    | .null, .null => true
    | .bool a, .bool b => a == b
    | .int a, .int b => a == b
    | .float a, .float b => a == b || (isZeroBits a && isZeroBits b)
    | .bytes a, .bytes b => a == b
    | .ts a, .ts b => a == b
    | .regex a, .regex b => a == b
    | .arr a, .arr b => vlistEq a b
    | .obj a, .obj b => vmapEq a b
    | _, _ => false
  def vlistEq : VList → VList → Bool
    | .nil, .nil => true
    | .cons a as, .cons b bs => valueEq a b && vlistEq as bs
    | _, _ => false
  def vmapEq : VMap → VMap → Bool
    | .nil, .nil => true
    | .cons k a as, .cons l b bs => k == l && valueEq a b && vmapEq as bs
    | _, _ => false
end

/-- `eq_lossy`; `none` = needs the float model. -/
def eqLossy (a b : Value) : Option Bool :=
  match a, b with
  | .int x, .int y => some (i64RoundF64 x == i64RoundF64 y)
  | .int _, .float _ => none
  | .int _, _ => some false
  | .float _, .int _ => none
  | .float _, .float _ => none
  | .float _, _ => some false
  | _, _ => some (valueEq a b)

def repeatBytes (b : List Nat) : Nat → List Nat
  | 0 => []
  | n + 1 => b ++ repeatBytes b n

def mergeMaps (a : VMap) : VMap → VMap
  | .nil => a
  | .cons k v m => mergeMaps (a.insert k v) m

def tryAnd (v w : Value) : Res :=
  match v, w with
  | .null, _ => .ok (.bool false)
  | .bool _, .null => .ok (.bool false)
  | .bool a, .bool b => .ok (.bool (a && b))
  | _, _ => .err

def cmpInt (o : Opcode) (a b : Int) : Bool :=
  match o with
  | .gt => decide (a > b)
  | .ge => decide (a ≥ b)
  | .lt => decide (a < b)
  | _ => decide (a ≤ b)

def cmpBytes (o : Opcode) (a b : List Nat) : Bool :=
  match o with
  | .gt => bytesLt b a
  | .ge => !bytesLt a b
  | .lt => bytesLt a b
  | _ => !bytesLt b a

/-- `try_gt/ge/lt/le` -/
def cmpOp (o : Opcode) (v w : Value) : Res :=
  match v, w with
  | .int a, .int b => .ok (.bool (cmpInt o a b))
  | .int _, .float _ | .float _, .int _ | .float _, .float _ => .oom
  | .bytes a, .bytes b => .ok (.bool (cmpBytes o a b))
  | .ts a, .ts b => .ok (.bool (cmpInt o a b))
  | _, _ => .err

def asUsize (n : Int) : Nat := if n < 0 then 0 else n.toNat

/-- the operators of `Op::resolve` that evaluate both operands first. -/
def binop (o : Opcode) (v w : Value) : Res :=
  match o with
  | .mul =>
    (match v, w with
     | .int a, .bytes b => .ok (.bytes (repeatBytes b (asUsize a)))
     | .bytes b, .int a => .ok (.bytes (repeatBytes b (asUsize a)))
     | .int a, .int b => .ok (.int (wrapI64 (a * b)))
     | .int _, .float _ | .float _, .int _ | .float _, .float _ => .oom
     | _, _ => .err)
  | .div =>
    (match v, w with
     | _, .int 0 => .err
     | _, .float b => if isZeroBits b then .err else
         (match v with | .int _ | .float _ => .oom | _ => .err)
     | .int _, .int _ | .float _, .int _ => .oom
     | _, _ => .err)
  | .add =>
    (match v, w with
     | .int a, .int b => .ok (.int (wrapI64 (a + b)))
     | .int _, .float _ | .float _, .int _ | .float _, .float _ => .oom
     | .bytes a, .null => .ok (.bytes a)
     | .bytes a, .bytes b => .ok (.bytes (a ++ b))
     | .null, .bytes b => .ok (.bytes b)
     | _, _ => .err)
  | .sub =>
    (match v, w with
     | .int a, .int b => .ok (.int (wrapI64 (a - b)))
     | .int _, .float _ | .float _, .int _ | .float _, .float _ => .oom
     | _, _ => .err)
  | .eq => (match eqLossy v w with | some b => .ok (.bool b) | none => .oom)
  | .ne => (match eqLossy v w with | some b => .ok (.bool (!b)) | none => .oom)
  | .gt | .ge | .lt | .le => cmpOp o v w
  | .merge =>
    (match v, w with
     | .obj a, .obj b => .ok (.obj (mergeMaps a b))
     | _, _ => .err)
  | .or | .and | .err => .panic    -- `unreachable!()`

end Lang
