/-
  VrlModel.Lang.TypeSpec — the Spec side of C01 / C02 / C12 for the model of the type inference
  (`VrlModel.Lang.Type`):

  * `Conforms s T`  — "the run-time state inhabits the type state" (`Γ ⊨ ρ` of DESIGN §7 C01):
    every variable of the type state is set at run time, its value is a member (`Spec.mem`) of its
    kind and equals its constant if it has one; event ∈ target kind; metadata ∈ metadata kind.
  * `checks e T`    — the side conditions under which the soundness theorems are proved, as a list of
    *failed* checks (decidable, computed from the compiled tree and the type state alone). Each
    check is either structural (what the compiler's constructors verify), the hypothesis of a C19
    theorem about a `Kind` operation at the site where `typeInfo` uses it, or the complement of a
    finding class of the type inference itself (`D_…`, witnessed in VrlProofs/Witness/C01.lean).
    `Chk.nan` is not a failure: it marks float arithmetic (the documented NaN exception of C02).
    `safe e T` = no failed check; the driver uses the first failed check to name the class of an
    oracle failure.
-/
import VrlModel.Lang.Type
import VrlModel.Lang.Eval
import VrlModel.C19

namespace Lang

/-! ### run-time state vs type state -/

def varOk (s : St) (n : String) (d : Details) : Prop :=
  ∃ v, s.getVar n = some v ∧ Spec.mem v d.td.kind = true ∧ v.Sorted = true ∧
    ∀ c, d.value = some c → v = c

structure Conforms (s : St) (T : TState) : Prop where
  faults : s.faults = []
  vars : ∀ n d, T.getVar n = some d → varOk s n d
  event : Spec.mem s.event T.target = true
  eventSorted : s.event.Sorted = true
  metadata : Spec.mem s.metadata T.metadata = true
  metadataSorted : s.metadata.Sorted = true
  /-- every variable alive at run time is in scope, or was dropped from the scope by a block -/
  closed : ∀ n v, s.getVar n = some v → (T.getVar n).isSome = true ∨ n ∈ T.leaked

/-! ### checks -/

inductive Chk where
  | nan                      -- float arithmetic (not a failure)
  | outOfModel               -- function call, `del({…}.a)`
  | structural               -- literal containers, unsorted object keys, undefined variable read, scope;
                             --   the checks of `Predicate::new` / `Not::new` / `Op::new` (boolean predicate,
                             --   boolean operand of `!`, object operands of `|`): since d43fc03 they are made
                             --   in the very state `type_info` uses, so every compiled tree passes them
  | ctorPoststate            -- a constructor check still made in the state AFTER the operand was compiled
                             --   (`abort` message / infallible `return` / `compact` argument of `del`) fails
                             --   in the state `type_info` uses                      (D_ctor_poststate)
  | kindUnion                -- `Kind::union` outside the C19 theorem (unsorted / non-`any` Infinite)
  | kindAt                   -- `Kind::at_path` outside the C19 theorem           (C19 atClass)
  | negIndex                 -- `Kind::insert` at a negative index (no C19 theorem; D_neg_insert_exact_noshift …)
  | kindInsert               -- `Kind::insert` outside the C19 theorem (C19 insertClass)
  | kindMerge                -- `Kind::merge` outside the C19 theorem             (C19 mergeClass)
  | kindRemove               -- `Kind::remove` (external path or variable) outside `delPathOk`  (D_del_typing)
  | delTyping                -- `del({…}.a)`: the container is typed twice, in another order than it runs (D_del_typing)
  | shortCircuitVar          -- the rhs of `||` `&&` `??` defines a variable         (D_short_circuit_defines_var)
  | errPartialEffects        -- lhs of `??` / rhs of `ok, err =` has effects before it may fail
  | scopeLeak                -- path assignment to a variable that is not in scope but that a block left alive
  | callDropsReturns         -- the argument of `exists({…}.a)` may itself `return` (dropped: D_call_typing)
  | constSignedZero          -- `Details::merge` keeps a constant that is `==` but not identical
  deriving DecidableEq, Repr

def Chk.name : Chk → String
  | .nan => "nan"
  | .outOfModel => "out_of_model"
  | .structural => "structural"
  | .ctorPoststate => "D_ctor_poststate"
  | .kindUnion => "D_kind_operation"
  | .kindAt => "D_kind_operation"
  | .negIndex => "D_negative_index_kind"
  | .kindInsert => "D_kind_operation"
  | .kindMerge => "D_kind_operation"
  | .kindRemove => "D_del_typing"
  | .delTyping => "D_del_typing"
  | .shortCircuitVar => "D_short_circuit_defines_var"
  | .errPartialEffects => "D_err_partial_effects"
  | .scopeLeak => "D_scope_leak"
  | .callDropsReturns => "D_call_typing"
  | .constSignedZero => "D_const_signed_zero"

/-- naming priority of a failed check (driver): the most specific typing quirk first, the generic
    `Kind`-operation conditions last -/
def Chk.priority : Chk → Nat
  | .delTyping | .kindRemove => 0
  | .negIndex => 1
  | .errPartialEffects => 2
  | .shortCircuitVar => 3
  | .callDropsReturns => 6
  | .scopeLeak => 7
  | .constSignedZero => 8
  | .ctorPoststate => 9
  | .kindMerge => 10
  | .kindInsert => 11
  | .kindAt => 12
  | .kindUnion => 13
  | .structural => 14
  | .outOfModel => 15
  | .nan => 16

/-- the failed check with the highest naming priority -/
def pickClass (l : List Chk) : Option Chk :=
  l.foldl (fun best c =>
    if c == .nan then best
    else match best with
      | none => some c
      | some b => if c.priority < b.priority then some c else some b) none

/-- can a failure of this side condition leave a variable / the event / the metadata outside its
    reported kind (as opposed to only mis-reporting a result, `returns` or fallibility)? -/
def Chk.corruptsState : Chk → Bool
  | .delTyping | .kindRemove | .negIndex | .errPartialEffects | .shortCircuitVar
  | .scopeLeak | .kindInsert | .kindMerge | .kindUnion | .kindAt => true
  | _ => false

/-- naming for a failure of the final event / metadata: a state-corrupting side condition if one
    failed, any otherwise -/
def pickStateClass (l : List Chk) : Option Chk :=
  match pickClass (l.filter Chk.corruptsState) with
  | some c => some c
  | none => pickClass l

/-- `[c]` when the condition fails -/
def chk (c : Chk) (ok : Bool) : List Chk := if ok then [] else [c]

/-- the hypotheses of `C19.mem_union_left/right` -/
def unionOk (A B : Kind) : Bool :=
  A.SortedK && B.SortedK && !A.hasNonAnyInf && !B.hasNonAnyInf

/-- the hypotheses of `C19.at_sound_class` -/
def atOk (K : Kind) (p : Path) : Bool :=
  K.SortedK && decide (C19.atClass K p = .none)

/-- the kind-dependent hypotheses of `C19.insert_sound_partial` -/
def insertClassOk (K : Kind) (p : Path) : Bool :=
  !C19.anyOnInsertPath C19.optionalIdx K p && !C19.anyOnInsertPath C19.unionAltReq K p

/-- the hypotheses of `C19.insert_sound_partial` -/
def insertOk (K : Kind) (p : Path) : Bool := Spec.nonNegPath p && insertClassOk K p

/-- the two checks of an insertion -/
def insertChecks (K : Kind) (p : Path) : List Chk :=
  chk .negIndex (Spec.nonNegPath p) ++ chk .kindInsert (insertClassOk K p)

/-- the hypotheses of `C19.merge_sound_partial` -/
def mergeOk (A B : Kind) : Bool :=
  A.SortedK && B.SortedK && decide (C19.mergeClass A B = .none)

/-- `Details::merge` of two variables -/
def detailsMergeChecks (a b : Details) : List Chk :=
  chk .kindUnion (unionOk a.td.kind b.td.kind) ++
  chk .constSignedZero (!optValueEq a.value b.value || decide (a.value = b.value))

/-- `TypeState::merge`, as used for the two branches of a conditional or for an operand that may or
    may not run: both states must have the same variables. -/
def mergeChecks (a b : TState) : List Chk :=
  chk .shortCircuitVar (b.locals.all fun (n, _) => (a.getVar n).isSome) ++
  chk .structural (a.locals.all fun (n, _) => (b.getVar n).isSome) ++
  (a.locals.flatMap fun (n, d) =>
    match b.getVar n with
    | some od => detailsMergeChecks d od
    | none => []) ++
  chk .kindUnion (unionOk a.target b.target) ++
  chk .kindUnion (unionOk a.metadata b.metadata)

mutual
  /-- no assignment, `del`, `abort`, `return`, block, conditional or call: evaluating the expression
      changes neither variables nor target, and its `type_info` leaves a conforming state conforming. -/
  def effectFree : Expr → Bool
    | .lit _ | .noop | .var _ | .qvar _ _ | .qext _ _ | .existsExt _ _ | .existsVar _ _ => true
    | .grp e | .not e | .qexpr e _ | .existsExpr e _ => effectFree e
    | .arr es => effectFreeS es
    | .obj kvs => effectFreeK kvs
    | .op _ l r => effectFree l && effectFree r
    | _ => false
  def effectFreeS : Exprs → Bool
    | .nil => true
    | .cons e es => effectFree e && effectFreeS es
  def effectFreeK : KExprs → Bool
    | .nil => true
    | .cons _ e kes => effectFree e && effectFreeK kes
end

def isArith : Opcode → Bool
  | .add | .sub | .mul | .div => true
  | _ => false

def keysSorted : KExprs → Bool
  | .nil => true
  | .cons _ _ .nil => true
  | .cons k e (.cons k' e' kes) => Key.lt k k' && keysSorted (.cons k' e' kes)

def isContainerLit : Value → Bool
  | .arr _ | .obj _ => true
  | _ => false

/-- `Target::insert_type_def` -/
def tgtChecks (t : Tgt) (T : TState) : List Chk :=
  match t with
  | .noop => []
  | .internal n p =>
    (match T.getVar n with
     | none =>
       -- a path assignment creates the variable — unless a block left one of that name alive
       if p.isEmpty then [] else chk .scopeLeak (!T.leaked.contains n) ++ insertChecks Kind.undefined p
     | some d => insertChecks d.td.kind p)
  | .external m p => insertChecks (T.extKind m) p

/-- `Op::type_info` (same arguments as `opInfo`) -/
def opChecks (o : Opcode) (l : TypeDef) (lv : Option Value) (T1 : TState) (r : TypeDef) (Tr : TState) :
    List Chk :=
  let lu := l.upgradeUndefined
  match o with
  | .err =>
    chk .kindUnion (unionOk l.kind r.kind) ++ chk .kindUnion (unionOk l.returns r.returns) ++
      mergeChecks T1 Tr
  | .or =>
    if lu.kind.isNull || optValueEq lv (some (.bool false)) then
      chk .kindUnion (unionOk Kind.never r.kind) ++ chk .kindUnion (unionOk l.returns r.returns)
    else if !(lu.kind.containsNull || lu.kind.containsBoolean) || optValueEq lv (some (.bool true)) then []
    else
      chk .kindUnion (unionOk lu.kind.withoutNull r.kind) ++
        chk .kindUnion (unionOk l.returns r.returns) ++ mergeChecks T1 Tr
  | .merge =>
    chk .structural (l.kind.isObject && r.kind.isObject) ++ chk .kindMerge (mergeOk l.kind r.kind) ++
      chk .kindUnion (unionOk l.returns r.returns)
  | .and =>
    if l.kind.isNull || optValueEq lv (some (.bool false)) then []
    else if optValueEq lv (some (.bool true)) then chk .kindUnion (unionOk l.returns r.returns)
    else
      chk .kindUnion (unionOk l.returns r.returns) ++ mergeChecks T1 Tr
  | .div => chk .kindUnion (unionOk l.returns r.returns) ++ chk .nan false
  | _ =>
    chk .kindUnion (unionOk l.returns r.returns) ++
      chk .nan (!(isArith o && (arithDef o l r false).kind.prim.float))

/-- the paths at which `Kind::remove` is proved sound: the root (C19.remove_root_sound) and a single
    field of an exact object kind with key-sorted maps whose `Infinite` unknowns are all `any`
    (VrlProofs/Lemmas/KindRemoveField.lean). Deeper paths, indices and kinds with alternatives are in
    the witnessed C19 classes `D_remove_*` / `D_compact_*`. -/
def delPathOk (K : Kind) (p : Path) : Bool :=
  match p with
  | [] => true
  | [.field _] => K.isObject && K.SortedK && !K.hasNonAnyInf
  | _ => false

/-- the checks of the type-level removal from a variable (`DelFn::type_info`) -/
def delVarChecks (T : TState) (n : String) (p : Path) (compact : Option Bool) : List Chk :=
  match T.getVar n with
  | none => []
  | some d =>
    chk .kindRemove (delPathOk d.td.kind p) ++ chk .kindAt (atOk d.td.kind p) ++
    (match compact with
     | some _ => []
     | none =>
       chk .kindUnion (unionOk (removeTd d.td p false).kind (removeTd d.td p true).kind) ++
       chk .kindUnion (unionOk T.target T.target) ++ chk .kindUnion (unionOk T.metadata T.metadata))

/-- a `compact` flag the compiler does not know: both results are merged -/
def delUnionChecks (T : TState) (isMeta : Bool) (p : Path) (compact : Option Bool) : List Chk :=
  match compact with
  | some _ => []
  | none =>
    chk .kindUnion (unionOk (deleteExt T isMeta p false).target (deleteExt T isMeta p true).target) ++
    chk .kindUnion (unionOk (deleteExt T isMeta p false).metadata (deleteExt T isMeta p true).metadata)

/-- the external environment after `del` on an external path -/
def delExtChecks (T : TState) (isMeta : Bool) (p : Path) (compact : Option Bool) : List Chk :=
  chk .kindRemove (delPathOk (T.extKind isMeta) p) ++ chk .kindAt (atOk (T.extKind isMeta) p) ++
    delUnionChecks T isMeta p compact

mutual
  /-- the failed side conditions of `typeInfo e T` (same traversal, same states) -/
  def checks : Expr → TState → List Chk
    | .lit v, _ => chk .structural (!isContainerLit v)
    | .noop, _ => []
    | .grp e, T => checks e T
    | .blk es, T =>
      checksSeq es T {} ++
        chk .structural (T.locals.all fun (n, _) => ((typeSeq es T {}).2.getVar n).isSome)
    | .arr es, T => checksArr es T {}
    | .obj kvs, T => chk .structural (keysSorted kvs) ++ checksObj kvs T {}
    | .ifte pred thn hasElse els, T =>
      let p := typeSeq pred T {}
      let t := typeSeq thn p.2 {}
      let ifT : TState := scopedState p.2.locals t.2
      let e := typeSeq els p.2 {}
      let elT : TState := scopedState p.2.locals e.2
      checksSeq pred T {} ++ chk .structural (p.1.finish.kind.isBoolean && !p.1.finish.fallible) ++
      checksSeq thn p.2 {} ++
      chk .structural (p.2.locals.all fun (n, _) => (t.2.getVar n).isSome) ++
      (if hasElse then
        checksSeq els p.2 {} ++
        chk .structural (p.2.locals.all fun (n, _) => (e.2.getVar n).isSome) ++
        chk .kindUnion (unionOk t.1.finish.kind e.1.finish.kind) ++
        chk .kindUnion (unionOk t.1.finish.returns e.1.finish.returns) ++
        chk .kindUnion (unionOk (t.1.finish.returns.union e.1.finish.returns) p.1.finish.returns) ++
        mergeChecks ifT elT
      else
        chk .kindUnion (unionOk t.1.finish.returns p.1.finish.returns) ++
        mergeChecks ifT p.2)
    | .op o l r, T =>
      let a := typeInfo l T
      let b := typeInfo r a.2
      checks l T ++
      (if o == .err then chk .errPartialEffects (effectFree l) else []) ++
      checks r a.2 ++
      opChecks o a.1 (constOf l T) a.2 b.1 b.2
    | .asg t e, T => checks e T ++ tgtChecks t (typeInfo e T).2
    | .iasg okT errT e dflt, T =>
      let a := typeInfo e T
      let okType := (a.1.union (TypeDef.ofKind dflt.kindOf)).infallible
      let T1 := okT.insertTypeDef a.2 okType (constOf e a.2)
      checks e T ++ chk .errPartialEffects (effectFree e) ++ chk .structural dflt.Sorted ++
      chk .kindUnion (unionOk a.1.kind dflt.kindOf) ++
      tgtChecks okT a.2 ++ tgtChecks errT T1
    | .qext m p, T => chk .kindAt (atOk (T.extKind m) p)
    | .qvar n p, T =>
      chk .structural (T.getVar n).isSome ++ chk .kindAt (atOk (varDef T n).kind p)
    | .qexpr e p, T => checks e T ++ chk .kindAt (atOk (typeInfo e T).1.kind p)
    | .var n, T => chk .structural (T.getVar n).isSome
    | .not e, T => checks e T ++ chk .structural (typeInfo e T).1.kind.isBoolean
    | .abort hasMsg msg, T =>
      if hasMsg then
        checks msg T ++
        chk .ctorPoststate ((typeInfo msg T).1.kind.isBytes && !(typeInfo msg T).1.fallible)
      else []
    | .ret e, T =>
      checks e T ++ chk .ctorPoststate (!(typeInfo e T).1.fallible) ++
      chk .kindUnion (unionOk (typeInfo e T).1.kind (typeInfo e T).1.returns)
    | .delExt m p hasC c, T =>
      let cT := typeInfo c T
      let T2 := if hasC then cT.2 else T
      let compact := if hasC then (constOf c T2).bind asBoolean else none
      (if hasC then checks c T ++ chk .ctorPoststate (!cT.1.fallible && cT.1.returns.isNever) else []) ++
      delExtChecks T2 m p compact
    | .delVar n p hasC c, T =>
      let cT := typeInfo c T
      let T2 := if hasC then cT.2 else T
      let compact := if hasC then (constOf c T2).bind asBoolean else none
      (if hasC then checks c T ++ chk .ctorPoststate (!cT.1.fallible && cT.1.returns.isNever) else []) ++
      chk .structural (T2.getVar n).isSome ++ delVarChecks T2 n p compact
    | .delExpr _ _ _ _, _ => [.delTyping]
    | .existsExt _ _, _ => []
    | .existsVar _ _, _ => []
    | .existsExpr e _, T =>
      -- function-call arguments must be infallible; `FunctionCall::type_info` drops their `returns`
      checks e T ++ chk .ctorPoststate (!(typeInfo e T).1.fallible) ++
        chk .callDropsReturns ((typeInfo e T).1.returns.isNever)
    | .call _ _ _ _ _ _ _, _ => [.outOfModel]

  def checksSeq : Exprs → TState → BlockAcc → List Chk
    | .nil, _, _ => []
    | .cons e es, T, acc =>
      let a := typeInfo e T
      checks e T ++ chk .kindUnion (unionOk acc.returns a.1.returns) ++
        checksSeq es a.2 (acc.step a.1)

  /-- array elements: an element that may `return` is outside the theorem (the fold of `returns` in
      `Array::type_info` is not followed) -/
  def checksArr : Exprs → TState → ArrAcc → List Chk
    | .nil, _, _ => []
    | .cons e es, T, acc =>
      let a := typeInfo e T
      checks e T ++ chk .kindUnion a.1.returns.isNever ++
        checksArr es a.2 (acc.step a.1.upgradeUndefined)

  def checksObj : KExprs → TState → ObjAcc → List Chk
    | .nil, _, _ => []
    | .cons k e kes, T, acc =>
      let a := typeInfo e T
      checks e T ++ chk .kindUnion a.1.returns.isNever ++
        checksObj kes a.2 (acc.step k a.1.upgradeUndefined)
end

/-- no failed side condition (`Chk.nan` is a marker, not a failure) -/
def safe (e : Expr) (T : TState) : Bool := (checks e T).all (· == .nan)

def safeSeq (es : Exprs) (T : TState) : Bool := (checksSeq es T {}).all (· == .nan)

/-- no float arithmetic on the way -/
def nanFree (e : Expr) (T : TState) : Bool := !(checks e T).contains .nan

def nanFreeSeq (es : Exprs) (T : TState) : Bool := !(checksSeq es T {}).contains .nan

/-- the failed checks of each root expression of a program, in order (driver: the class of an oracle
    failure observed at root `i` is the first failed check of roots `0..i`) -/
def rootChecks : Exprs → TState → List (List Chk)
  | .nil, _ => []
  | .cons e es, T => checks e T :: rootChecks es (typeInfo e T).2

end Lang
