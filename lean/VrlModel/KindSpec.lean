/-
  VrlModel.KindSpec — `Kind::from(&Value)` (model) and the Spec: membership `v ∈ₖ K`
  (DESIGN §7 preamble), defined by structural recursion on the VALUE and independently of the
  operations of KindOps/KindCrud.
-/
import VrlModel.KindCrud

/-! ### `impl From<&Value> for Kind` -/
mutual
  def Value.kindOf : Value → Kind
    | .null => Kind.null
    | .bool _ => Kind.boolean
    | .int _ => Kind.integer
    | .float _ => Kind.float
    | .bytes _ => Kind.bytes
    | .ts _ => Kind.timestamp
    | .regex _ => Kind.regex
    | .arr xs => Kind.ofArray (Col.ofKnown (VList.kindsFrom xs 0))
    | .obj m => Kind.ofObject (Col.ofKnown (VMap.kinds m))
  /-- `array.iter().enumerate().map(|(i, v)| (i.into(), v.into()))` starting at index `i`. -/
  def VList.kindsFrom : VList → Nat → KList
    | .nil, _ => .nil
    | .cons v vs, i => .cons (Key.ofIdx i) (Value.kindOf v) (VList.kindsFrom vs (i + 1))
  def VMap.kinds : VMap → KList
    | .nil => .nil
    | .cons k v m => .cons k (Value.kindOf v) (VMap.kinds m)
end

/-! ### Spec: membership -/
namespace Spec

/-- meaning of an `Infinite` unknown: the kind with these states whose collections again admit
    exactly these states, ad infinitum (one unfolding; `mem` unfolds it again at the next level). -/
def infKind (i : Inf) : Kind :=
  .mk ⟨i.bytes, i.integer, i.float, i.boolean, i.timestamp, i.regex, i.null, false⟩
    (if i.array then .some (.mk .nil (.infinite i)) else .none)
    (if i.object then .some (.mk .nil (.infinite i)) else .none)

/-- the kind an element at an unknown position must belong to. -/
def unknownElemKind : Unknown → Kind
  | .exact k => k
  | .infinite i => infKind i

/-- the kind the element at `key` must belong to. -/
def slotKind (c : Col) (key : Key) : Kind :=
  match c.known.get key with
  | some k => k
  | none => unknownElemKind c.unknown

/-- may the element at a *known* key be absent? -/
def admitsUndefined (k : Kind) : Bool := k.prim.undefined

/-- the kind recorded for a known key (the first entry with that key, as `get`). -/
def knownKind (kn : KList) (k : Key) : Kind := (kn.get k).getD Kind.never

/-- every known index `≥ len` admits `undefined`. -/
def absentIdxOk (len : Nat) (kn : KList) : Bool :=
  kn.keys.all fun k => decide (k.idx < len) || admitsUndefined (knownKind kn k)

/-- every known field that `m` lacks admits `undefined`. -/
def absentKeysOk (m : VMap) (kn : KList) : Bool :=
  kn.keys.all fun k => (m.get k).isSome || admitsUndefined (knownKind kn k)

/-- the array / object collection of a kind (a default when the state is absent). -/
def arrayD (k : Kind) : Col := k.array.getD default
def objectD (k : Kind) : Col := k.object.getD default

mutual
  /-- `v ∈ₖ K` -/
  def mem : Value → Kind → Bool
    | .null, k => k.prim.null
    | .bool _, k => k.prim.boolean
    | .int _, k => k.prim.integer
    | .float _, k => k.prim.float
    | .bytes _, k => k.prim.bytes
    | .ts _, k => k.prim.timestamp
    | .regex _, k => k.prim.regex
    | .arr xs, k =>
      k.hasArr && memList xs 0 (arrayD k) && absentIdxOk (VList.length xs) (arrayD k).known
    | .obj m, k =>
      k.hasObj && memMap m (objectD k) && absentKeysOk m (objectD k).known
  /-- the elements of `xs`, which sit at indices `i, i+1, …`, belong to their slots of `c`. -/
  def memList : VList → Nat → Col → Bool
    | .nil, _, _ => true
    | .cons x xs, i, c => mem x (slotKind c (Key.ofIdx i)) && memList xs (i + 1) c
  /-- the fields of `m` belong to their slots of `c`. -/
  def memMap : VMap → Col → Bool
    | .nil, _ => true
    | .cons k x m, c => mem x (slotKind c k) && memMap m c
end

/-- result membership `v ∈ᵣ K`: reading an absent location yields `null` while the kind says
    `undefined`. -/
def memR (v : Value) (k : Kind) : Bool := mem v k || (v == .null && k.prim.undefined)

/-- membership of an optional value (`none` = location absent) in the kind of a location. -/
def memOpt : Option Value → Kind → Bool
  | some v, k => mem v k
  | none, k => k.prim.undefined

end Spec
