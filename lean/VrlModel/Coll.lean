/-
  VrlModel.Coll — the collection functions of C28
  (src/stdlib/{slice,unique,compact,keys,values,length,merge}.rs and `util::is_nullish`).

  Objects are `VMap`s (key-sorted association lists = `BTreeMap` iteration order), arrays `VList`s.
  Every argument type check is modelled (`err`); none of these functions can panic.
-/
import VrlModel.Value
import VrlModel.Str.Fns

namespace Coll
open Str (R)

/-! ### conversions between `VList` and `List Value` -/

def toList : VList → List Value
  | .nil => []
  | .cons v vs => v :: toList vs

def ofList : List Value → VList
  | [] => .nil
  | v :: vs => .cons v (ofList vs)

/-! ### slice -/

/-- the closure `range` of slice.rs: `none` = error. `len`, `start`, `end` are `i64`; no overflow is
    possible (`start + len` is only computed for negative `start`). -/
def sliceRange (start : Int) (end_ : Option Int) (len : Nat) : Option (Nat × Nat) :=
  let l : Int := len
  let s := if start < 0 then start + l else start
  let e := match end_ with
    | some e => if e < 0 then e + l else e
    | none => l
  if s < 0 ∨ s > l then none
  else if e < s then none
  else if e > l then some (s.toNat, len)
  else some (s.toNat, e.toNat)

def slice (value start : Value) (end_ : Option Value) : R Value :=
  match start with
  | .int s =>
    let e : Option (Option Int) := match end_ with
      | none => some none
      | some (.int e) => some (some e)
      | some _ => none
    match e with
    | none => .err
    | some e =>
      match value with
      | .bytes b =>
        match sliceRange s e b.length with
        | some (i, j) => .ok (.bytes ((b.drop i).take (j - i)))
        | none => .err
      | .arr xs =>
        match sliceRange s e xs.length with
        | some (i, j) => .ok (.arr (ofList (((toList xs).drop i).take (j - i))))
        | none => .err
      | _ => .err
  | _ => .err

/-! ### unique : `IndexSet<Value>` keeps the first of equal values, in insertion order.
    Equality is the derived `PartialEq` of `Value`; floats are `NotNan<f64>`, whose equality (and
    hash) identify `0.0` and `-0.0`; two regexes are equal when their sources are. -/

mutual
  /-- canonical representative of a value under `PartialEq`: `-0.0` becomes `0.0`
      (`NotNan<f64>` compares the numbers; NaN does not occur). -/
  def norm : Value → Value
    | .float b => .float (if b % 9223372036854775808 = 0 then 0 else b)
    | .arr xs => .arr (normList xs)
    | .obj m => .obj (normMap m)
    | v => v
  def normList : VList → VList
    | .nil => .nil
    | .cons v vs => .cons (norm v) (normList vs)
  def normMap : VMap → VMap
    | .nil => .nil
    | .cons k v m => .cons k (norm v) (normMap m)
end

/-- `Value == Value` in Rust (derived `PartialEq`). -/
def veq (a b : Value) : Bool := decide (norm a = norm b)

/-- `seen` = the values kept so far. -/
def uniqueGo (seen : List Value) : List Value → List Value
  | [] => []
  | x :: xs => if seen.any (veq x) then uniqueGo seen xs else x :: uniqueGo (x :: seen) xs

def uniqueL (xs : List Value) : List Value := uniqueGo [] xs

def unique : Value → R Value
  | .arr xs => .ok (.arr (ofList (uniqueL (toList xs))))
  | _ => .err

/-! ### compact -/

structure CompactOptions where
  recursive : Bool := true
  null : Bool := true
  string : Bool := true
  object : Bool := true
  array : Bool := true
  nullish : Bool := false
  deriving DecidableEq, Repr

/-- `util::is_nullish`: null, `""`, `"-"`, or a string (lossily decoded) of whitespace only. -/
def isNullish : Value → Bool
  | .null => true
  | .bytes b => b.isEmpty || b == [45] || (Str.decodeLossy b).all Str.isWhitespace
  | _ => false

/-- `CompactOptions::is_empty`. -/
def isEmpty (o : CompactOptions) (v : Value) : Bool :=
  (o.nullish && isNullish v) ||
  (match v with
   | .bytes b => o.string && b.isEmpty
   | .null => o.null
   | .obj m => o.object && m.isEmpty
   | .arr a => o.array && a.isEmpty
   | _ => false)

mutual
  /-- `recurse_compact`. -/
  def compactValue (o : CompactOptions) : Value → Value
    | .arr xs => if o.recursive then .arr (compactList o xs) else .arr xs
    | .obj m => if o.recursive then .obj (compactMap o m) else .obj m
    | v => v
  /-- `compact_array`. -/
  def compactList (o : CompactOptions) : VList → VList
    | .nil => .nil
    | .cons v vs =>
      if isEmpty o (compactValue o v) then compactList o vs
      else .cons (compactValue o v) (compactList o vs)
  /-- `compact_object`. -/
  def compactMap (o : CompactOptions) : VMap → VMap
    | .nil => .nil
    | .cons k v m =>
      if isEmpty o (compactValue o v) then compactMap o m
      else .cons k (compactValue o v) (compactMap o m)
end

def optBool (d : Bool) : Option Value → Option Bool
  | none => some d
  | some (.bool b) => some b
  | some _ => none

def compact (value : Value) (recursive null string object array nullish : Option Value) : R Value :=
  match optBool true recursive, optBool true null, optBool true string, optBool true object,
        optBool true array, optBool false nullish with
  | some r, some n, some s, some ob, some a, some nl =>
    let o : CompactOptions := ⟨r, n, s, ob, a, nl⟩
    match value with
    | .obj m => .ok (.obj (compactMap o m))
    | .arr xs => .ok (.arr (compactList o xs))
    | _ => .err
  | _, _, _, _, _, _ => .err

/-! ### keys / values / length -/

def keysL : VMap → List (List Nat)
  | .nil => []
  | .cons k _ m => k :: keysL m

def valuesL : VMap → List Value
  | .nil => []
  | .cons _ v m => v :: valuesL m

def keys : Value → R Value
  | .obj m => .ok (.arr (ofList ((keysL m).map Value.bytes)))
  | _ => .err

def values : Value → R Value
  | .obj m => .ok (.arr (ofList (valuesL m)))
  | _ => .err

def length : Value → R Value
  | .arr xs => .ok (.int xs.length)
  | .obj m => .ok (.int m.length)
  | .bytes b => .ok (.int b.length)
  | _ => .err

/-! ### merge : `merge_maps(&mut to, &from, deep)` -/

mutual
  /-- fold over the entries of `from` in key order. -/
  def mergeMaps (deep : Bool) (to : VMap) : VMap → VMap
    | .nil => to
    | .cons k v rest => mergeMaps deep (to.insert k (mergeField deep (to.get k) v)) rest
  /-- what is stored under a key of `from`: the recursively merged object when `deep` and both
      sides hold objects, else `from`'s value. -/
  def mergeField (deep : Bool) (old : Option Value) : Value → Value
    | .obj c2 =>
      match deep, old with
      | true, some (.obj c1) => .obj (mergeMaps deep c1 c2)
      | _, _ => .obj c2
    | v => v
end

def merge (to from_ : Value) (deep : Option Value) : R Value :=
  match to, from_, optBool false deep with
  | .obj a, .obj b, some d => .ok (.obj (mergeMaps d a b))
  | _, _, _ => .err

end Coll
