/-
  VrlModel.KeyValue — model of the key-value / logfmt codec (property C24).

  Encoder  : `src/core/encode_key_value.rs` (`to_string`, `flatten`, `encode_field`, `encode_string`,
             `Data`/`Display for Data`), `src/core/encode_logfmt.rs`, `src/stdlib/encode_key_value.rs`,
             `src/stdlib/encode_logfmt.rs` (`fields_ordering` absent).
  Parser   : `src/stdlib/parse_key_value.rs` (`parse_key_value`, `parse`, `parse_line`,
             `parse_field_delimiter`, `parse_key_value_`, `escape_str`/`escape_char`,
             `parse_delimited`, `parse_undelimited`, `parse_value`, `parse_key`) and
             `src/stdlib/parse_logfmt.rs`.

  Representation: a Rust `&str` is a `List Char` (both sides iterate over `char`s; `take_until`,
  `tag`, `contains` are substring operations and substring search on valid UTF-8 agrees on bytes and
  on chars).  A nom parser `Fn(&str) -> IResult<&str, O>` is a function
  `List Char → Option (O × List Char)`; only `nom::Err::Error` can arise in this grammar
  (`many_m_n` is always called with `min ≤ max`), so `none` is "recoverable error" and the error
  payload (used only for the message text) is not modelled.  nom combinators are inlined where
  their instance is obviously a plain function:
    `space0`                       = drop the leading `' '`/`'\t'`
    `many0(tag(" "))`              = drop the leading `' '`   (the infinite-loop check cannot fire)
    `many1(tag(" "))`              = at least one `' '`, then drop the leading `' '`
    `opt(escaped(satisfy(c≠'\\'∧c≠q), '\\', take(1)))` = `scanEscaped q`
    `alt((take_until(d), rest))`   = `takeUntil d` or the whole input
  `separated_list1` needs a loop over suffixes returned by sub-parsers; it is written with a fuel
  argument initialised to the input length + 1 (every iteration consumes, otherwise nom itself
  returns an error), so that the function is structurally recursive and evaluates under `decide`.

  Rust `core` primitives used: `char::is_whitespace` (table `isWs` below, Unicode White_Space),
  `str::trim`, `i64`/`bool` `Display`.  UTF-8 decoding of the input bytes
  (`String::from_utf8_lossy`) is a parameter of `flatten` (`dec`).
-/
import VrlModel.Value

namespace KV

/-! ## Rust core primitives -/

/-- `char::is_whitespace` (Unicode `White_Space`). -/
def isWs (c : Char) : Bool :=
  let n := c.toNat
  (9 ≤ n && n ≤ 13) || n == 0x20 || n == 0x85 || n == 0xA0 || n == 0x1680 ||
  (0x2000 ≤ n && n ≤ 0x200A) || n == 0x2028 || n == 0x2029 || n == 0x202F || n == 0x205F ||
  n == 0x3000

/-- `str::trim_start`. -/
def trimStart (s : List Char) : List Char := s.dropWhile isWs
/-- `str::trim_end`. -/
def trimEnd (s : List Char) : List Char := (s.reverse.dropWhile isWs).reverse
/-- `str::trim`. -/
def trim (s : List Char) : List Char := trimEnd (trimStart s)

/-- `s.starts_with(t)`, returning the remainder (nom `tag(t)`). -/
def tag : List Char → List Char → Option (List Char)
  | [], s => some s
  | _ :: _, [] => none
  | a :: t, b :: s => if a = b then tag t s else none

/-- `s.contains(t)` for a pattern string. -/
def containsStr (t : List Char) : List Char → Bool
  | [] => (tag t []).isSome
  | c :: s => (tag t (c :: s)).isSome || containsStr t s

/-- `s.ends_with(t)`. -/
def endsWith (s t : List Char) : Bool := (tag t.reverse s.reverse).isSome

/-! ## Encoder (`core/encode_key_value.rs`) -/

/-- `Data`: what `KeyValueSerializer` stores per flattened key (the variants reachable from a
    `vrl::Value`; `F64` is outside the model). -/
inductive Data where
  | none
  | bool (b : Bool)
  | int (i : Int)
  | str (s : List Char)
  deriving DecidableEq, Repr

/-- `impl Display for Data`. -/
def Data.text : Data → List Char
  | .none => "null".toList
  | .bool true => "true".toList
  | .bool false => "false".toList
  | .int i => (toString i).toList
  | .str s => s

/-- the test `needs_quoting` of `encode_string`. -/
def needsQuoting (s : List Char) : Bool := s.any fun c => isWs c || c == '"' || c == '='

/-- one iteration of the `for c in str.chars()` loop of `encode_string`
    (`r"\\n"` is the three characters backslash, backslash, `n`). -/
def escChar (c : Char) : List Char :=
  if c = '\\' then ['\\', '\\']
  else if c = '"' then ['\\', '"']
  else if c = '\n' then ['\\', '\\', 'n']
  else [c]

def escBody : List Char → List Char
  | [] => []
  | c :: s => escChar c ++ escBody s

/-- `encode_string` (appending to an empty output). -/
def encodeString (s : List Char) : List Char :=
  if needsQuoting s then '"' :: (escBody s ++ ['"']) else escBody s

/-- `encode_field`. -/
def encodeField (kd : List Char) (k v : List Char) : List Char :=
  encodeString k ++ kd ++ encodeString v

/-- the second loop of `to_string` (`for (key, value) in &input`), `fields_order` empty. -/
def encodeLoop (kd fd : List Char) (flattenBool : Bool) : List (List Char × Data) → List Char
  | [] => []
  | (k, v) :: rest =>
    (match v, flattenBool with
     | .bool false, true => []
     | .bool true, true => encodeString k ++ fd
     | v, _ => encodeField kd k v.text ++ fd) ++ encodeLoop kd fd flattenBool rest

/-- `to_string` on an already flattened map (list in key order), `fields_order = []`:
    the loop, then `if output.ends_with(field_delimiter) { truncate }`. -/
def encodeFlat (kd fd : List Char) (flattenBool : Bool) (m : List (List Char × Data)) : List Char :=
  let out := encodeLoop kd fd flattenBool m
  if endsWith out fd then out.take (out.length - fd.length) else out

/-- strict lexicographic order on `str` (= code point order = UTF-8 byte order). -/
def strLt : List Char → List Char → Bool
  | [], [] => false
  | [], _ :: _ => true
  | _ :: _, [] => false
  | a :: as, b :: bs => if a.toNat < b.toNat then true else if a = b then strLt as bs else false

/-- `BTreeMap::insert` on a key-sorted association list (overwrites). -/
def mapInsert {α : Type} (k : List Char) (v : α) : List (List Char × α) → List (List Char × α)
  | [] => [(k, v)]
  | (k', v') :: m =>
    if k = k' then (k, v) :: m
    else if strLt k k' then (k, v) :: (k', v') :: m
    else (k', v') :: mapInsert k v m

/-- `flatten`: serialising a `vrl::Value` through `KeyValueSerializer` (`descend`/`child` join
    with `.`; sequences use the decimal index; maps the key).  `dec` is UTF-8 decoding of a byte
    string (`from_utf8_lossy`; the driver supplies strict decoding and the model answers "outside
    the model" for invalid UTF-8, floats and timestamps). -/
abbrev FMap := List (List Char × Data)

mutual
  def flattenV (dec : List Nat → Option (List Char)) (key : List Char) :
      Value → FMap → Option FMap
    | .null, m => some (mapInsert key .none m)
    | .bool b, m => some (mapInsert key (.bool b) m)
    | .int i, m => some (mapInsert key (.int i) m)
    | .float _, _ => none
    | .bytes b, m => (dec b).map fun s => mapInsert key (.str s) m
    | .ts _, _ => none
    | .regex b, m => (dec b).map fun s => mapInsert key (.str s) m
    | .arr xs, m => flattenL dec key 0 xs m
    | .obj o, m => flattenM dec key o m
  def flattenL (dec : List Nat → Option (List Char)) (key : List Char) (idx : Nat) :
      VList → FMap → Option FMap
    | .nil, m => some m
    | .cons v vs, m =>
      match flattenV dec (key ++ '.' :: (toString idx).toList) v m with
      | some m' => flattenL dec key (idx + 1) vs m'
      | none => none
  def flattenM (dec : List Nat → Option (List Char)) (key : List Char) :
      VMap → FMap → Option FMap
    | .nil, m => some m
    | .cons k v o, m =>
      match dec k with
      | some ks =>
        match flattenV dec (key ++ '.' :: ks) v m with
        | some m' => flattenM dec key o m'
        | none => none
      | none => none
end

/-- the top-level `flatten(input, '.')`: every entry of the object starts a serializer at its key. -/
def flattenTop (dec : List Nat → Option (List Char)) : VMap → FMap → Option FMap
  | .nil, m => some m
  | .cons k v o, m =>
    match dec k with
    | some ks =>
      match flattenV dec ks v m with
      | some m' => flattenTop dec o m'
      | none => none
    | none => none

/-- `encode_key_value(value, key_value_delimiter:, field_delimiter:, flatten_boolean:)`; `none` =
    outside the model. -/
def encodeValue (dec : List Nat → Option (List Char)) (kd fd : List Char) (flattenBool : Bool)
    (o : VMap) : Option (List Char) :=
  (flattenTop dec o []).map (encodeFlat kd fd flattenBool)

/-- The encoder restricted to the objects the property talks about: a flat object with string
    values, given as its entries in key order. -/
def strFields (o : List (List Char × List Char)) : List (List Char × Data) :=
  o.map fun kv => (kv.1, Data.str kv.2)

def encodeKV (kd fd : List Char) (o : List (List Char × List Char)) : List Char :=
  encodeFlat kd fd false (strFields o)

/-- `encode_logfmt`: `=`, space, `flatten_boolean = true`. -/
def encodeLogfmt (o : List (List Char × List Char)) : List Char :=
  encodeFlat ['='] [' '] true (strFields o)

/-! ## Parser (`stdlib/parse_key_value.rs`) -/

inductive Whitespace where
  | strict
  | lenient
  deriving DecidableEq, Repr

structure Cfg where
  kd : List Char            -- key_value_delimiter
  fd : List Char            -- field_delimiter
  ws : Whitespace
  standalone : Bool         -- accept_standalone_key
  deriving Repr

/-- nom `space0` on `&str`: spaces and tabs. -/
def space0 (s : List Char) : List Char := s.dropWhile fun c => c == ' ' || c == '\t'

def dropSpaces (s : List Char) : List Char := s.dropWhile fun c => c == ' '

/-- `parse_field_delimiter`. -/
def parseFieldDelim (fd : List Char) (s : List Char) : Option (List Char) :=
  if fd = [' '] then
    match s with
    | c :: r => if c = ' ' then some (dropSpaces r) else none
    | [] => none
  else tag fd (dropSpaces s)

/-- `escape_str` / `escape_char`. -/
def unescapeLoop : List Char → List Char
  | [] => []
  | [c] => [c]
  | c :: e :: r =>
    if c = '\\' then
      if e = 'n' then '\n' :: unescapeLoop r
      else if e = '\\' then '\\' :: unescapeLoop r
      else if e = '"' then '"' :: unescapeLoop r
      else c :: unescapeLoop (e :: r)
    else c :: unescapeLoop (e :: r)

def escapeStr (s : List Char) : List Char :=
  if s.contains '\\' then unescapeLoop s else s

/-- `opt(escaped(satisfy(|c| c != '\\' && c != q), '\\', take(1usize)))` followed by the check that
    something is left: returns the recognised span and the rest.  `escaped` ends successfully at the
    first unescaped `q` (also at offset 0, via `opt`), or at the end of input ("all consumed", rest
    `[]`, after which `char(q)` fails); a backslash as the last character is an `Escaped` error
    (`opt` then yields the empty span and `char(q)` fails on the unchanged input: `none` here). -/
def scanEscaped (q : Char) : List Char → Option (List Char × List Char)
  | [] => some ([], [])
  | [c] => if c = '\\' then none else if c = q then some ([], [c]) else some ([c], [])
  | c :: e :: r =>
    if c = '\\' then (scanEscaped q r).map fun p => (c :: e :: p.1, p.2)
    else if c = q then some ([], c :: e :: r)
    else (scanEscaped q (e :: r)).map fun p => (c :: p.1, p.2)

/-- `parse_delimited(q, field_terminator)`. -/
def parseDelimited (q : Char) (term : List Char) (s : List Char) :
    Option (List Char × List Char) :=
  match s with
  | [] => none
  | c :: cs =>
    if c = q then
      match scanEscaped q cs with
      | some (inner, c2 :: rest) =>
        if c2 = q then
          -- peek(alt((parse_field_delimiter(term), preceded(space0, eof))))
          if (parseFieldDelim term rest).isSome || (space0 rest).isEmpty then
            some (escapeStr inner, rest)
          else none
        else none
      | _ => none
    else none

/-- nom `take_until(pat)`. -/
def takeUntil (pat : List Char) : List Char → Option (List Char × List Char)
  | [] => if (tag pat []).isSome then some ([], []) else none
  | c :: s =>
    if (tag pat (c :: s)).isSome then some ([], c :: s)
    else (takeUntil pat s).map fun p => (c :: p.1, p.2)

/-- `parse_undelimited(d)`: never fails. -/
def parseUndelimited (d : List Char) (s : List Char) : List Char × List Char :=
  match takeUntil d s with
  | some (a, r) => (trim a, r)
  | none => (trim s, [])

def orElse {α : Type} (a : Option α) (b : Unit → Option α) : Option α :=
  match a with
  | some x => some x
  | none => b ()

/-- `parse_value(field_delimiter)`: never fails. -/
def parseValue (fd : List Char) (s : List Char) : List Char × List Char :=
  match parseDelimited '\'' fd s with
  | some r => r
  | none =>
    match parseDelimited '"' fd s with
    | some r => r
    | none => parseUndelimited fd s

/-- the `alt` inside `parse_key`. -/
def parseKeyAlt (kd fd : List Char) (standalone : Bool) (s : List Char) :
    Option (List Char × List Char) :=
  if standalone then
    orElse (parseDelimited '\'' kd s) fun _ =>
    orElse (parseDelimited '\'' fd s) fun _ =>
    orElse (parseDelimited '"' kd s) fun _ =>
    orElse (parseDelimited '"' fd s) fun _ =>
    orElse (let r := parseUndelimited kd s
            if !r.1.isEmpty && !containsStr fd r.1 then some r else none) fun _ =>
    some (parseUndelimited fd s)
  else
    orElse (parseDelimited '\'' kd s) fun _ =>
    orElse (parseDelimited '"' kd s) fun _ =>
    some (parseUndelimited kd s)

/-- `parse_key`: the outer `verify(.., |key| !key.is_empty())`. -/
def parseKey (kd fd : List Char) (standalone : Bool) (s : List Char) :
    Option (List Char × List Char) :=
  match parseKeyAlt kd fd standalone s with
  | some (k, r) => if k.isEmpty then none else some (k, r)
  | none => none

/-- the separator parser inside `many_m_n`: `tag(kd)` or `delimited(space0, tag(kd), space0)`. -/
def parseSep (c : Cfg) (s : List Char) : Option (List Char) :=
  match c.ws with
  | .strict => tag c.kd s
  | .lenient => (tag c.kd (space0 s)).map space0

/-- `many_m_n(usize::from(!standalone_key), 1, sep)`: number of separators parsed (0 or 1). -/
def parseSepOpt (c : Cfg) (s : List Char) : Option (Nat × List Char) :=
  match parseSep c s with
  | some r => if r.length = s.length then none else some (1, r)
  | none => if c.standalone then some (0, s) else none

/-- a parsed value: a string, or `true` for a standalone key. -/
inductive PVal where
  | str (s : List Char)
  | tru
  deriving DecidableEq, Repr

/-- `parse_key_value_`. -/
def parseKeyValue (c : Cfg) (s : List Char) : Option ((List Char × PVal) × List Char) :=
  match parseKey c.kd c.fd c.standalone (space0 s) with
  | none => none
  | some (k, r1) =>
    match parseSepOpt c r1 with
    | none => none
    | some (n, r2) =>
      let vr := parseValue c.fd r2
      some ((k, if n = 1 then .str vr.1 else .tru), vr.2)

/-- the loop of nom's `separated_list1` (after the first element). -/
def sepLoop (c : Cfg) : Nat → List Char → Option (List (List Char × PVal) × List Char)
  | 0, i => some ([], i)
  | fuel + 1, i =>
    match parseFieldDelim c.fd i with
    | none => some ([], i)
    | some i1 =>
      match parseKeyValue c i1 with
      | none => some ([], i)
      | some (o, i2) =>
        if i2.length = i.length then none
        else (sepLoop c fuel i2).map fun p => (o :: p.1, p.2)

/-- `parse_line` = `separated_list1(parse_field_delimiter(fd), parse_key_value_(..))`. -/
def parseLine (c : Cfg) (s : List Char) : Option (List (List Char × PVal) × List Char) :=
  match parseKeyValue c s with
  | none => none
  | some (o, i) => (sepLoop c (i.length + 1) i).map fun p => (o :: p.1, p.2)

/-- `parse`: the pairs in line order, or an error. -/
def parsePairs (c : Cfg) (s : List Char) : Option (List (List Char × PVal)) :=
  match parseLine c s with
  | none => none
  | some (res, rest) => if (trim rest).isEmpty then some res else none

/-- a value of the resulting object. -/
inductive KVal where
  | str (s : List Char)
  | tru
  | arr (xs : List (List Char))
  deriving DecidableEq, Repr

/-- the `Entry::Occupied` arm of the grouping loop in `parse_key_value`. -/
def mergeVal (existing : KVal) (v : PVal) : KVal :=
  match v with
  | .tru => existing
  | .str s =>
    match existing with
    | .tru => .str s
    | .arr xs => .arr (xs ++ [s])
    | .str e => .arr [e, s]

def PVal.toK : PVal → KVal
  | .str s => .str s
  | .tru => .tru

/-- `map.entry(key)` on the key-sorted association list. -/
def groupInsert (k : List Char) (v : PVal) : List (List Char × KVal) → List (List Char × KVal)
  | [] => [(k, v.toK)]
  | (k', e) :: m =>
    if k = k' then (k', mergeVal e v) :: m
    else if strLt k k' then (k, v.toK) :: (k', e) :: m
    else (k', e) :: groupInsert k v m

def group (ps : List (List Char × PVal)) : List (List Char × KVal) :=
  ps.foldl (fun m p => groupInsert p.1 p.2 m) []

inductive Res (α : Type) where
  | ok (a : α)
  | err
  deriving DecidableEq, Repr

/-- `parse_key_value(value, key_value_delimiter, field_delimiter, whitespace, accept_standalone_key)`:
    the object as a key-sorted association list. -/
def parseKV (c : Cfg) (s : List Char) : Res (List (List Char × KVal)) :=
  match parsePairs c s with
  | none => .err
  | some ps => .ok (group ps)

/-- default arguments of `parse_key_value` apart from the delimiters. -/
def defaultCfg (kd fd : List Char) : Cfg := { kd := kd, fd := fd, ws := .lenient, standalone := true }

/-- `parse_logfmt`. -/
def logfmtCfg : Cfg := defaultCfg ['='] [' ']

def parseLogfmt (s : List Char) : Res (List (List Char × KVal)) := parseKV logfmtCfg s

/-- what the round trip should return for a flat string object. -/
def expected (o : List (List Char × List Char)) : List (List Char × KVal) :=
  o.map fun kv => (kv.1, KVal.str kv.2)

/-! ## Finding classes of the round trip (used by the oracle and the theorems) -/

/-- strictly increasing keys (every key below all later ones): the entries of a `BTreeMap` in
    iteration order. -/
def keysSorted : List (List Char × List Char) → Bool
  | [] => true
  | a :: r => r.all (fun b => strLt a.1 b.1) && keysSorted r

inductive Class where
  | emptyObject      -- `{}` encodes to "" which does not parse
  | emptyString      -- outside the property (keys/values must be non-empty)
  | backslash        -- unquoted token containing `\`: written doubled, read back verbatim
  | newline          -- newline written as `\\n`, read back as the two characters `\n`
  | leadingQuote     -- unquoted token starting with `'`: may be read as a single-quoted string
  | fieldDelim       -- unquoted token containing the field delimiter
  | keyDelim         -- unquoted key containing the key-value delimiter
  | delimiters       -- key-value delimiter is a space or a tab
  deriving DecidableEq, Repr

def Class.name : Class → String
  | .emptyObject => "D_empty_object"
  | .emptyString => "D_empty_string"
  | .backslash => "D_backslash"
  | .newline => "D_newline"
  | .leadingQuote => "D_leading_quote"
  | .fieldDelim => "D_field_delim"
  | .keyDelim => "D_key_delim"
  | .delimiters => "D_delimiters"

/-- first offending character (class) of an unquoted token; `follow` is the delimiter written right
    after the token (an occurrence of a delimiter may straddle the end of the token). -/
def firstBadUnquoted (kd fd : List Char) (isKey : Bool) : Bool → List Char → Option Class
  | _, [] => none
  | first, c :: r =>
    if c = '\\' then some .backslash
    else if first && c = '\'' then some .leadingQuote
    else if (tag fd (c :: r ++ fd)).isSome then some .fieldDelim
    else if isKey && (tag kd (c :: r ++ kd)).isSome then some .keyDelim
    else firstBadUnquoted kd fd isKey false r

/-- class of a token (key or value) that is not known to round-trip. -/
def tokenClass (kd fd : List Char) (isKey : Bool) (s : List Char) : Option Class :=
  if s.isEmpty then some .emptyString
  else if needsQuoting s then (if s.contains '\n' then some .newline else none)
  else firstBadUnquoted kd fd isKey true s

/-- key-value delimiters the partial theorem covers: a single character other than space and tab
    (in lenient mode `space0` would swallow such a delimiter before `tag` sees it). The field
    delimiter may be any single character. -/
def delimOK (kd : Char) : Bool := kd != ' ' && kd != '\t'

def firstSome {α β : Type} (f : α → Option β) : List α → Option β
  | [] => none
  | a :: r => match f a with
    | some b => some b
    | none => firstSome f r

/-- classification of an object whose round trip failed: the first key or value (in key order,
    key before value) that has a class. -/
def objectClass (kd fd : List Char) (o : List (List Char × List Char)) : Option Class :=
  if kd = [' '] || kd = ['\t'] then some .delimiters
  else if o.isEmpty then some .emptyObject
  else firstSome (fun kv =>
    match tokenClass kd fd true kv.1 with
    | some c => some c
    | none => tokenClass kd fd false kv.2) o

/-- a token of the safe class: non-empty and without any finding class. -/
def safeKey (kd fd : Char) (s : List Char) : Bool := (tokenClass [kd] [fd] true s).isNone
def safeVal (kd fd : Char) (s : List Char) : Bool := (tokenClass [kd] [fd] false s).isNone

def safeObject (kd fd : Char) (o : List (List Char × List Char)) : Bool :=
  !o.isEmpty && o.all fun kv => safeKey kd fd kv.1 && safeVal kd fd kv.2

end KV
