/-
  VrlModel.ProtoSpec — the C26 specification, written on VRL values only (independent of the
  abstract wire values of `VrlModel.Proto`):

  * `defect pool f x` : the first reason why the value `x` is *not* shaped like the field `f`
    (finding classes of C26); `Shaped` = no defect;
  * `dropDefaults` : what a round trip through protobuf is allowed to lose — entries of a message
    object that hold the proto3 default of a field without presence, empty repeated fields and
    empty maps; nothing else;
  * `Pool.Ok` : well-formedness of a descriptor pool that protoc guarantees and the round trip
    needs (distinct field names and numbers per message, enum values without aliases and with
    names that are UTF-8 and stay distinct when ASCII case is ignored).
-/
import VrlModel.Proto

namespace Proto

/-- finding classes: why a value is not message-shaped -/
inductive Defect where
  /-- an object key that is no field of the message (silently ignored by `encode_message`) -/
  | unknownField
  /-- a field holding `null` (treated as absent) -/
  | nullField
  /-- the VRL kind is not the one `proto_to_value` produces for this protobuf kind / cardinality
      (coerced by `convert_value_raw`, or refused) -/
  | kind
  /-- integer outside the range of a 32 bit or unsigned field (`as` cast wraps silently) -/
  | range
  /-- `float` field holding a double that is not a binary32 value -/
  | f32
  /-- `-0.0` in a float/double field without presence (compares equal to the default, not written) -/
  | negZero
  /-- `string` field holding bytes that are not UTF-8 (decoded lossily) -/
  | utf8
  /-- bytes that are not exactly the name of a value of the enum -/
  | enumName
  /-- map key that is not the canonical text of a key of the map's key kind -/
  | mapKey
  /-- reference to a message or enum the pool does not have -/
  | desc
  deriving DecidableEq, Repr

def Defect.name : Defect → String
  | .unknownField => "D_unknown_field"
  | .nullField => "D_null"
  | .kind => "D_kind"
  | .range => "D_range"
  | .f32 => "D_f32"
  | .negZero => "D_negzero"
  | .utf8 => "D_utf8"
  | .enumName => "D_enum_name"
  | .mapKey => "D_map_key"
  | .desc => "D_desc"

def negZero64 : Nat := 9223372036854775808

/-- defect of a value for a scalar kind (`singular` = the field has no presence) -/
def defectScalar (singular : Bool) : Scalar → Value → Option Defect
  | .double, .float b =>
    if F64.isNaN b || !decide (b < F64.p64) then some .kind
    else if singular && b == negZero64 then some .negZero else none
  | .float, .float b =>
    if F64.isNaN b || !decide (b < F64.p64) then some .kind
    else if !F32.exact b then some .f32
    else if singular && b == negZero64 then some .negZero else none
  | .bool, .bool _ => none
  | .string, .bytes b => if Utf8L.valid b then none else some .utf8
  | .bytes, .bytes _ => none
  | s, .int i =>
    match s.carrier with
    | .i32 => if inI32 i then none else some .range
    | .i64 => if inI64 i then none else some .range
    | .u32 => if inU32 i then none else some .range
    | .u64 => if decide (0 ≤ i) && decide (i < p63) then none else some .range
    | _ => some .kind
  | _, _ => some .kind

/-- the key is the canonical text of a key of kind `ks` -/
def canonicalKey (ks : Scalar) (k : List Nat) : Bool :=
  match parseMapKey ks k with
  | some mk => showMapKey mk == k
  | none => false

def EnumDesc.hasName (e : EnumDesc) (n : List Nat) : Bool := e.values.any (fun p => p.1 == n)

mutual
  /-- first defect of the value `x` for the field `f` -/
  def defect (pool : Pool) : Field → Value → Option Defect
    | _, .null => some .nullField
    | ⟨_, _, k, .repeated⟩, .arr a => defectList pool k a
    | ⟨_, _, _, .repeated⟩, _ => some .kind
    | ⟨_, _, _, _⟩, .arr _ => some .kind
    | ⟨_, _, k, .map ks⟩, .obj m => defectEntries pool ks k m
    | ⟨_, _, _, .map _⟩, _ => some .kind
    | ⟨_, _, .message r, _⟩, .obj m =>
      match pool.msg r with
      | some md => defectMap pool md.fields m
      | none => some .desc
    | ⟨_, _, .message _, _⟩, _ => some .kind
    | ⟨_, _, .enum e, _⟩, .bytes b =>
      match pool.enum e with
      | some ed => if ed.hasName b then none else some .enumName
      | none => some .desc
    | ⟨_, _, .enum _, _⟩, _ => some .kind
    | ⟨_, _, .scalar s, .singular⟩, x => defectScalar true s x
    | ⟨_, _, .scalar s, _⟩, x => defectScalar false s x
  def defectList (pool : Pool) : Kind → VList → Option Defect
    | _, .nil => none
    | k, .cons x xs =>
      match defect pool (Field.plain k) x with
      | some d => some d
      | none => defectList pool k xs
  def defectEntries (pool : Pool) : Scalar → Kind → VMap → Option Defect
    | _, _, .nil => none
    | ks, vk, .cons k x rest =>
      if canonicalKey ks k then
        match defect pool (Field.plain vk) x with
        | some d => some d
        | none => defectEntries pool ks vk rest
      else some .mapKey
  /-- a message object: every key is a field, every value fits its field -/
  def defectMap (pool : Pool) : List Field → VMap → Option Defect
    | _, .nil => none
    | fields, .cons k x rest =>
      match findField fields k with
      | some f =>
        match defect pool f x with
        | some d => some d
        | none => defectMap pool fields rest
      | none => some .unknownField
end

/-- first defect of `v` as a message of type `r` -/
def defectMsg (pool : Pool) (r : Nat) (v : Value) : Option Defect :=
  defect pool ⟨[], 0, .message r, .optional⟩ v

/-- `v` is shaped like the message type `r` of the pool: an object whose keys are field names,
    scalars of the natural VRL kind and in range, `float` fields holding binary32 values, strings
    valid UTF-8, enums by exact name, arrays for repeated fields, objects with canonical keys for
    maps, nested messages shaped recursively; no `null`s. -/
def Shaped (pool : Pool) (r : Nat) (v : Value) : Bool := (defectMsg pool r v).isNone

/-! ### proto3 defaults -/

/-- `x` is what a field without presence holds by default (and therefore is not transmitted) -/
def isDefaultValue (pool : Pool) (f : Field) (x : Value) : Bool :=
  match f.card, x with
  | .repeated, .arr .nil => true
  | .map _, .obj .nil => true
  | .singular, .int i => i == 0
  | .singular, .float b => b == 0
  | .singular, .bool b => b == false
  | .singular, .bytes b =>
    match f.kind with
    | .enum e =>
      match pool.enum e with
      | some ed => ed.values.contains (b, ed.dflt)
      | none => false
    | _ => b.isEmpty
  | _, _ => false

mutual
  /-- the value of field `f` after the round trip -/
  def dropDefaults (pool : Pool) : Field → Value → Value
    | ⟨_, _, k, .repeated⟩, .arr a => .arr (ddList pool k a)
    | ⟨_, _, k, .map _⟩, .obj m => .obj (ddEntries pool k m)
    | ⟨_, _, .message r, _⟩, .obj m =>
      match pool.msg r with
      | some md => .obj (ddMap pool md.fields m)
      | none => .obj m
    | _, x => x
  def ddList (pool : Pool) : Kind → VList → VList
    | _, .nil => .nil
    | k, .cons x xs => .cons (dropDefaults pool (Field.plain k) x) (ddList pool k xs)
  def ddEntries (pool : Pool) : Kind → VMap → VMap
    | _, .nil => .nil
    | vk, .cons k x rest => .cons k (dropDefaults pool (Field.plain vk) x) (ddEntries pool vk rest)
  /-- entries holding the default of their field are dropped, the others are kept (recursively) -/
  def ddMap (pool : Pool) : List Field → VMap → VMap
    | _, .nil => .nil
    | fields, .cons k x rest =>
      match findField fields k with
      | some f =>
        if isDefaultValue pool f x then ddMap pool fields rest
        else .cons k (dropDefaults pool f x) (ddMap pool fields rest)
      | none => .cons k x (ddMap pool fields rest)
end

/-- `dropDefaults` of a value of message type `r` -/
def dropDefaultsMsg (pool : Pool) (r : Nat) (v : Value) : Value :=
  dropDefaults pool ⟨[], 0, .message r, .optional⟩ v

/-! ### well-formed descriptor pools -/

def distinctBy {α β : Type} [DecidableEq β] (key : α → β) : List α → Bool
  | [] => true
  | a :: as => as.all (fun b => key a ≠ key b) && distinctBy key as

def MsgDesc.Ok (md : MsgDesc) : Bool :=
  distinctBy (fun f : Field => f.name) md.fields && distinctBy (fun f : Field => f.number) md.fields

def EnumDesc.Ok (ed : EnumDesc) : Bool :=
  distinctBy (fun p : List Nat × Int => p.1.map Utf8L.lowerAscii) ed.values &&
  distinctBy (fun p : List Nat × Int => p.2) ed.values &&
  ed.values.all (fun p => Utf8L.valid p.1)

/-- what protoc guarantees about the descriptors and the round trip relies on -/
def Pool.Ok (p : Pool) : Bool := p.msgs.all MsgDesc.Ok && p.enums.all EnumDesc.Ok

end Proto
