/-
  VrlModel.Search.Wire — line-protocol text form of query trees (mirrors harness/src/c30.rs):

    tree := all | none | ex:<attr> | mi:<attr> | tm:<attr>:<value> | qt:<attr>:<phrase>
          | pf:<attr>:<prefix> | wc:<attr>:<wildcard> | cmp:<attr>:<gt|lt|gte|lte>:<cv>
          | rg:<attr>:<cv>:<0|1>:<cv>:<0|1> | ( not tree ) | ( and tree* ) | ( or tree* )
    cv   := u | s<hex> | i<dec> | f<16 hex digits>
  strings are the hex of their UTF-8 bytes; tokens are separated by single spaces.
-/
import VrlModel.Wire
import VrlModel.Search.Node

namespace Search.Wire
open _root_.Wire

def hexOfStr (s : Str) : String := hexOfBytes (utf8 s)

/-- strict UTF-8 decoding (driver side only) -/
def strOfHex (h : String) : Option Str := do
  let bs ← bytesOfHex h
  let ba := ByteArray.mk (bs.map (·.toUInt8)).toArray
  let s ← String.fromUTF8? ba
  pure s.toList

def showCV : CV → String
  | .unbounded => "u"
  | .str s => "s" ++ hexOfStr s
  | .int i => "i" ++ toString i
  | .float b => "f" ++ hex16 b

def parseCV (s : String) : Option CV :=
  if s == "u" then some .unbounded
  else if s.startsWith "s" then (strOfHex (dropPrefix s 1)).map .str
  else if s.startsWith "i" then (parseInt (dropPrefix s 1)).map .int
  else if s.startsWith "f" then (natOfHexChars (s.toList.drop 1)).map .float
  else none

def cmpName : Cmp → String
  | .gt => "gt" | .lt => "lt" | .gte => "gte" | .lte => "lte"

def parseCmp (s : String) : Option Cmp :=
  if s == "gt" then some .gt else if s == "lt" then some .lt
  else if s == "gte" then some .gte else if s == "lte" then some .lte else none

def b01 (b : Bool) : String := if b then "1" else "0"

def showLeaf : Leaf → String
  | .matchAll => "all"
  | .matchNone => "none"
  | .exists_ a => "ex:" ++ hexOfStr a
  | .missing a => "mi:" ++ hexOfStr a
  | .range a lo li hi ui => "rg:" ++ hexOfStr a ++ ":" ++ showCV lo ++ ":" ++ b01 li ++ ":" ++ showCV hi ++ ":" ++ b01 ui
  | .comparison a c v => "cmp:" ++ hexOfStr a ++ ":" ++ cmpName c ++ ":" ++ showCV v
  | .term a v => "tm:" ++ hexOfStr a ++ ":" ++ hexOfStr v
  | .quoted a v => "qt:" ++ hexOfStr a ++ ":" ++ hexOfStr v
  | .pfx a v => "pf:" ++ hexOfStr a ++ ":" ++ hexOfStr v
  | .wildcard a v => "wc:" ++ hexOfStr a ++ ":" ++ hexOfStr v

mutual
  def showTree : QNode → String
    | .leaf l => showLeaf l
    | .neg n => "( not " ++ showTree n ++ " )"
    | .bool .and ns => "( and" ++ showTrees ns ++ " )"
    | .bool .or ns => "( or" ++ showTrees ns ++ " )"
  def showTrees : QList → String
    | .nil => ""
    | .cons n ns => " " ++ showTree n ++ showTrees ns
end

def parseLeaf (t : String) : Option Leaf :=
  match t.splitOn ":" with
  | ["all"] => some .matchAll
  | ["none"] => some .matchNone
  | ["ex", a] => (strOfHex a).map .exists_
  | ["mi", a] => (strOfHex a).map .missing
  | ["tm", a, v] => do pure (.term (← strOfHex a) (← strOfHex v))
  | ["qt", a, v] => do pure (.quoted (← strOfHex a) (← strOfHex v))
  | ["pf", a, v] => do pure (.pfx (← strOfHex a) (← strOfHex v))
  | ["wc", a, v] => do pure (.wildcard (← strOfHex a) (← strOfHex v))
  | ["cmp", a, c, v] => do pure (.comparison (← strOfHex a) (← parseCmp c) (← parseCV v))
  | ["rg", a, lo, li, hi, ui] => do
    pure (.range (← strOfHex a) (← parseCV lo) (li == "1") (← parseCV hi) (ui == "1"))
  | _ => none

mutual
  partial def parseTree : List String → Option (QNode × List String)
    | [] => none
    | "(" :: kind :: rest => do
      let (ns, r) ← parseTrees rest
      match kind, ns with
      | "not", [n] => pure (.neg n, r)
      | "and", ns => pure (.bool .and (QList.ofList ns), r)
      | "or", ns => pure (.bool .or (QList.ofList ns), r)
      | _, _ => none
    | tok :: rest => (parseLeaf tok).map fun l => (.leaf l, rest)
  partial def parseTrees : List String → Option (List QNode × List String)
    | [] => none
    | ")" :: rest => some ([], rest)
    | toks => do
      let (n, r) ← parseTree toks
      let (ns, r') ← parseTrees r
      pure (n :: ns, r')
end

def treeOfString (s : String) : Option QNode :=
  match parseTree (tokens s) with
  | some (t, []) => some t
  | _ => none

end Search.Wire
