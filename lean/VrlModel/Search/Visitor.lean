/-
  VrlModel.Search.Visitor — `QueryVisitor` (src/datadog/search/grammar.rs) over the token tree of
  `Grammar`, and `impl FromStr for QueryNode` (parser.rs).

  Quirks kept: the default field of a parenthesised group is the *raw* (still escaped) field text;
  `visit_multiterm` uses it as is while `visit_clause` unescapes it; the reserved-field tests compare
  the raw text.  (No arm of the visitor panics on a token tree the grammar produces; `VOut.panic` /
  `ParseOut.panic` are kept as outcomes so that a panic of the real parser still has a name.)
-/
import VrlModel.Search.Grammar
import VrlModel.Search.Lucene

namespace Search

open Grammar

/-- result of running code that may panic -/
inductive VOut (α : Type) where
  | ok (a : α)
  | panic
  deriving Repr

def joinSpace : List Str → Str
  | [] => []
  | [t] => t
  | t :: ts => t ++ ' ' :: joinSpace ts

/-- `visit_multiterm` -/
def visitMultiterm (terms : List Str) (df : Str) : QNode :=
  .leaf (.term df (joinSpace (terms.map unescape)))

/-- `visit_phrase`: the text between the quotes, unescaped -/
def visitPhrase (raw : Str) : Str := unescape ((raw.drop 1).dropLast)

/-- `visit_prefix`: the text without the final `*`, unescaped -/
def visitPrefix (raw : Str) : Str := unescape raw.dropLast

/-- the `Rule::value` arm of `visit_clause`; `f` = `field.unwrap_or(default_field)` (raw text) -/
def visitValue (F : FloatLib) (f : Str) (v : PValue) : VOut QNode :=
  match v with
  | .term raw =>
    if f = existsField then .ok (.leaf (.exists_ (unescape raw)))
    else if f = missingField then .ok (.leaf (.missing (unescape raw)))
    else .ok (.leaf (.term (unescape f) (unescape raw)))
  | .phrase raw =>
    if f = existsField then .ok (.leaf (.exists_ (visitPhrase raw)))
    else if f = missingField then .ok (.leaf (.missing (visitPhrase raw)))
    else .ok (.leaf (.quoted (unescape f) (visitPhrase raw)))
  | .star =>
    if f = defaultField then .ok (.leaf .matchAll) else .ok (.leaf (.wildcard (unescape f) ['*']))
  | .pfx raw => .ok (.leaf (.pfx (unescape f) (visitPrefix raw)))
  | .glob raw => .ok (.leaf (.wildcard (unescape f) (unescape raw)))
  | .range lsq v1 v2 rsq =>
    -- `(lc == Comparison::Gte, lv, rv, rc == Comparison::Lte)`: each bound is inclusive or exclusive
    -- on its own
    .ok (.leaf (.range (unescape f) (CV.ofText F v1) lsq (CV.ofText F v2) rsq))
  | .cmp op numeric raw =>
    let value := if numeric then CV.ofText F raw else .str (unescape raw)
    .ok (.leaf (.comparison (unescape f) op value))

/-- state of the `for node in contents` loop of `visit_query`:
    closed and-groups (oldest first) and the open and-group (oldest first) -/
structure VState where
  groups : List QNode
  group : List QNode

/-- push a finished node, negated when the pending `is_not` flag is set -/
def VState.push (st : VState) (isNot : Bool) (n : QNode) : VState :=
  { st with group := st.group ++ [if isNot then .neg n else n] }

/-- a `conjunction` token: `OR` closes the current and-group -/
def VState.conj (st : VState) : Option Bool → VState
  | some true => { groups := st.groups ++ [QNode.newBoolean .and st.group], group := [] }
  | _ => st

/-- "if the node is a negated MatchAllDocs, return MatchNoDocs" -/
def foldNotAll : QNode → QNode
  | .neg (.leaf .matchAll) => .leaf .matchNone
  | n => n

/-- the end of `visit_query` -/
def finishQuery (st : VState) : QNode :=
  foldNotAll (QNode.newBoolean .or (st.groups ++ [QNode.newBoolean .and st.group]))

mutual
  /-- `visit_clause` -/
  def visitClause (F : FloatLib) : PClause → Str → VOut QNode
    | .matchall, _ => .ok (.leaf .matchAll)
    | .value fld v, df => visitValue F (fld.getD df) v
    | .group fld q, df => visitItems F q (fld.getD df) ⟨[], []⟩ false
  /-- the loop of `visit_query`; `isNot` is the pending `is_not` flag -/
  def visitItems (F : FloatLib) : PItems → Str → VState → Bool → VOut QNode
    | .nil, _, st, _ => .ok (finishQuery st)
    | .multiterm ts rest, df, st, isNot =>
      visitItems F rest df (st.push isNot (visitMultiterm ts df)) false
    | .clause cj md c rest, df, st, isNot =>
      let st1 := st.conj cj
      let isNot1 := isNot || md == some true
      match visitClause F c df with
      | .panic => .panic
      | .ok n => visitItems F rest df (st1.push isNot1 n) false
end

/-- `visit_queryroot` with `DEFAULT_FIELD` -/
def visitQuery (F : FloatLib) (q : PItems) : VOut QNode := visitItems F q defaultField ⟨[], []⟩ false

/-- `char::is_whitespace` (Unicode `White_Space`) -/
def isUnicodeWs (c : Char) : Bool :=
  let n := c.toNat
  (9 ≤ n && n ≤ 13) || n == 0x20 || n == 0x85 || n == 0xA0 || n == 0x1680 || (0x2000 ≤ n && n ≤ 0x200A) ||
  n == 0x2028 || n == 0x2029 || n == 0x202F || n == 0x205F || n == 0x3000

/-- outcome of `str::parse::<QueryNode>()` -/
inductive ParseOut where
  | ok (t : QNode)
  | err
  | panic
  /-- the model ran out of fuel (cannot happen with the fuel `queryroot` provides) -/
  | oof
  deriving DecidableEq

/-- `impl FromStr for QueryNode`: an all-whitespace (`str::trim`) query matches everything;
    otherwise the *untrimmed* text is parsed. -/
def parse (F : FloatLib) (q : Str) : ParseOut :=
  if q.all isUnicodeWs then .ok (.leaf .matchAll)
  else match queryroot q with
    | .oof => .oof
    | .fail => .err
    | .ok items _ => match visitQuery F items with
      | .ok t => .ok t
      | .panic => .panic

end Search
