/-
  VrlModel.Search.Lucene — model of the text side of `src/datadog/search/node.rs` and of `unescape`
  in grammar.rs:

    `QueryNode::lucene_escape`, `quoted_escape`, `is_default_attr`, `to_lucene`,
    `ComparisonValue::to_lucene`, `Comparison::as_lucene`, `escape_quotes`,
    `impl From<T: AsRef<str>> for ComparisonValue`, `unescape`.
-/
import VrlModel.Search.Node
import VrlModel.Search.Num

namespace Search

/-- the characters `lucene_escape` puts a backslash in front of -/
def isLuceneSpecial (c : Char) : Bool :=
  c == ':' || c == '+' || c == '-' || c == '=' || c == '>' || c == '<' || c == '!' || c == '(' ||
  c == ')' || c == '{' || c == '}' || c == '[' || c == ']' || c == '^' || c == '"' || c == '~' ||
  c == '*' || c == '?' || c == '\\' || c == '/'

/-- `QueryNode::lucene_escape` -/
def luceneEscape : Str → Str
  | [] => []
  | c :: r => if isLuceneSpecial c then '\\' :: c :: luceneEscape r else c :: luceneEscape r

/-- `QueryNode::quoted_escape` -/
def quotedEscape : Str → Str
  | [] => []
  | c :: r => if c == '"' || c == '\\' then '\\' :: c :: quotedEscape r else c :: quotedEscape r

/-- `unescape` (grammar.rs): drop every backslash that starts an escape sequence, keep the escaped
    character; a trailing lone backslash is dropped. -/
def unescape : Str → Str
  | [] => []
  | ['\\'] => []
  | '\\' :: c :: r => c :: unescape r
  | c :: r => c :: unescape r

/-- `escape_quotes`: the regex `^"(.+)"$` replaced by `$1` — a surrounding pair of double quotes is
    removed when the text between them is non-empty and contains no line feed (`.` does not match
    `\n`; `$` only matches at the very end). -/
def escapeQuotes (s : Str) : Str :=
  match s with
  | '"' :: r =>
    match r.reverse with
    | '"' :: mr => if mr.isEmpty || mr.contains '\n' then s else mr.reverse
    | _ => s
  | _ => s

/-- `ComparisonValue::from(text)` -/
def CV.ofText (F : FloatLib) (s : Str) : CV :=
  let v := escapeQuotes (unescape s)
  if v == ['*'] then .unbounded
  else match parseI64 v with
    | some i => .int i
    | none => match F.parse v with
      | some b => .float b
      | none => .str v

/-- `ComparisonValue::to_lucene` -/
def CV.toLucene (F : FloatLib) : CV → Str
  | .str s => luceneEscape s
  | .int i => showInt i
  | .float b => F.toText b
  | .unbounded => ['*']

/-- `Display for ComparisonValue` -/
def CV.toText (F : FloatLib) : CV → Str
  | .str s => s
  | .int i => showInt i
  | .float b => F.toText b
  | .unbounded => ['*']

/-- `Comparison::as_lucene` -/
def Cmp.asLucene : Cmp → Str
  | .gt => ['>']
  | .lt => ['<']
  | .gte => ['>', '=']
  | .lte => ['<', '=']

/-- `QueryNode::is_default_attr` -/
def attrPrefix (attr : Str) : Str :=
  if attr = defaultField then [] else attr ++ [':']

/-- `to_lucene` of the non-recursive variants -/
def Leaf.toLucene (F : FloatLib) : Leaf → Str
  | .matchAll => "*:*".toList
  | .matchNone => "-*:*".toList
  | .exists_ attr => "_exists_:".toList ++ attr
  | .missing attr => "_missing_:".toList ++ attr
  | .range attr lo li hi ui =>
    attrPrefix attr ++ [if li then '[' else '{'] ++ lo.toLucene F ++ " TO ".toList ++ hi.toLucene F ++
      [if ui then ']' else '}']
  | .comparison attr c v => attrPrefix attr ++ c.asLucene ++ v.toLucene F
  | .term attr v => attrPrefix attr ++ luceneEscape v
  | .quoted attr p => attrPrefix attr ++ ['"'] ++ quotedEscape p ++ ['"']
  | .pfx attr p => attrPrefix attr ++ luceneEscape p ++ ['*']
  | .wildcard attr w => attrPrefix attr ++ w

def paren (s : Str) : Str := '(' :: s ++ [')']

mutual
  /-- `QueryNode::to_lucene` -/
  def QNode.toLucene (F : FloatLib) : QNode → Str
    | .leaf l => l.toLucene F
    | .neg n =>
      if n.isNeg || n.isBool then "NOT ".toList ++ paren (n.toLucene F) else "NOT ".toList ++ n.toLucene F
    | .bool .and ns => if ns.isEmpty then "*:*".toList else QList.andLucene F ns []
    | .bool .or ns => if ns.isEmpty then "-*:*".toList else QList.orLucene F ns []
  /-- one element of an `AND` group: `NOT x` keeps its operand unparenthesised unless it is a
      Boolean; a Boolean element is parenthesised. -/
  def QNode.andItem (F : FloatLib) : QNode → Str
    | .leaf l => l.toLucene F
    | .neg n => "NOT ".toList ++ (if n.isBool then paren (n.toLucene F) else n.toLucene F)
    | .bool .and ns => paren (if ns.isEmpty then "*:*".toList else QList.andLucene F ns [])
    | .bool .or ns => paren (if ns.isEmpty then "-*:*".toList else QList.orLucene F ns [])
  /-- one element of an `OR` group -/
  def QNode.orItem (F : FloatLib) : QNode → Str
    | .leaf l => l.toLucene F
    | .neg n =>
      if n.isNeg || n.isBool then "NOT ".toList ++ paren (n.toLucene F) else "NOT ".toList ++ n.toLucene F
    | .bool .and ns => paren (if ns.isEmpty then "*:*".toList else QList.andLucene F ns [])
    | .bool .or ns => paren (if ns.isEmpty then "-*:*".toList else QList.orLucene F ns [])
  /-- the `for n in nodes` loop of an `AND` group; `out` is the text written so far (`" AND "` is
      written only when `out` is non-empty, as in the code). -/
  def QList.andLucene (F : FloatLib) : QList → Str → Str
    | .nil, out => out
    | .cons n ns, out =>
      QList.andLucene F ns ((if out.isEmpty then out else out ++ " AND ".toList) ++ n.andItem F)
  def QList.orLucene (F : FloatLib) : QList → Str → Str
    | .nil, out => out
    | .cons n ns, out =>
      QList.orLucene F ns ((if out.isEmpty then out else out ++ " OR ".toList) ++ n.orItem F)
end

end Search
