/-
  VrlModel.Search.Node — model of `src/datadog/search/node.rs` data types:
  `Comparison`, `ComparisonValue`, `BooleanType`, `QueryNode`.

  Representation choices:
  * text is `List Char` (Rust `String`, a sequence of Unicode scalar values);
  * `ComparisonValue::Float(f64)` is carried as its 64-bit pattern (`Nat`), every NaN as the canonical
    quiet NaN `0x7ff8000000000000` (the wire format canonicalises likewise);
  * the ten non-recursive `QueryNode` variants form the type `Leaf`; the two container variants
    (`NegatedNode`, `Boolean`) are constructors of the explicit mutual pair `QNode`/`QList`
    (all recursion structural, see DESIGN §3).
-/

namespace Search

abbrev Str := List Char

/-- `DEFAULT_FIELD`, `EXISTS_FIELD`, `MISSING_FIELD` of grammar.rs -/
def defaultField : Str := "_default_".toList
def existsField : Str := "_exists_".toList
def missingField : Str := "_missing_".toList

inductive Cmp where
  | gt | lt | gte | lte
  deriving DecidableEq, Repr

/-- `ComparisonValue` -/
inductive CV where
  | unbounded
  | str (s : Str)
  | int (i : Int)
  | float (bits : Nat)
  deriving DecidableEq, Repr

inductive BoolOp where
  | and | or
  deriving DecidableEq, Repr

/-- the non-recursive variants of `QueryNode` -/
inductive Leaf where
  | matchAll
  | matchNone
  | exists_ (attr : Str)
  | missing (attr : Str)
  | range (attr : Str) (lower : CV) (lowerIncl : Bool) (upper : CV) (upperIncl : Bool)
  | comparison (attr : Str) (c : Cmp) (v : CV)
  | term (attr : Str) (value : Str)
  | quoted (attr : Str) (phrase : Str)
  | pfx (attr : Str) (p : Str)
  | wildcard (attr : Str) (w : Str)
  deriving DecidableEq, Repr

mutual
  /-- `QueryNode` -/
  inductive QNode where
    | leaf (l : Leaf)
    | neg (n : QNode)
    | bool (op : BoolOp) (ns : QList)
  /-- `Vec<QueryNode>` -/
  inductive QList where
    | nil
    | cons (n : QNode) (ns : QList)
end

deriving instance DecidableEq for QNode, QList

instance : Inhabited QNode := ⟨.leaf .matchAll⟩

namespace QList

def toList : QList → List QNode
  | .nil => []
  | .cons n ns => n :: ns.toList

def ofList : List QNode → QList
  | [] => .nil
  | n :: ns => .cons n (ofList ns)

def length : QList → Nat
  | .nil => 0
  | .cons _ ns => ns.length + 1

def isEmpty : QList → Bool
  | .nil => true
  | _ => false

theorem toList_ofList (l : List QNode) : (ofList l).toList = l := by
  induction l with
  | nil => rfl
  | cons a l ih => simp [ofList, toList, ih]

theorem ofList_toList : (l : QList) → ofList l.toList = l
  | .nil => rfl
  | .cons n ns => by simp [toList, ofList, ofList_toList ns]

end QList

namespace QNode

def isNeg : QNode → Bool
  | .neg _ => true
  | _ => false

def isBool : QNode → Bool
  | .bool _ _ => true
  | _ => false

/-- `QueryNode::new_boolean`: a one-element group is the element itself. -/
def newBoolean (op : BoolOp) (nodes : List QNode) : QNode :=
  match nodes with
  | [n] => n
  | ns => .bool op (QList.ofList ns)

end QNode

/-- UTF-8 encoding of one scalar value -/
def utf8Char (c : Char) : List Nat :=
  let n := c.toNat
  if n < 0x80 then [n]
  else if n < 0x800 then [0xC0 + n / 64, 0x80 + n % 64]
  else if n < 0x10000 then [0xE0 + n / 4096, 0x80 + n / 64 % 64, 0x80 + n % 64]
  else [0xF0 + n / 262144, 0x80 + n / 4096 % 64, 0x80 + n / 64 % 64, 0x80 + n % 64]

def utf8 (s : Str) : List Nat := s.flatMap utf8Char

end Search
