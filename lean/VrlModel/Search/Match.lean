/-
  VrlModel.Search.Match — model of Datadog search matching:

    src/datadog/search/field.rs          `Field`, `normalize_fields`
    src/datadog/filter/resolver.rs       `Resolver::build_fields`
    src/datadog/filter/matcher.rs        `build_matcher` (`not` / `any` / `all` combinators)
    src/datadog/filter/filter.rs         the default `Filter::range` (two `compare`s)
    src/datadog/filter/regex.rs          `word_regex`, `wildcard_regex`  (→ parameter `RegexEngine`)
    src/stdlib/match_datadog_query.rs    `VrlFilter::{exists, equals, prefix, wildcard, compare}`,
                                         `resolve_value`, `lookup_field`, `string_value`
    src/path/jit.rs                      the JIT path parser used by `parse_value_path`
    src/value/value/display.rs           `Display for Value`

  Text of the event side is UTF-8 bytes (`List Nat`, as in `Value`); query strings (`List Char`) are
  encoded with `utf8` where they meet event data.  Third-party / std primitives are parameters
  (`Env`): the regex engine (restricted to the two shapes the code builds), float printing,
  `String::from_utf8_lossy`, chrono's timestamp rendering.
-/
import VrlModel.Value
import VrlModel.F64
import VrlModel.Search.Lucene

namespace Search

abbrev Bytes := List Nat

/-- `regex::Regex` as used by `filter/regex.rs`: only two shapes are ever compiled, both from
    `regex::escape(p).replace("\\*", ".*")` (every `*` of `p` is `.*`, every other character is
    literal): `\b…\b` searched anywhere (`word_regex`) and `^…$` (`wildcard_regex`). -/
structure RegexEngine where
  /-- `word_regex(p).is_match(h)` -/
  word : Bytes → Bytes → Bool
  /-- `wildcard_regex(p).is_match(h)` -/
  wild : Bytes → Bytes → Bool

/-- the primitives outside vrl that matching depends on -/
structure Env where
  F : FloatLib
  R : RegexEngine
  /-- `String::from_utf8_lossy` (identity on valid UTF-8) -/
  lossy : Bytes → Bytes
  /-- `DateTime::to_rfc3339_opts(SecondsFormat::AutoSi, true)` of a timestamp (ns since the epoch) -/
  tsText : Int → Bytes

/-! ### Reference glob matcher (the law assumed of the regex engine) -/
namespace Glob

def star : Nat := 42
def lf : Nat := 10

/-- ASCII `\w` -/
def isWordByte (b : Nat) : Bool :=
  (48 ≤ b && b ≤ 57) || (65 ≤ b && b ≤ 90) || (97 ≤ b && b ≤ 122) || b == 95

/-- `.*` then `k`: try every split point; `.` does not match a line feed. -/
def tryAll (k : Bytes → Bool → Bool) : Bytes → Bool → Bool
  | [], prev => k [] prev
  | c :: h, prev => k (c :: h) prev || (c != lf && tryAll k h (isWordByte c))

/-- match the pattern at the start of `h`; `prev` = "the byte before is a word byte";
    `atEnd` decides what must hold where the pattern ends. -/
def matchAt (atEnd : Bytes → Bool → Bool) : Bytes → Bytes → Bool → Bool
  | [], h, prev => atEnd h prev
  | p :: ps, h, prev =>
    if p == star then tryAll (matchAt atEnd ps) h prev
    else match h with
      | [] => false
      | c :: h' => c == p && matchAt atEnd ps h' (isWordByte c)

/-- `^…$` -/
def wild (p h : Bytes) : Bool := matchAt (fun rest _ => rest.isEmpty) p h false

/-- a word boundary between `prev` and the head of `rest` -/
def boundary (rest : Bytes) (prev : Bool) : Bool :=
  prev != (match rest with | [] => false | c :: _ => isWordByte c)

/-- `\b…\b` at some position of `h` -/
def wordFrom (p : Bytes) : Bytes → Bool → Bool
  | [], prev => boundary [] prev && matchAt boundary p [] prev
  | c :: h, prev =>
    (boundary (c :: h) prev && matchAt boundary p (c :: h) prev) || wordFrom p h (isWordByte c)

def word (p h : Bytes) : Bool := wordFrom p h false

def engine : RegexEngine := ⟨word, wild⟩

end Glob

/-- the reference instance: reference float text, the glob matcher, valid-UTF-8 identity for
    `from_utf8_lossy`, no timestamp rendering (the driver treats events with timestamps or invalid
    UTF-8 as outside the model) -/
def Env.ref : Env := { F := FloatLib.ref, R := Glob.engine, lossy := id, tsText := fun _ => [] }

/-! ### `Field`, `normalize_fields` -/

inductive Field where
  | default (p : Str)
  | reserved (p : Str)
  | attr (p : Str)
  | tag (t : Str)
  deriving DecidableEq, Repr

def defaultFields : List Str :=
  ["message".toList, "custom.error.message".toList, "custom.error.stack".toList, "custom.title".toList,
   "_default_".toList]

def reservedAttributes : List Str :=
  ["host".toList, "source".toList, "status".toList, "service".toList, "trace_id".toList,
   "message".toList, "timestamp".toList, "tags".toList]

/-- `normalize_fields` (= `Resolver::build_fields`) -/
def normalizeFields (value : Str) : List Field :=
  if value = defaultField then defaultFields.map Field.default
  else
    let v := value.map (fun c => if c = '@' then '.' else c)
    if value.head? = some '@' then [.attr v]
    else if defaultFields.contains v then [.default v]
    else if reservedAttributes.contains v then [.reserved v]
    else [.tag v]

/-! ### JIT path parser (`parse_value_path`) -/

inductive PathOut where
  | ok (p : Path)
  | err
  | panic
  deriving DecidableEq

inductive JState where
  | eventRoot | start | continue_ | dot | indexStart
  | negIndex (v : Int) | index (v : Int)
  | field (acc : Str)       -- characters of the field so far
  | quote (acc : Str)
  | esc (buf : Str)         -- `EscapedQuote` (the characters before the first backslash are re-read
                            --   into the buffer by the code; same buffer content)
  | escBs (buf : Str)       -- `EscapedQuote` just after a backslash
  deriving DecidableEq

def isFieldChar (c : Char) : Bool :=
  ('A' ≤ c && c ≤ 'Z') || ('a' ≤ c && c ≤ 'z') || c == '_' || ('0' ≤ c && c ≤ '9') || c == '@' || c == '-'

inductive JStep where
  | next (s : JState)
  | emit (seg : Seg) (s : JState)
  | invalid
  | panic

def fieldSeg (s : Str) : Seg := .field (utf8 s)

def isizeOK (v : Int) : Bool := decide (isizeMin ≤ v) && decide (v ≤ isizeMax)

def jitStep (st : JState) (c : Char) : JStep :=
  match st with
  | .start =>
    if c == '.' then .next .eventRoot
    else if isFieldChar c then .next (.field [c])
    else if c == '[' then .next .indexStart
    else if c == '"' then .next (.quote [])
    else .invalid
  | .continue_ =>
    if c == '.' then .next .dot
    else if isFieldChar c then .next (.field [c])
    else if c == '[' then .next .indexStart
    else if c == '"' then .next (.quote [])
    else .invalid
  | .eventRoot =>
    if isFieldChar c then .next (.field [c])
    else if c == '[' then .next .indexStart
    else if c == '"' then .next (.quote [])
    else .invalid
  | .dot =>
    if isFieldChar c then .next (.field [c])
    else if c == '"' then .next (.quote [])
    else .invalid
  | .field acc =>
    if isFieldChar c then .next (.field (acc ++ [c]))
    else if c == '.' then .emit (fieldSeg acc) .dot
    else if c == '[' then .emit (fieldSeg acc) .indexStart
    else .invalid
  | .quote acc =>
    if c == '"' then .emit (fieldSeg acc) .continue_
    else if c == '\\' then .next (.escBs acc)
    else .next (.quote (acc ++ [c]))
  | .esc buf =>
    if c == '"' then .emit (fieldSeg buf) .continue_
    else if c == '\\' then .next (.escBs buf)
    else .next (.esc (buf ++ [c]))
  | .escBs buf =>
    if c == '\\' || c == '"' then .next (.esc (buf ++ [c])) else .invalid
  | .indexStart =>
    if '0' ≤ c && c ≤ '9' then .next (.index (digitVal c))
    else if c == '-' then .next (.negIndex 0)
    else .invalid
  | .index v =>
    if '0' ≤ c && c ≤ '9' then
      -- `value * 10 + new_digit` on `isize` with overflow checks
      if isizeOK (v * 10) && isizeOK (v * 10 + digitVal c) then .next (.index (v * 10 + digitVal c)) else .panic
    else if c == ']' then .emit (.index v) .continue_
    else .invalid
  | .negIndex v =>
    if '0' ≤ c && c ≤ '9' then
      if isizeOK (v * 10) && isizeOK (v * 10 - digitVal c) then .next (.negIndex (v * 10 - digitVal c)) else .panic
    else if c == ']' then .emit (.index v) .continue_
    else .invalid

/-- end of input -/
def jitEnd : JState → PathOut
  | .continue_ => .ok []
  | .eventRoot => .ok []
  | .field acc => .ok [fieldSeg acc]
  | _ => .err

def PathOut.cons (s : Seg) : PathOut → PathOut
  | .ok p => .ok (s :: p)
  | o => o

/-- the segment iterator collected by `to_owned_value_path` (stops at the first invalid segment) -/
def jitRun : JState → List Char → PathOut
  | st, [] => jitEnd st
  | st, c :: cs =>
    match jitStep st c with
    | .next st' => jitRun st' cs
    | .emit seg st' => (jitRun st' cs).cons seg
    | .invalid => .err
    | .panic => .panic

/-- `parse_value_path` -/
def parseValuePath (s : Str) : PathOut := jitRun .start s

/-- `lookup_field` -/
def lookupField : Field → PathOut
  | .default p => parseValuePath p
  | .reserved p => parseValuePath p
  | .attr p => parseValuePath p
  | .tag _ => .ok [.field (utf8 "tags".toList)]

/-! ### `Display for Value`, `string_value` -/

def ascii (s : String) : Bytes := s.toList.map Char.toNat

/-- `.replace('\\', r"\\").replace('"', r#"\""#).replace('\n', r"\n")` -/
def escapeDisplay : Bytes → Bytes
  | [] => []
  | c :: r =>
    if c == 92 then 92 :: 92 :: escapeDisplay r
    else if c == 34 then 92 :: 34 :: escapeDisplay r
    else if c == 10 then 92 :: 110 :: escapeDisplay r
    else c :: escapeDisplay r

mutual
  /-- `Display for Value` -/
  def displayValue (E : Env) : Value → Bytes
    | .bytes b => 34 :: escapeDisplay (E.lossy b) ++ [34]
    | .int i => utf8 (showInt i)
    | .float b => utf8 (E.F.toText b)
    | .bool true => ascii "true"
    | .bool false => ascii "false"
    | .obj m => ascii "{ " ++ displayMap E m true ++ ascii " }"
    | .arr a => 91 :: displayList E a true ++ [93]
    | .ts ns => ascii "t'" ++ E.tsText ns ++ [39]
    | .regex p => ascii "r'" ++ p ++ [39]
    | .null => ascii "null"
  /-- elements joined by `", "` -/
  def displayList (E : Env) : VList → Bool → Bytes
    | .nil, _ => []
    | .cons v vs, first => (if first then [] else ascii ", ") ++ displayValue E v ++ displayList E vs false
  /-- `"key": value` joined by `", "` -/
  def displayMap (E : Env) : VMap → Bool → Bytes
    | .nil, _ => []
    | .cons k v m, first =>
      (if first then [] else ascii ", ") ++ 34 :: k ++ ascii "\": " ++ displayValue E v ++ displayMap E m false
end

/-- `string_value` -/
def stringValue (E : Env) : Value → Bytes
  | .bytes b => E.lossy b
  | v => displayValue E v

/-! ### byte-string primitives -/

def bytesStartsWith : Bytes → Bytes → Bool
  | _, [] => true
  | [], _ :: _ => false
  | c :: s, p :: ps => c == p && bytesStartsWith s ps

/-- `str::cmp` is the lexicographic order of the UTF-8 bytes -/
def bytesLt (a b : Bytes) : Bool := Key.lt a b
def bytesLe (a b : Bytes) : Bool := !Key.lt b a

def cmpBytes : Cmp → Bytes → Bytes → Bool
  | .lt, a, b => bytesLt a b
  | .lte, a, b => bytesLe a b
  | .gt, a, b => bytesLt b a
  | .gte, a, b => bytesLe b a

def cmpInt : Cmp → Int → Int → Bool
  | .lt, a, b => decide (a < b)
  | .lte, a, b => decide (a ≤ b)
  | .gt, a, b => decide (a > b)
  | .gte, a, b => decide (a ≥ b)

/-- `f64` comparison operators (false on NaN) -/
def cmpF64 : Cmp → Nat → Nat → Bool
  | .lt, a, b => F64.lt a b
  | .lte, a, b => F64.le a b
  | .gt, a, b => F64.gt a b
  | .gte, a, b => F64.ge a b

/-- `str::split_once(':')`: the text before and after the first colon -/
def splitColon : Bytes → Option (Bytes × Bytes)
  | [] => none
  | c :: r =>
    if c == 58 then some ([], r)
    else match splitColon r with
      | some (k, v) => some (c :: k, v)
      | none => none

def VList.anyV (f : Value → Bool) : VList → Bool
  | .nil => false
  | .cons v vs => f v || anyV f vs

/-! ### `VrlFilter` -/

/-- a compiled matcher: `Box<dyn Matcher<Value>>` -/
abbrev Matcher := Value → Bool

/-- `Result<_, PathParseError>` of the build phase, plus the panic of the JIT path parser -/
inductive Build (α : Type) where
  | ok (a : α)
  | err
  | panic

def Build.map {α β : Type} (f : α → β) : Build α → Build β
  | .ok a => .ok (f a)
  | .err => .err
  | .panic => .panic

/-- `iter.map(f).collect::<Result<Vec<_>, _>>()`: stops at the first error -/
def Build.mapM {α β : Type} (f : α → Build β) : List α → Build (List β)
  | [] => .ok []
  | a :: as =>
    match f a with
    | .ok b => (match Build.mapM f as with
      | .ok bs => .ok (b :: bs)
      | .err => .err
      | .panic => .panic)
    | .err => .err
    | .panic => .panic

/-- `not`, `any`, `all` of matcher.rs -/
def notM (m : Matcher) : Matcher := fun v => !m v
def anyM (ms : List Matcher) : Matcher := fun v => ms.any (fun m => m v)
def allM (ms : List Matcher) : Matcher := fun v => ms.all (fun m => m v)

/-- `resolve_value`: look the path up, `false` when absent -/
def resolveValue (path : Path) (m : Matcher) : Matcher :=
  fun obj => match obj.get path with
    | some v => m v
    | none => false

/-- `lookup_field(&field)?` followed by `resolve_value(buf, inner)` -/
def withField (field : Field) (inner : Matcher) : Build Matcher :=
  match lookupField field with
  | .ok buf => .ok (resolveValue buf inner)
  | .err => .err
  | .panic => .panic

def tagsName : Str := "tags".toList
def colon : Nat := 58

/-- run `f` on the elements when the value is an array, `false` otherwise -/
def onArray (f : Value → Bool) : Matcher
  | .arr a => VList.anyV f a
  | _ => false

/-- `VrlFilter::exists` -/
def filterExists (E : Env) (field : Field) : Build Matcher :=
  withField field <|
    match field with
    | .tag tag =>
      -- the tag matches using either 'key' or 'key:value' syntax
      onArray fun v =>
        let s := stringValue E v
        s == utf8 tag || bytesStartsWith s (utf8 tag ++ [colon])
    | .reserved f =>
      if f = tagsName then
        -- `Value::Array(v) => v.iter().any(|v| v == value)`: an *element* equal to the whole array
        fun value => onArray (fun x => x == value) value
      else fun _ => true
    | _ => fun _ => true

/-- `VrlFilter::equals` -/
def filterEquals (E : Env) (field : Field) (toMatch : Str) : Build Matcher :=
  withField field <|
    match field with
    | .default _ => fun value => match value with
      | .bytes b => E.R.word (utf8 toMatch) (E.lossy b)
      | _ => false
    | .reserved f =>
      if f = tagsName then onArray (fun x => x == .bytes (utf8 toMatch))
      else fun value => stringValue E value == utf8 toMatch
    | .tag tag => onArray (fun x => x == .bytes (utf8 tag ++ colon :: utf8 toMatch))
    | .attr _ => fun value => stringValue E value == utf8 toMatch

/-- `VrlFilter::prefix` -/
def filterPrefix (E : Env) (field : Field) (pfx : Str) : Build Matcher :=
  withField field <|
    match field with
    | .default _ => fun value => E.R.word (utf8 pfx ++ [Glob.star]) (stringValue E value)
    | .tag tag => onArray fun v => bytesStartsWith (stringValue E v) (utf8 tag ++ colon :: utf8 pfx)
    | _ => fun value => bytesStartsWith (stringValue E value) (utf8 pfx)

/-- `VrlFilter::wildcard` -/
def filterWildcard (E : Env) (field : Field) (w : Str) : Build Matcher :=
  withField field <|
    match field with
    | .default _ => fun value => E.R.word (utf8 w) (stringValue E value)
    | .tag tag => onArray fun v => E.R.wild (utf8 tag ++ colon :: utf8 w) (stringValue E v)
    | _ => fun value => E.R.wild (utf8 w) (stringValue E value)

/-- the closure of `VrlFilter::compare` for `Field::Attribute` -/
def compareAttr (E : Env) (c : Cmp) (cv : CV) (value : Value) : Bool :=
  match value, cv with
  | .int l, .int r => cmpInt c l r
  | .int l, .float r => cmpF64 c (F64.ofInt l) r
  | .float l, .float r => cmpF64 c l r
  | .float l, .int r => cmpF64 c l (F64.ofInt r)
  | _, .str r => cmpBytes c (stringValue E value) (utf8 r)
  | _, _ => cmpBytes c (stringValue E value) (utf8 (cv.toText E.F))

/-- `VrlFilter::compare` -/
def filterCompare (E : Env) (field : Field) (c : Cmp) (cv : CV) : Build Matcher :=
  let rhs := utf8 (cv.toText E.F)
  withField field <|
    match field with
    | .attr _ => compareAttr E c cv
    | .tag tag =>
      -- tag values are extracted by "key:value"; only the values of the queried tag are compared
      -- (`Some((key, lhs)) if key == tag`, /repo d99b562)
      onArray fun v => match splitColon (stringValue E v) with
        | some (key, lhs) => key == utf8 tag && cmpBytes c lhs rhs
        | none => false
    | _ => fun value => cmpBytes c (stringValue E value) rhs

def lowerOp (incl : Bool) : Cmp := if incl then .gte else .gt
def upperOp (incl : Bool) : Cmp := if incl then .lte else .lt

/-- the default `Filter::range` -/
def filterRange (E : Env) (field : Field) (lo : CV) (li : Bool) (hi : CV) (ui : Bool) : Build Matcher :=
  match lo, hi with
  | .unbounded, .unbounded => filterExists E field
  | .unbounded, _ => filterCompare E field (upperOp ui) hi
  | _, .unbounded => filterCompare E field (lowerOp li) lo
  | _, _ =>
    match filterCompare E field (lowerOp li) lo with
    | .ok lower =>
      (match filterCompare E field (upperOp ui) hi with
        | .ok upper => .ok (fun v => lower v && upper v)
        | .err => .err
        | .panic => .panic)
    | .err => .err
    | .panic => .panic

/-! ### `QueryNode::build_matcher` -/

/-- the non-recursive arms -/
def buildLeaf (E : Env) : Leaf → Build Matcher
  | .matchNone => .ok (fun _ => false)
  | .matchAll => .ok (fun _ => true)
  | .exists_ attr => (Build.mapM (filterExists E) (normalizeFields attr)).map anyM
  | .missing attr =>
    (Build.mapM (fun f => (filterExists E f).map notM) (normalizeFields attr)).map allM
  | .term attr v => (Build.mapM (fun f => filterEquals E f v) (normalizeFields attr)).map anyM
  | .quoted attr v => (Build.mapM (fun f => filterEquals E f v) (normalizeFields attr)).map anyM
  | .pfx attr p => (Build.mapM (fun f => filterPrefix E f p) (normalizeFields attr)).map anyM
  | .wildcard attr w => (Build.mapM (fun f => filterWildcard E f w) (normalizeFields attr)).map anyM
  | .comparison attr c v => (Build.mapM (fun f => filterCompare E f c v) (normalizeFields attr)).map anyM
  | .range attr lo li hi ui =>
    (Build.mapM (fun f => filterRange E f lo li hi ui) (normalizeFields attr)).map anyM

mutual
  /-- `QueryNode::build_matcher` -/
  def build (E : Env) : QNode → Build Matcher
    | .leaf l => buildLeaf E l
    | .neg n => (build E n).map notM
    | .bool .and ns => (buildList E ns).map allM
    | .bool .or ns => (buildList E ns).map anyM
  /-- `nodes.iter().map(|node| node.build_matcher(filter)).collect()` -/
  def buildList (E : Env) : QList → Build (List Matcher)
    | .nil => .ok []
    | .cons n ns =>
      match build E n with
      | .ok m => (match buildList E ns with
        | .ok ms => .ok (m :: ms)
        | .err => .err
        | .panic => .panic)
      | .err => .err
      | .panic => .panic
end

/-- outcome of compiling and running `match_datadog_query(event, "<query>")` for a query whose
    text parsed to `q`: compile error (`failed to build matcher`), panic, or the boolean. -/
inductive MatchOut where
  | ok (b : Bool)
  | err
  | panic
  deriving DecidableEq

def matchQuery (E : Env) (q : QNode) (event : Value) : MatchOut :=
  match build E q with
  | .ok m => .ok (m event)
  | .err => .err
  | .panic => .panic

end Search
