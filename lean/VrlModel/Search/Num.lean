/-
  VrlModel.Search.Num — the numeric text primitives used by `ComparisonValue`:

  * `parseI64` / `showInt` : `str::parse::<i64>()` and `Display for i64` (modelled exactly);
  * `FloatLib`             : `str::parse::<f64>()` and `Display for f64` — these belong to Rust `core`
    (dec2flt / flt2dec), not to vrl, and are therefore a *parameter* of the model (AGENT_GUIDE hard
    rules).  `FloatLib.ref` is a reference instance computed with exact integer arithmetic
    (correctly rounded decimal → binary64, shortest round-trip digits, positional notation); the
    `c30.f64` correspondence op samples it against the real `core` on the generated shapes.

  Floats are 64-bit patterns (`Nat`) as everywhere in the model; every NaN is the canonical
  `nanBits`.
-/
import VrlModel.F64

namespace Search

def isDigit (c : Char) : Bool := decide ('0'.toNat ≤ c.toNat) && decide (c.toNat ≤ '9'.toNat)

def digitVal (c : Char) : Nat := c.toNat - '0'.toNat

/-- value of a digit string (most significant first) -/
def natOfDigits (ds : List Char) : Nat := ds.foldl (fun acc c => acc * 10 + digitVal c) 0

def i64MinS : Int := -9223372036854775808
def i64MaxS : Int := 9223372036854775807

/-- `str::parse::<i64>()`: optional sign, at least one ASCII digit, nothing else, no overflow. -/
def parseI64 (s : List Char) : Option Int :=
  let (neg, ds) := match s with
    | '-' :: r => (true, r)
    | '+' :: r => (false, r)
    | r => (false, r)
  if ds.isEmpty || !ds.all isDigit then none
  else
    let n : Int := natOfDigits ds
    let v := if neg then -n else n
    if i64MinS ≤ v ∧ v ≤ i64MaxS then some v else none

def digitChar (n : Nat) : Char := Char.ofNat ('0'.toNat + n % 10)

/-- decimal digits of a natural number, most significant first (`0` ↦ "0"); fuel = a bound on the
    number of digits. -/
def natDigitsAux : Nat → Nat → List Char → List Char
  | 0, _, acc => acc
  | fuel + 1, n, acc => if n < 10 then digitChar n :: acc else natDigitsAux fuel (n / 10) (digitChar n :: acc)

def natDigits (n : Nat) : List Char := natDigitsAux (Nat.log2 n + 2) n []

/-- `Display for i64` -/
def showInt (i : Int) : List Char :=
  if i < 0 then '-' :: natDigits i.natAbs else natDigits i.natAbs

/-- `str::parse::<f64>()` and `Display for f64` (Rust `core`), as a parameter. -/
structure FloatLib where
  /-- `s.parse::<f64>().ok()` as a bit pattern (NaN canonical) -/
  parse : List Char → Option Nat
  /-- `format!("{}", f)` -/
  toText : Nat → List Char

def nanBits : Nat := 0x7ff8000000000000

namespace FloatRef

def lower (c : Char) : Char := if 'A'.toNat ≤ c.toNat ∧ c.toNat ≤ 'Z'.toNat then Char.ofNat (c.toNat + 32) else c

/-- split a maximal run of ASCII digits -/
def spanDigits : List Char → List Char × List Char
  | [] => ([], [])
  | c :: r => if isDigit c then let (d, r') := spanDigits r; (c :: d, r') else ([], c :: r)

/-- Exact decimal `d · 10^e10` (d > 0) rounded to the nearest binary64 magnitude (ties to even). -/
def roundDecimal (d : Nat) (e10 : Int) : Nat :=
  if d = 0 then 0
  else
    let nd : Int := (natDigits d).length
    if nd + e10 > 310 then F64.infBits
    else if nd + e10 < -330 then 0
    else if 0 ≤ e10 then F64.roundMag (d * 10 ^ e10.toNat) 0
    else
      let k := (-e10).toNat
      let n := d * 2 ^ 1200
      let q := n / 10 ^ k
      let sticky := if n % 10 ^ k = 0 then 0 else 1
      F64.roundMag (2 * q + sticky) (-1201)

/-- exponent part `[eE][+-]?digits+` (whole rest of the text); `none` = malformed.
    Very long exponents saturate (the value is then 0 or ∞ anyway). -/
def parseExp (s : List Char) : Option Int :=
  match s with
  | [] => some 0
  | c :: r =>
    if c == 'e' || c == 'E' then
      let (neg, ds) := match r with
        | '-' :: t => (true, t)
        | '+' :: t => (false, t)
        | t => (false, t)
      if ds.isEmpty || !ds.all isDigit then none
      else
        let n : Int := if ds.length > 8 then 100000000 else natOfDigits ds
        some (if neg then -n else n)
    else none

/-- `dec2flt`: sign? (inf | infinity | nan | digits* [. digits*] exp?) with at least one digit. -/
def parse (s : List Char) : Option Nat :=
  let (neg, body) := match s with
    | '-' :: r => (true, r)
    | '+' :: r => (false, r)
    | r => (false, r)
  let lb := body.map lower
  if lb == "inf".toList || lb == "infinity".toList then some (F64.withSign neg F64.infBits)
  else if lb == "nan".toList then some nanBits
  else
    let (ip, r1) := spanDigits body
    let (fp, r2) := match r1 with
      | '.' :: t => spanDigits t
      | t => ([], t)
    if ip.isEmpty && fp.isEmpty then none
    else
      match parseExp r2 with
      | none => none
      | some e => some (F64.withSign neg (roundDecimal (natOfDigits (ip ++ fp)) (e - fp.length)))

/-- smallest `k` with `m·2^e < 10^k` searched upward from `k0` (fuel steps). -/
def findK (m : Nat) (e : Int) : Nat → Int → Int
  | 0, k => k
  | fuel + 1, k =>
    -- m·2^e < 10^k ?
    let lhsN := if 0 ≤ e then m * 2 ^ e.toNat else m
    let lhsD := if 0 ≤ e then 1 else 2 ^ (-e).toNat
    let rhsN := if 0 ≤ k then 10 ^ k.toNat else 1
    let rhsD := if 0 ≤ k then 1 else 10 ^ (-k).toNat
    if lhsN * rhsD < rhsN * lhsD then k else findK m e fuel (k + 1)

/-- shortest digits: for n = 1.. find an n-digit decimal `c·10^(k−n)` inside the rounding interval
    of the float `m·2^e`; all quantities are scaled to integers by `2^a·10^b`. Returns (digits, exp)
    with value = 0.d₁d₂… · 10^exp. -/
def shortestAux (v lo hi : Nat) (incl : Bool) (k : Int) (scale10 : Int → Nat) : Nat → Nat → (List Char × Int)
  | 0, _ => (['0'], 0)
  | fuel + 1, n =>
    let unit := scale10 (k - n)
    let c := v / unit
    let inside (x : Nat) : Bool := if incl then decide (lo ≤ x ∧ x ≤ hi) else decide (lo < x ∧ x < hi)
    let down := inside (c * unit) && decide (c ≠ 0)
    let up := inside ((c + 1) * unit)
    if down || up then
      let r := v - c * unit
      let pick := if up && (!down || decide (unit ≤ 2 * r)) then c + 1 else c
      if pick = 10 ^ n then (['1'], k + 1) else (natDigits pick, k)
    else shortestAux v lo hi incl k scale10 fuel (n + 1)

/-- shortest round-trip digits of a finite non-zero magnitude pattern -/
def shortest (b : Nat) : List Char × Int :=
  let m := F64.mant b
  let e := F64.expo b
  -- neighbours: the lower gap is half as wide at a power of two (except the smallest exponent)
  let lowerHalf := F64.frac b = 0 ∧ 1 < F64.expField b
  -- work in units of 2^(e−2): v = 4m, hi = 4m+2, lo = 4m−2 (or 4m−1)
  let e2 := e - 2
  let v4 := 4 * m
  let hi4 := 4 * m + 2
  let lo4 := if lowerHalf then 4 * m - 1 else 4 * m - 2
  let k0 : Int := ((Nat.log2 m : Int) + e) * 30103 / 100000 - 2
  let k := findK m e 8 k0
  -- common scale: multiply by 2^a (a = max 0 (−e2)) and 10^bb (bb = max 0 (20 − k))
  let a : Nat := if e2 < 0 then (-e2).toNat else 0
  let p2 : Nat := if 0 ≤ e2 then 2 ^ e2.toNat else 1
  let bb : Nat := if k < 20 then (20 - k).toNat else 0
  let sc := p2 * 10 ^ bb
  let scale10 (j : Int) : Nat := 2 ^ a * 10 ^ (j + bb).toNat
  shortestAux (v4 * sc) (lo4 * sc) (hi4 * sc) (m % 2 == 0) k scale10 18 1

def zeros (n : Nat) : List Char := List.replicate n '0'

/-- `Display for f64` (no precision): shortest digits in positional notation. -/
def toText (b : Nat) : List Char :=
  if F64.isNaN b then "NaN".toList
  else
    let sign := if F64.signBit b then ['-'] else []
    if F64.isInf b then sign ++ "inf".toList
    else if F64.isZero b then sign ++ ['0']
    else
      let (ds, exp) := shortest (F64.mag b)
      let n : Int := ds.length
      sign ++
        (if exp ≤ 0 then "0.".toList ++ zeros (-exp).toNat ++ ds
         else if n ≤ exp then ds ++ zeros (exp - n).toNat
         else ds.take exp.toNat ++ ['.'] ++ ds.drop exp.toNat)

end FloatRef

def FloatLib.ref : FloatLib := ⟨FloatRef.parse, FloatRef.toText⟩

end Search
