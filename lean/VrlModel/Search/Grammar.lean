/-
  VrlModel.Search.Grammar — `src/datadog/search/grammar.pest` as a hand-written recursive-descent
  parser that follows the semantics of the code `pest_derive` 2.8 generates for it, rule by rule:

  * PEG: ordered choice, greedy repetition, no backtracking into a succeeded alternative;
    `&e` / `!e` look-ahead consume nothing;  a failed sequence restores the position;
  * atomicity is static in this grammar: `queryroot, query, multiterm, modifiers, conjunction,
    clause` run non-atomically and `range` is `!{}` (non-atomic again inside the `${}` rule `value`),
    so an implicit `skip` (= `WHITESPACE*`) runs between the elements of their sequences and between
    the iterations of their repetitions (`a ~ b` ⇒ `a skip b`; `a*` ⇒ `(a (skip a)*)?`; `a+` ⇒ `a skip a*`;
    `a? ~ b` ⇒ `a? skip b`, the skip runs even when `a` matched nothing).  Everything reached from the
    `@`/`$` rules (`TERM, TERM_PREFIX, TERM_GLOB, PHRASE, ESC_CHAR, NUMERIC_TERM, RANGE_VALUE,
    multitermlookahead, matchall, field, value` and the normal rules `comparison, operator` called
    inside `value`) runs without implicit skipping;
  * the result is the token tree the `QueryVisitor` walks (silent `_` rules and everything under a
    look-ahead leave no token), here as the typed tree `PItems`/`PClause`/`PValue` that keeps the
    matched source text (`as_str()`) of the tokens the visitor reads.

  Recursion over the input is by fuel (one unit per loop iteration and per parenthesis level;
  `3·length + 6` always suffices, running out is reported as `PRes.oof`, never as a parse failure).
-/
import VrlModel.Search.Node

namespace Search.Grammar

abbrev Inp := List Char

/-- `WHITESPACE = _{ " " | "\r" | "\n" | "\t" }` -/
def isWs (c : Char) : Bool := c == ' ' || c == '\r' || c == '\n' || c == '\t'

/-- the implicit `skip` of non-atomic rules: `WHITESPACE*` -/
def skipWs : Inp → Inp
  | [] => []
  | c :: r => if isWs c then skipWs r else c :: r

/-- `state.match_string(p)` -/
def stripPrefix : List Char → Inp → Option Inp
  | [], s => some s
  | _ :: _, [] => none
  | p :: ps, c :: r => if p = c then stripPrefix ps r else none

def startsWith (p : List Char) (s : Inp) : Bool := (stripPrefix p s).isSome

/-- `AND = { "AND" | "&&" }` -/
def kwAnd (s : Inp) : Option Inp :=
  match stripPrefix ['A', 'N', 'D'] s with
  | some r => some r
  | none => stripPrefix ['&', '&'] s

/-- `OR = { "OR" | "||" }` -/
def kwOr (s : Inp) : Option Inp :=
  match stripPrefix ['O', 'R'] s with
  | some r => some r
  | none => stripPrefix ['|', '|'] s

/-- `NOT = { "NOT" | "-" }` -/
def kwNot (s : Inp) : Option Inp :=
  match stripPrefix ['N', 'O', 'T'] s with
  | some r => some r
  | none => stripPrefix ['-'] s

/-- U+3000 IDEOGRAPHIC SPACE (`"\u{3000}"` in `INVALID_TERM_STARTS`; it is *not* `WHITESPACE`) -/
def ideographicSpace : Char := '\u3000'

/-- `INVALID_TERM_STARTS`: WHITESPACE, U+3000 and the listed single characters -/
def isInvalidStartChar (c : Char) : Bool :=
  isWs c || c == '\u3000' || c == '"' || c == '(' || c == ')' || c == '[' || c == ']' || c == '{' || c == '}' ||
  c == '+' || c == '-' || c == '!' || c == ':' || c == '~' || c == '^' || c == '?' || c == '*' ||
  c == '\\' || c == '>' || c == '=' || c == '<'

/-- `INVALID_TERM_STARTS` matches at `s` -/
def invalidStart (s : Inp) : Bool :=
  match s with
  | [] => false
  | c :: _ => isInvalidStartChar c

/-- `TERM_END_CHAR = _{ WHITESPACE | RPAREN | RSQRBRACKET | RBRACKET | EOI }` matches at `s`
    (only ever used under `&`) -/
def atTermEnd (s : Inp) : Bool :=
  match s with
  | [] => true
  | c :: _ => isWs c || c == ')' || c == ']' || c == '}'

/-- `TERM_START_CHAR = _{ ESC_CHAR | !INVALID_TERM_STARTS ~ ANY }`, `ESC_CHAR = @{ "\\" ~ ANY }`:
    the matched text and the rest. -/
def termStartChar (s : Inp) : Option (List Char × Inp) :=
  match s with
  | [] => none
  | c :: r =>
    if c = '\\' then
      match r with
      | c2 :: r2 => some (['\\', c2], r2)      -- ESC_CHAR
      | [] => none                              -- a lone backslash is an invalid start
    else if invalidStart (c :: r) then none else some ([c], r)

/-- `TERM_CHAR*` with `TERM_CHAR = _{ TERM_START_CHAR | "-" | "+" | "=" }` (greedy) -/
def termChars : Inp → List Char × Inp
  | [] => ([], [])
  | c :: r =>
    if c = '\\' then
      match r with
      | c2 :: r2 => let p := termChars r2; ('\\' :: c2 :: p.1, p.2)
      | [] => ([], [c])
    else if !invalidStart (c :: r) || c == '-' || c == '+' || c == '=' then
      let p := termChars r; (c :: p.1, p.2)
    else ([], c :: r)

/-- `TERM_CHAR_GLOB*` with `TERM_CHAR_GLOB = _{ TERM_CHAR | STAR | QUESTIONMARK }` -/
def termCharsGlob : Inp → List Char × Inp
  | [] => ([], [])
  | c :: r =>
    if c = '\\' then
      match r with
      | c2 :: r2 => let p := termCharsGlob r2; ('\\' :: c2 :: p.1, p.2)
      | [] => ([], [c])
    else if !invalidStart (c :: r) || c == '-' || c == '+' || c == '=' || c == '*' || c == '?' then
      let p := termCharsGlob r; (c :: p.1, p.2)
    else ([], c :: r)

/-- `!(AND | OR | NOT)` -/
def noKeyword (s : Inp) : Bool := (kwAnd s).isNone && (kwOr s).isNone && (kwNot s).isNone

/-- `TERM_START_CHAR ~ TERM_CHAR*`, the common part of `TERM` and `TERM_PREFIX` -/
def termScan (s : Inp) : Option (List Char × Inp) :=
  match termStartChar s with
  | none => none
  | some (a, r) => let p := termChars r; some (a ++ p.1, p.2)

/-- `TERM = @{ !(AND | OR | NOT) ~ TERM_START_CHAR ~ TERM_CHAR* }` -/
def term (s : Inp) : Option (List Char × Inp) :=
  if !noKeyword s then none else termScan s

/-- `TERM_PREFIX = @{ TERM_START_CHAR ~ TERM_CHAR* ~ STAR ~ &TERM_END_CHAR }` (text includes the `*`) -/
def termPrefix (s : Inp) : Option (List Char × Inp) :=
  match termScan s with
  | none => none
  | some (t, r) =>
    match r with
    | [] => none
    | c :: r'' => if c = '*' && atTermEnd r'' then some (t ++ ['*'], r'') else none

/-- `TERM_START_CHAR_GLOB = _{ TERM_START_CHAR | STAR | QUESTIONMARK }` -/
def globStart (s : Inp) : Option (List Char × Inp) :=
  match termStartChar s with
  | some x => some x
  | none =>
    match s with
    | [] => none
    | c :: r => if c = '*' || c = '?' then some ([c], r) else none

/-- `TERM_GLOB = @{ TERM_START_CHAR_GLOB ~ TERM_CHAR_GLOB* ~ &TERM_END_CHAR }` -/
def termGlob (s : Inp) : Option (List Char × Inp) :=
  match globStart s with
  | none => none
  | some (a, r) =>
    let p := termCharsGlob r
    if atTermEnd p.2 then some (a ++ p.1, p.2) else none

/-- `(ESC_CHAR | !DQUOTE ~ ANY)*` followed by the closing `DQUOTE`: the text between the quotes. -/
def phraseBody : Inp → Option (List Char × Inp)
  | [] => none
  | c :: r =>
    if c = '\\' then
      match r with
      | c2 :: r2 => (phraseBody r2).map fun p => ('\\' :: c2 :: p.1, p.2)     -- ESC_CHAR
      | [] => none            -- `!DQUOTE ~ ANY` takes the backslash, then the closing quote is missing
    else if c = '"' then some ([], r)
    else (phraseBody r).map fun p => (c :: p.1, p.2)

/-- `PHRASE = @{ DQUOTE ~ (ESC_CHAR | !DQUOTE ~ ANY)* ~ DQUOTE }` (text includes both quotes) -/
def phrase (s : Inp) : Option (List Char × Inp) :=
  match s with
  | [] => none
  | c :: r =>
    if c = '"' then (phraseBody r).map fun p => ('"' :: p.1 ++ ['"'], p.2)
    else none

def isAsciiDigit (c : Char) : Bool := decide ('0'.toNat ≤ c.toNat) && decide (c.toNat ≤ '9'.toNat)

/-- `ASCII_DIGIT*` -/
def digits : Inp → List Char × Inp
  | [] => ([], [])
  | c :: r => if isAsciiDigit c then let p := digits r; (c :: p.1, p.2) else ([], c :: r)

/-- `("-"|"\\-")?` : the sign text and the rest -/
def numSign (s : Inp) : List Char × Inp :=
  match s with
  | [] => ([], [])
  | c :: r =>
    if c = '-' then (['-'], r)
    else if c = '\\' then
      (match r with
       | [] => ([], s)
       | d :: r' => if d = '-' then (['\\', '-'], r') else ([], s))
    else ([], s)

/-- `ASCII_DIGIT+ ~ ("." ~ ASCII_DIGIT+)?` -/
def numUnsigned (s : Inp) : Option (List Char × Inp) :=
  let ip := digits s
  if ip.1.isEmpty then none
  else
    match ip.2 with
    | [] => some (ip.1, [])
    | c :: r2 =>
      if c = '.' then
        let fp := digits r2
        if fp.1.isEmpty then some (ip.1, c :: r2) else some (ip.1 ++ '.' :: fp.1, fp.2)
      else some (ip.1, c :: r2)

/-- `NUM_VALUE = _{ ("-"|"\\-")? ~ ASCII_DIGIT+ ~ ("." ~ ASCII_DIGIT+)? }` -/
def numValue (s : Inp) : Option (List Char × Inp) :=
  let sg := numSign s
  (numUnsigned sg.2).map fun p => (sg.1 ++ p.1, p.2)

/-- `NUMERIC_TERM = ${ NUM_VALUE ~ ("E" ~ NUM_VALUE)? }` -/
def numericTerm (s : Inp) : Option (List Char × Inp) :=
  match numValue s with
  | none => none
  | some (a, r) =>
    match r with
    | [] => some (a, r)
    | c :: r1 =>
      if c = 'E' then
        match numValue r1 with
        | some (b, r2) => some (a ++ ['E'] ++ b, r2)
        | none => some (a, r)
      else some (a, r)

/-- `operator = { GT_EQ | LT_EQ | GT | LT }` -/
def operator (s : Inp) : Option (Cmp × Inp) :=
  match s with
  | [] => none
  | c :: r =>
    if c = '>' then
      (match r with
       | d :: r' => if d = '=' then some (.gte, r') else some (.gt, r)
       | [] => some (.gt, r))
    else if c = '<' then
      (match r with
       | d :: r' => if d = '=' then some (.lte, r') else some (.lt, r)
       | [] => some (.lt, r))
    else none

/-- `RANGE_VALUE = @{ (!(WHITESPACE | RSQRBRACKET | RBRACKET) ~ ANY)+ }` (as `*`; the caller checks
    non-emptiness) -/
def rangeValueChars : Inp → List Char × Inp
  | [] => ([], [])
  | c :: r =>
    if isWs c || c == ']' || c == '}' then ([], c :: r)
    else let (m, r') := rangeValueChars r; (c :: m, r')

def rangeValue (s : Inp) : Option (List Char × Inp) :=
  let (m, r) := rangeValueChars s
  if m.isEmpty then none else some (m, r)

/-- the token under `value` -/
inductive PValue where
  | star
  | phrase (raw : List Char)
  | pfx (raw : List Char)
  /-- `comparison`: operator, whether the operand token is `NUMERIC_TERM` (else `TERM`), its text -/
  | cmp (op : Cmp) (numeric : Bool) (raw : List Char)
  /-- `range`: opening bracket is `[`, the two `RANGE_VALUE` texts, closing bracket is `]` -/
  | range (lsq : Bool) (v1 v2 : List Char) (rsq : Bool)
  | term (raw : List Char)
  | glob (raw : List Char)
  deriving DecidableEq, Repr

/-- `comparison = { operator ~ (NUMERIC_TERM | TERM) }` (inside `value`: no implicit skipping) -/
def comparison (s : Inp) : Option (PValue × Inp) :=
  match operator s with
  | none => none
  | some (op, r) =>
    match numericTerm r with
    | some (t, r') => some (.cmp op true t, r')
    | none => match term r with
      | some (t, r') => some (.cmp op false t, r')
      | none => none

/-- `range = !{ (LSQRBRACKET | LBRACKET) ~ RANGE_VALUE ~ "TO" ~ RANGE_VALUE ~ (RSQRBRACKET | RBRACKET) }`
    (non-atomic: `skip` between the five elements) -/
def range (s : Inp) : Option (PValue × Inp) :=
  let opening : Option (Bool × Inp) :=
    match s with
    | [] => none
    | c :: r => if c = '[' then some (true, r) else if c = '{' then some (false, r) else none
  match opening with
  | none => none
  | some (lsq, r0) =>
    match rangeValue (skipWs r0) with
    | none => none
    | some (v1, r1) =>
      match stripPrefix ['T', 'O'] (skipWs r1) with
      | none => none
      | some r2 =>
        match rangeValue (skipWs r2) with
        | none => none
        | some (v2, r3) =>
          match skipWs r3 with
          | [] => none
          | c :: r4 =>
            if c = ']' then some (.range lsq v1 v2 true, r4)
            else if c = '}' then some (.range lsq v1 v2 false, r4)
            else none

/-- ordered choice -/
def alt {α : Type} (a b : Option α) : Option α :=
  match a with
  | some x => some x
  | none => b

/-- `STAR ~ &TERM_END_CHAR` -/
def starValue (s : Inp) : Option (PValue × Inp) :=
  match s with
  | [] => none
  | c :: r => if c = '*' && atTermEnd r then some (.star, r) else none

def phraseValue (s : Inp) : Option (PValue × Inp) := (phrase s).map fun p => (.phrase p.1, p.2)

def prefixValue (s : Inp) : Option (PValue × Inp) := (termPrefix s).map fun p => (.pfx p.1, p.2)

/-- `TERM ~ &TERM_END_CHAR` -/
def termValue (s : Inp) : Option (PValue × Inp) :=
  match term s with
  | some (t, r) => if atTermEnd r then some (.term t, r) else none
  | none => none

def globValue (s : Inp) : Option (PValue × Inp) := (termGlob s).map fun p => (.glob p.1, p.2)

/-- `value = ${ STAR ~ &TERM_END_CHAR | PHRASE | TERM_PREFIX | comparison | range
              | TERM ~ &TERM_END_CHAR | TERM_GLOB }` -/
def value (s : Inp) : Option (PValue × Inp) :=
  alt (starValue s) <| alt (phraseValue s) <| alt (prefixValue s) <| alt (comparison s) <| alt (range s) <|
    alt (termValue s) (globValue s)

/-- `field = ${ TERM ~ COLON }`: the text of the inner `TERM` token -/
def field (s : Inp) : Option (List Char × Inp) :=
  match term s with
  | none => none
  | some (t, r) =>
    match r with
    | [] => none
    | c :: r' => if c = ':' then some (t, r') else none

/-- `matchall = @{ STAR ~ COLON ~ STAR }` -/
def matchall (s : Inp) : Option Inp := stripPrefix ['*', ':', '*'] s

/-- `WHITESPACE+` -/
def ws1 (s : Inp) : Option Inp :=
  match s with
  | c :: r => if isWs c then some (skipWs r) else none
  | [] => none

/-- `multitermlookahead = @{ TERM ~ !(COLON | STAR | WHITESPACE+ ~ (AND | OR)) }` (used under `&`) -/
def multitermLookahead (s : Inp) : Bool :=
  match term s with
  | none => false
  | some (_, r) =>
    let colonOrStar := match r with
      | [] => false
      | c :: _ => c == ':' || c == '*'
    let wsConj := match ws1 r with
      | some r' => (kwAnd r').isSome || (kwOr r').isSome
      | none => false
    !(colonOrStar || wsConj)

/-- the iterations `(skip ~ &multitermlookahead ~ skip ~ TERM)*` of `multiterm` after the first
    (fuel: every iteration consumes at least one character, so `length` of the input suffices) -/
def multitermMore : Nat → Inp → List (List Char) × Inp
  | 0, s => ([], s)
  | fuel + 1, s =>
    let s1 := skipWs s
    if multitermLookahead s1 then
      match term (skipWs s1) with
      | some (t, r) => let (ts, r') := multitermMore fuel r; (t :: ts, r')
      | none => ([], s)
    else ([], s)

/-- `multiterm = { (&multitermlookahead ~ TERM)+ }`, i.e. `(&la skip TERM) skip ((&la skip TERM) (skip (&la skip TERM))*)?`.
    The texts of the `TERM` tokens. (The position after a successful `multiterm` is only ever followed by
    another `skip`, so the trailing `skip` of the `+` desugaring is not observable; it is applied here as
    pest ≥ 2.1 without `grammar-extras` does.) -/
def multiterm (s : Inp) : Option (List (List Char) × Inp) :=
  if multitermLookahead s then
    match term (skipWs s) with
    | some (t, r) =>
      let r1 := skipWs r
      -- first iteration of the inner `*` has no leading skip of its own
      if multitermLookahead r1 then
        match term (skipWs r1) with
        | some (t2, r2) => let (ts, r') := multitermMore r2.length r2; some (t :: t2 :: ts, r')
        | none => some ([t], r1)
      else some ([t], r1)
    | none => none
  else none

/-- `modifiers = { PLUS | NOT }`: `true` = NOT -/
def modifiers (s : Inp) : Option (Bool × Inp) :=
  match s with
  | [] => none
  | c :: r =>
    if c = '+' then some (false, r)
    else match kwNot s with
      | some r' => some (true, r')
      | none => none

/-- `conjunction = { AND | OR }`: `true` = OR -/
def conjunction (s : Inp) : Option (Bool × Inp) :=
  match kwAnd s with
  | some r => some (false, r)
  | none => match kwOr s with
    | some r => some (true, r)
    | none => none

mutual
  /-- the token under `clause` -/
  inductive PClause where
    | matchall
    | value (field : Option (List Char)) (v : PValue)
    | group (field : Option (List Char)) (q : PItems)
  /-- the tokens under `query`, in order: `multiterm`, or `conjunction? modifiers? clause` -/
  inductive PItems where
    | nil
    | multiterm (terms : List (List Char)) (rest : PItems)
    | clause (conj : Option Bool) (modif : Option Bool) (c : PClause) (rest : PItems)
end

deriving instance DecidableEq for PClause, PItems

/-- result of a fuel-bounded rule -/
inductive PRes (α : Type) where
  | oof
  | fail
  | ok (a : α) (rest : Inp)

/-- one element of `query`: either a multiterm or a clause with its optional prefixes -/
inductive PItem where
  | multiterm (terms : List (List Char))
  | clause (conj : Option Bool) (modif : Option Bool) (c : PClause)

def PItem.cons : PItem → PItems → PItems
  | .multiterm ts, rest => .multiterm ts rest
  | .clause cj m c, rest => .clause cj m c rest

mutual
  /-- `query = { (multiterm | (modifiers? ~ clause)) ~ (multiterm | (conjunction? ~ modifiers? ~ clause))* }`,
      i.e. `A skip (B (skip B)*)?` with `A` = the first element and `B` the later ones.  `more` is
      `(skip B)*`; since the first `B` of the repetition is tried right after a `skip`, `B (skip B)*`
      at `skip r` is `more r`, except that when nothing matches the position stays after the `skip`. -/
  def query : Nat → Inp → PRes PItems
    | 0, _ => .oof
    | fuel + 1, s =>
      match item fuel false s with
      | .oof => .oof
      | .fail => .fail
      | .ok it r =>
        match more fuel r with
        | .oof => .oof
        | .fail => .fail
        | .ok .nil _ => .ok (it.cons .nil) (skipWs r)
        | .ok its r3 => .ok (it.cons its) r3
  /-- `(skip ~ B)*` -/
  def more : Nat → Inp → PRes PItems
    | 0, _ => .oof
    | fuel + 1, s =>
      match item fuel true (skipWs s) with
      | .oof => .oof
      | .fail => .ok .nil s
      | .ok it r =>
        match more fuel r with
        | .oof => .oof
        | .fail => .fail
        | .ok its r' => .ok (it.cons its) r'
  /-- `multiterm | (conjunction? ~ modifiers? ~ clause)`; `withConj = false` is the first element
      `multiterm | (modifiers? ~ clause)` -/
  def item : Nat → Bool → Inp → PRes PItem
    | 0, _, _ => .oof
    | fuel + 1, withConj, s =>
      match multiterm s with
      | some (ts, r) => .ok (.multiterm ts) r
      | none =>
        let (cj, s1) : Option Bool × Inp :=
          if withConj then
            match conjunction s with
            | some (b, r) => (some b, skipWs r)
            | none => (none, skipWs s)
          else (none, s)
        let (md, s2) : Option Bool × Inp :=
          match modifiers s1 with
          | some (b, r) => (some b, skipWs r)
          | none => (none, skipWs s1)
        match clause fuel s2 with
        | .oof => .oof
        | .fail => .fail
        | .ok c r => .ok (.clause cj md c) r
  /-- `clause = { matchall | (field? ~ value) | (field? ~ LPAREN ~ query ~ RPAREN) }` -/
  def clause : Nat → Inp → PRes PClause
    | 0, _ => .oof
    | fuel + 1, s =>
      match matchall s with
      | some r => .ok .matchall r
      | none =>
        let (fld, s1) : Option (List Char) × Inp :=
          match field s with
          | some (f, r) => (some f, skipWs r)
          | none => (none, skipWs s)
        match value s1 with
        | some (v, r) => .ok (.value fld v) r
        | none =>
          match s1 with
          | '(' :: r0 =>
            match query fuel (skipWs r0) with
            | .oof => .oof
            | .fail => .fail
            | .ok q r1 =>
              match skipWs r1 with
              | ')' :: r2 => .ok (.group fld q) r2
              | _ => .fail
          | _ => .fail
end

/-- `queryroot = { query ~ EOI }` -/
def queryroot (s : Inp) : PRes PItems :=
  match query (3 * s.length + 6) s with
  | .oof => .oof
  | .fail => .fail
  | .ok q r => if (skipWs r).isEmpty then .ok q [] else .fail

end Search.Grammar
