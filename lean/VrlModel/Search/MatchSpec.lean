/-
  VrlModel.Search.MatchSpec — the *reference semantics* of a Datadog search query on an event
  (Spec layer of C31), written as a direct recursive evaluator, independent of the build-then-run
  structure of the implementation (`Match.lean`):

  * Boolean nodes are the logical operations; negation is logical negation;
  * a range holds on a field iff its lower bound holds and its upper bound holds on that field
    (an unbounded side always holds; both unbounded = the field exists);
  * leaves are judged on the value the field addresses:
      - attributes `@a.b`, reserved fields and default fields address the value at their path,
      - a tag `k` addresses the elements `k` / `k:v` of the `tags` array — every tag predicate,
        *including comparisons*, looks only at the elements whose key is `k`,
      - existence of a reserved/attribute/default field = the path resolves.

  The shared vocabulary (field normalisation, path parsing, `string_value`, string/number comparison,
  the regex engine parameter) is the one of `Match.lean`.
-/
import VrlModel.Search.Match

namespace Search.Spec

/-- the path of a field (only consulted when it parses, see `check`) -/
def pathOf (f : Field) : Path :=
  match lookupField f with
  | .ok p => p
  | _ => []

/-- the value a non-tag field addresses -/
def valueAt (f : Field) (e : Value) : Option Value := e.get (pathOf f)

def VList.toL : VList → List Value
  | .nil => []
  | .cons v vs => v :: toL vs

/-- the elements of the `tags` array of the event (`[]` when `tags` is absent or not an array) -/
def tagElems (e : Value) : List Value :=
  match e.get [.field (utf8 tagsName)] with
  | some (.arr a) => VList.toL a
  | _ => []

/-- the values `v` of the elements `k:v` whose key is `tag` -/
def tagValues (E : Env) (tag : Str) (e : Value) : List Bytes :=
  (tagElems e).filterMap fun x =>
    match splitColon (stringValue E x) with
    | some (k, v) => if k = utf8 tag then some v else none
    | none => none

def isTagsReserved : Field → Bool
  | .reserved f => f = tagsName
  | _ => false

/-- attribute / field existence -/
def existsRef (E : Env) (f : Field) (e : Value) : Bool :=
  match f with
  | .tag tag => (tagElems e).any fun x =>
      let s := stringValue E x
      s == utf8 tag || bytesStartsWith s (utf8 tag ++ [colon])
  | _ => (valueAt f e).isSome

/-- term / phrase -/
def equalsRef (E : Env) (f : Field) (v : Str) (e : Value) : Bool :=
  match f with
  | .default _ => match valueAt f e with
    | some (.bytes b) => E.R.word (utf8 v) (E.lossy b)
    | _ => false
  | .tag tag => (tagElems e).any fun x => x == .bytes (utf8 tag ++ colon :: utf8 v)
  | .reserved p =>
    if p = tagsName then (tagElems e).any fun x => x == .bytes (utf8 v)
    else match valueAt f e with
      | some x => stringValue E x == utf8 v
      | none => false
  | .attr _ => match valueAt f e with
    | some x => stringValue E x == utf8 v
    | none => false

def prefixRef (E : Env) (f : Field) (p : Str) (e : Value) : Bool :=
  match f with
  | .default _ => match valueAt f e with
    | some x => E.R.word (utf8 p ++ [Glob.star]) (stringValue E x)
    | none => false
  | .tag tag => (tagElems e).any fun x => bytesStartsWith (stringValue E x) (utf8 tag ++ colon :: utf8 p)
  | _ => match valueAt f e with
    | some x => bytesStartsWith (stringValue E x) (utf8 p)
    | none => false

def wildcardRef (E : Env) (f : Field) (w : Str) (e : Value) : Bool :=
  match f with
  | .default _ => match valueAt f e with
    | some x => E.R.word (utf8 w) (stringValue E x)
    | none => false
  | .tag tag => (tagElems e).any fun x => E.R.wild (utf8 tag ++ colon :: utf8 w) (stringValue E x)
  | _ => match valueAt f e with
    | some x => E.R.wild (utf8 w) (stringValue E x)
    | none => false

/-- numeric when both sides are numbers (integers exactly, otherwise as `f64`), else as strings -/
def compareValue (E : Env) (c : Cmp) (cv : CV) (x : Value) : Bool :=
  match x, cv with
  | .int l, .int r => cmpInt c l r
  | .int l, .float r => cmpF64 c (F64.ofInt l) r
  | .float l, .float r => cmpF64 c l r
  | .float l, .int r => cmpF64 c l (F64.ofInt r)
  | _, _ => cmpBytes c (stringValue E x) (utf8 (cv.toText E.F))

def compareRef (E : Env) (f : Field) (c : Cmp) (cv : CV) (e : Value) : Bool :=
  match f with
  | .attr _ => match valueAt f e with
    | some x => compareValue E c cv x
    | none => false
  | .tag tag => (tagValues E tag e).any fun v => cmpBytes c v (utf8 (cv.toText E.F))
  | _ => match valueAt f e with
    | some x => cmpBytes c (stringValue E x) (utf8 (cv.toText E.F))
    | none => false

/-- one bound of a range: an unbounded side always holds -/
def boundRef (E : Env) (f : Field) (c : Cmp) (cv : CV) (e : Value) : Bool :=
  match cv with
  | .unbounded => true
  | _ => compareRef E f c cv e

def rangeRef (E : Env) (f : Field) (lo : CV) (li : Bool) (hi : CV) (ui : Bool) (e : Value) : Bool :=
  match lo, hi with
  | .unbounded, .unbounded => existsRef E f e
  | _, _ => boundRef E f (lowerOp li) lo e && boundRef E f (upperOp ui) hi e

def leafHolds (E : Env) (l : Leaf) (e : Value) : Bool :=
  match l with
  | .matchAll => true
  | .matchNone => false
  | .exists_ a => (normalizeFields a).any fun f => existsRef E f e
  | .missing a => (normalizeFields a).all fun f => !existsRef E f e
  | .term a v => (normalizeFields a).any fun f => equalsRef E f v e
  | .quoted a v => (normalizeFields a).any fun f => equalsRef E f v e
  | .pfx a p => (normalizeFields a).any fun f => prefixRef E f p e
  | .wildcard a w => (normalizeFields a).any fun f => wildcardRef E f w e
  | .comparison a c v => (normalizeFields a).any fun f => compareRef E f c v e
  | .range a lo li hi ui => (normalizeFields a).any fun f => rangeRef E f lo li hi ui e

mutual
  /-- the query holds on the event -/
  def holds (E : Env) : QNode → Value → Bool
    | .leaf l, e => leafHolds E l e
    | .neg n, e => !holds E n e
    | .bool .and ns, e => holdsAll E ns e
    | .bool .or ns, e => holdsAny E ns e
  def holdsAll (E : Env) : QList → Value → Bool
    | .nil, _ => true
    | .cons n ns, e => holds E n e && holdsAll E ns e
  def holdsAny (E : Env) : QList → Value → Bool
    | .nil, _ => false
    | .cons n ns, e => holds E n e || holdsAny E ns e
end

/-- the attribute a leaf addresses -/
def leafAttr : Leaf → Option Str
  | .matchAll | .matchNone => none
  | .exists_ a | .missing a | .term a _ | .quoted a _ | .pfx a _ | .wildcard a _ => some a
  | .comparison a _ _ | .range a _ _ _ _ => some a

/-- field paths are checked when the matcher is built, left to right, first failure wins -/
def checkFields : List Field → Build Unit
  | [] => .ok ()
  | f :: fs =>
    match lookupField f with
    | .ok _ => checkFields fs
    | .err => .err
    | .panic => .panic

def checkLeaf (l : Leaf) : Build Unit :=
  match leafAttr l with
  | none => .ok ()
  | some a => checkFields (normalizeFields a)

mutual
  def check : QNode → Build Unit
    | .leaf l => checkLeaf l
    | .neg n => check n
    | .bool _ ns => checkList ns
  def checkList : QList → Build Unit
    | .nil => .ok ()
    | .cons n ns =>
      match check n with
      | .ok _ => checkList ns
      | .err => .err
      | .panic => .panic
end

/-- reference outcome of `match_datadog_query(event, query)` for a query that parsed to `q` -/
def run (E : Env) (q : QNode) (e : Value) : MatchOut :=
  match check q with
  | .ok _ => .ok (holds E q e)
  | .err => .err
  | .panic => .panic

/-! ### where the implementation is known to deviate (finding class of C31) -/

/-- existence of the reserved field `tags`: the implementation compares each element with the whole
    array and therefore never finds it -/
def leafExistsTags : Leaf → Bool
  | .exists_ a | .missing a => (normalizeFields a).any isTagsReserved
  | .range a lo _ hi _ => (normalizeFields a).any isTagsReserved && lo = .unbounded && hi = .unbounded
  | _ => false

mutual
  def anyLeaf (p : Leaf → Bool) : QNode → Bool
    | .leaf l => p l
    | .neg n => anyLeaf p n
    | .bool _ ns => anyLeafL p ns
  def anyLeafL (p : Leaf → Bool) : QList → Bool
    | .nil => false
    | .cons n ns => anyLeaf p n || anyLeafL p ns
end

def devExistsTags (q : QNode) : Bool := anyLeaf leafExistsTags q

/-- no leaf of the deviating shape (comparisons on tags used to be a second deviating shape; repaired
    in /repo d99b562) -/
def noDev (q : QNode) : Bool := !devExistsTags q

/-! ### Boolean skeletons (the compositional oracle `o.c31 skel`) -/

/-- a Boolean formula over the atoms 0, 1, 2; juxtaposition is conjunction -/
inductive Fm where
  | atom (i : Nat)
  | not (f : Fm)
  | and (f g : Fm)
  | or (f g : Fm)
  | juxt (f g : Fm)
  deriving DecidableEq, Repr

def Fm.eval (val : Nat → Bool) : Fm → Bool
  | .atom i => val i
  | .not f => !f.eval val
  | .and f g => f.eval val && g.eval val
  | .or f g => f.eval val || g.eval val
  | .juxt f g => f.eval val && g.eval val

/-- a query tree with the shape of the formula -/
def Fm.toQuery (atoms : Nat → QNode) : Fm → QNode
  | .atom i => atoms i
  | .not f => .neg (f.toQuery atoms)
  | .and f g => .bool .and (.cons (f.toQuery atoms) (.cons (g.toQuery atoms) .nil))
  | .or f g => .bool .or (.cons (f.toQuery atoms) (.cons (g.toQuery atoms) .nil))
  | .juxt f g => .bool .and (.cons (f.toQuery atoms) (.cons (g.toQuery atoms) .nil))

/-- the identity the `range` oracle checks on the implementation's observations: the range result
    `r` against the results `l`, `u` of the two one-sided comparisons (`none` = that side is `*`).
    For a single-field attribute it is an equality; for the default field (five fields, the range is
    decided per field) only the implication holds. -/
def rangeIdentity (singleField : Bool) (r : Bool) (l u : Option Bool) : Bool :=
  let both := l.getD true && u.getD true
  if singleField then r == both else (!r || both)

end Search.Spec
