/-
  VrlModel.Search.NF — the normal form of query trees for which `parse ∘ to_lucene` is the identity
  (C30), and the finding classes: every way a tree can fail to be in normal form is one named defect
  (`Defect`), `defectOf` returns the first one in a fixed order, and `NF t ↔ defectOf t = none`
  (proved in VrlProofs).  The oracle `o.c30` classifies a failed round trip of the implementation by
  `defectOf` of the tree the implementation parsed.

  Why each condition is there (what `to_lucene` prints and how the grammar reads it back):
  * `lucene_escape` leaves white space — and U+3000, which the grammar does not allow unescaped in a
    term either — unescaped                                            → `spaceInTerm`
  * attribute names are printed raw (`{attr}:`, `_exists_:{attr}`)      → `attrUnescaped`
  * `_exists_` / `_missing_` as the attribute of a term or phrase       → `attrReserved`
  * wildcards are printed raw                                           → `wildcardRaw`, `wildcardReparsed`
  * a printed term that starts with `AND OR NOT && ||` is not a `TERM`  → `keywordPrefix`
  * floats print without exponent / fraction (`1.0` ↦ `1`), `inf`/`NaN` are not `NUMERIC_TERM`s
                                                                         → `numberText`
  * a string operand that starts like a number is read as `NUMERIC_TERM` → `cmpStringNumeric`
  * `RANGE_VALUE` knows no escapes; quotes, `*`, numbers are re-interpreted → `rangeString`
  * empty strings (`""`) print as nothing; shapes only a hand-built tree can have: Booleans with
    fewer than two children, an unbounded comparison                    → `emptyString`, `smallBoolean`,
                                                                           `cmpUnbounded`
  * `-*:*` is only `MatchNoDocs` as a whole query; `NOT *:*` is folded to `MatchNoDocs`;
    `NOT NOT x` inside an `AND` group loses its parentheses            → `noneNested`, `notAll`, `notNotInAnd`
    (`NOT *:*` as an element of a Boolean group is fine)
  * a query text made of Unicode white space only is `MatchAllDocs` before the grammar is consulted
    (`(\u{a0})` parses to a term that prints as such a text)            → `blankQuery`
  Repaired in /repo since the first version of this file: the literal "UNICODE3000" in
  `INVALID_TERM_STARTS` (083e896; class `unicode3000` gone) and the panic on a range with brackets of
  two kinds (21ebbb7; such ranges are accepted, in normal form, and round-trip — class `rangeMixed` gone).
-/
import VrlModel.Search.Visitor

namespace Search

open Grammar

inductive Defect where
  | emptyString | spaceInTerm | attrUnescaped | attrReserved | wildcardRaw | wildcardReparsed
  | keywordPrefix | numberText | cmpStringNumeric | cmpUnbounded | rangeString
  | noneNested | notAll | notNotInAnd | smallBoolean | blankQuery
  deriving DecidableEq, Repr

def Defect.name : Defect → String
  | .emptyString => "D_empty_string"
  | .spaceInTerm => "D_space_in_term"
  | .attrUnescaped => "D_attr_unescaped"
  | .attrReserved => "D_attr_reserved"
  | .wildcardRaw => "D_wildcard_raw"
  | .wildcardReparsed => "D_wildcard_reparsed"
  | .keywordPrefix => "D_keyword_prefix"
  | .numberText => "D_number_text"
  | .cmpStringNumeric => "D_cmp_string_numeric"
  | .cmpUnbounded => "D_cmp_unbounded"
  | .rangeString => "D_range_string"
  | .noneNested => "D_none_nested"
  | .notAll => "D_not_all"
  | .notNotInAnd => "D_not_not_in_and"
  | .smallBoolean => "D_small_boolean"
  | .blankQuery => "D_blank_query"

/-! ### string conditions -/

def hasWs (s : Str) : Bool := s.any isWs

/-- a character `lucene_escape` prints as it is although a term cannot contain it unescaped:
    WHITESPACE or U+3000 -/
def isBlank (c : Char) : Bool := isWs c || c == '\u3000'

def hasBlank (s : Str) : Bool := s.any isBlank

/-- starts with one of the keywords `AND OR NOT && ||` -/
def kwStart (s : Str) : Bool :=
  startsWith ['A', 'N', 'D'] s || startsWith ['O', 'R'] s || startsWith ['N', 'O', 'T'] s ||
  startsWith ['&', '&'] s || startsWith ['|', '|'] s

/-- a character a `TERM` may contain unescaped after its first character -/
def isMidChar (c : Char) : Bool := !isInvalidStartChar c || c == '-' || c == '+' || c == '='

/-- the text is, as it stands, a `TERM` without escapes -/
def rawTermChars : Str → Bool
  | [] => false
  | c :: r => !isInvalidStartChar c && r.all isMidChar

def isGlobChar (c : Char) : Bool := c == '*' || c == '?'

/-- the text is, as it stands, a `TERM_GLOB` without escapes -/
def rawGlobChars : Str → Bool
  | [] => false
  | c :: r => (!isInvalidStartChar c || isGlobChar c) && r.all (fun c => isMidChar c || isGlobChar c)

/-- `x*` with `x` a non-empty run of non-glob characters: read back as `TERM_PREFIX` -/
def prefixShape (w : Str) : Bool :=
  !(w.takeWhile (fun c => !isGlobChar c)).isEmpty && w.dropWhile (fun c => !isGlobChar c) == ['*']

/-- the first glob character of `w` is `?` and is not the first character: at the start of a
    query the grammar's `multiterm` takes the part before it -/
def qmarkAfterPlain (w : Str) : Bool :=
  !(w.takeWhile (fun c => !isGlobChar c)).isEmpty && (w.dropWhile (fun c => !isGlobChar c)).head? == some '?'

/-- starts like a `NUM_VALUE` once printed by `lucene_escape` (`-` is printed `\-`) -/
def numStart (s : Str) : Bool :=
  match s with
  | [] => false
  | c :: r =>
    if c = '-' then (match r with | [] => false | d :: _ => isAsciiDigit d)
    else isAsciiDigit c

/-! ### leaf defects, in reporting order -/

def firstDefect : List (Bool × Defect) → Option Defect
  | [] => none
  | (b, d) :: r => if b then some d else firstDefect r

/-- defects of a value printed through `lucene_escape` and read back as `TERM` -/
def escTermDefects (v : Str) : List (Bool × Defect) :=
  [(v.isEmpty, .emptyString), (hasBlank v, .spaceInTerm)]

/-- defects of a non-default attribute name printed raw in front of `:` -/
def attrDefects (a : Str) : List (Bool × Defect) :=
  if a = defaultField then []
  else [(a.isEmpty, .emptyString), (!rawTermChars a || kwStart a, .attrUnescaped)]

/-- a numeric operand is printed by `core` and must come back as the same value -/
def numTextOK (F : FloatLib) (cv : CV) : Bool :=
  let p := cv.toLucene F
  decide (numericTerm p = some (p, [])) && decide (CV.ofText F p = cv)

/-- a range bound must be one `RANGE_VALUE` token that converts back to the same value -/
def rangeBoundOK (F : FloatLib) (cv : CV) : Bool :=
  let p := cv.toLucene F
  !p.isEmpty && p.all (fun c => !isWs c && c != ']' && c != '}') && decide (CV.ofText F p = cv)

def cvDefectsCmp (F : FloatLib) : CV → List (Bool × Defect)
  | .unbounded => [(true, .cmpUnbounded)]
  | .str s => escTermDefects s ++ [(kwStart s, .keywordPrefix), (numStart s, .cmpStringNumeric)]
  | cv => [(!numTextOK F cv, .numberText)]

def cvDefectsRange (F : FloatLib) : CV → List (Bool × Defect)
  | .str s => [(s.isEmpty, .emptyString), (hasWs s, .spaceInTerm), (!rangeBoundOK F (.str s), .rangeString)]
  | .unbounded => []
  | cv => [(!rangeBoundOK F cv, .numberText)]

def leafDefects (F : FloatLib) : Leaf → List (Bool × Defect)
  | .matchAll => []
  | .matchNone => [(true, .noneNested)]
  | .exists_ a => [(a.isEmpty, .emptyString), (!rawTermChars a || kwStart a, .attrUnescaped)]
  | .missing a => [(a.isEmpty, .emptyString), (!rawTermChars a || kwStart a, .attrUnescaped)]
  | .term a v =>
    attrDefects a ++ [(a = existsField || a = missingField, .attrReserved)] ++ escTermDefects v ++
      [(kwStart v, .keywordPrefix)]
  | .quoted a _ => attrDefects a ++ [(a = existsField || a = missingField, .attrReserved)]
  | .pfx a p => attrDefects a ++ escTermDefects p ++ [(a = defaultField && kwStart p, .keywordPrefix)]
  | .wildcard a w =>
    attrDefects a ++
      [(w.isEmpty, .emptyString), (!rawGlobChars w, .wildcardRaw),
       (!(w.any isGlobChar || kwStart w) || prefixShape w, .wildcardReparsed),
       (a = defaultField && (w == ['*'] || kwStart w || qmarkAfterPlain w), .wildcardReparsed)]
  | .comparison a _ v => attrDefects a ++ cvDefectsCmp F v
  | .range a lo _ hi _ =>
    attrDefects a ++ cvDefectsRange F lo ++ cvDefectsRange F hi

def leafDefect (F : FloatLib) (l : Leaf) : Option Defect := firstDefect (leafDefects F l)

def isMatchAll : QNode → Bool
  | .leaf .matchAll => true
  | _ => false

def orElse : Option Defect → Option Defect → Option Defect
  | some d, _ => some d
  | none, o => o

mutual
  /-- first defect of a tree printed as a whole (sub)query: the root, the operand of `NOT ( … )`, a
      parenthesised Boolean (pre-order) -/
  def defectOf (F : FloatLib) : QNode → Option Defect
    | .leaf l => leafDefect F l
    | .neg n => orElse (if isMatchAll n then some .notAll else none) (defectOf F n)
    | .bool op ns =>
      orElse (if ns.length < 2 then some .smallBoolean else none) (defectOfList F op ns)
  def defectOfList (F : FloatLib) (op : BoolOp) : QList → Option Defect
    | .nil => none
    | .cons n ns => orElse (defectOfItem F op n) (defectOfList F op ns)
  /-- first defect of an element of an `AND` / `OR` group: `NOT *:*` is fine there, `NOT NOT x`
      is not inside `AND` -/
  def defectOfItem (F : FloatLib) (op : BoolOp) : QNode → Option Defect
    | .leaf l => leafDefect F l
    | .neg n => orElse (if op = .and && n.isNeg then some .notNotInAnd else none) (defectOf F n)
    | .bool op' ns =>
      orElse (if ns.length < 2 then some .smallBoolean else none) (defectOfList F op' ns)
end

/-- defect of a whole query: `MatchNoDocs` is fine as the root -/
def rootDefect (F : FloatLib) (t : QNode) : Option Defect :=
  if t = .leaf .matchNone then none
  else orElse (defectOf F t) (if (t.toLucene F).all isUnicodeWs then some .blankQuery else none)

/-! ### the normal form -/

def escTermOK (v : Str) : Bool := !v.isEmpty && !hasBlank v
def rawTermOK (a : Str) : Bool := !a.isEmpty && rawTermChars a && !kwStart a
def attrOK (a : Str) : Bool := a = defaultField || rawTermOK a
def notReserved (a : Str) : Bool := !(a = existsField || a = missingField)

def cmpValueOK (F : FloatLib) : CV → Bool
  | .unbounded => false
  | .str s => escTermOK s && !kwStart s && !numStart s
  | cv => numTextOK F cv

def rangeValueOK (F : FloatLib) : CV → Bool
  | .str s => !s.isEmpty && !hasWs s && rangeBoundOK F (.str s)
  | .unbounded => true
  | cv => rangeBoundOK F cv

def wildcardOK (a w : Str) : Bool :=
  !w.isEmpty && rawGlobChars w && (w.any isGlobChar || kwStart w) && !prefixShape w &&
  !(a = defaultField && (w == ['*'] || kwStart w || qmarkAfterPlain w))

/-- leaves that print to a clause which parses back to themselves -/
def NFLeaf (F : FloatLib) : Leaf → Bool
  | .matchAll => true
  | .matchNone => false
  | .exists_ a => rawTermOK a
  | .missing a => rawTermOK a
  | .term a v => attrOK a && notReserved a && escTermOK v && !kwStart v
  | .quoted a _ => attrOK a && notReserved a
  | .pfx a p => attrOK a && escTermOK p && !(a = defaultField && kwStart p)
  | .wildcard a w => attrOK a && wildcardOK a w
  | .comparison a _ v => attrOK a && cmpValueOK F v
  | .range a lo _ hi _ => attrOK a && rangeValueOK F lo && rangeValueOK F hi

mutual
  /-- normal form of a tree printed as a whole (sub)query: the trees `parse (to_lucene t) = t` is
      proved for -/
  def NF (F : FloatLib) : QNode → Bool
    | .leaf l => NFLeaf F l
    | .neg n => !isMatchAll n && NF F n
    | .bool op ns => decide (2 ≤ ns.length) && NFList F op ns
  def NFList (F : FloatLib) (op : BoolOp) : QList → Bool
    | .nil => true
    | .cons n ns => NFItem F op n && NFList F op ns
  /-- normal form of an element of an `AND` / `OR` group -/
  def NFItem (F : FloatLib) (op : BoolOp) : QNode → Bool
    | .leaf l => NFLeaf F l
    | .neg n => !(op = .and && n.isNeg) && NF F n
    | .bool op' ns => decide (2 ≤ ns.length) && NFList F op' ns
end

/-- normal form of a whole query -/
def NFRoot (F : FloatLib) (t : QNode) : Bool :=
  decide (t = .leaf .matchNone) || (NF F t && !(t.toLucene F).all isUnicodeWs)

end Search
