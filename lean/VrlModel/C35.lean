/-
  VrlModel.C35 — Spec side of C35: the round-trip predicate evaluated by the oracle `o.c35`, the
  panic-freedom predicate of `o.c35.nopanic`, and the decidable finding classes.
-/
import VrlModel.Conversion

namespace C35
open Cnv

/-- Spec: converting the canonical text of `v` yields `v`. -/
def roundTripOK (v : Value) (r : ConvResult) : Bool := decide (r = .ok v)

/-- Spec: the conversion does not panic. -/
def noPanic (r : ConvResult) : Bool := decide (r ≠ .panic)

/-- strftime-aware scan (what `format_has_zone` approximates by substring search): does the format
    contain an OFFSET specifier chrono can parse back — `%z`, `%:z`, `%#z`, `%+`? `%%` is a literal
    percent sign and `%Z` (zone abbreviation) is not an offset: chrono skips it when parsing.
    State 0: plain text; 1: just after a `%`; 2: after `%:` or `%#`. -/
def offsetScan : Nat → List Char → Bool
  | _, [] => false
  | 0, c :: r => if c = '%' then offsetScan 1 r else offsetScan 0 r
  | 1, c :: r =>
    if c = '%' then offsetScan 0 r
    else if c = 'z' ∨ c = '+' then true
    else if c = ':' ∨ c = '#' then offsetScan 2 r
    else offsetScan 0 r
  | _ + 2, c :: r =>
    if c = 'z' then true
    else if c = '%' then offsetScan 1 r
    else offsetScan 0 r

def hasOffsetSpec (fmt : List Char) : Bool := offsetScan 0 fmt

/-- does the format contain a real `%Z` specifier? (state 0: plain text; 1: after a `%`) -/
def zoneNameScan : Nat → List Char → Bool
  | _, [] => false
  | 0, c :: r => if c = '%' then zoneNameScan 1 r else zoneNameScan 0 r
  | _ + 1, c :: r => if c = 'Z' then true else zoneNameScan 0 r

def hasZoneNameSpec (fmt : List Char) : Bool := zoneNameScan 0 fmt

/-- finding classes of the round trip (both: `format_has_zone` says "zone-explicit", the configured
    zone is dropped, and `DateTime::parse_from_str` can never find an offset in the text). -/
inductive RtClass where
  | none
  /-- `%Z` is the only zone specifier (`timestamp|%F %T %Z`) -/
  | zoneAbbrev
  /-- no zone specifier at all: the substring `%z`/`%Z`/`%+` comes from a literal `%%` -/
  | literalPercent
  deriving DecidableEq, Repr

def rtClass : Conversion → RtClass
  | .timestampTzFmt f =>
    if hasOffsetSpec f then .none else if hasZoneNameSpec f then .zoneAbbrev else .literalPercent
  | _ => .none

/-- class of the FIXED finding `nopanic:D_leap_offset` (repaired by 83f4a4b): an instant chrono hands
    out that `Utc.timestamp_opt` refuses — a leap-second nanosecond field on a second that is not
    :59 (zones whose UTC offset has seconds). `datetime_to_utc` used to rebuild the instant through
    `Utc.timestamp_opt(..).single().expect(..)` and panicked exactly there; it is now the identity
    on the pair (`Cnv.datetimeToUtc`). Still used by the oracle `o.c35.nopanic` to name a regression. -/
def D_leap_offset (i : Inst) : Bool := decide (1000000000 ≤ i.2) && !(i.1 % 60 == 59)

end C35
