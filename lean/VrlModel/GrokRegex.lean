/-
  VrlModel.GrokRegex — reference regular-expression semantics for the subset of Oniguruma (Ruby
  syntax, as `onig::Regex::new` uses it) that the C32 generator produces:

    literal characters, `\`-escaped metacharacters, `\n \t \r`, `.` (the pattern starts with `(?m)`,
    which in Oniguruma makes `.` match newlines too), character classes `[...]`/`[^...]` with
    ranges and `\d \w \s` (+ negations), `* + ?` and their lazy forms, groups `( )`, `(?: )`,
    `(?<name> )`, alternation, anchors `\A \z ^ $ \b \B`.

  It is a *reference*, not a model of onig's implementation: that onig agrees with it on this subset
  is a hypothesis of the C32 theorems (`Engine.AgreesWithRef`), sampled by the correspondence run.
  Anything outside the subset makes `compile` answer `unsupported` (the driver prints `oom`).

  Pipeline: `tokenize` (a character-by-character state machine) → `parse` (a stack machine over the
  tokens, no recursion on the nesting) → `run` (backtracking matcher in continuation-passing style,
  structurally recursive on the expression; `*` iterates at most `|input|+1` times and every
  iteration must consume input) → `search` (leftmost start position).
-/
import VrlModel.Grok

namespace Rx
open Grok (Str)

inductive CItem where
  | ch (c : Char)
  | range (a b : Char)
  | digit | word | space | ndigit | nword | nspace
  deriving DecidableEq, Repr

inductive RepKind where
  | star | plus | opt
  deriving DecidableEq, Repr

inductive Re where
  | eps
  | chr (c : Char)
  | any
  | set (neg : Bool) (items : List CItem)
  | seq (a b : Re)
  | alt (a b : Re)
  | rep (k : RepKind) (greedy : Bool) (r : Re)
  /-- `none`: `( )` or `(?: )`; `some n`: `(?<n> )` -/
  | grp (name : Option Str) (r : Re)
  | bos | eos | bol | eol | wordb | nwordb
  deriving DecidableEq, Repr

/-! ### tokens -/

inductive Tok where
  | atom (r : Re)                       -- a single-character matcher
  | anchor (r : Re)
  | star | plus | quest | bar
  | open_ (name : Option (Option Str))   -- none: `(`, some none: `(?:`, some (some n): `(?<n>`
  | close
  | flagM                               -- `(?m)`
  deriving DecidableEq, Repr

inductive Raw where
  | ch (c : Char) (escaped : Bool)
  | sh (i : CItem)
  deriving DecidableEq, Repr

inductive TS where
  | norm
  | esc
  | lpar
  | lparQ
  | gname (acc : Str)
  | flag
  | cls (neg : Bool) (raw : List Raw)
  | clsEsc (neg : Bool) (raw : List Raw)
  deriving DecidableEq, Repr

def isAlnum (c : Char) : Bool := ('0' ≤ c && c ≤ '9') || ('a' ≤ c && c ≤ 'z') || ('A' ≤ c && c ≤ 'Z')

def shorthand (c : Char) : Option CItem :=
  if c = 'd' then some .digit else if c = 'w' then some .word else if c = 's' then some .space
  else if c = 'D' then some .ndigit else if c = 'W' then some .nword else if c = 'S' then some .nspace
  else none

def ctrl (c : Char) : Option Char :=
  if c = 'n' then some '\n' else if c = 't' then some '\t' else if c = 'r' then some '\r' else none

def mkItems : List Raw → Option (List CItem)
  | [] => some []
  | .ch a _ :: .ch '-' false :: .ch b _ :: rest =>
    if a ≤ b then (mkItems rest).map (.range a b :: ·) else none
  | .ch _ _ :: .ch '-' false :: .sh _ :: _ => none
  | .ch c _ :: rest => (mkItems rest).map (.ch c :: ·)
  | .sh i :: rest => (mkItems rest).map (i :: ·)

/-- one character in the normal state. -/
def stepNorm (c : Char) : Option (List Tok × TS) :=
  if c = '\\' then some ([], .esc)
  else if c = '(' then some ([], .lpar)
  else if c = ')' then some ([.close], .norm)
  else if c = '[' then some ([], .cls false [])
  else if c = '.' then some ([.atom .any], .norm)
  else if c = '*' then some ([.star], .norm)
  else if c = '+' then some ([.plus], .norm)
  else if c = '?' then some ([.quest], .norm)
  else if c = '|' then some ([.bar], .norm)
  else if c = '^' then some ([.anchor .bol], .norm)
  else if c = '$' then some ([.anchor .eol], .norm)
  else if c = ']' || c = '{' then none     -- intervals / stray brackets: outside the subset
  else some ([.atom (.chr c)], .norm)

def step : TS → Char → Option (List Tok × TS)
  | .norm, c => stepNorm c
  | .esc, c =>
    if c = 'A' then some ([.anchor .bos], .norm)
    else if c = 'z' then some ([.anchor .eos], .norm)
    else if c = 'b' then some ([.anchor .wordb], .norm)
    else if c = 'B' then some ([.anchor .nwordb], .norm)
    else match shorthand c with
      | some i => some ([.atom (.set false [i])], .norm)
      | none =>
        match ctrl c with
        | some k => some ([.atom (.chr k)], .norm)
        | none => if isAlnum c then none else some ([.atom (.chr c)], .norm)
  | .lpar, c =>
    if c = '?' then some ([], .lparQ)
    else match stepNorm c with
      | some (ts, st) => some (.open_ none :: ts, st)
      | none => none
  | .lparQ, c =>
    if c = ':' then some ([.open_ (some none)], .norm)
    else if c = '<' then some ([], .gname [])
    else if c = 'm' then some ([], .flag)
    else none
  | .flag, c => if c = ')' then some ([.flagM], .norm) else none
  | .gname acc, c =>
    if c = '>' then (if acc.isEmpty then none else some ([.open_ (some (some acc.reverse))], .norm))
    else if isAlnum c || c = '_' then some ([], .gname (c :: acc))
    else none
  | .cls neg raw, c =>
    if c = '^' && raw.isEmpty && !neg then some ([], .cls true [])
    else if c = ']' then
      (if raw.isEmpty then none
       else match mkItems raw.reverse with
         | some items => some ([.atom (.set neg items)], .norm)
         | none => none)
    else if c = '\\' then some ([], .clsEsc neg raw)
    else if c = '[' || c = '&' then none
    else some ([], .cls neg (.ch c false :: raw))
  | .clsEsc neg raw, c =>
    match shorthand c with
    | some i => some ([], .cls neg (.sh i :: raw))
    | none =>
      match ctrl c with
      | some k => some ([], .cls neg (.ch k true :: raw))
      | none => if isAlnum c then none else some ([], .cls neg (.ch c true :: raw))

inductive PErr where
  | bad           -- certainly rejected by a regex engine (unbalanced parenthesis, dangling quantifier, premature end)
  | unsupported
  deriving DecidableEq, Repr

/-- the end of the pattern inside an escape, a group header or a character class is an error of
    every engine; a character the subset does not cover is `unsupported`. -/
def tokenizeFrom : TS → Str → Except PErr (List Tok)
  | .norm, [] => .ok []
  | _, [] => .error .bad
  | st, c :: cs =>
    match step st c with
    | none => .error .unsupported
    | some (ts, st') =>
      match tokenizeFrom st' cs with
      | .ok rest => .ok (ts ++ rest)
      | .error e => .error e

def tokenize (s : Str) : Except PErr (List Tok) := tokenizeFrom .norm s

/-! ### parser: a stack of open groups -/

structure Frame where
  kind : Option (Option Str)   -- how the group of this frame was opened (unused for the bottom frame)
  alts : List Re               -- finished alternatives, most recent first
  cur : List Re                -- atoms of the current alternative, most recent first
  /-- 0: nothing to quantify, 1: the last atom may take a quantifier, 2: it just took one (only a
      lazy `?` may follow) -/
  canQ : Nat
  deriving DecidableEq, Repr

def mkSeq (revAtoms : List Re) : Re := revAtoms.foldl (fun acc a => .seq a acc) .eps
def mkAlt (revAlts : List Re) (last : Re) : Re := revAlts.foldl (fun acc a => .alt a acc) last
def Frame.finish (f : Frame) : Re := mkAlt f.alts (mkSeq f.cur)

def Frame.empty (k : Option (Option Str)) : Frame := ⟨k, [], [], 0⟩

def setLazy : Re → Option Re
  | .rep k true r => some (.rep k false r)
  | _ => none

def pstep (t : Tok) : List Frame → Except PErr (List Frame)
  | [] => .error .bad
  | f :: fs =>
    match t with
    | .atom r => .ok ({ f with cur := r :: f.cur, canQ := 1 } :: fs)
    | .anchor r => .ok ({ f with cur := r :: f.cur, canQ := 0 } :: fs)
    | .star | .plus =>
      (match f.canQ, f.cur with
       | 1, a :: rest =>
         .ok ({ f with cur := .rep (if t = .star then .star else .plus) true a :: rest, canQ := 2 } :: fs)
       | 0, _ => .error .bad                 -- target of repeat operator is not specified / invalid
       | _, _ => .error .unsupported)
    | .quest =>
      (match f.canQ, f.cur with
       | 1, a :: rest => .ok ({ f with cur := .rep .opt true a :: rest, canQ := 2 } :: fs)
       | 2, a :: rest =>
         (match setLazy a with
          | some a' => .ok ({ f with cur := a' :: rest, canQ := 3 } :: fs)
          | none => .error .unsupported)
       | 0, _ => .error .bad
       | _, _ => .error .unsupported)
    | .bar => .ok ({ f with alts := mkSeq f.cur :: f.alts, cur := [], canQ := 0 } :: fs)
    | .open_ k => .ok (Frame.empty k :: f :: fs)
    | .close =>
      (match fs with
       | [] => .error .bad                   -- unmatched close parenthesis
       | p :: ps =>
         let name := match f.kind with
           | some (some n) => some n
           | _ => none
         .ok ({ p with cur := .grp name f.finish :: p.cur, canQ := 1 } :: ps))
    | .flagM => .error .unsupported          -- `(?m)` is only modelled at the very start

def parseToks : List Tok → List Frame → Except PErr Re
  | [], [f] => .ok f.finish
  | [], _ => .error .bad                     -- end pattern with unmatched parenthesis
  | t :: ts, st =>
    match pstep t st with
    | .ok st' => parseToks ts st'
    | .error e => .error e

/-- the expression of a source text; it must start with `(?m)`. -/
def parse (src : Str) : Except PErr Re :=
  match tokenize src with
  | .ok (.flagM :: ts) => parseToks ts [Frame.empty none]
  | .ok _ => .error .unsupported
  | .error e => .error e

/-! ### matcher -/

structure St where
  prev : Option Char
  rest : Str
  deriving DecidableEq, Repr

abbrev Caps := List (Str × Str)
abbrev K := St → Caps → Option Caps

def isWordC (c : Char) : Bool := isAlnum c || c = '_'
def isSpaceC (c : Char) : Bool := c = ' ' || ('\t' ≤ c && c ≤ '\r')

def itemMatch : CItem → Char → Bool
  | .ch a, c => a = c
  | .range a b, c => a ≤ c && c ≤ b
  | .digit, c => Grok.isDigit c
  | .word, c => isWordC c
  | .space, c => isSpaceC c
  | .ndigit, c => !Grok.isDigit c
  | .nword, c => !isWordC c
  | .nspace, c => !isSpaceC c

def setMatch (neg : Bool) (items : List CItem) (c : Char) : Bool := (items.any (itemMatch · c)) != neg

def setCap (caps : Caps) (n : Str) (t : Str) : Caps :=
  match caps with
  | [] => [(n, t)]
  | (k, v) :: rest => if k = n then (n, t) :: rest else (k, v) :: setCap rest n t

def orElse (a : Option Caps) (b : Unit → Option Caps) : Option Caps :=
  match a with
  | some r => some r
  | none => b ()

/-- iterate `body` (a matcher with its continuation abstracted) at most `n` times; an iteration that
    does not consume input is rejected. -/
def iter (body : K → K) (k : K) (greedy : Bool) : Nat → K
  | 0 => k
  | n + 1 => fun st caps =>
    let again := fun (_ : Unit) =>
      body (fun st' caps' => if st'.rest.length < st.rest.length then iter body k greedy n st' caps' else none) st caps
    if greedy then orElse (again ()) (fun _ => k st caps) else orElse (k st caps) again

def oneChar (p : Char → Bool) (k : K) : K := fun st caps =>
  match st.rest with
  | c :: r => if p c then k ⟨some c, r⟩ caps else none
  | [] => none

def atWordB (st : St) : Bool :=
  let a := match st.prev with
    | some c => isWordC c
    | none => false
  let b := match st.rest with
    | c :: _ => isWordC c
    | [] => false
  a != b

def run : Re → K → K
  | .eps, k => k
  | .chr c, k => oneChar (· = c) k
  | .any, k => oneChar (fun _ => true) k
  | .set neg items, k => oneChar (setMatch neg items) k
  | .seq a b, k => run a (run b k)
  | .alt a b, k => fun st caps => orElse (run a k st caps) (fun _ => run b k st caps)
  | .rep .star g r, k => fun st caps => iter (run r) k g (st.rest.length + 1) st caps
  | .rep .plus g r, k => run r (fun st caps => iter (run r) k g (st.rest.length + 1) st caps)
  | .rep .opt g r, k => fun st caps =>
    if g then orElse (run r k st caps) (fun _ => k st caps) else orElse (k st caps) (fun _ => run r k st caps)
  | .grp none r, k => run r k
  | .grp (some n) r, k => fun st caps =>
    run r (fun st' caps' => k st' (setCap caps' n (st.rest.take (st.rest.length - st'.rest.length)))) st caps
  | .bos, k => fun st caps => if st.prev.isNone then k st caps else none
  | .eos, k => fun st caps => if st.rest.isEmpty then k st caps else none
  | .bol, k => fun st caps => if st.prev.isNone || st.prev = some '\n' then k st caps else none
  | .eol, k => fun st caps => if st.rest.isEmpty || st.rest.head? = some '\n' then k st caps else none
  | .wordb, k => fun st caps => if atWordB st then k st caps else none
  | .nwordb, k => fun st caps => if atWordB st then none else k st caps

/-- match attempt at one start position. -/
def matchAt (re : Re) (prev : Option Char) (rest : Str) : Option Caps :=
  run re (fun _ caps => some caps) ⟨prev, rest⟩ []

/-- leftmost match (`onig::Regex::captures` searches). -/
def searchFrom (re : Re) : Option Char → Str → Option Caps
  | prev, [] => matchAt re prev []
  | prev, c :: cs =>
    match matchAt re prev (c :: cs) with
    | some r => some r
    | none => searchFrom re (some c) cs

def search (re : Re) (input : Str) : Option Caps := searchFrom re none input

/-- named groups in order of their opening parenthesis. -/
def groupNames : Re → List Str
  | .seq a b | .alt a b => groupNames a ++ groupNames b
  | .rep _ _ r => groupNames r
  | .grp (some n) r => n :: groupNames r
  | .grp none r => groupNames r
  | _ => []

/-- `\d \w \s \b` and their negations are only given an ASCII meaning here. -/
def CItem.isShorthand : CItem → Bool
  | .ch _ | .range _ _ => false
  | _ => true

def usesClasses : Re → Bool
  | .set _ items => items.any CItem.isShorthand
  | .seq a b | .alt a b => usesClasses a || usesClasses b
  | .rep _ _ r | .grp _ r => usesClasses r
  | .wordb | .nwordb => true
  | _ => false

def nodup : List Str → Bool
  | [] => true
  | a :: rest => !rest.contains a && nodup rest

/-- the reference engine. `captures` declines (`none` of the outer… see `refCaptures`) cannot be
    expressed in `Engine`; inputs with non-ASCII characters under `\w`-like classes are filtered by
    the driver before the engine is asked. -/
def refCompile (src : Str) : Grok.CompileRes Re :=
  match parse src with
  | .ok re => if nodup (groupNames re) then .ok re else .unsupported
  | .error .bad => .bad
  | .error .unsupported => .unsupported

def refCaptures (re : Re) (input : Str) : Option (List (Str × Option Str)) :=
  match search re input with
  | none => none
  | some caps => some ((groupNames re).map fun n => (n, (caps.find? (fun kv => kv.1 = n)).map (·.2)))

def refEngine : Grok.Engine where
  Rx := Re
  compile := refCompile
  names := groupNames
  captures := refCaptures

end Rx
