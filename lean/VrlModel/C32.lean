/-
  VrlModel.C32 — the Spec side of property C32: the reference escaper, the reference graph of alias
  definitions, the rule-order expectation for captured fields and the grouped ("corresponding")
  anchored expression. These are the decidable definitions the theorems of
  VrlProofs/Props/C32.lean are stated with and that the `o.c32.*` oracle ops evaluate on the
  implementation's observations.
-/
import VrlModel.Grok
import VrlModel.GrokRegex

namespace C32
open Grok

/-- the regular-expression metacharacters the reference escaper protects (`/` included: rule
    authors escape it by habit and onig accepts `\/`). -/
def metas : List Char := ['.', '*', '+', '?', '(', ')', '[', ']', '{', '}', '^', '$', '|', '\\', '/']

/-- the reference escaper used by the generator (harness/src/c32.rs `esc`). -/
def esc : Str → Str
  | [] => []
  | c :: cs => if metas.contains c then '\\' :: c :: esc cs else c :: esc cs

/-- "the engine agrees with the reference matcher on the source `src`": whenever the reference
    accepts `src`, the engine compiles it, reports the same group names and returns the same
    captures for every input. For `onig` this is a *hypothesis* of the C32 theorems (sampled by the
    correspondence run on the generated subset); for the reference engine it holds by definition. -/
def AgreesOn (E : Engine) (src : Str) : Prop :=
  ∀ re, Rx.refCompile src = .ok re →
    ∃ rx, E.compile src = .ok rx ∧ E.names rx = Rx.groupNames re ∧
      ∀ input, E.captures rx input = Rx.refCaptures re input

/-! ### (a) literal-only rules -/

/-- the regular-expression source of the literal-only rule `esc s`: `(?m)\A` `esc s` `\z`. -/
def litSource (s : Str) : Str := cs!"(?m)\\A" ++ esc s ++ cs!"\\z"


/-- clause "a literal-only rule matches exactly its own text": `matched` is what was observed for
    the rule `esc s` on the input `t`. -/
def litSpec (s t : Str) (matched : Bool) : Bool := matched == decide (t = s)

/-! ### (b) the reference graph of alias definitions -/

/-- the matcher name of a placeholder, if the placeholder is well formed. -/
def phName (P : Prims) (s : Str) : Option Str :=
  match parsePlaceholder P s with
  | .ok p => some p.fn.name
  | .error _ => none

/-- alias names a text refers to (well-formed placeholders whose matcher is a defined alias). -/
def refsOfPieces (P : Prims) (aliases : List (Str × Str)) : List Piece → List Str
  | [] => []
  | .text _ :: rest => refsOfPieces P aliases rest
  | .ph s :: rest =>
    match phName P s with
    | some n => if (lookupAlias aliases n).isSome then n :: refsOfPieces P aliases rest
                else refsOfPieces P aliases rest
    | none => refsOfPieces P aliases rest

def refs (P : Prims) (aliases : List (Str × Str)) (text : Str) : List Str :=
  refsOfPieces P aliases (seg text)

/-- successors of an alias in the reference graph. -/
def succs (P : Prims) (aliases : List (Str × Str)) (a : Str) : List Str :=
  match lookupAlias aliases a with
  | some d => refs P aliases d
  | none => []

/-- a walk of the reference graph that starts at a reference of `text`. -/
inductive Walk (P : Prims) (aliases : List (Str × Str)) : Str → List Str → Prop where
  | one {text : Str} {a : Str} : a ∈ refs P aliases text → Walk P aliases text [a]
  | cons {text : Str} {a : Str} {d : Str} {w : List Str} :
      a ∈ refs P aliases text → lookupAlias aliases a = some d → Walk P aliases d w →
      Walk P aliases text (a :: w)

/-- a cycle of alias definitions is reachable from `text`: some walk visits a name twice. -/
def HasCycleFrom (P : Prims) (aliases : List (Str × Str)) (text : Str) : Prop :=
  ∃ w, Walk P aliases text w ∧ ¬ w.Nodup

def addNew (S : List Str) (xs : List Str) : List Str :=
  xs.foldl (fun S x => if S.contains x then S else S ++ [x]) S

def closeStep (P : Prims) (aliases : List (Str × Str)) (S : List Str) : List Str :=
  S.foldl (fun acc a => addNew acc (succs P aliases a)) S

def closure (P : Prims) (aliases : List (Str × Str)) : Nat → List Str → List Str
  | 0, S => S
  | n + 1, S => closure P aliases n (closeStep P aliases S)

/-- the aliases reachable from `text` (computed as a closure, independently of the depth-first
    traversal of the implementation). -/
def reachable (P : Prims) (aliases : List (Str × Str)) (text : Str) : List Str :=
  closure P aliases aliases.length (addNew [] (refs P aliases text))

/-- decidable form of `HasCycleFrom`: a reachable alias reaches itself. -/
def cycleReachable (P : Prims) (aliases : List (Str × Str)) (text : Str) : Bool :=
  (reachable P aliases text).any fun a =>
    (closure P aliases aliases.length (addNew [] (succs P aliases a))).contains a

/-- what was observed when a rule was compiled. -/
inductive CompileObs where
  | accepted
  | circular
  | otherError
  | panicked
  deriving DecidableEq, Repr

/-- clause "cyclic alias definitions are rejected when the rule is compiled" (and only they are
    reported as circular). -/
def cycSpec (P : Prims) (aliases : List (Str × Str)) (rule : Str) (obs : CompileObs) : Bool :=
  match obs with
  | .accepted => !cycleReachable P aliases rule
  | .circular => cycleReachable P aliases rule
  | .otherError => true
  | .panicked => true

/-! ### (b') the regular-expression source of a flat rule -/

/-- an item of a *flat* rule, by meaning: verbatim text, an alias used without destination
    (definition `d`), an alias used with a destination (definition, destination path, declared
    filters). The definitions of a flat rule contain no placeholders themselves. -/
inductive SItem where
  | text (t : Str)
  | ref (d : Str)
  | cap (d : Str) (path : List Str) (filters : List Filter)
  deriving DecidableEq, Repr

/-- Spec of the source: the concatenation, in order, of the verbatim texts, the inlined
    definitions, and one named group `(?<grokK>…)` per captured placeholder, `K` counting the
    captures from `k`; and the fields `grokK ↦ (destination, filters)`. -/
def specFrom : Nat → List SItem → Str × List (Nat × Field)
  | _, [] => ([], [])
  | k, .text t :: rest => (t ++ (specFrom k rest).1, (specFrom k rest).2)
  | k, .ref d :: rest => (d ++ (specFrom k rest).1, (specFrom k rest).2)
  | k, .cap d path fl :: rest =>
    (cs!"(?<" ++ grokName k ++ cs!">" ++ d ++ cs!")" ++ (specFrom (k + 1) rest).1,
     (k, ⟨path, fl⟩) :: (specFrom (k + 1) rest).2)

/-- how a piece of the rule text is read as an item (the concrete placeholder syntax is the
    lexer/parser of the model; the alias definition must be placeholder-free text). -/
inductive Reads (P : Prims) (aliases : List (Str × Str)) : Piece → SItem → Prop where
  | text (t : Str) : Reads P aliases (.text t) (.text t)
  | ref {s : Str} {fn : Fn} {d : Str} :
      parsePlaceholder P s = .ok ⟨fn, none⟩ → lookupAlias aliases fn.name = some d → seg d = [.text d] →
      Reads P aliases (.ph s) (.ref d)
  | cap {s : Str} {fn : Fn} {d : Str} {path : List Str} :
      parsePlaceholder P s = .ok ⟨fn, some ⟨path, none⟩⟩ → lookupAlias aliases fn.name = some d →
      seg d = [.text d] → Reads P aliases (.ph s) (.cap d path [])
  | capF {s : Str} {fn f : Fn} {d : Str} {path : List Str} {flt : Filter} :
      parsePlaceholder P s = .ok ⟨fn, some ⟨path, some f⟩⟩ → filterOf f = .ok flt →
      lookupAlias aliases fn.name = some d → seg d = [.text d] →
      Reads P aliases (.ph s) (.cap d path [flt])

inductive ReadsAll (P : Prims) (aliases : List (Str × Str)) : List Piece → List SItem → Prop where
  | nil : ReadsAll P aliases [] []
  | cons {pc : Piece} {it : SItem} {ps : List Piece} {its : List SItem} :
      Reads P aliases pc it → ReadsAll P aliases ps its → ReadsAll P aliases (pc :: ps) (it :: its)

/-- the rule text `rule` is the flat rule `items`. -/
def ReadsAs (P : Prims) (aliases : List (Str × Str)) (rule : Str) (items : List SItem) : Prop :=
  ReadsAll P aliases (seg rule) items

/-! ### (c) captured fields, in rule order -/

/-- one capture of a rule: destination, declared filters, matched substring. -/
structure Cap where
  path : List Str
  filters : List Filter
  text : Str
  deriving DecidableEq, Repr

/-- the fields a match must produce: every non-empty captured substring goes through its filters
    and is stored at its destination, **in rule order** (a destination used more than once
    collects an array). -/
def expectedFrom (P : Prims) : List Cap → Value → Nat → Out (Value × Nat)
  | [], parsed, n => .ok (parsed, n)
  | c :: rest, parsed, n =>
    if c.text.isEmpty then expectedFrom P rest parsed n
    else
      match applyFilters P c.filters (some (.str c.text)) n with
      | .ok (some v, n') => expectedFrom P rest (storeField parsed c.path v.toValue) n'
      | .ok (none, n') => expectedFrom P rest parsed n'
      | .err e => .err e
      | .panic => .panic
      | .oom => .oom
      | .fuel => .fuel

def expected (P : Prims) (caps : List Cap) : Out Value :=
  match expectedFrom P caps (.obj .nil) 0 with
  | .ok (v, _) => .ok (pp v)
  | .err e => .err e
  | .panic => .panic
  | .oom => .oom
  | .fuel => .fuel

/-- the capture list of numbered fields, given the text each group captured. -/
def capsOf (fields : List (Nat × Field)) (textOf : Nat → Str) : List Cap :=
  fields.map fun nf => ⟨nf.2.path, nf.2.filters, textOf nf.1⟩

/-- finding class: more than ten fields, so that `grok10` sorts before `grok2`. -/
def D_name_order (nFields : Nat) : Bool := decide (10 < nFields)


/-! ### (d) the corresponding anchored expression -/

/-- one item of a flat rule: verbatim text, or a placeholder whose matcher is the alias `name`. -/
inductive Item where
  | text (t : Str)
  | ph (name : Str) (dest : Option (List Str × Option Fn))
  deriving DecidableEq

/-- the expression a rule stands for: every placeholder is a group of its own, and the whole body
    is one group between `\A` and `\z`. -/
def groupedBody (aliases : List (Str × Str)) : List Item → Str
  | [] => []
  | .text t :: rest => t ++ groupedBody aliases rest
  | .ph name _ :: rest =>
    cs!"(?:" ++ (lookupAlias aliases name).getD [] ++ cs!")" ++ groupedBody aliases rest

def groupedSource (aliases : List (Str × Str)) (items : List Item) : Str :=
  cs!"(?m)\\A(?:" ++ groupedBody aliases items ++ cs!")\\z"

/-- does a regular-expression text have an alternation outside every group and character class? -/
def hasTopAlt : Str → Nat → Bool → Bool → Bool
  | [], _, _, _ => false
  | c :: cs, depth, inCls, escaped =>
    if escaped then hasTopAlt cs depth inCls false
    else if c = '\\' then hasTopAlt cs depth inCls true
    else if inCls then hasTopAlt cs depth (c != ']') false
    else if c = '[' then hasTopAlt cs depth true false
    else if c = '(' then hasTopAlt cs (depth + 1) false false
    else if c = ')' then hasTopAlt cs (depth - 1) false false
    else if c = '|' && depth = 0 then true
    else hasTopAlt cs depth false false

/-- finding class: verbatim text, or the definition of an alias used without a destination, has an
    alternation outside every group: it is inlined without parentheses and captures the anchors
    and the neighbouring text. -/
def D_unguarded_alt (aliases : List (Str × Str)) (items : List Item) : Bool :=
  items.any fun
    | .text t => hasTopAlt t 0 false false
    | .ph name none => hasTopAlt ((lookupAlias aliases name).getD []) 0 false false
    | .ph _ (some _) => false

end C32
