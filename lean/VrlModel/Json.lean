/-
  VrlModel.Json — model of the JSON text format as vrl produces and consumes it for `Value`
  (C21).  Anchors: `src/value/value/serde.rs` (`Serialize`/`Deserialize for Value`,
  `From<serde_json::Value>`), `src/stdlib/encode_json.rs`, `src/stdlib/parse_json.rs`,
  `src/stdlib/json_utils/bom.rs`, `simdutf_bytes_utf8_lossy` in `src/value/value.rs`, and the
  parts of `serde_json` 1.0.151 (features `std`, `raw_value`; no `float_roundtrip`,
  `arbitrary_precision`, `preserve_order`, `unbounded_depth`) that this glue drives:
  `ser.rs` (`CompactFormatter`, `PrettyFormatter`, `ESCAPE`), `de.rs` (`deserialize_any`,
  `SeqAccess`, `MapAccess`, `ignore_value`, number parsing), `read.rs` (`parse_str`, escapes).

  Texts, strings and keys are `List Nat` (bytes).  Errors are collapsed to `none`: the property and
  the correspondence only talk about accept/reject.

  Third-party primitives are parameters (`Prims`): shortest float printing (`zmij`), the decimal →
  binary64 conversion of `serde_json`, RFC 3339 printing of timestamps (`chrono`).  A concrete model
  of `serde_json`'s default (non-`float_roundtrip`) conversion is given as `serdeParseF`; it is what
  the driver uses, and it reproduces the 2-ulp finding (`VrlProofs/Witness/C21.lean`).
-/
import VrlModel.Value
import VrlModel.F64

namespace Json

/-! ## UTF-8 (`str::from_utf8`, `[u8]::utf8_chunks`) -/

def isCont (b : Nat) : Bool := decide (128 ≤ b) && decide (b < 192)

/-- admissible second byte of a three-byte sequence with lead byte `b` (`0xE0..=0xEF`). -/
def second3 (b c : Nat) : Bool :=
  if b = 224 then decide (160 ≤ c) && decide (c < 192)
  else if b = 237 then decide (128 ≤ c) && decide (c < 160)
  else isCont c

/-- admissible second byte of a four-byte sequence with lead byte `b` (`0xF0..=0xF4`). -/
def second4 (b c : Nat) : Bool :=
  if b = 240 then decide (144 ≤ c) && decide (c < 192)
  else if b = 244 then decide (128 ≤ c) && decide (c < 144)
  else isCont c

/-- `core::str::from_utf8(s).is_ok()`. -/
def validUtf8 : List Nat → Bool
  | [] => true
  | b :: rest =>
    if b < 128 then validUtf8 rest
    else if 194 ≤ b ∧ b ≤ 223 then
      match rest with
      | c :: r => isCont c && validUtf8 r
      | [] => false
    else if 224 ≤ b ∧ b ≤ 239 then
      match rest with
      | c :: d :: r => second3 b c && isCont d && validUtf8 r
      | _ => false
    else if 240 ≤ b ∧ b ≤ 244 then
      match rest with
      | c :: d :: e :: r => second4 b c && isCont d && isCont e && validUtf8 r
      | _ => false
    else false

/-- U+FFFD -/
def repl : List Nat := [239, 191, 189]

/-- `simdutf_bytes_utf8_lossy` = `String::from_utf8_lossy`: every maximal invalid chunk reported by
    `utf8_chunks` (the lead byte and the continuation bytes accepted so far) becomes one U+FFFD;
    scanning resumes at the byte that broke the sequence. -/
def utf8Lossy : List Nat → List Nat
  | [] => []
  | b :: rest =>
    if b < 128 then b :: utf8Lossy rest
    else if 194 ≤ b ∧ b ≤ 223 then
      match rest with
      | [] => repl
      | c :: r => if isCont c then b :: c :: utf8Lossy r else repl ++ utf8Lossy (c :: r)
    else if 224 ≤ b ∧ b ≤ 239 then
      match rest with
      | [] => repl
      | c :: r1 =>
        if second3 b c then
          match r1 with
          | [] => repl
          | d :: r2 => if isCont d then b :: c :: d :: utf8Lossy r2 else repl ++ utf8Lossy (d :: r2)
        else repl ++ utf8Lossy (c :: r1)
    else if 240 ≤ b ∧ b ≤ 244 then
      match rest with
      | [] => repl
      | c :: r1 =>
        if second4 b c then
          match r1 with
          | [] => repl
          | d :: r2 =>
            if isCont d then
              match r2 with
              | [] => repl
              | e :: r3 => if isCont e then b :: c :: d :: e :: utf8Lossy r3 else repl ++ utf8Lossy (e :: r3)
            else repl ++ utf8Lossy (d :: r2)
        else repl ++ utf8Lossy (c :: r1)
    else repl ++ utf8Lossy rest

/-! ## Numbers: tokens, integer text -/

def isDigit (c : Nat) : Bool := decide (48 ≤ c) && decide (c ≤ 57)

def allDigits : List Nat → Bool
  | [] => true
  | c :: r => isDigit c && allDigits r

/-- A JSON number token, split the way the grammar splits it.  `exp` holds the marker/sign bytes
    (`e`, `E`, `e+`, `e-`, `E+`, `E-`) and the exponent digits. -/
structure NumTok where
  neg : Bool
  int : List Nat
  frac : Option (List Nat)
  exp : Option (List Nat × List Nat)
  deriving DecidableEq, Repr

def fracText : Option (List Nat) → List Nat
  | some fs => 46 :: fs
  | none => []

def expText : Option (List Nat × List Nat) → List Nat
  | some (pre, es) => pre ++ es
  | none => []

def signText (neg : Bool) : List Nat := if neg then [45] else []

/-- the text of a token -/
def NumTok.render (t : NumTok) : List Nat :=
  signText t.neg ++ (t.int ++ (fracText t.frac ++ expText t.exp))

def wfInt (ds : List Nat) : Bool :=
  match ds with
  | [] => false
  | c :: r => (c == 48 && r.isEmpty) || (decide (49 ≤ c) && decide (c ≤ 57) && allDigits r)

def wfFrac : Option (List Nat) → Bool
  | none => true
  | some fs => !fs.isEmpty && allDigits fs

def expPrefixes : List (List Nat) := [[101], [69], [101, 43], [101, 45], [69, 43], [69, 45]]

def wfExp : Option (List Nat × List Nat) → Bool
  | none => true
  | some (pre, es) => expPrefixes.contains pre && !es.isEmpty && allDigits es

/-- the token follows the JSON number grammar -/
def NumTok.wf (t : NumTok) : Bool := wfInt t.int && wfFrac t.frac && wfExp t.exp

/-- the token has a fraction or an exponent (never read back as an integer) -/
def NumTok.isFloat (t : NumTok) : Bool := t.frac.isSome || t.exp.isSome

def showNatAux : Nat → Nat → List Nat → List Nat
  | 0, _, acc => acc
  | f + 1, n, acc =>
    if n < 10 then (48 + n) :: acc else showNatAux f (n / 10) ((48 + n % 10) :: acc)

/-- decimal digits of `n` (`itoa`) -/
def showNat (n : Nat) : List Nat := showNatAux (n + 1) n []

def intTok (i : Int) : NumTok :=
  { neg := decide (i < 0), int := showNat i.natAbs, frac := none, exp := none }

/-- `itoa` text of an `i64` -/
def showInt (i : Int) : List Nat := (intTok i).render

def takeDigits : List Nat → List Nat × List Nat
  | [] => ([], [])
  | c :: r => if isDigit c then (c :: (takeDigits r).1, (takeDigits r).2) else ([], c :: r)

/-- integer part: `0` not followed by a digit, or `[1-9][0-9]*` -/
def lexInt : List Nat → Option (List Nat × List Nat)
  | [] => none
  | c :: r =>
    if c = 48 then
      match r with
      | [] => some ([48], [])
      | d :: r' => if isDigit d then none else some ([48], d :: r')
    else if 49 ≤ c ∧ c ≤ 57 then some (c :: (takeDigits r).1, (takeDigits r).2)
    else none

def lexFrac : List Nat → Option (Option (List Nat) × List Nat)
  | [] => some (none, [])
  | c :: r =>
    if c = 46 then
      if (takeDigits r).1.isEmpty then none else some (some (takeDigits r).1, (takeDigits r).2)
    else some (none, c :: r)

def lexExpDigits (pre : List Nat) (r : List Nat) : Option (Option (List Nat × List Nat) × List Nat) :=
  if (takeDigits r).1.isEmpty then none else some (some (pre, (takeDigits r).1), (takeDigits r).2)

def lexExp : List Nat → Option (Option (List Nat × List Nat) × List Nat)
  | [] => some (none, [])
  | c :: r =>
    if c = 101 ∨ c = 69 then
      match r with
      | [] => none
      | s :: r' => if s = 43 ∨ s = 45 then lexExpDigits [c, s] r' else lexExpDigits [c] (s :: r')
    else some (none, c :: r)

def lexSign : List Nat → Bool × List Nat
  | [] => (false, [])
  | c :: r => if c = 45 then (true, r) else (false, c :: r)

/-- Lex one number token at the head of the input (`parse_integer`/`parse_decimal`/
    `parse_exponent`, and `ignore_integer`/…: same grammar). -/
def lexNum (s : List Nat) : Option (NumTok × List Nat) :=
  match lexInt (lexSign s).2 with
  | none => none
  | some (int, s2) =>
    match lexFrac s2 with
    | none => none
    | some (frac, s3) =>
      match lexExp s3 with
      | none => none
      | some (exp, s4) => some ({ neg := (lexSign s).1, int := int, frac := frac, exp := exp }, s4)

def digitsVal (ds : List Nat) : Nat := ds.foldl (fun a c => a * 10 + (c - 48)) 0

def i64Max : Nat := 9223372036854775807
def u64Max : Nat := 18446744073709551615

/-- what `serde_json` hands to the visitor for a number token -/
inductive Num where
  | int (i : Int)     -- `visit_i64`, or `visit_u64` with a value that fits `i64`
  | big (n : Nat)     -- `visit_u64` with a value above `i64::MAX`
  | flt (bits : Nat)  -- `visit_f64`
  deriving DecidableEq, Repr

/-- `parse_any_number`: integer syntax stays an integer when it fits `u64` (positive) or `i64`
    (negative, `-0` excepted); everything else goes through the float conversion `parseF`
    (`none` = "number out of range"). -/
def numOfTok (parseF : List Nat → Option Nat) (t : NumTok) : Option Num :=
  if t.isFloat then (parseF t.render).map Num.flt
  else if t.neg then
    if 0 < digitsVal t.int ∧ digitsVal t.int ≤ i64Max + 1 then some (.int (-(digitsVal t.int : Int)))
    else (parseF t.render).map Num.flt
  else if digitsVal t.int ≤ i64Max then some (.int (digitsVal t.int : Int))
  else if digitsVal t.int ≤ u64Max then some (.big (digitsVal t.int))
  else (parseF t.render).map Num.flt

/-- `Deserialize for Value` (`jv = false`): `visit_u64` above `i64::MAX` is `value as f64`;
    `From<serde_json::Value>` (`jv = true`, the `max_depth` path): such a number is neither
    `is_i64` nor `is_f64` and becomes the *string* of its digits. -/
def numToValue (jv : Bool) : Num → Value
  | .int i => .int i
  | .big n => if jv then .bytes (showNat n) else .float (F64.roundMag n 0)
  | .flt b => .float b

/-! ## Third-party primitives -/

structure Prims where
  /-- shortest round-trip text of a finite double (bit pattern): `zmij::Buffer::format_finite` -/
  showF : Nat → List Nat
  /-- `serde_json`'s conversion of a number token to `f64` bits; `none` = out of range -/
  parseF : List Nat → Option Nat
  /-- `timestamp_to_string` (chrono, RFC 3339 `AutoSi`, `Z`) of nanoseconds since the epoch -/
  showTs : Int → List Nat

/-! ## Printer (`Serialize for Value` through `serde_json::to_string{,_pretty}`) -/

def hexLower (n : Nat) : Nat := if n < 10 then 48 + n else 87 + n

/-- `ESCAPE` table + `write_char_escape` -/
def escapeByte (b : Nat) : List Nat :=
  if b = 34 then [92, 34]
  else if b = 92 then [92, 92]
  else if b = 8 then [92, 98]
  else if b = 9 then [92, 116]
  else if b = 10 then [92, 110]
  else if b = 12 then [92, 102]
  else if b = 13 then [92, 114]
  else if b < 32 then [92, 117, 48, 48, hexLower (b / 16), hexLower (b % 16)]
  else [b]

def escape : List Nat → List Nat
  | [] => []
  | b :: bs => escapeByte b ++ escape bs

/-- `format_escaped_str` -/
def quote (s : List Nat) : List Nat := 34 :: (escape s ++ [34])

/-- `serialize_f64`: NaN and ±∞ are written as `null`. -/
def showFloat (P : Prims) (bits : Nat) : List Nat :=
  if F64.isFinite bits then P.showF bits else [110, 117, 108, 108]

/-- newline + indentation written by `PrettyFormatter` (two spaces per level); nothing in compact mode. -/
def nl (pretty : Bool) (lvl : Nat) : List Nat :=
  if pretty then 10 :: List.replicate (2 * lvl) 32 else []

/-- `begin_object_value` -/
def colon (pretty : Bool) : List Nat := if pretty then [58, 32] else [58]

mutual
  /-- text of a value whose enclosing containers are `lvl` deep -/
  def pv (P : Prims) (pretty : Bool) (lvl : Nat) : Value → List Nat
    | .null => [110, 117, 108, 108]
    | .bool true => [116, 114, 117, 101]
    | .bool false => [102, 97, 108, 115, 101]
    | .int i => showInt i
    | .float b => showFloat P b
    | .bytes b => quote (utf8Lossy b)
    | .ts ns => quote (P.showTs ns)
    | .regex pat => quote pat
    | .arr xs => 91 :: pl0 P pretty lvl xs
    | .obj m => 123 :: pm0 P pretty lvl m
  /-- after `[` -/
  def pl0 (P : Prims) (pretty : Bool) (lvl : Nat) : VList → List Nat
    | .nil => [93]
    | .cons x xs => nl pretty (lvl + 1) ++ (pv P pretty (lvl + 1) x ++ pl P pretty lvl xs)
  /-- after an element -/
  def pl (P : Prims) (pretty : Bool) (lvl : Nat) : VList → List Nat
    | .nil => nl pretty lvl ++ [93]
    | .cons x xs => 44 :: (nl pretty (lvl + 1) ++ (pv P pretty (lvl + 1) x ++ pl P pretty lvl xs))
  /-- after `{` -/
  def pm0 (P : Prims) (pretty : Bool) (lvl : Nat) : VMap → List Nat
    | .nil => [125]
    | .cons k x m =>
      nl pretty (lvl + 1) ++ (quote k ++ (colon pretty ++ (pv P pretty (lvl + 1) x ++ pm P pretty lvl m)))
  /-- after a member -/
  def pm (P : Prims) (pretty : Bool) (lvl : Nat) : VMap → List Nat
    | .nil => nl pretty lvl ++ [125]
    | .cons k x m =>
      44 :: (nl pretty (lvl + 1) ++ (quote k ++ (colon pretty ++ (pv P pretty (lvl + 1) x ++ pm P pretty lvl m))))
end

/-- `serde_json::to_string(&value)` / `to_string_pretty`; also `encode_json(value, pretty)`. -/
def serToString (P : Prims) (pretty : Bool) (v : Value) : List Nat := pv P pretty 0 v

def encodeJson (P : Prims) (pretty : Bool) (v : Value) : List Nat := serToString P pretty v

/-! ## Parser (`serde_json::Deserializer` driving `Deserialize for Value`) -/

def isWs (c : Nat) : Bool := c == 32 || c == 10 || c == 9 || c == 13

def skipWs : List Nat → List Nat
  | [] => []
  | c :: r => if isWs c then skipWs r else c :: r

def stripPrefix : List Nat → List Nat → Option (List Nat)
  | [], s => some s
  | _ :: _, [] => none
  | a :: as, b :: bs => if a = b then stripPrefix as bs else none

def hexVal (c : Nat) : Option Nat :=
  if 48 ≤ c ∧ c ≤ 57 then some (c - 48)
  else if 65 ≤ c ∧ c ≤ 70 then some (c - 55)
  else if 97 ≤ c ∧ c ≤ 102 then some (c - 87)
  else none

/-- `decode_hex_escape` -/
def hex4 : List Nat → Option (Nat × List Nat)
  | a :: b :: c :: d :: r =>
    match hexVal a, hexVal b, hexVal c, hexVal d with
    | some a, some b, some c, some d => some (((a * 16 + b) * 16 + c) * 16 + d, r)
    | _, _, _, _ => none
  | _ => none

/-- `push_wtf8_codepoint` -/
def encodeUtf8 (n : Nat) : List Nat :=
  if n < 128 then [n]
  else if n < 2048 then [192 + n / 64, 128 + n % 64]
  else if n < 65536 then [224 + n / 4096, 128 + n / 64 % 64, 128 + n % 64]
  else [240 + n / 262144, 128 + n / 4096 % 64, 128 + n / 64 % 64, 128 + n % 64]

/-- `parse_unicode_escape` with `validate = true`, after `\u`: lone surrogates are errors. -/
def parseUnicode (r : List Nat) : Option (List Nat × List Nat) :=
  match hex4 r with
  | none => none
  | some (n, r1) =>
    if 56320 ≤ n ∧ n ≤ 57343 then none
    else if n < 55296 ∨ 56319 < n then some (encodeUtf8 n, r1)
    else
      match r1 with
      | a :: b :: r2 =>
        if a = 92 ∧ b = 117 then
          match hex4 r2 with
          | none => none
          | some (n2, r3) =>
            if 56320 ≤ n2 ∧ n2 ≤ 57343 then
              some (encodeUtf8 ((n - 55296) * 1024 + (n2 - 56320) + 65536), r3)
            else none
        else none
      | _ => none

/-- `parse_escape`, after the backslash -/
def parseEscape : List Nat → Option (List Nat × List Nat)
  | [] => none
  | c :: r =>
    if c = 34 then some ([34], r)
    else if c = 92 then some ([92], r)
    else if c = 47 then some ([47], r)
    else if c = 98 then some ([8], r)
    else if c = 102 then some ([12], r)
    else if c = 110 then some ([10], r)
    else if c = 114 then some ([13], r)
    else if c = 116 then some ([9], r)
    else if c = 117 then parseUnicode r
    else none

/-- string body up to the closing quote: decoded bytes and the rest of the input -/
def parseStrBody : Nat → List Nat → Option (List Nat × List Nat)
  | 0, _ => none
  | _ + 1, [] => none
  | f + 1, c :: r =>
    if c = 34 then some ([], r)
    else if c = 92 then
      match parseEscape r with
      | none => none
      | some (bs, r1) =>
        match parseStrBody f r1 with
        | none => none
        | some (t, r2) => some (bs ++ t, r2)
    else if c < 32 then none
    else
      match parseStrBody f r with
      | none => none
      | some (t, r2) => some (c :: t, r2)

/-- `SliceRead::parse_str` after the opening quote (the decoded text must be UTF-8: `as_str`). -/
def parseStr (r : List Nat) : Option (List Nat × List Nat) :=
  match parseStrBody (r.length + 1) r with
  | none => none
  | some (t, r2) => if validUtf8 t then some (t, r2) else none

end Json

namespace VMap

/-- `map.insert(key, value)` for every entry in document order (duplicate keys: last wins). -/
def fromRawAux : VMap → VMap → VMap
  | acc, .nil => acc
  | acc, .cons k v m => fromRawAux (acc.insert k v) m

def fromRaw (m : VMap) : VMap := fromRawAux .nil m

end VMap

namespace Json

/-- where the next element / key starts, given the first non-blank byte `c` and what follows it
    (`has_next_element`): `none` = error. -/
def elemStart (first : Bool) (c : Nat) (r : List Nat) : Option (List Nat) :=
  if first then some (c :: r)
  else if c = 44 then
    match skipWs r with
    | [] => none
    | c' :: r' => if c' = 93 then none else some (c' :: r')
  else none

/-- `has_next_key`: the input after the opening quote of the next key. -/
def keyStart (first : Bool) (c : Nat) (r : List Nat) : Option (List Nat) :=
  if first then (if c = 34 then some r else none)
  else if c = 44 then
    match skipWs r with
    | [] => none
    | c' :: r' => if c' = 34 then some r' else none
  else none

mutual
  /-- `deserialize_any` with `ValueVisitor`.  First argument: fuel (structural recursion);
      `d`: `remaining_depth` of the deserializer (128 at the start). -/
  def parseValue (parseF : List Nat → Option Nat) (jv : Bool) : Nat → Nat → List Nat → Option (Value × List Nat)
    | 0, _, _ => none
    | f + 1, d, s =>
      match skipWs s with
      | [] => none
      | c :: r =>
        if c = 110 then (stripPrefix [117, 108, 108] r).map fun r' => (Value.null, r')
        else if c = 116 then (stripPrefix [114, 117, 101] r).map fun r' => (Value.bool true, r')
        else if c = 102 then (stripPrefix [97, 108, 115, 101] r).map fun r' => (Value.bool false, r')
        else if c = 45 ∨ isDigit c = true then
          match lexNum (c :: r) with
          | none => none
          | some (t, r') => (numOfTok parseF t).map fun n => (numToValue jv n, r')
        else if c = 34 then
          match parseStr r with
          | none => none
          | some (b, r') => some (Value.bytes b, r')
        else if c = 91 then
          if d ≤ 1 then none
          else
            match parseElems parseF jv f (d - 1) r true with
            | none => none
            | some (xs, r') => some (Value.arr xs, r')
        else if c = 123 then
          if d ≤ 1 then none
          else
            match parseMembers parseF jv f (d - 1) r true with
            | none => none
            | some (m, r') => some (Value.obj (VMap.fromRaw m), r')
        else none
  /-- `visit_seq` + `end_seq`: elements up to and including `]`. -/
  def parseElems (parseF : List Nat → Option Nat) (jv : Bool) : Nat → Nat → List Nat → Bool → Option (VList × List Nat)
    | 0, _, _, _ => none
    | f + 1, d, s, first =>
      match skipWs s with
      | [] => none
      | c :: r =>
        if c = 93 then some (VList.nil, r)
        else
          match elemStart first c r with
          | none => none
          | some s0 =>
            match parseValue parseF jv f d s0 with
            | none => none
            | some (v, s1) =>
              match parseElems parseF jv f d s1 false with
              | none => none
              | some (vs, s2) => some (VList.cons v vs, s2)
  /-- `visit_map` + `end_map`: members in document order up to and including `}`. -/
  def parseMembers (parseF : List Nat → Option Nat) (jv : Bool) : Nat → Nat → List Nat → Bool → Option (VMap × List Nat)
    | 0, _, _, _ => none
    | f + 1, d, s, first =>
      match skipWs s with
      | [] => none
      | c :: r =>
        if c = 125 then some (VMap.nil, r)
        else
          match keyStart first c r with
          | none => none
          | some s0 =>
            match parseStr s0 with
            | none => none
            | some (k, s1) =>
              match skipWs s1 with
              | [] => none
              | c2 :: s2 =>
                if c2 = 58 then
                  match parseValue parseF jv f d s2 with
                  | none => none
                  | some (v, s3) =>
                    match parseMembers parseF jv f d s3 false with
                    | none => none
                    | some (m, s4) => some (VMap.cons k v m, s4)
                else none
end

/-- fuel that always suffices for an input of this length (two calls per consumed byte). -/
def fuelFor (s : List Nat) : Nat := 2 * s.length + 2

/-- `serde_json::from_slice::<T>` / `from_str`: one value, then only whitespace (`Deserializer::end`). -/
def deFrom (parseF : List Nat → Option Nat) (jv : Bool) (s : List Nat) : Option Value :=
  match parseValue parseF jv (fuelFor s) 128 s with
  | none => none
  | some (v, rest) => if (skipWs rest).isEmpty then some v else none

/-- `serde_json::from_slice::<Value>(s)` (and `from_str` when `s` is UTF-8). -/
def deFromSlice (P : Prims) (s : List Nat) : Option Value := deFrom P.parseF false s

/-! ## `parse_json` -/

/-- `<&str as StripBomFromUTF8>::strip_bom` = `trim_start_matches('\u{feff}')`: every leading BOM. -/
def stripBomStr : List Nat → List Nat
  | a :: b :: c :: r => if a = 239 ∧ b = 187 ∧ c = 191 then stripBomStr r else a :: b :: c :: r
  | s => s

/-- `<&[u8] as StripBomFromUTF8>::strip_bom` = `strip_prefix(BOM)`: one leading BOM. -/
def stripBomBytes : List Nat → List Nat
  | a :: b :: c :: r => if a = 239 ∧ b = 187 ∧ c = 191 then r else a :: b :: c :: r
  | s => s

/-- `parse_json(value, lossy)` without `max_depth`. -/
def parseJson (P : Prims) (lossy : Bool) (s : List Nat) : Option Value :=
  if lossy then deFromSlice P (stripBomStr (utf8Lossy s)) else deFromSlice P (stripBomBytes s)

/-! ### `max_depth`: `parse_json_with_depth`, `parse_layer`, `ignore_value`, `RawValue` -/

def simpleEscapes : List Nat := [34, 92, 47, 98, 102, 110, 114, 116]

/-- `ignore_str`: escapes are checked for shape only (`\uXXXX` with four hex digits). -/
def skipStrBody : Nat → List Nat → Option (List Nat)
  | 0, _ => none
  | _ + 1, [] => none
  | f + 1, c :: r =>
    if c = 34 then some r
    else if c = 92 then
      match r with
      | [] => none
      | e :: r1 =>
        if simpleEscapes.contains e then skipStrBody f r1
        else if e = 117 then
          match hex4 r1 with
          | none => none
          | some (_, r2) => skipStrBody f r2
        else none
    else if c < 32 then none
    else skipStrBody f r

mutual
  /-- `ignore_value`: the JSON grammar without string/number interpretation, no depth limit. -/
  def skipValue : Nat → List Nat → Option (List Nat)
    | 0, _ => none
    | f + 1, s =>
      match skipWs s with
      | [] => none
      | c :: r =>
        if c = 110 then stripPrefix [117, 108, 108] r
        else if c = 116 then stripPrefix [114, 117, 101] r
        else if c = 102 then stripPrefix [97, 108, 115, 101] r
        else if c = 45 ∨ isDigit c = true then (lexNum (c :: r)).map fun p => p.2
        else if c = 34 then skipStrBody (r.length + 1) r
        else if c = 91 then skipElems f r true
        else if c = 123 then skipMembers f r true
        else none
  def skipElems : Nat → List Nat → Bool → Option (List Nat)
    | 0, _, _ => none
    | f + 1, s, first =>
      match skipWs s with
      | [] => none
      | c :: r =>
        if c = 93 then some r
        else
          match elemStart first c r with
          | none => none
          | some s0 =>
            match skipValue f s0 with
            | none => none
            | some s1 => skipElems f s1 false
  def skipMembers : Nat → List Nat → Bool → Option (List Nat)
    | 0, _, _ => none
    | f + 1, s, first =>
      match skipWs s with
      | [] => none
      | c :: r =>
        if c = 125 then some r
        else
          match keyStart first c r with
          | none => none
          | some s0 =>
            match skipStrBody (s0.length + 1) s0 with
            | none => none
            | some s1 =>
              match skipWs s1 with
              | [] => none
              | c2 :: s2 =>
                if c2 = 58 then
                  match skipValue f s2 with
                  | none => none
                  | some s3 => skipMembers f s3 false
                else none
end

/-- `deserialize_raw_value`: skip whitespace, then the exact text of one value. -/
def rawValue (s : List Nat) : Option (List Nat × List Nat) :=
  let s0 := skipWs s
  match skipValue (fuelFor s0) s0 with
  | none => none
  | some rest => some (s0.take (s0.length - rest.length), rest)

/-- `Vec<&RawValue>` after `[`: raw element texts up to and including `]`. -/
def rawElems : Nat → List Nat → Bool → Option (List (List Nat) × List Nat)
  | 0, _, _ => none
  | f + 1, s, first =>
    match skipWs s with
    | [] => none
    | c :: r =>
      if c = 93 then some ([], r)
      else
        match elemStart first c r with
        | none => none
        | some s0 =>
          match rawValue s0 with
          | none => none
          | some (raw, s1) =>
            match rawElems f s1 false with
            | none => none
            | some (raws, s2) => some (raw :: raws, s2)

/-- `HashMap<String, &RawValue>` after `{`: (key, raw value text) in document order. -/
def rawMembers : Nat → List Nat → Bool → Option (List (List Nat × List Nat) × List Nat)
  | 0, _, _ => none
  | f + 1, s, first =>
    match skipWs s with
    | [] => none
    | c :: r =>
      if c = 125 then some ([], r)
      else
        match keyStart first c r with
        | none => none
        | some s0 =>
          match parseStr s0 with
          | none => none
          | some (k, s1) =>
            match skipWs s1 with
            | [] => none
            | c2 :: s2 =>
              if c2 = 58 then
                match rawValue s2 with
                | none => none
                | some (raw, s3) =>
                  match rawMembers f s3 false with
                  | none => none
                  | some (ms, s4) => some ((k, raw) :: ms, s4)
              else none

/-- entries that survive `HashMap::insert` in document order: those with no later duplicate. -/
def dedupLast : List (List Nat × List Nat) → List (List Nat × List Nat)
  | [] => []
  | (k, v) :: rest => if rest.any (fun p => p.1 == k) then dedupLast rest else (k, v) :: dedupLast rest

def listToVList : List Value → VList
  | [] => .nil
  | v :: vs => .cons v (listToVList vs)

def pairsToVMap : List (List Nat × Value) → VMap
  | [] => .nil
  | (k, v) :: rest => .cons k v (pairsToVMap rest)

def mapMOpt {α β : Type} (f : α → Option β) : List α → Option (List β)
  | [] => some []
  | a :: as =>
    match f a with
    | none => none
    | some b =>
      match mapMOpt f as with
      | none => none
      | some bs => some (b :: bs)

/-- `parse_layer(value, remaining_depth)` followed by `Value::from(serde_json::Value)`. -/
def parseLayer (parseF : List Nat → Option Nat) : Nat → List Nat → Nat → Option Value
  | 0, _, _ => none
  | f + 1, raw, remaining =>
    match raw with
    | [] => none
    | c :: r =>
      if c = 123 then
        if remaining = 0 then some (.bytes raw)
        else
          match rawMembers (fuelFor r) r true with
          | none => none
          | some (ms, rest) =>
            if (skipWs rest).isEmpty then
              match mapMOpt (fun p => (parseLayer parseF f p.2 (remaining - 1)).map fun v => (p.1, v)) (dedupLast ms) with
              | none => none
              | some kvs => some (.obj (VMap.fromRaw (pairsToVMap kvs)))
            else none
      else if c = 91 then
        if remaining = 0 then some (.bytes raw)
        else
          match rawElems (fuelFor r) r true with
          | none => none
          | some (raws, rest) =>
            if (skipWs rest).isEmpty then
              match mapMOpt (fun x => parseLayer parseF f x (remaining - 1)) raws with
              | none => none
              | some vs => some (.arr (listToVList vs))
            else none
      else deFrom parseF true raw

/-- `parse_json(value, max_depth, lossy)`.  `max_depth` must be 1..=128 (`validate_depth`); the
    BOM is *not* stripped on this path; the whole document must be UTF-8 (`&RawValue`). -/
def parseJsonDepth (P : Prims) (lossy : Bool) (maxDepth : Int) (s : List Nat) : Option Value :=
  if maxDepth < 1 ∨ 128 < maxDepth then none
  else
    let t := if lossy then utf8Lossy s else s
    match rawValue t with
    | none => none
    | some (raw, rest) =>
      if validUtf8 raw && (skipWs rest).isEmpty then parseLayer P.parseF (raw.length + 1) raw maxDepth.toNat
      else none

/-! ## `serde_json`'s default decimal → binary64 conversion (`f64_from_parts`, no `float_roundtrip`) -/

/-- `POW10[k]` : the double nearest to `10^k` -/
def pow10f (k : Nat) : Nat := F64.roundMag (10 ^ k) 0

/-- `overflow!(sig * 10 + d, u64::MAX)` -/
def u64Overflow (sig d : Nat) : Bool :=
  decide (1844674407370955161 ≤ sig) && (decide (1844674407370955161 < sig) || decide (5 < d))

/-- `overflow!(exp * 10 + d, i32::MAX)` -/
def i32Overflow (e d : Nat) : Bool :=
  decide (214748364 ≤ e) && (decide (214748364 < e) || decide (7 < d))

/-- integer digits: the significand and the number of digits that no longer fit (`parse_long_integer`) -/
def accInt : List Nat → Nat → Nat × Nat
  | [], sig => (sig, 0)
  | c :: r, sig =>
    if u64Overflow sig (c - 48) then (sig, (c :: r).length) else accInt r (sig * 10 + (c - 48))

/-- fraction digits (`parse_decimal`; on overflow the remaining digits are ignored) -/
def accFrac : List Nat → Nat → Int → Nat × Int
  | [], sig, e => (sig, e)
  | c :: r, sig, e =>
    if u64Overflow sig (c - 48) then (sig, e) else accFrac r (sig * 10 + (c - 48)) (e - 1)

/-- exponent digits in `i32`; `none` = overflow (`parse_exponent_overflow`) -/
def accExp : List Nat → Nat → Option Nat
  | [], e => some e
  | c :: r, e => if i32Overflow e (c - 48) then none else accExp r (e * 10 + (c - 48))

def clampI32 (e : Int) : Int :=
  if e < -2147483648 then -2147483648 else if 2147483647 < e then 2147483647 else e

/-- `f64_from_parts` on a non-negative `f`; three rounds always suffice (`u64::MAX / 1e308 / 1e308 = 0`). -/
def f64FromParts : Nat → Nat → Int → Option Nat
  | 0, _, _ => none
  | fuel + 1, f, e =>
    if e.natAbs ≤ 308 then
      if 0 ≤ e then
        let g := (F64.mul f (pow10f e.natAbs)).getD 0
        if F64.isInf g then none else some g
      else some ((F64.div f (pow10f e.natAbs)).getD 0)
    else if F64.isZero f then some f
    else if 0 ≤ e then none
    else f64FromParts fuel ((F64.div f (pow10f 308)).getD 0) (e + 308)

/-- the `f64` `serde_json` computes for a well-formed number token -/
def serdeNumF (t : NumTok) : Option Nat :=
  let i := accInt t.int 0
  let p : Nat × Int := match t.frac with
    | none => (i.1, (i.2 : Int))
    | some fs => accFrac fs i.1 (i.2 : Int)
  let mag : Option Nat := match t.exp with
    | none => f64FromParts 8 (F64.roundMag p.1 0) p.2
    | some (pre, es) =>
      let positiveExp := !pre.contains 45
      match accExp es 0 with
      | none => if p.1 ≠ 0 ∧ positiveExp then none else some 0
      | some x =>
        let fin := if positiveExp then clampI32 (p.2 + x) else clampI32 (p.2 - x)
        f64FromParts 8 (F64.roundMag p.1 0) fin
  mag.map fun m => F64.withSign t.neg m

/-- model of `serde_json`'s number → `f64` conversion on the text of a token -/
def serdeParseF (text : List Nat) : Option Nat :=
  match lexNum text with
  | some (t, []) => serdeNumF t
  | _ => none

/-- distance in units in the last place between two non-NaN doubles (±0 coincide) -/
def ulpDist (a b : Nat) : Nat := (F64.key a - F64.key b).natAbs

/-! ## Spec side: representable values, nesting depth, float-wise comparison -/

def i64Ok (i : Int) : Bool := decide (-9223372036854775808 ≤ i) && decide (i ≤ 9223372036854775807)

mutual
  /-- `jsonRepr v`: JSON can represent `v` — no timestamps or regexes, integers in `i64`, floats are
      finite 64-bit patterns, strings and keys are UTF-8, object keys strictly increasing (the
      `BTreeMap` invariant). -/
  def jsonRepr : Value → Bool
    | .null => true
    | .bool _ => true
    | .int i => i64Ok i
    | .float b => decide (b < F64.p64) && F64.isFinite b
    | .bytes b => validUtf8 b
    | .ts _ => false
    | .regex _ => false
    | .arr xs => jsonReprL xs
    | .obj m => jsonReprM m
  def jsonReprL : VList → Bool
    | .nil => true
    | .cons x xs => jsonRepr x && jsonReprL xs
  def jsonReprM : VMap → Bool
    | .nil => true
    | .cons k x m => validUtf8 k && jsonRepr x && VMap.allGt k m && jsonReprM m
end

mutual
  def floatFree : Value → Bool
    | .float _ => false
    | .arr xs => floatFreeL xs
    | .obj m => floatFreeM m
    | _ => true
  def floatFreeL : VList → Bool
    | .nil => true
    | .cons x xs => floatFree x && floatFreeL xs
  def floatFreeM : VMap → Bool
    | .nil => true
    | .cons _ x m => floatFree x && floatFreeM m
end

mutual
  /-- nesting depth: 0 for scalars, 1 + the deepest element for containers -/
  def depth : Value → Nat
    | .arr xs => depthL xs + 1
    | .obj m => depthM m + 1
    | _ => 0
  def depthL : VList → Nat
    | .nil => 0
    | .cons x xs => max (depth x) (depthL xs)
  def depthM : VMap → Nat
    | .nil => 0
    | .cons _ x m => max (depth x) (depthM m)
end

mutual
  /-- apply `g` to every float -/
  def mapFloats (g : Nat → Nat) : Value → Value
    | .float b => .float (g b)
    | .arr xs => .arr (mapFloatsL g xs)
    | .obj m => .obj (mapFloatsM g m)
    | .null => .null
    | .bool b => .bool b
    | .int i => .int i
    | .bytes b => .bytes b
    | .ts t => .ts t
    | .regex r => .regex r
  def mapFloatsL (g : Nat → Nat) : VList → VList
    | .nil => .nil
    | .cons x xs => .cons (mapFloats g x) (mapFloatsL g xs)
  def mapFloatsM (g : Nat → Nat) : VMap → VMap
    | .nil => .nil
    | .cons k x m => .cons k (mapFloats g x) (mapFloatsM g m)
end

mutual
  /-- same shape and scalars; corresponding floats at most `k` ulp apart -/
  def approx (k : Nat) : Value → Value → Bool
    | .float a, w => match w with
      | .float b => decide (ulpDist a b ≤ k)
      | _ => false
    | .arr xs, w => match w with
      | .arr ys => approxL k xs ys
      | _ => false
    | .obj m, w => match w with
      | .obj n => approxM k m n
      | _ => false
    | .null, w => decide (w = .null)
    | .bool b, w => decide (w = .bool b)
    | .int i, w => decide (w = .int i)
    | .bytes b, w => decide (w = .bytes b)
    | .ts t, w => decide (w = .ts t)
    | .regex r, w => decide (w = .regex r)
  def approxL (k : Nat) : VList → VList → Bool
    | .nil, ys => match ys with
      | .nil => true
      | _ => false
    | .cons x xs, ys => match ys with
      | .cons y ys' => approx k x y && approxL k xs ys'
      | _ => false
  def approxM (k : Nat) : VMap → VMap → Bool
    | .nil, n => match n with
      | .nil => true
      | _ => false
    | .cons key x m, n => match n with
      | .cons key' y n' => decide (key = key') && approx k x y && approxM k m n'
      | _ => false
end

/-- classification of one observed round trip `v ↦ r` (oracle of C21):
    `none` = the property holds for this observation. -/
def roundTripClass (v : Value) (r : Option Value) : Option String :=
  if !jsonRepr v then none
  else
    match r with
    | none => if 127 < depth v then some "depth:D_json_recursion_limit" else some "reject:-"
    | some w =>
      if approx 1 v w then none
      else if approx (2 ^ 64) v w then some "float:D_json_float_2ulp"
      else some "roundtrip:-"

/-! ### float law (hypotheses of the round-trip theorems) -/

/-- The text printed for the double `x` is a JSON number token with a fraction or an exponent
    (so it is never read back as an integer), and the float conversion accepts it. -/
def FloatTextOK (P : Prims) (x : Nat) : Prop :=
  ∃ t : NumTok, t.wf = true ∧ t.isFloat = true ∧ P.showF x = t.render ∧ (P.parseF t.render).isSome = true

/-- the double obtained by printing `x` and converting the text back -/
def readBack (P : Prims) (x : Nat) : Nat := (P.parseF (P.showF x)).getD x

/-- decidable form of `FloatTextOK` used by the driver on observed texts -/
def floatTextCheck (text : List Nat) : Bool :=
  match lexNum text with
  | some (t, []) => t.wf && t.isFloat && t.render == text
  | _ => false

mutual
  /-- `Q` holds of every float in the value -/
  def AllFloats (Q : Nat → Prop) : Value → Prop
    | .float b => Q b
    | .arr xs => AllFloatsL Q xs
    | .obj m => AllFloatsM Q m
    | .null => True
    | .bool _ => True
    | .int _ => True
    | .bytes _ => True
    | .ts _ => True
    | .regex _ => True
  def AllFloatsL (Q : Nat → Prop) : VList → Prop
    | .nil => True
    | .cons x xs => AllFloats Q x ∧ AllFloatsL Q xs
  def AllFloatsM (Q : Nat → Prop) : VMap → Prop
    | .nil => True
    | .cons _ x m => AllFloats Q x ∧ AllFloatsM Q m
end

end Json
