/-
  VrlModel.Arith — model of `src/compiler/value/arithmetic.rs` (`impl VrlValueArithmetic for Value`),
  of the conversions it uses from `value/convert.rs`, and of the binary-operator dispatch of
  `src/compiler/expression/op.rs` (`Op::resolve`) on two already evaluated operands.

  Code-shaped: one function per Rust function, same match order, same error variant (quirks
  included: `try_gt` reports `ValueError::Rem` for wrong operand types, `try_lt`/`try_le` report
  `ValueError::Ge`; `eq_lossy` compares two integers through `f64`).
  The only panic in this code is `[u8]::repeat`'s "capacity overflow" (`bytes * n`), modelled as
  `Res.panic`; memory exhaustion for large but representable sizes is outside the model.
-/
import VrlModel.Value
import VrlModel.F64

namespace Arith

/-- `ValueError` variants (payload kinds dropped). -/
inductive Err where
  | expected | coerce | rem | mul | div | divideByZero | nanFloat | add | sub | or | and
  | gt | ge | lt | le | merge
  deriving DecidableEq, Repr

inductive Res (α : Type) where
  | ok (a : α)
  | err (e : Err)
  | panic
  deriving DecidableEq, Repr

def i64Min : Int := -9223372036854775808
def i64Max : Int := 9223372036854775807
def two64 : Int := 18446744073709551616

def inI64 (x : Int) : Bool := decide (i64Min ≤ x) && decide (x ≤ i64Max)

/-- the `i64` two's-complement representative of `x` (`wrapping_*`). -/
def wrap64 (x : Int) : Int := Int.bmod x 18446744073709551616

/-- `float_result`: `NotNan::new(value).map(Value::Float).map_err(|_| NanFloat)`;
    `none` is the soft-float's NaN marker. -/
def floatResult : Option Nat → Res Value
  | none => .err .nanFloat
  | some b => if F64.isNaN b then .err .nanFloat else .ok (.float b)

/-- `i as f64` -/
abbrev toF (i : Int) : Nat := F64.ofInt i

def concatN (b : List Nat) : Nat → List Nat
  | 0 => []
  | n + 1 => b ++ concatN b n

/-- `Bytes::from(b.repeat(as_usize(n)))` with `as_usize = |n| if n < 0 { 0 } else { n as usize }`.
    `repeat` panics with "capacity overflow" when `len * n` overflows `usize` and `Vec::with_capacity`
    when it exceeds `isize::MAX` bytes.  (The empty string is answered first only so that the
    executable model does not iterate `n` times; `concatN [] k = []`.) -/
def repeatBytes (b : List Nat) (n : Int) : Res Value :=
  let k := if n < 0 then 0 else n.toNat
  if k = 0 || b.isEmpty then .ok (.bytes [])
  else if (i64Max : Int) < (b.length * k : Nat) then .panic
  else .ok (.bytes (concatN b k))

def tryMul : Value → Value → Res Value
  | .int l, .bytes r => repeatBytes r l
  | .int l, .float r => floatResult (F64.mul (toF l) r)
  | .int l, .int r => .ok (.int (wrap64 (l * r)))
  | .float l, .int r => floatResult (F64.mul l (toF r))
  | .float l, .float r => floatResult (F64.mul l r)
  | .bytes l, .int r => repeatBytes l r
  | _, _ => .err .mul

def tryDiv : Value → Value → Res Value
  | l, .int r =>
    if r = 0 then .err .divideByZero
    else match l with
      | .int l => floatResult (F64.div (toF l) (toF r))
      | .float l => floatResult (F64.div l (toF r))
      | _ => .err .div
  | l, .float r =>
    if F64.eq r 0 then .err .divideByZero
    else match l with
      | .int l => floatResult (F64.div (toF l) r)
      | .float l => floatResult (F64.div l r)
      | _ => .err .div
  | _, _ => .err .div

def tryAdd : Value → Value → Res Value
  | .int l, .int r => .ok (.int (wrap64 (l + r)))
  | .int l, .float r => floatResult (F64.add (toF l) r)
  | .float l, .int r => floatResult (F64.add l (toF r))
  | .float l, .float r => floatResult (F64.add l r)
  | .bytes l, .null => .ok (.bytes l)
  | .bytes l, .bytes r => .ok (.bytes (l ++ r))
  | .null, .bytes r => .ok (.bytes r)
  | _, _ => .err .add

def trySub : Value → Value → Res Value
  | .int l, .int r => .ok (.int (wrap64 (l - r)))
  | .int l, .float r => floatResult (F64.sub (toF l) r)
  | .float l, .int r => floatResult (F64.sub l (toF r))
  | .float l, .float r => floatResult (F64.sub l r)
  | _, _ => .err .sub

/-- value-level part of `try_or`: `rhs` is the result of the closure (evaluated only when needed;
    the model is pure, so laziness is not observable here). -/
def tryOr : Value → Res Value → Res Value
  | .null, rhs | .bool false, rhs =>
    match rhs with
    | .ok v => .ok v
    | .err _ => .err .or
    | .panic => .panic
  | v, _ => .ok v

def tryAnd : Value → Value → Res Value
  | .null, _ => .ok (.bool false)
  | .bool _, .null => .ok (.bool false)
  | .bool l, .bool r => .ok (.bool (l && r))
  | _, _ => .err .and

/-- `i64::wrapping_rem`: truncated remainder (`i64::MIN % -1 = 0`, no overflow). -/
def tryRem : Value → Value → Res Value
  | l, .int r =>
    if r = 0 then .err .divideByZero
    else match l with
      | .int l => .ok (.int (Int.tmod l r))
      | .float l => floatResult (F64.rem l (toF r))
      | _ => .err .rem
  | l, .float r =>
    if F64.eq r 0 then .err .divideByZero
    else match l with
      | .int l => floatResult (F64.rem (toF l) r)
      | .float l => floatResult (F64.rem l r)
      | _ => .err .rem
  | _, _ => .err .rem

inductive Cmp where | gt | ge | lt | le
  deriving DecidableEq, Repr

def cmpInt : Cmp → Int → Int → Bool
  | .gt, a, b => decide (b < a)
  | .ge, a, b => decide (b ≤ a)
  | .lt, a, b => decide (a < b)
  | .le, a, b => decide (a ≤ b)

def cmpF : Cmp → Nat → Nat → Bool
  | .gt, a, b => F64.gt a b
  | .ge, a, b => F64.ge a b
  | .lt, a, b => F64.lt a b
  | .le, a, b => F64.le a b

/-- `Bytes: Ord` — lexicographic on `u8`. -/
def cmpBytes : Cmp → List Nat → List Nat → Bool
  | .gt, a, b => Key.lt b a
  | .ge, a, b => !Key.lt a b
  | .lt, a, b => Key.lt a b
  | .le, a, b => !Key.lt b a

/-- the error of the catch-all arm: `try_gt` uses `Rem`, the three others `Ge` (as in the source). -/
def cmpFallthrough : Cmp → Err
  | .gt => .rem
  | _ => .ge

/-- `try_gt` / `try_ge` / `try_lt` / `try_le`. -/
def tryCmp (c : Cmp) : Value → Value → Res Value
  | .int l, .int r => .ok (.bool (cmpInt c l r))
  | .int l, .float r => .ok (.bool (cmpF c (toF l) r))
  | .float l, .int r => .ok (.bool (cmpF c l (toF r)))
  | .float l, .float r => .ok (.bool (cmpF c l r))
  | .bytes l, .bytes r => .ok (.bool (cmpBytes c l r))
  | .bytes _, _ => .err .expected
  | .ts l, .ts r => .ok (.bool (cmpInt c l r))
  | .ts _, _ => .err .expected
  | _, _ => .err (cmpFallthrough c)

/-- `try_into_f64` -/
def tryIntoF64 : Value → Option Nat
  | .int v => some (toF v)
  | .float v => some v
  | _ => none

mutual
  /-- derived `PartialEq for Value`: floats compare as `f64` (`-0.0 == 0.0`), integers exactly,
      regexes by pattern text, maps entry by entry in key order. -/
  def veq : Value → Value → Bool
    | .null, .null => true
    | .bool a, .bool b => a == b
    | .int a, .int b => a == b
    | .float a, .float b => F64.eq a b
    | .bytes a, .bytes b => a == b
    | .ts a, .ts b => a == b
    | .regex a, .regex b => a == b
    | .arr a, .arr b => veqList a b
    | .obj a, .obj b => veqMap a b
    | _, _ => false
  def veqList : VList → VList → Bool
    | .nil, .nil => true
    | .cons a as, .cons b bs => veq a b && veqList as bs
    | _, _ => false
  def veqMap : VMap → VMap → Bool
    | .nil, .nil => true
    | .cons k a as, .cons l b bs => k == l && veq a b && veqMap as bs
    | _, _ => false
end

/-- `eq_lossy` as it is on the pinned tree: an integer is converted to `f64` before comparing,
    also when the other operand is an integer. -/
def eqLossy : Value → Value → Bool
  | .int l, r =>
    match tryIntoF64 r with
    | some rv => F64.eq (toF l) rv
    | none => false
  | .float l, r =>
    match tryIntoF64 r with
    | some rv => F64.eq l rv
    | none => false
  | l, r => veq l r

/-- `eq_lossy` after the candidate fix: `Integer`/`Integer` compared exactly, the rest unchanged. -/
def eqFixed : Value → Value → Bool
  | .int l, .int r => l == r
  | l, r => eqLossy l r

/-- binary opcodes of `Op::resolve` that evaluate both operands first. -/
inductive Opc where
  | mul | div | add | sub | eq | ne | gt | ge | lt | le
  deriving DecidableEq, Repr

/-- `Op::resolve` after both operands are resolved; `eqf` is the equality used by `==`/`!=`. -/
def evalOpWith (eqf : Value → Value → Bool) : Opc → Value → Value → Res Value
  | .mul, l, r => tryMul l r
  | .div, l, r => tryDiv l r
  | .add, l, r => tryAdd l r
  | .sub, l, r => trySub l r
  | .eq, l, r => .ok (.bool (eqf l r))
  | .ne, l, r => .ok (.bool (!eqf l r))
  | .gt, l, r => tryCmp .gt l r
  | .ge, l, r => tryCmp .ge l r
  | .lt, l, r => tryCmp .lt l r
  | .le, l, r => tryCmp .le l r

/-- The equality the code under verification uses for `==` / `!=`: the pinned tree's `eq_lossy`.
    THE switch for the candidate fix: once `eq_lossy` compares Integer/Integer exactly, this becomes
    `eqFixed` (nothing else in the model changes; Props/C10.lean proves the full statement for it). -/
abbrev eqImpl : Value → Value → Bool := eqFixed

/-- the pinned tree -/
def evalOp : Opc → Value → Value → Res Value := evalOpWith eqImpl

/-- `&&` of `Op::resolve` on resolved operands (`rhs` is evaluated only in the last arm). -/
def evalAnd : Value → Value → Res Value
  | .null, _ => .ok (.bool false)
  | .bool false, _ => .ok (.bool false)
  | v, r => tryAnd v r

/-- `BTreeMap` union in which the entries of the right operand win. -/
def mergeMaps (a : VMap) : VMap → VMap
  | .nil => a
  | .cons k v m => mergeMaps (a.insert k v) m

/-- `try_merge`: `lhs.into_iter().chain(rhs).collect::<ObjectMap>()`. -/
def tryMerge : Value → Value → Res Value
  | .obj a, .obj b => .ok (.obj (mergeMaps a b))
  | _, _ => .err .merge

/-- well-formed values: floats are non-NaN 64-bit patterns (`NotNan<f64>`), integers are `i64`. -/
def scalarOK : Value → Bool
  | .int i => inI64 i
  | .float b => decide (b < F64.p64) && !F64.isNaN b
  | _ => true

/-! ### `Except`-shaped view (for `Lang.Ops`): the same functions with the panic folded into the
    error type.  `ErrClass.value e` is the `ValueError` variant, `ErrClass.panic` the one panic of
    this code (`[u8]::repeat` capacity overflow in `bytes * n`). -/
namespace Api

inductive ErrClass where
  | value (e : Err)
  | panic
  deriving DecidableEq, Repr

def ofRes : Res Value → Except ErrClass Value
  | .ok v => .ok v
  | .err e => .error (.value e)
  | .panic => .error .panic

def tryAdd (a b : Value) : Except ErrClass Value := ofRes (Arith.tryAdd a b)
def trySub (a b : Value) : Except ErrClass Value := ofRes (Arith.trySub a b)
def tryMul (a b : Value) : Except ErrClass Value := ofRes (Arith.tryMul a b)
def tryDiv (a b : Value) : Except ErrClass Value := ofRes (Arith.tryDiv a b)
def tryRem (a b : Value) : Except ErrClass Value := ofRes (Arith.tryRem a b)
def tryGt (a b : Value) : Except ErrClass Value := ofRes (Arith.tryCmp .gt a b)
def tryGe (a b : Value) : Except ErrClass Value := ofRes (Arith.tryCmp .ge a b)
def tryLt (a b : Value) : Except ErrClass Value := ofRes (Arith.tryCmp .lt a b)
def tryLe (a b : Value) : Except ErrClass Value := ofRes (Arith.tryCmp .le a b)
def tryAnd (a b : Value) : Except ErrClass Value := ofRes (Arith.tryAnd a b)
def tryMerge (a b : Value) : Except ErrClass Value := ofRes (Arith.tryMerge a b)
/-- `eq_lossy` of the tree under verification (`Arith.eqImpl`). -/
def eqLossy (a b : Value) : Bool := Arith.eqImpl a b

end Api

end Arith
