/-
  VrlModel.C18 — decidable predicates used by the C18 theorems and by the oracle:
  syntactic divergence of two paths and the frame condition the implementation offers.
-/
import VrlModel.Value

namespace C18

/-- Two different segments that can never address the same child of one container:
    anything but two indices of opposite sign (whether `[0]` and `[-1]` alias depends on the length). -/
def noAlias : Seg → Seg → Bool
  | .index i, .index j => (decide (0 ≤ i)) == (decide (0 ≤ j))
  | _, _ => true

/-- `p` and `q` leave a common prefix through two segments that cannot alias;
    then neither location contains the other. -/
def diverge : Path → Path → Bool
  | [], _ => false
  | _, [] => false
  | s :: p, t :: q => if s = t then diverge p q else noAlias s t

/-- index `i` used on an array of length `len` replaces an element, appends or prepends:
    it neither pads with nulls nor moves an element to another position of the same sign. -/
def idxOK (len : Nat) (i : Int) : Bool :=
  (decide (0 ≤ i) && decide (i ≤ len)) || (decide (i < 0) && decide (-i ≤ len + 1))

/-- The frame condition: along `p` every existing container has the type the segment expects
    (no coercion of an object into an array or vice versa) and no index pads or shifts. -/
def frameOK : Option Value → Path → Bool
  | _, [] => true
  | c, .field f :: rest =>
    match c with
    | some (.obj m) => frameOK (m.get f) rest
    | some (.arr _) => false
    | _ => frameOK none rest
  | c, .index i :: rest =>
    match c with
    | some (.arr a) => idxOK a.length i && frameOK (a.getIdx i) rest
    | some (.obj _) => false
    | _ => idxOK 0 i && frameOK none rest

/-- Finding classes (DESIGN §7 C18): why `frameOK` fails, at the first offending segment. -/
inductive FrameClass where
  | coerce | pad | shift | none
  deriving DecidableEq, Repr

def frameClass : Option Value → Path → FrameClass
  | _, [] => .none
  | c, .field f :: rest =>
    match c with
    | some (.obj m) => frameClass (m.get f) rest
    | some (.arr _) => .coerce
    | _ => frameClass none rest
  | c, .index i :: rest =>
    let len := match c with
      | some (.arr a) => a.length
      | _ => 0
    match c with
    | some (.obj _) => .coerce
    | _ =>
      if idxOK len i then
        (match c with
         | some (.arr a) => frameClass (a.getIdx i) rest
         | _ => frameClass none rest)
      else if 0 ≤ i then .pad else .shift

/-- paths made of field segments only (array indices renumber on removal). -/
def fieldsOnly : Path → Bool
  | [] => true
  | .field _ :: r => fieldsOnly r
  | .index _ :: _ => false

/-- inside the class `D_shift`: `p = [-k]` prepends to the top-level array `v` (`k > len`) and
    `q = [-j]` names an existing element from the end (`j ≤ len`). -/
def shiftNeg (v : Value) (p q : Path) : Bool :=
  match v, p, q with
  | .arr a, [.index i], [.index j] =>
    decide (i < 0) && decide ((a.length : Int) < -i) && decide (j < 0) && decide (-j ≤ (a.length : Int))
  | _, _, _ => false

end C18
