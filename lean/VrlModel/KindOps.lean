/-
  VrlModel.KindOps — model of kind/merge.rs (`merge_keep`, `union`, `merge(Strategy)`),
  `Collection::{merge, anonymize, reduced_kind, canonicalize, is_superset}`, `Unknown::{merge,
  is_superset}`, `Kind::{canonicalize, is_superset}` and `PartialEq for Kind`.

  In Rust these recurse alternately into either operand and into kinds *computed* from an operand
  (`unknown_kind()`), so no argument decreases structurally. Each is defined by recursion on an
  explicit fuel `n`; the public function supplies `Kind.depth`-based fuel that is never exhausted
  (the recursion depth is bounded by the sum of the nesting depths; see the fuel notes at each
  definition). When fuel runs out, `mergeKeepF` answers `Kind.any`, `isSupersetF` answers `false` and
  `eqF` answers `false` – the safe side for the membership theorems, which therefore hold for every
  fuel.
-/
import VrlModel.Kind

namespace Unknown

/-- `Unknown::merge` with the kind-level merge `f` as a parameter. -/
def mergeWith (f : Kind → Kind → Bool → Kind) (a b : Unknown) (overwrite : Bool) : Unknown :=
  match a, b with
  | .exact l, .exact r => .exact (f l r overwrite)
  | .infinite l, .infinite r => .infinite (l.merge r)
  | _, .infinite r => .infinite r
  | .infinite l, .exact _ => .infinite l

end Unknown

namespace Col

/-- loop 1 of `Collection::merge`: the new kind of a key known in `self`. -/
def mergeKnownSelf (f : Kind → Kind → Bool → Kind) (other : Col) (overwrite : Bool)
    (key : Key) (selfKind : Kind) : Kind :=
  match other.known.get key with
  | some otherKind => if overwrite then otherKind else f selfKind otherKind overwrite
  | Option.none =>
    if other.unknownKind.containsAnyDefined then
      if overwrite then f other.unknownKind.withoutUndefined selfKind false
      else f selfKind other.unknownKind overwrite
    else if !overwrite then selfKind.orUndefined
    else selfKind

/-- loop 2 of `Collection::merge`: the kind stored for a key known only in `other`. -/
def mergeKnownOther (f : Kind → Kind → Bool → Kind) (selfUnknownKind : Kind) (overwrite : Bool)
    (otherKind : Kind) : Kind :=
  if selfUnknownKind.containsAnyDefined then
    if !overwrite then f otherKind selfUnknownKind overwrite else otherKind
  else if overwrite then otherKind
  else otherKind.orUndefined

/-- `Collection::merge(&mut self, other, overwrite)` -/
def mergeWith (f : Kind → Kind → Bool → Kind) (self other : Col) (overwrite : Bool) : Col :=
  let known1 := self.known.mapKV (mergeKnownSelf f other overwrite)
  let selfUnknownKind := self.unknownKind
  let known2 := other.known.foldl (fun acc key otherKind =>
      if self.known.contains key then acc
      else acc.insert key (mergeKnownOther f selfUnknownKind overwrite otherKind)) known1
  .mk known2 (Unknown.mergeWith f self.unknown other.unknown overwrite)

end Col

namespace OCol

/-- `merge_objects` / the array `match` of `merge_keep`. -/
def mergeWith (f : Kind → Kind → Bool → Kind) (a b : OCol) (overwrite : Bool) : OCol :=
  match a, b with
  | .none, .some r => .some r
  | .some l, .some r => .some (Col.mergeWith f l r overwrite)
  | a, .none => a

end OCol

namespace Kind

/-- `merge_keep` with fuel. -/
def mergeKeepF : Nat → Kind → Kind → Bool → Kind
  | 0, _, _, _ => Kind.any
  | n + 1, .mk p1 a1 o1, .mk p2 a2 o2, overwrite =>
    .mk (p1.or p2) (OCol.mergeWith (mergeKeepF n) a1 a2 overwrite)
      (OCol.mergeWith (mergeKeepF n) o1 o2 overwrite)

/-- fuel sufficient for every binary operation on `a` and `b`: each level of recursion consumes one
    level of nesting of at least one operand; `ofInf`-kinds re-enter at constant depth 2. -/
def fuel (a b : Kind) : Nat := 2 * (a.depth + b.depth) + 4

/-- `Kind::merge_keep(&mut self, other, overwrite)` -/
def mergeKeep (a b : Kind) (overwrite : Bool) : Kind := mergeKeepF (fuel a b) a b overwrite

/-- `Kind::union` -/
def union (a b : Kind) : Kind := mergeKeep a b false

/-- `CollisionStrategy` -/
inductive Strategy where
  | overwrite | union
  deriving DecidableEq, Repr

def Strategy.isShallow : Strategy → Bool
  | .overwrite => true
  | .union => false

/-- `Kind::merge(&mut self, other, Strategy)` -/
def merge (a b : Kind) (s : Strategy) : Kind := mergeKeep a b s.isShallow

end Kind

namespace Col

/-- `Collection::merge` -/
def merge (self other : Col) (overwrite : Bool) : Col :=
  Col.mergeWith (Kind.mergeKeepF (2 * (self.depth + other.depth) + 4)) self other overwrite

/-- `Collection::anonymize` -/
def anonymize (c : Col) : Col :=
  let knownUnknown :=
    match c.known with
    | .nil => Kind.never
    | .cons _ v rest => rest.foldl (fun acc _ k => acc.mergeKeep k false) v
  .mk .nil (Unknown.ofKind (c.unknown.toKind.union knownUnknown))

/-- `Collection::reduced_kind` -/
def reducedKind (c : Col) : Kind :=
  let known :=
    match c.known with
    | .nil => Kind.never
    | .cons _ v rest => rest.foldl (fun acc _ k => acc.union k) v
  known.union c.unknownKind.withoutUndefined

end Col

/-! ### `PartialEq` and `canonicalize` -/

namespace KList

/-- `BTreeMap == BTreeMap` with the value equality `eq`. -/
def eqWith (eq : Kind → Kind → Bool) : KList → KList → Bool
  | .nil, .nil => true
  | .cons k v m, .cons k' v' m' => k = k' && eq v v' && eqWith eq m m'
  | _, _ => false

end KList

namespace Unknown

/-- derived `PartialEq for Unknown` (`Exact` boxes compare with `Kind::eq`). -/
def eqWith (eq : Kind → Kind → Bool) : Unknown → Unknown → Bool
  | .exact a, .exact b => eq a b
  | .infinite a, .infinite b => a = b
  | _, _ => false

end Unknown

namespace Col

/-- `Collection::canonicalize` with the kind equality `eq`. -/
def canonicalizeWith (eq : Kind → Kind → Bool) (c : Col) : Col :=
  let unknownKind := c.unknownKind
  .mk (c.known.filter (fun _ k => !eq k unknownKind)) c.unknown.canonicalize

/-- derived `PartialEq for Collection` -/
def eqWith (eq : Kind → Kind → Bool) (a b : Col) : Bool :=
  KList.eqWith eq a.known b.known && Unknown.eqWith eq a.unknown b.unknown

end Col

namespace OCol

def canonicalizeWith (eq : Kind → Kind → Bool) : OCol → OCol
  | .none => .none
  | .some c => .some (c.canonicalizeWith eq)

def eqWith (eq : Kind → Kind → Bool) : OCol → OCol → Bool
  | .none, .none => true
  | .some a, .some b => Col.eqWith eq a b
  | _, _ => false

end OCol

namespace Kind

/-- `Kind::canonicalize` with the kind equality `eq`. -/
def canonicalizeWith (eq : Kind → Kind → Bool) : Kind → Kind
  | .mk p a o => .mk p (a.canonicalizeWith eq) (o.canonicalizeWith eq)

/-- `PartialEq for Kind` with fuel: canonicalise both sides (one level; the comparison of the
    children canonicalises them in turn), then compare field by field. -/
def eqF : Nat → Kind → Kind → Bool
  | 0, _, _ => false
  | n + 1, a, b =>
    let a' := a.canonicalizeWith (eqF n)
    let b' := b.canonicalizeWith (eqF n)
    a'.prim = b'.prim && OCol.eqWith (eqF n) a'.arr b'.arr && OCol.eqWith (eqF n) a'.obj b'.obj

/-- `impl PartialEq for Kind` -/
def eq (a b : Kind) : Bool := eqF (fuel a b) a b

/-- `Kind::canonicalize` -/
def canonicalize (a : Kind) : Kind := a.canonicalizeWith (eqF (fuel a a))

end Kind

/-- `Collection::canonicalize` -/
def Col.canonicalize (c : Col) : Col :=
  c.canonicalizeWith (Kind.eqF (4 * c.depth + 4))

/-! ### `is_superset` (the error path is not modelled: `true` = `Ok(())`, `false` = `Err(path)`) -/

namespace Unknown

/-- `Unknown::is_superset` -/
def isSupersetWith (sup : Kind → Kind → Bool) : Unknown → Unknown → Bool
  | .infinite i, .exact r => if i.isAny then true else sup (Kind.ofInf i) r
  | .infinite l, .infinite r => if l.isAny then true else l.isSuperset r
  | .exact l, .exact r => sup l.withoutUndefined r.withoutUndefined
  | .exact l, .infinite _ => l.isAny

end Unknown

namespace Col

/-- `Collection::is_superset` -/
def isSupersetWith (sup : Kind → Kind → Bool) (self other : Col) : Bool :=
  Unknown.isSupersetWith sup self.unknown other.unknown &&
  other.known.all (fun key otherKind =>
    match self.known.get key with
    | some selfKind => sup selfKind otherKind
    | Option.none => sup self.unknownKind otherKind) &&
  self.known.all (fun key selfKind =>
    other.known.contains key || sup selfKind other.unknownKind)

end Col

namespace OCol

def isSupersetWith (sup : Kind → Kind → Bool) : OCol → OCol → Bool
  | .none, .some _ => false
  | .some l, .some r => Col.isSupersetWith sup l r
  | _, .none => true

end OCol

namespace Kind

/-- `Kind::is_superset` with fuel. -/
def isSupersetF : Nat → Kind → Kind → Bool
  | 0, _, _ => false
  | n + 1, .mk p1 a1 o1, .mk p2 a2 o2 =>
    p1.sup p2 && OCol.isSupersetWith (isSupersetF n) a1 a2 && OCol.isSupersetWith (isSupersetF n) o1 o2

/-- `Kind::is_superset(&self, other).is_ok()` -/
def isSuperset (a b : Kind) : Bool := isSupersetF (fuel a b) a b

end Kind

/-- `Collection::is_superset(..).is_ok()` -/
def Col.isSuperset (a b : Col) : Bool :=
  Col.isSupersetWith (Kind.isSupersetF (2 * (a.depth + b.depth) + 4)) a b
