/-
  VrlModel.Kind — model of `vrl::value::Kind` (src/value/kind.rs, kind/builder.rs, kind/comparison.rs
  (`is_*`, `contains_*`), kind/conversion.rs, kind/collection.rs (constructors, accessors),
  kind/collection/{unknown,index,field}.rs).

  Representation (DESIGN §3 / Appendix A, refined):
  * the eight primitive states are a record of `Bool`s (`Prim`); `Infinite` is a record of nine (`Inf`);
  * `Kind`, `Option<Box<Collection<_>>>` (`OCol`), `Collection<_>` (`Col`), the `BTreeMap` of known
    kinds (`KList`, an association list kept in key order) and `Unknown` are explicit mutual inductives;
  * Rust's `Collection<T>` is generic in the key type; the model uses ONE collection type with keys
    `Key = List Nat`: a field is the list of its UTF-8 bytes (as in `VrlModel.Value`), the index `n`
    is the one-element list `[n]`. `Key.lt` restricted to singletons is `<` on `Nat`, so the order of
    `BTreeMap<Index, _>` is preserved. The array slot of a kind holds index keys, the object slot field
    keys (`Kind.WF`, a separate invariant; nothing below depends on it).
  * functions whose recursion in Rust alternates between the two operands (merge, `is_superset`,
    `PartialEq`/`canonicalize`) are defined with explicit fuel computed from `Kind.depth`
    (see KindOps.lean); everything else is structural.
-/
import VrlModel.Value

/-- the eight primitive type states of `Kind`. -/
structure Prim where
  bytes : Bool := false
  integer : Bool := false
  float : Bool := false
  boolean : Bool := false
  timestamp : Bool := false
  regex : Bool := false
  null : Bool := false
  undefined : Bool := false
  deriving DecidableEq, Repr, Inhabited

/-- `collection::unknown::Infinite`: nine states, no `undefined`. -/
structure Inf where
  bytes : Bool := false
  integer : Bool := false
  float : Bool := false
  boolean : Bool := false
  timestamp : Bool := false
  regex : Bool := false
  null : Bool := false
  array : Bool := false
  object : Bool := false
  deriving DecidableEq, Repr, Inhabited

mutual
  /-- `Kind { bytes … undefined, array: Option<Box<Collection<Index>>>, object: Option<Box<Collection<Field>>> }` -/
  inductive Kind where
    | mk (p : Prim) (arr : OCol) (obj : OCol)
  /-- `Option<Box<Collection<_>>>` -/
  inductive OCol where
    | none
    | some (c : Col)
  /-- `Collection { known, unknown }` -/
  inductive Col where
    | mk (known : KList) (unknown : Unknown)
  /-- `BTreeMap<T, Kind>` in key order -/
  inductive KList where
    | nil
    | cons (k : Key) (v : Kind) (rest : KList)
  /-- `Unknown(Inner)`; `Inner = Exact(Box<Kind>) | Infinite(Infinite)` -/
  inductive Unknown where
    | exact (k : Kind)
    | infinite (i : Inf)
end

deriving instance DecidableEq for Kind, OCol, Col, KList, Unknown

instance : Inhabited Kind := ⟨.mk {} .none .none⟩
instance : Inhabited Col := ⟨.mk .nil (.infinite {})⟩

namespace Prim

def none : Prim := {}
def all : Prim := ⟨true, true, true, true, true, true, true, true⟩
def or (a b : Prim) : Prim :=
  ⟨a.bytes || b.bytes, a.integer || b.integer, a.float || b.float, a.boolean || b.boolean,
   a.timestamp || b.timestamp, a.regex || b.regex, a.null || b.null, a.undefined || b.undefined⟩
def isEmpty (a : Prim) : Bool :=
  !(a.bytes || a.integer || a.float || a.boolean || a.timestamp || a.regex || a.null || a.undefined)
/-- every state set in `b` is set in `a`. -/
def sup (a b : Prim) : Bool :=
  (a.bytes || !b.bytes) && (a.integer || !b.integer) && (a.float || !b.float) &&
  (a.boolean || !b.boolean) && (a.timestamp || !b.timestamp) && (a.regex || !b.regex) &&
  (a.null || !b.null) && (a.undefined || !b.undefined)

end Prim

namespace Inf

def any : Inf := ⟨true, true, true, true, true, true, true, true, true⟩
def json : Inf := ⟨true, true, true, true, false, false, true, true, true⟩
def isAny (i : Inf) : Bool :=
  i.bytes && i.integer && i.float && i.boolean && i.timestamp && i.regex && i.null && i.array && i.object
def isJson (i : Inf) : Bool :=
  i.bytes && i.integer && i.float && i.boolean && !i.timestamp && !i.regex && i.null && i.array && i.object
/-- `Infinite::is_superset` -/
def isSuperset (a b : Inf) : Bool :=
  (a.bytes || !b.bytes) && (a.integer || !b.integer) && (a.float || !b.float) &&
  (a.boolean || !b.boolean) && (a.timestamp || !b.timestamp) && (a.regex || !b.regex) &&
  (a.null || !b.null) && (a.array || !b.array) && (a.object || !b.object)
/-- `Infinite::merge` -/
def merge (a b : Inf) : Inf :=
  ⟨a.bytes || b.bytes, a.integer || b.integer, a.float || b.float, a.boolean || b.boolean,
   a.timestamp || b.timestamp, a.regex || b.regex, a.null || b.null, a.array || b.array,
   a.object || b.object⟩
def prim (i : Inf) : Prim := ⟨i.bytes, i.integer, i.float, i.boolean, i.timestamp, i.regex, i.null, false⟩

end Inf

/-! ### the `BTreeMap` of known kinds -/
namespace KList

def get : KList → Key → Option Kind
  | .nil, _ => Option.none
  | .cons k v m, q => if k = q then some v else m.get q

def contains (m : KList) (q : Key) : Bool := (m.get q).isSome

/-- `BTreeMap::insert` on the key-ordered association list. -/
def insert : KList → Key → Kind → KList
  | .nil, q, x => .cons q x .nil
  | .cons k v m, q, x =>
    if Key.lt q k then .cons q x (.cons k v m)
    else if k = q then .cons k x m
    else .cons k v (m.insert q x)

/-- `BTreeMap::remove` -/
def remove : KList → Key → KList
  | .nil, _ => .nil
  | .cons k v m, q => if k = q then m else .cons k v (m.remove q)

def isEmpty : KList → Bool
  | .nil => true
  | _ => false

def length : KList → Nat
  | .nil => 0
  | .cons _ _ m => m.length + 1

def keys : KList → List Key
  | .nil => []
  | .cons k _ m => k :: m.keys

def toList : KList → List (Key × Kind)
  | .nil => []
  | .cons k v m => (k, v) :: m.toList

/-- iteration over `&mut self.known`: every value is replaced, keys are unchanged. -/
def mapKV (f : Key → Kind → Kind) : KList → KList
  | .nil => .nil
  | .cons k v m => .cons k (f k v) (mapKV f m)

def all (f : Key → Kind → Bool) : KList → Bool
  | .nil => true
  | .cons k v m => f k v && all f m

def any (f : Key → Kind → Bool) : KList → Bool
  | .nil => false
  | .cons k v m => f k v || any f m

/-- `BTreeMap::retain` -/
def filter (f : Key → Kind → Bool) : KList → KList
  | .nil => .nil
  | .cons k v m => if f k v then .cons k v (filter f m) else filter f m

/-- fold over the entries in key order. -/
def foldl {α : Type} (f : α → Key → Kind → α) : α → KList → α
  | a, .nil => a
  | a, .cons k v m => foldl f (f a k v) m

/-- all keys of `m` are strictly greater than `k`. -/
def allGt (k : Key) : KList → Bool
  | .nil => true
  | .cons l _ m => Key.lt k l && allGt k m

/-- keys strictly increasing (spine only). -/
def SortedKeys : KList → Bool
  | .nil => true
  | .cons k _ m => allGt k m && SortedKeys m

end KList

/-- the `usize` of an index key (`Index::to_usize`); `0` for a key that is not an index key. -/
def Key.idx : Key → Nat
  | [n] => n
  | _ => 0

/-- the key of index `n`. -/
def Key.ofIdx (n : Nat) : Key := [n]

namespace Kind

def prim : Kind → Prim
  | .mk p _ _ => p
def arr : Kind → OCol
  | .mk _ a _ => a
def obj : Kind → OCol
  | .mk _ _ o => o

/-- `Kind::as_array` -/
def array : Kind → Option Col
  | .mk _ (.some c) _ => Option.some c
  | .mk _ .none _ => Option.none
/-- `Kind::as_object` -/
def object : Kind → Option Col
  | .mk _ _ (.some c) => Option.some c
  | .mk _ _ .none => Option.none

def setPrim : Kind → Prim → Kind
  | .mk _ a o, p => .mk p a o

/-! #### initialisers (builder.rs) -/
def never : Kind := .mk {} .none .none
def bytes : Kind := .mk { bytes := true } .none .none
def integer : Kind := .mk { integer := true } .none .none
def float : Kind := .mk { float := true } .none .none
def boolean : Kind := .mk { boolean := true } .none .none
def timestamp : Kind := .mk { timestamp := true } .none .none
def regex : Kind := .mk { regex := true } .none .none
def null : Kind := .mk { null := true } .none .none
def undefined : Kind := .mk { undefined := true } .none .none
/-- `Kind::array(collection)` -/
def ofArray (c : Col) : Kind := .mk {} (.some c) .none
/-- `Kind::object(collection)` -/
def ofObject (c : Col) : Kind := .mk {} .none (.some c)

/-! #### `or_*` / `add_*` -/
def orBytes : Kind → Kind | .mk p a o => .mk { p with bytes := true } a o
def orInteger : Kind → Kind | .mk p a o => .mk { p with integer := true } a o
def orFloat : Kind → Kind | .mk p a o => .mk { p with float := true } a o
def orBoolean : Kind → Kind | .mk p a o => .mk { p with boolean := true } a o
def orTimestamp : Kind → Kind | .mk p a o => .mk { p with timestamp := true } a o
def orRegex : Kind → Kind | .mk p a o => .mk { p with regex := true } a o
def orNull : Kind → Kind | .mk p a o => .mk { p with null := true } a o
def orUndefined : Kind → Kind | .mk p a o => .mk { p with undefined := true } a o
/-- `or_array` / `add_array`: replaces an existing array collection. -/
def orArray : Kind → Col → Kind | .mk p _ o, c => .mk p (.some c) o
/-- `or_object` / `add_object`: replaces an existing object collection. -/
def orObject : Kind → Col → Kind | .mk p a _, c => .mk p a (.some c)

/-! #### `remove_*` / `without_*` -/
def withoutUndefined : Kind → Kind | .mk p a o => .mk { p with undefined := false } a o
def withoutNull : Kind → Kind | .mk p a o => .mk { p with null := false } a o
def withoutArray : Kind → Kind | .mk p _ o => .mk p .none o
def withoutObject : Kind → Kind | .mk p a _ => .mk p a .none
/-- `to_primitives` -/
def toPrimitives : Kind → Kind | .mk p _ _ => .mk p .none .none

/-! #### comparison.rs: `is_*`, `contains_*` -/
def isNever : Kind → Bool
  | .mk p .none .none => p.isEmpty
  | _ => false

def hasArr : Kind → Bool
  | .mk _ (.some _) _ => true
  | _ => false
def hasObj : Kind → Bool
  | .mk _ _ (.some _) => true
  | _ => false

def containsBytes (k : Kind) : Bool := k.prim.bytes || k.isNever
def containsInteger (k : Kind) : Bool := k.prim.integer || k.isNever
def containsFloat (k : Kind) : Bool := k.prim.float || k.isNever
def containsBoolean (k : Kind) : Bool := k.prim.boolean || k.isNever
def containsTimestamp (k : Kind) : Bool := k.prim.timestamp || k.isNever
def containsRegex (k : Kind) : Bool := k.prim.regex || k.isNever
def containsNull (k : Kind) : Bool := k.prim.null || k.isNever
def containsUndefined (k : Kind) : Bool := k.prim.undefined || k.isNever
def containsArray (k : Kind) : Bool := k.hasArr || k.isNever
def containsObject (k : Kind) : Bool := k.hasObj || k.isNever
/-- raw primitive flags (not `contains_*`) -/
def containsPrimitive (k : Kind) : Bool := !k.prim.isEmpty

/-- `is_any` (true for `never` as well, since `contains_*` are). -/
def isAny (k : Kind) : Bool :=
  k.containsBytes && k.containsInteger && k.containsFloat && k.containsBoolean &&
  k.containsTimestamp && k.containsRegex && k.containsNull && k.containsUndefined &&
  k.containsArray && k.containsObject

/-- `is_json` (requires `undefined`; `Kind::json()` itself is not `is_json`). -/
def isJson (k : Kind) : Bool :=
  k.containsBytes && k.containsInteger && k.containsFloat && k.containsBoolean &&
  !k.containsTimestamp && !k.containsRegex && k.containsNull && k.containsUndefined &&
  k.containsArray && k.containsObject

def isCollection (k : Kind) : Bool :=
  if !k.containsObject && !k.containsArray then false
  else !k.containsBytes && !k.containsInteger && !k.containsFloat && !k.containsBoolean &&
    !k.containsTimestamp && !k.containsRegex && !k.containsNull && !k.containsUndefined

/-- all states other than the listed one are absent (`is_bytes`, `is_integer`, …). -/
def onlyPrim (k : Kind) (rest : Prim) : Bool := rest.isEmpty && !k.hasArr && !k.hasObj
def isBytes (k : Kind) : Bool := k.onlyPrim { k.prim with bytes := false }
def isInteger (k : Kind) : Bool := k.onlyPrim { k.prim with integer := false }
def isFloat (k : Kind) : Bool := k.onlyPrim { k.prim with float := false }
def isBoolean (k : Kind) : Bool := k.onlyPrim { k.prim with boolean := false }
def isTimestamp (k : Kind) : Bool := k.onlyPrim { k.prim with timestamp := false }
def isRegex (k : Kind) : Bool := k.onlyPrim { k.prim with regex := false }
def isNull (k : Kind) : Bool := k.onlyPrim { k.prim with null := false }
def isUndefined (k : Kind) : Bool := k.onlyPrim { k.prim with undefined := false }
def isArray (k : Kind) : Bool := k.prim.isEmpty && !k.hasObj
def isObject (k : Kind) : Bool := k.prim.isEmpty && !k.hasArr

/-- `is_exact`: at most one state is set. -/
def isExact (k : Kind) : Bool :=
  k.isBytes || k.isInteger || k.isFloat || k.isBoolean || k.isTimestamp || k.isRegex ||
  k.isNull || k.isUndefined || k.isArray || k.isObject || k.isNever

/-- `contains_any_defined` = `!is_undefined` (so `false` for `never`). -/
def containsAnyDefined (k : Kind) : Bool := !k.isUndefined

/-- `upgrade_undefined` -/
def upgradeUndefined (k : Kind) : Kind :=
  if k.isNever then k
  else if k.containsUndefined then k.withoutUndefined.orNull
  else k

/-- `intersects` -/
def intersects (a b : Kind) : Bool :=
  if a.isNever || b.isNever then true
  else (a.containsBytes && b.containsBytes) || (a.containsInteger && b.containsInteger) ||
    (a.containsFloat && b.containsFloat) || (a.containsBoolean && b.containsBoolean) ||
    (a.containsTimestamp && b.containsTimestamp) || (a.containsRegex && b.containsRegex) ||
    (a.containsNull && b.containsNull) || (a.containsUndefined && b.containsUndefined) ||
    (a.containsArray && b.containsArray) || (a.containsObject && b.containsObject)

/-- `impl From<Infinite> for Kind`: the flags, and collections with no known entries whose unknown is
    the same `Infinite`. -/
def ofInf (i : Inf) : Kind :=
  .mk i.prim (if i.array then .some (.mk .nil (.infinite i)) else .none)
    (if i.object then .some (.mk .nil (.infinite i)) else .none)

end Kind

namespace Unknown

/-- `Unknown::to_existing_kind` -/
def toExistingKind : Unknown → Kind
  | .infinite i => (Kind.ofInf i).withoutUndefined
  | .exact k => k.withoutUndefined

/-- `Unknown::to_kind` -/
def toKind (u : Unknown) : Kind := u.toExistingKind.orUndefined

def any : Unknown := .infinite Inf.any
def json : Unknown := .infinite Inf.json

/-- `impl From<&Kind> for Unknown` (note: `never.is_any()` holds, so `never` becomes `any`). -/
def ofKind (k : Kind) : Unknown :=
  if k.isAny then any else if k.isJson then json else .exact k

def isExact : Unknown → Bool
  | .exact _ => true
  | .infinite _ => false

/-- `Unknown::canonicalize` -/
def canonicalize (u : Unknown) : Unknown := ofKind u.toKind.orUndefined

end Unknown

namespace Col

def known : Col → KList
  | .mk k _ => k
def unknown : Col → Unknown
  | .mk _ u => u

/-- `Collection::unknown_kind` -/
def unknownKind (c : Col) : Kind := c.unknown.toKind

/-- `Collection::from_parts` -/
def fromParts (known : KList) (unknown : Kind) : Col := .mk known (Unknown.ofKind unknown)
/-- `Collection::from_unknown` -/
def fromUnknown (unknown : Kind) : Col := .mk .nil (Unknown.ofKind unknown)
/-- `Collection::empty` / `From<BTreeMap>` with no entries. -/
def empty : Col := .mk .nil (Unknown.ofKind Kind.undefined)
/-- `impl From<BTreeMap<T, Kind>> for Collection<T>` -/
def ofKnown (known : KList) : Col := .mk known (Unknown.ofKind Kind.undefined)
def any : Col := .mk .nil Unknown.any
def json : Col := .mk .nil Unknown.json

def setUnknown (c : Col) (k : Kind) : Col := .mk c.known (Unknown.ofKind k)
def withUnknown (c : Col) (k : Kind) : Col := c.setUnknown k
def setKnown (c : Col) (known : KList) : Col := .mk known c.unknown
def withKnown (c : Col) (key : Key) (k : Kind) : Col := .mk (c.known.insert key k) c.unknown
def isUnknownExact (c : Col) : Bool := c.unknown.isExact

/-- `Collection::is_any` -/
def isAny (c : Col) : Bool := c.known.all (fun _ k => k.isAny) && c.unknownKind.isAny

/-- `EmptyState` -/
inductive EmptyState where
  | always | maybe | never
  deriving DecidableEq, Repr

/-- `Collection::is_empty` -/
def isEmpty (c : Col) : EmptyState :=
  if c.known.isEmpty then
    if c.unknownKind.containsAnyDefined then .maybe else .always
  else .never

/-- `Collection<Index>::largest_known_index`: the largest known index whose kind is not exactly
    `undefined`. -/
def largestKnownIndex (c : Col) : Option Nat :=
  c.known.foldl (fun acc k v =>
    if v.containsAnyDefined then
      (match acc with
       | Option.none => some k.idx
       | some m => some (max m k.idx))
    else acc) Option.none

/-- `Collection<Index>::min_length` -/
def minLength (c : Col) : Nat :=
  match c.largestKnownIndex with
  | Option.none => 0
  | some i => i + 1

/-- `Collection<Index>::exact_length` -/
def exactLength (c : Col) : Option Nat :=
  if c.unknownKind.containsAnyDefined then Option.none else some c.minLength

/-- largest key of the known map regardless of its kind (`known().keys().map(to_usize).max()`,
    used by `get_recursive`). -/
def largestKey (c : Col) : Option Nat :=
  c.known.foldl (fun acc k _ =>
    match acc with
    | Option.none => some k.idx
    | some m => some (max m k.idx)) Option.none

/-- `largest key + 1` (`0` without keys): the length `get_recursive` derives from the known map. -/
def keyLength (c : Col) : Nat :=
  match c.largestKey with
  | Option.none => 0
  | some i => i + 1

/-- one iteration of the loop body of `remove_shift`: the known element at `i + 1` (if any) moves
    to `i`. -/
def shiftStep (known : KList) (i : Nat) : KList :=
  match known.get (Key.ofIdx (i + 1)) with
  | some v => (known.remove (Key.ofIdx (i + 1))).insert (Key.ofIdx i) v
  | Option.none => known

/-- `Collection<Index>::remove_shift`: the known element at `index` is removed and
    `for i in index..min_length` every later known element moves one position to the left. -/
def removeShift (c : Col) (index : Nat) : Col :=
  let minLength := c.minLength
  let known := c.known.remove (Key.ofIdx index)
  .mk ((List.range (minLength - index)).foldl (fun kn j => shiftStep kn (index + j)) known) c.unknown

end Col

namespace Kind

/-- `Kind::any()` -/
def any : Kind := .mk Prim.all (.some Col.any) (.some Col.any)
/-- `Kind::json()` (no `undefined`) -/
def json : Kind :=
  .mk ⟨true, true, true, true, false, false, true, false⟩ (.some Col.json) (.some Col.json)
/-- `Kind::any_object()` -/
def anyObject : Kind := ofObject Col.any

end Kind

/-! ### nesting depth (fuel for the operations of KindOps.lean) -/
mutual
  def Kind.depth : Kind → Nat
    | .mk _ a o => max (OCol.depth a) (OCol.depth o)
  def OCol.depth : OCol → Nat
    | .none => 0
    | .some c => Col.depth c
  def Col.depth : Col → Nat
    | .mk k u => max (KList.depth k) (Unknown.depth u) + 1
  def KList.depth : KList → Nat
    | .nil => 0
    | .cons _ v m => max (Kind.depth v) (KList.depth m)
  def Unknown.depth : Unknown → Nat
    | .exact k => Kind.depth k
    | .infinite _ => 1
end

/-! ### well-formedness: array slots hold index keys; keys strictly increasing -/
def Key.isIdx : Key → Bool
  | [_] => true
  | _ => false

mutual
  def Kind.WF : Kind → Bool
    | .mk _ a o => OCol.WF true a && OCol.WF false o
  def OCol.WF (isArr : Bool) : OCol → Bool
    | .none => true
    | .some c => Col.WF isArr c
  def Col.WF (isArr : Bool) : Col → Bool
    | .mk k u => KList.WF isArr k && KList.SortedKeys k && Unknown.WF u
  def KList.WF (isArr : Bool) : KList → Bool
    | .nil => true
    | .cons k v m => (!isArr || k.isIdx) && Kind.WF v && KList.WF isArr m
  def Unknown.WF : Unknown → Bool
    | .exact k => Kind.WF k
    | .infinite _ => true
end
