/-
  VrlModel.KindCrud — model of kind/crud/{get,insert,remove}.rs.

  Indices are `Int` (an `isize`); `-index` panics for `isize::MIN` (debug profile, overflow checks).
  `get`/`at_path` and `insert` are total functions (`-index` taken in `Int`) accompanied by the
  predicates `atPathPanics` / `insertPanics` that say exactly when the Rust panics;
  `atPathO` / `insertO` combine them into an `Outcome`. `remove` threads the `Outcome`
  through (its only panic is `-isize::MIN`; `x + 1 - negative_index` is a saturating subtraction
  since e3023e2).
-/
import VrlModel.KindOps

namespace Kind

/-! ### get.rs -/

/-- `Kind::get_field` -/
def getField (k : Kind) (field : Key) : Kind :=
  match k.object with
  | Option.none => Kind.undefined
  | some object =>
    let kind := (object.known.get field).getD object.unknownKind
    if !k.isExact then kind.orUndefined else kind

/-- non-negative index lookup at the end of the `Index` arm of `get_recursive`. -/
def getIndexPos (k : Kind) (array : Col) (index : Nat) : Kind :=
  let kind := (array.known.get (Key.ofIdx index)).getD array.unknownKind
  if !k.isExact then kind.orUndefined else kind

/-- the `Index` arm of `get_recursive` up to (not including) the recursive call.
    The two early `return Self::undefined()` are returned as the kind `undefined`, from which the
    remaining segments again yield `undefined` (`atPath_undefined`). -/
def getIndex (k : Kind) (index : Int) : Kind :=
  match k.array with
  | Option.none => Kind.undefined
  | some array =>
    if index < 0 then
      -- `largest_known_index = array.known().keys().map(to_usize).max()`, `map_or(0, |i| i + 1)`
      let lenRequired := (-index).toNat
      let minLength := array.keyLength
      if array.unknownKind.containsAnyDefined then
        let minIndex := (max ((minLength : Int) + index) 0).toNat
        let canUnderflow := decide ((minLength : Int) + index < 0)
        let kind0 := array.unknownKind
        let kind1 := if k.isExact && !canUnderflow then kind0.withoutUndefined else kind0
        array.known.foldl (fun kind i iKind =>
          if i.idx ≥ minIndex then kind.mergeKeep iKind false else kind) kind1
      else
        let exactLen := minLength
        if exactLen ≥ lenRequired then
          k.getIndexPos array ((index + (exactLen : Int)).toNat)
        else Kind.undefined
    else k.getIndexPos array index.toNat

/-- one segment of `get_recursive`. -/
def getSeg (k : Kind) : Seg → Kind
  | .field f => k.getField f
  | .index i => k.getIndex i

/-- `Kind::at_path` (`get_recursive`). -/
def atPath : Kind → Path → Kind
  | k, [] => k
  | k, s :: rest => if k.isNever then Kind.never else (k.getSeg s).atPath rest

/-- `Kind::get` -/
def get (k : Kind) (p : Path) : Kind := (k.atPath p).upgradeUndefined

/-- `-index as usize` overflows: reached when the kind is not `never`, has an array state and the
    index is `isize::MIN`. -/
def segPanics (k : Kind) : Seg → Bool
  | .field _ => false
  | .index i => k.hasArr && i == isizeMin

/-- `at_path` / `get` panic. -/
def atPathPanics : Kind → Path → Bool
  | _, [] => false
  | k, s :: rest => !k.isNever && (k.segPanics s || (k.getSeg s).atPathPanics rest)

def atPathO (k : Kind) (p : Path) : Outcome Kind :=
  if k.atPathPanics p then .panic else .ok (k.atPath p)

def getO (k : Kind) (p : Path) : Outcome Kind :=
  if k.atPathPanics p then .panic else .ok (k.get p)

/-! ### insert.rs -/

/-- `for i in lo..hi { known.entry(i).or_insert_with(|| fill) }` followed by `g` on the entry. -/
def fillRange (g : Kind → Kind) (fill : Kind) : Nat → Nat → KList → KList
  | _, 0, known => known
  | lo, n + 1, known =>
    let key := Key.ofIdx lo
    let cur := (known.get key).getD fill
    fillRange g fill (lo + 1) n (known.insert key (g cur))

/-- the collection of one shift count in the "holes" loop of `insert_recursive`. -/
def shiftedCol (zero : Col) (shiftCount : Nat) : Col :=
  -- `for i in 1..shift_count { known.insert(i, null) }`
  let nulls := (List.range (shiftCount - 1)).foldl
    (fun acc j => acc.insert (Key.ofIdx (j + 1)) Kind.null) KList.nil
  let known := zero.known.foldl (fun acc i iKind => acc.insert (Key.ofIdx (i.idx + shiftCount)) iKind) nulls
  .mk known zero.unknown

/-- `insert_recursive`. -/
def insertRec : Kind → Path → Kind → Kind
  | self, [], kind => if kind.isNever then self else kind
  | self, .field field :: rest, kind =>
    if kind.isNever then self
    else
      let collection := (self.object).getD Col.empty
      let unknownKind := collection.unknownKind
      let cur := (collection.known.get field).getD unknownKind
      Kind.ofObject (.mk (collection.known.insert field (insertRec cur rest kind)) collection.unknown)
  | self, .index index :: rest, kind =>
    if kind.isNever then self
    else
      let collection := (self.array).getD Col.empty
      if index < 0 ∧ collection.unknownKind.containsAnyDefined then
        let lenRequired := (-index).toNat
        let unknownKind := collection.unknownKind
        let minLength := collection.minLength
        -- possible shifts 1..=max_shifts merged into the collection
        let zeroShifts := collection
        let collection1 :=
          if lenRequired > minLength then
            (List.range (lenRequired - minLength)).foldl
              (fun (c : Col) j => c.merge (shiftedCol zeroShifts (j + 1)) false) collection
          else collection
        let minIndex := (max ((minLength : Int) + index) 0).toNat
        let known2 := fillRange Kind.withoutUndefined unknownKind 0 lenRequired collection1.known
        let known3 := known2.mapKV (fun i iKind =>
          if i.idx ≥ minIndex then
            iKind.union (insertRec iKind rest kind.upgradeUndefined)
          else iKind)
        let unknownKindWithInsertion := insertRec unknownKind rest kind.upgradeUndefined
        let newUnknownKind := unknownKind.mergeKeep unknownKindWithInsertion false
        Kind.ofArray (.mk known3 (Unknown.ofKind newUnknownKind))
      else
        -- exact length (no unknown) for a negative index, or a non-negative index
        let largestKnownIndex := collection.largestKnownIndex
        let exactArrayLen := match largestKnownIndex with
          | Option.none => 0
          | some m => m + 1
        let lenRequired := (-index).toNat
        let known1 :=
          if index < 0 ∧ lenRequired > exactArrayLen then
            (List.range (lenRequired - exactArrayLen)).foldl
              (fun (acc : KList) j => acc.insert (Key.ofIdx (exactArrayLen + j)) Kind.null) collection.known
          else collection.known
        let idx : Nat :=
          if index < 0 then (index + (max lenRequired exactArrayLen : Nat)).toNat else index.toNat
        let collection1 : Col := .mk known1 collection.unknown
        let known2 :=
          if !known1.contains (Key.ofIdx idx) then
            let holeType := collection1.unknownKind.withoutUndefined.orNull
            fillRange id holeType 0 idx known1
          else known1
        let unknownKind := collection1.unknownKind
        let cur := (known2.get (Key.ofIdx idx)).getD unknownKind
        Kind.ofArray (.mk (known2.insert (Key.ofIdx idx) (insertRec cur rest kind)) collection.unknown)

/-- `Kind::insert` -/
def insert (k : Kind) (p : Path) (x : Kind) : Kind := k.insertRec p x.upgradeUndefined

/-- `Kind::set_at_path` -/
def setAtPath (k : Kind) (p : Path) (x : Kind) : Kind := k.insertRec p x

/-- `insert` / `set_at_path` panic: `-index as usize` at `isize::MIN`. Every segment of the path is
    reached whenever the inserted kind is not `never` (each arm of `insert_recursive` recurses into the
    rest of the path), so the condition does not depend on `self`. -/
def insertPanics (p : Path) (x : Kind) : Bool := !x.isNever && Value.pathPanics p

def insertO (k : Kind) (p : Path) (x : Kind) : Outcome Kind :=
  if insertPanics p x then .panic else .ok (k.insert p x)

def setAtPathO (k : Kind) (p : Path) (x : Kind) : Outcome Kind :=
  if insertPanics p x then .panic else .ok (k.setAtPath p x)

/-! ### remove.rs -/

/-- `CompactOptions` -/
inductive Compact where
  | always | maybe | never
  deriving DecidableEq, Repr

namespace Compact

/-- `CompactOptions::new`; `(false, false)` is `unreachable!()` in Rust and cannot be reached from
    `remove_inner` (a kind that is not `never` is `undefined` or contains a defined state). -/
def new (compact dontCompact : Bool) : Compact :=
  match compact, dontCompact with
  | true, false => .always
  | false, true => .never
  | true, true => .maybe
  | false, false => .never

def ofEmpty : Col.EmptyState → Compact
  | .never => .never
  | .maybe => .maybe
  | .always => .always

def shouldCompact : Compact → Bool
  | .always => true
  | .maybe => true
  | .never => false

def disableShouldCompact (c : Compact) (value : Bool) : Compact := if value then .never else c

end Compact

/-- `CollectionRemove::remove_known`: plain removal for fields, `remove_shift` for indices. -/
def removeKnown (isArr : Bool) (c : Col) (key : Key) : Col :=
  if isArr then c.removeShift key.idx else .mk (c.known.remove key) c.unknown

/-- `CompactOptions::compact` -/
def compactCol (co : Compact) (isArr : Bool) (collection : Col) (key : Key) (continueCompact : Bool) :
    Col × Compact :=
  let collection' :=
    match co with
    | .always => removeKnown isArr collection key
    | .maybe => (removeKnown isArr collection key).merge collection false
    | .never => collection
  (collection',
    ((Compact.ofEmpty collection'.isEmpty).disableShouldCompact (!co.shouldCompact)).disableShouldCompact
      (!continueCompact))

/-- the outcome is a panic. -/
def Outcome.isPanic {α : Type} : Outcome α → Bool
  | .panic => true
  | .ok _ => false

def Outcome.bind {α β : Type} : Outcome α → (α → Outcome β) → Outcome β
  | .ok a, f => f a
  | .panic, _ => .panic

/-- `remove_inner`: the new `self` and the returned `CompactOptions`. -/
def removeInner : Kind → Path → Bool → Outcome (Kind × Compact)
  | self, [], _ =>
    if self.isNever then .ok (Kind.never, .never)
    else .ok (self, Compact.new self.containsAnyDefined self.containsUndefined)
  | self, .field field :: rest, compact =>
    if self.isNever then .ok (Kind.never, .never)
    else
      Outcome.bind (self.atPathO (.field field :: rest)) fun atPathKind =>
      match self with
      | .mk _ _ .none => .ok (self, .never)
      | .mk p a (.some object) =>
        let target := (object.known.get field).getD atPathKind
        Outcome.bind (removeInner target rest compact) fun (target', co) =>
        -- the modified value is stored only when the field is known
        let object1 : Col :=
          if object.known.contains field then .mk (object.known.insert field target') object.unknown
          else object
        let (object2, co') := compactCol co false object1 field compact
        .ok (.mk p a (.some object2), co')
  | self, .index index :: rest, compact =>
    if self.isNever then .ok (Kind.never, .never)
    else
      Outcome.bind (self.atPathO (.index index :: rest)) fun atPathKind =>
      match self with
      | .mk _ .none _ => .ok (self, .never)
      | .mk p (.some array) o =>
        let removeAt (idx : Nat) : Outcome (Kind × Compact) :=
          let key := Key.ofIdx idx
          let target := (array.known.get key).getD atPathKind
          Outcome.bind (removeInner target rest compact) fun (target', co) =>
          let array1 : Col :=
            if array.known.contains key then .mk (array.known.insert key target') array.unknown
            else array
          let (array2, co') := compactCol co true array1 key compact
          .ok (.mk p (.some array2) o, co')
        if index < 0 then
          if index == isizeMin then .panic
          else
          let negativeIndex := (-index).toNat
          if array.unknownKind.containsAnyDefined then
            let original := array
            match array.largestKnownIndex with
            | Option.none =>
              -- `map_or(0, ..)`; no loop
              .ok (.mk p (.some array) o, if array.minLength ≤ 1 then .maybe else .never)
            | some largestKnownIndex =>
              -- `(x + 1).saturating_sub(negative_index)` (truncated subtraction of `Nat`)
              (
                let minIndex := largestKnownIndex + 1 - negativeIndex
                let res : Outcome Col :=
                  (List.range (largestKnownIndex + 1 - minIndex)).foldl
                    (fun (acc : Outcome Col) j =>
                      Outcome.bind acc fun arr =>
                      let i := minIndex + j
                      let key := Key.ofIdx i
                      match original.known.get key with
                      | Option.none => .ok (arr.merge original false)
                      | some child =>
                        Outcome.bind (removeInner child rest compact) fun (child', co) =>
                        let single1 : Col := .mk (original.known.insert key child') original.unknown
                        let (single2, _) := compactCol co true single1 key compact
                        .ok (arr.merge single2 false))
                    (.ok array)
                Outcome.bind res fun array' =>
                .ok (.mk p (.some array') o, if array'.minLength ≤ 1 then .maybe else .never))
          else
            -- `get_positive_index`
            match array.largestKnownIndex with
            | some largestKnownIndex =>
              if largestKnownIndex ≥ negativeIndex - 1 then
                removeAt ((largestKnownIndex : Int) + 1 + index).toNat
              else .ok (self, .never)
            | Option.none => .ok (self, .never)
        else removeAt index.toNat

/-- `Kind::remove(&mut self, path, prune)`: `(self afterwards, returned kind)`. -/
def remove (self : Kind) (path : Path) (prune : Bool) : Outcome (Kind × Kind) :=
  Outcome.bind (self.getO path) fun removedType =>
  match path with
  | [] =>
    let k0 := Kind.never
    let k1 := if self.containsObject then k0.orObject Col.empty else k0
    let k2 := if self.containsArray then k1.orArray Col.empty else k1
    let k3 := if self.containsPrimitive then k2.orNull else k2
    .ok (k3, removedType)
  | _ =>
    Outcome.bind (self.removeInner path prune) fun (self', _) => .ok (self', removedType)

end Kind
