/-
  VrlModel.Proto — model of `src/protobuf/encode.rs` (`encode_message`, `convert_value`,
  `convert_value_raw`, `parse_map_key`) and `src/protobuf/parse.rs` (`proto_to_value`) over an
  abstract descriptor.

  * A descriptor pool is a list of messages and a list of enums; kinds refer to them by index
    (messages may be recursive).  A field has a name, a number, a kind and a cardinality:
    `singular` (no presence: proto3 implicit), `optional` (explicit presence: proto2 fields,
    proto3 `optional`, every message-typed field), `repeated`, `map key` (then `kind` is the kind
    of the entry's value).  Real oneofs, extensions and groups are outside the model (none in the
    shipped descriptor sets; the harness refuses to serialise a descriptor that has one).
  * `PValue` is `prost_reflect::Value` (the *abstract wire value*); a message carries the index of
    its own descriptor and the fields that were set (`DynamicMessage.fields`).
  * The wire format itself (`DynamicMessage::encode` / `decode`) is a parameter: `WireCodec`,
    with the law `decode (encode m) = some (normalize m)` for valid messages.
  * Primitives of core/chrono that the coercions of `convert_value_raw` reach (float parsing and
    printing, timestamp printing) are the parameter `Prims`.
-/
import VrlModel.Value
import VrlModel.F64
import VrlModel.F32
import VrlModel.Utf8Lossy

namespace Proto

inductive Scalar where
  | double | float | int32 | int64 | uint32 | uint64 | sint32 | sint64
  | fixed32 | fixed64 | sfixed32 | sfixed64 | bool | string | bytes
  deriving DecidableEq, Repr

/-- the Rust type that carries a scalar in `prost_reflect::Value` -/
inductive Carrier where
  | f64 | f32 | i32 | i64 | u32 | u64 | bool | string | bytes
  deriving DecidableEq, Repr

def Scalar.carrier : Scalar → Carrier
  | .double => .f64 | .float => .f32
  | .int32 => .i32 | .sint32 => .i32 | .sfixed32 => .i32
  | .int64 => .i64 | .sint64 => .i64 | .sfixed64 => .i64
  | .uint32 => .u32 | .fixed32 => .u32
  | .uint64 => .u64 | .fixed64 => .u64
  | .bool => .bool | .string => .string | .bytes => .bytes

inductive Kind where
  | scalar (s : Scalar)
  | enum (e : Nat)
  | message (m : Nat)
  deriving DecidableEq, Repr

inductive Card where
  | singular
  | optional
  | repeated
  | map (key : Scalar)
  deriving DecidableEq, Repr

structure Field where
  name : List Nat
  number : Nat
  kind : Kind
  card : Card
  deriving DecidableEq, Repr

/-- `values` in the order of `EnumDescriptor::values()` (by number); `dflt` is the number of
    `default_value()` (the first declared value). -/
structure EnumDesc where
  values : List (List Nat × Int)
  dflt : Int
  deriving DecidableEq, Repr

/-- `isTimestamp` : `full_name() == "google.protobuf.Timestamp"`. -/
structure MsgDesc where
  fields : List Field
  isTimestamp : Bool
  deriving DecidableEq, Repr

structure Pool where
  msgs : List MsgDesc
  enums : List EnumDesc
  deriving DecidableEq, Repr

def Pool.msg (p : Pool) (r : Nat) : Option MsgDesc := p.msgs[r]?
def Pool.enum (p : Pool) (e : Nat) : Option EnumDesc := p.enums[e]?

/-- `FieldDescriptor::supports_presence` -/
def Field.presence (f : Field) : Bool :=
  match f.card with
  | .optional => true
  | _ => false

def Field.isList (f : Field) : Bool :=
  match f.card with
  | .repeated => true
  | _ => false

def Field.isMap (f : Field) : Bool :=
  match f.card with
  | .map _ => true
  | _ => false

def findField (fs : List Field) (k : List Nat) : Option Field := fs.find? (fun f => f.name == k)

/-- the `value` field of the entry message of a map field -/
def Field.entryValue (f : Field) : Field := { name := [118, 97, 108, 117, 101], number := 2, kind := f.kind, card := .optional }

/-! ### enum lookups -/

/-- `descriptor.values().find(|v| v.name().eq_ignore_ascii_case(s))` -/
def EnumDesc.byNameCI (e : EnumDesc) (s : List Nat) : Option Int :=
  (e.values.find? (fun p => Utf8L.eqIgnoreAsciiCase p.1 s)).map (·.2)

/-- `get_value(number)` (unspecified among aliases; the model takes the first). -/
def EnumDesc.byNumber (e : EnumDesc) (n : Int) : Option (List Nat) :=
  (e.values.find? (fun p => p.2 == n)).map (·.1)

/-! ### integer casts and decimal text -/

def p31 : Int := 2147483648
def p32 : Int := 4294967296
def p63 : Int := 9223372036854775808
def p64 : Int := 18446744073709551616

def wrapI32 (i : Int) : Int := (i + p31) % p32 - p31
def wrapU32 (i : Int) : Int := i % p32
def wrapI64 (i : Int) : Int := (i + p63) % p64 - p63
def wrapU64 (i : Int) : Int := i % p64

def inI32 (i : Int) : Bool := decide (-p31 ≤ i) && decide (i < p31)
def inU32 (i : Int) : Bool := decide (0 ≤ i) && decide (i < p32)
def inI64 (i : Int) : Bool := decide (-p63 ≤ i) && decide (i < p63)
def inU64 (i : Int) : Bool := decide (0 ≤ i) && decide (i < p64)

def decNat (n : Nat) : List Nat := (Nat.toDigits 10 n).map Char.toNat

/-- `i.to_string()` -/
def decInt (i : Int) : List Nat := if i < 0 then 45 :: decNat i.natAbs else decNat i.natAbs

def digitsVal : List Nat → Nat → Option Nat
  | [], acc => some acc
  | c :: cs, acc => if 48 ≤ c ∧ c ≤ 57 then digitsVal cs (acc * 10 + (c - 48)) else none

def parseDigits (s : List Nat) : Option Nat :=
  match s with
  | [] => none
  | _ => digitsVal s 0

/-- `str::parse::<iN/uN>()`: optional `+` (and `-` for signed types), at least one digit, in range. -/
def parseInt (signed : Bool) (inRange : Int → Bool) (s : List Nat) : Option Int :=
  let r : Option Int :=
    match s with
    | 43 :: rest => (parseDigits rest).map Int.ofNat
    | 45 :: rest => if signed then (parseDigits rest).map (fun n => -(Int.ofNat n)) else none
    | _ => (parseDigits s).map Int.ofNat
  match r with
  | some i => if inRange i then some i else none
  | none => none

def sTrue : List Nat := [116, 114, 117, 101]
def sFalse : List Nat := [102, 97, 108, 115, 101]

/-- `conversion::parse_bool` (on the lossily decoded text; `to_lowercase` only matters on ASCII). -/
def parseBool (s : List Nat) : Option Bool :=
  let t := [sTrue, [116], [121, 101, 115], [121]]
  let f := [sFalse, [102], [110, 111], [110]]
  if t.contains s then some true
  else if f.contains s || s == [48] then some false
  else
    match parseInt true inI64 s with
    | some n => some (n != 0)
    | none =>
      let l := s.map Utf8L.lowerAscii
      if t.contains l then some true else if f.contains l then some false else none

/-! ### abstract wire values (`prost_reflect::Value`, `MapKey`, `DynamicMessage`) -/

inductive MapKey where
  | bool (b : Bool)
  | i32 (i : Int)
  | i64 (i : Int)
  | u32 (i : Int)
  | u64 (i : Int)
  | str (s : List Nat)
  deriving DecidableEq, Repr

mutual
  inductive PValue where
    | bool (b : Bool)
    | i32 (i : Int)
    | i64 (i : Int)
    | u32 (i : Int)
    | u64 (i : Int)
    | f32 (bits : Nat)
    | f64 (bits : Nat)
    | string (s : List Nat)
    | bytes (b : List Nat)
    | enumNumber (n : Int)
    | message (ref : Nat) (fs : PFields)
    | list (xs : PList)
    | map (es : PMap)
  inductive PList where
    | nil
    | cons (v : PValue) (vs : PList)
  /-- fields that were set, by field number -/
  inductive PFields where
    | nil
    | cons (num : Nat) (v : PValue) (rest : PFields)
  inductive PMap where
    | nil
    | cons (k : MapKey) (v : PValue) (rest : PMap)
end

deriving instance DecidableEq for PValue, PList, PFields, PMap

instance : Inhabited PValue := ⟨.bool false⟩

namespace PFields

def get : PFields → Nat → Option PValue
  | .nil, _ => none
  | .cons k v rest, n => if k = n then some v else rest.get n

/-- `fields.insert(number, value)` -/
def set : PFields → Nat → PValue → PFields
  | .nil, n, v => .cons n v .nil
  | .cons k w rest, n, v => if k = n then .cons k v rest else .cons k w (rest.set n v)

/-- `fields.remove(number)` -/
def clear : PFields → Nat → PFields
  | .nil, _ => .nil
  | .cons k w rest, n => if k = n then rest.clear n else .cons k w (rest.clear n)

end PFields

def PMap.has : PMap → MapKey → Bool
  | .nil, _ => false
  | .cons l _ rest, k => l == k || rest.has k

/-- add an entry unless the key is already there -/
def PMap.setNew (es : PMap) (k : MapKey) (v : PValue) : PMap := if es.has k then es else .cons k v es

/-- `BTreeMap`: add an entry unless the key is already there -/
def insertNew (m : VMap) (k : List Nat) (x : Value) : VMap := if (m.get k).isSome then m else m.insert k x

def PList.isEmpty : PList → Bool
  | .nil => true
  | _ => false

def PMap.isEmpty : PMap → Bool
  | .nil => true
  | _ => false

/-! ### primitives outside vrl (parameters) -/

/-- core / chrono primitives reached by the coercions of `convert_value_raw`:
    `str::parse::<f64>`, `str::parse::<f32>` (result as bit pattern, NaN included),
    `f64::to_string`, `DateTime<Utc>::to_string`. -/
structure Prims where
  parseF64 : List Nat → Option Nat
  parseF32 : List Nat → Option Nat
  fmtF64 : Nat → List Nat
  fmtTs : Int → List Nat

/-! ### `parse_map_key` and the stringification of map keys in `proto_to_value` -/

def parseMapKey (k : Scalar) (s : List Nat) : Option MapKey :=
  match k.carrier with
  | .string => some (.str s)
  | .bool => if s = sTrue then some (.bool true) else if s = sFalse then some (.bool false) else none
  | .i32 => (parseInt true inI32 s).map .i32
  | .i64 => (parseInt true inI64 s).map .i64
  | .u32 => (parseInt false inU32 s).map .u32
  | .u64 => (parseInt false inU64 s).map .u64
  | _ => none

def showMapKey : MapKey → List Nat
  | .bool b => if b then sTrue else sFalse
  | .i32 i => decInt i
  | .i64 i => decInt i
  | .u32 i => decInt i
  | .u64 i => decInt i
  | .str s => s

/-! ### `convert_value_raw` on scalar kinds -/

def convScalar (P : Prims) (lossy : Bool) : Value → Scalar → Option PValue
  | .bool b, .bool => some (.bool b)
  | .int i, .bool => some (.bool (i != 0))
  | .bytes b, .bool => (parseBool (Utf8L.lossy b)).map .bool
  | .bytes b, .bytes => some (.bytes b)
  | .bytes b, .string => some (.string (Utf8L.lossy b))
  | .float f, .double => some (.f64 f)
  | .float f, .float => some (.f32 (F32.ofF64 f))
  | .bytes b, .double => (P.parseF64 (Utf8L.lossy b)).map .f64
  | .bytes b, .float => (P.parseF32 (Utf8L.lossy b)).map .f32
  | .int i, .double => some (.f64 (F64.ofInt i))
  | .int i, .float => some (.f32 (F32.ofInt i))
  | .regex r, .string => some (.string r)
  | .regex r, .bytes => some (.bytes r)
  | .ts t, .int64 => some (.i64 (t / 1000))
  | .bool b, .string => if lossy then some (.string (if b then sTrue else sFalse)) else none
  | .int i, .string => if lossy then some (.string (decInt i)) else none
  | .float f, .string => if lossy then some (.string (P.fmtF64 f)) else none
  | .ts t, .string => if lossy then some (.string (P.fmtTs t)) else none
  | .int i, s =>
    match s.carrier with
    | .i32 => some (.i32 (wrapI32 i))
    | .i64 => some (.i64 i)
    | .u32 => some (.u32 (wrapU32 i))
    | .u64 => some (.u64 (wrapU64 i))
    | _ => none
  | .bytes b, s =>
    match s.carrier with
    | .i32 => (parseInt true inI32 (Utf8L.lossy b)).map .i32
    | .i64 => (parseInt true inI64 (Utf8L.lossy b)).map .i64
    | .u32 => (parseInt false inU32 (Utf8L.lossy b)).map .u32
    | .u64 => (parseInt false inU64 (Utf8L.lossy b)).map .u64
    | _ => none
  | _, _ => none

/-! ### `Value::is_valid` / `is_valid_for_field` (checked by `try_set_field`) -/

def validKind : PValue → Kind → Bool
  | .bool _, .scalar s => s.carrier == .bool
  | .i32 _, .scalar s => s.carrier == .i32
  | .i64 _, .scalar s => s.carrier == .i64
  | .u32 _, .scalar s => s.carrier == .u32
  | .u64 _, .scalar s => s.carrier == .u64
  | .f32 _, .scalar s => s.carrier == .f32
  | .f64 _, .scalar s => s.carrier == .f64
  | .string _, .scalar s => s.carrier == .string
  | .bytes _, .scalar s => s.carrier == .bytes
  | .enumNumber _, .enum _ => true
  | .message _ _, .message _ => true
  | _, _ => false

def PList.allValid : PList → Kind → Bool
  | .nil, _ => true
  | .cons v vs, k => validKind v k && vs.allValid k

def validMapKey : MapKey → Scalar → Bool
  | .bool _, s => s.carrier == .bool
  | .i32 _, s => s.carrier == .i32
  | .i64 _, s => s.carrier == .i64
  | .u32 _, s => s.carrier == .u32
  | .u64 _, s => s.carrier == .u64
  | .str _, s => s.carrier == .string

def PMap.allValid : PMap → Scalar → Kind → Bool
  | .nil, _, _ => true
  | .cons k v rest, ks, vk => validMapKey k ks && validKind v vk && rest.allValid ks vk

/-- `value.is_valid_for_field(field)`.  For a map field the real kind is the entry message, so a
    plain value is valid there exactly when it is a message. -/
def validFor (f : Field) (pv : PValue) : Bool :=
  match pv, f.card with
  | .list xs, .repeated => xs.allValid f.kind
  | .map es, .map ks => es.allValid ks f.kind
  | pv, .map _ => validKind pv (.message 0)
  | pv, _ => validKind pv f.kind

/-! ### `encode_message` -/

def sSeconds : List Nat := [115, 101, 99, 111, 110, 100, 115]
def sNanos : List Nat := [110, 97, 110, 111, 115]

/-- `try_set_field_by_name` -/
def setByName (md : MsgDesc) (fs : PFields) (name : List Nat) (pv : PValue) : Option PFields :=
  match findField md.fields name with
  | some f => if validFor f pv then some (fs.set f.number pv) else none
  | none => none

/-- the `google.protobuf.Timestamp` message built from a VRL timestamp (ns since the epoch) -/
def tsMessage (md : MsgDesc) (ns : Int) : Option PFields :=
  match setByName md .nil sSeconds (.i64 (ns / 1000000000)) with
  | some fs => setByName md fs sNanos (.i32 (ns % 1000000000))
  | none => none

/-- The loop of `encode_message` over `message_descriptor.fields()`: `conv f` is what
    `map.get(field_name)` and `convert_value` give for the field — `none` an error,
    `some none` absent or null (`clear_field`), `some (some pv)` a value for `try_set_field`. -/
def encodeFields (conv : Field → Option (Option PValue)) : List Field → PFields → Option PFields
  | [], acc => some acc
  | f :: fs, acc =>
    match conv f with
    | none => none
    | some none => encodeFields conv fs (acc.clear f.number)
    | some (some pv) => if validFor f pv then encodeFields conv fs (acc.set f.number pv) else none

/-- `None | Some(Value::Null) => clear_field` in `encode_message`; otherwise the converted value. -/
def nullOr (x : Value) (r : Option PValue) : Option (Option PValue) :=
  match x with
  | .null => some none
  | _ => r.map some

/-- a field descriptor of kind `k` that is not repeated (what `convert_value_raw` sees: the
    elements of a repeated field, the `value` field of a map entry) -/
def Field.plain (k : Kind) : Field := { name := [], number := 0, kind := k, card := .optional }

mutual
  /-- `convert_value(field, value)`; on a non-repeated field this is `convert_value_raw(value, kind)`
      (which refuses arrays as well).  A map field is `repeated` with the entry message as its
      kind: an object goes through the `is_map_entry()` branch; an array is converted element by
      element against the entry message and the resulting `List` is refused by `try_set_field`,
      so every path is an error. -/
  def convField (P : Prims) (lossy : Bool) (pool : Pool) : Field → Value → Option PValue
    | ⟨_, _, k, .repeated⟩, .arr a => (convList P lossy pool a k).map .list
    | ⟨_, _, _, _⟩, .arr _ => none
    | ⟨_, _, k, .map ks⟩, .obj m => (convEntries P lossy pool m ks k).map .map
    | ⟨_, _, _, .map _⟩, _ => none
    | ⟨_, _, .message r, _⟩, .obj m =>
      match pool.msg r with
      | some md => (encodeFields (fun f => convLookup P lossy pool m f) md.fields .nil).map (.message r)
      | none => none
    | ⟨_, _, .message r, _⟩, .ts t =>
      match pool.msg r with
      | some md => if md.isTimestamp then (tsMessage md t).map (.message r) else none
      | none => none
    | ⟨_, _, .enum e, _⟩, .bytes b =>
      match pool.enum e with
      | some ed => (ed.byNameCI (Utf8L.lossy b)).map .enumNumber
      | none => none
    | ⟨_, _, .enum _, _⟩, .int i => some (.enumNumber (wrapI32 i))
    | ⟨_, _, .scalar s, _⟩, v => convScalar P lossy v s
    | _, _ => none
  /-- `a.into_iter().map(|v| convert_value_raw(v, kind)).collect()` -/
  def convList (P : Prims) (lossy : Bool) (pool : Pool) : VList → Kind → Option PList
    | .nil, _ => some .nil
    | .cons v vs, k =>
      match convField P lossy pool (Field.plain k) v, convList P lossy pool vs k with
      | some pv, some pvs => some (.cons pv pvs)
      | _, _ => none
  /-- the map-entry branch of `convert_value_raw`: every key through `parse_map_key`, every value
      through `convert_value(value_field, …)`, collected into a `HashMap` with `insert` in the order
      of the object's keys — written as a fold from the right: an entry is added unless a later
      entry produced the same map key (`insert` lets the later one win). -/
  def convEntries (P : Prims) (lossy : Bool) (pool : Pool) : VMap → Scalar → Kind → Option PMap
    | .nil, _, _ => some .nil
    | .cons k x rest, ks, vk =>
      match parseMapKey ks k, convField P lossy pool (Field.plain vk) x, convEntries P lossy pool rest ks vk with
      | some mk, some pv, some es => some (es.setNew mk pv)
      | _, _, _ => none
  /-- `match map.get(field_name) { None | Some(Null) => clear, Some(v) => convert_value(field, v) }` -/
  def convLookup (P : Prims) (lossy : Bool) (pool : Pool) : VMap → Field → Option (Option PValue)
    | .nil, _ => some none
    | .cons k x rest, f =>
      if k = f.name then nullOr x (convField P lossy pool f x) else convLookup P lossy pool rest f
end

/-- `convert_value_raw(value, kind)` -/
def convRaw (P : Prims) (lossy : Bool) (pool : Pool) (v : Value) (k : Kind) : Option PValue :=
  convField P lossy pool (Field.plain k) v

/-- `encode_message(descriptor, value, options)` : the `DynamicMessage` (fields set). -/
def fromValue (P : Prims) (lossy : Bool) (pool : Pool) (r : Nat) : Value → Option PFields
  | .obj m =>
    match pool.msg r with
    | some md => encodeFields (fun f => convLookup P lossy pool m f) md.fields .nil
    | none => none
  | _ => none

/-! ### `proto_to_value` -/

/-- `*value == Value::default_value_for_field(field)` for a field without presence -/
def isDefault (pool : Pool) (f : Field) : PValue → Bool
  | .list xs => f.isList && xs.isEmpty
  | .map es => f.isMap && es.isEmpty
  | pv =>
    if f.isList || f.isMap then false
    else
      match pv, f.kind with
      | .bool b, .scalar .bool => b == false
      | .i32 i, .scalar s => s.carrier == .i32 && i == 0
      | .i64 i, .scalar s => s.carrier == .i64 && i == 0
      | .u32 i, .scalar s => s.carrier == .u32 && i == 0
      | .u64 i, .scalar s => s.carrier == .u64 && i == 0
      -- `f64`/`f32` equality: both zeros are equal to `0.0`
      | .f64 b, .scalar .double => F64.mag b == 0
      | .f32 b, .scalar .float => F32.mag b == 0
      | .string s, .scalar .string => s.isEmpty
      | .bytes b, .scalar .bytes => b.isEmpty
      | .enumNumber n, .enum e =>
        match pool.enum e with
        | some ed => n == ed.dflt
        | none => false
      | _, _ => false

/-- `field.has(value)` : `supports_presence() || !is_default_value(value)` -/
def hasValue (pool : Pool) (f : Field) (pv : PValue) : Bool := f.presence || !isDefault pool f pv

/-- The loop of `proto_to_value` over `v.descriptor().fields()`: `look f` is what `has_field` /
    `get_field` / the recursive call give — `none` an error, `some none` not set,
    `some (some x)` the converted value, inserted under the field name. -/
def collectFields (look : Field → Option (Option Value)) : List Field → VMap → Option VMap
  | [], acc => some acc
  | f :: fs, acc =>
    match look f with
    | none => none
    | some none => collectFields look fs acc
    | some (some x) => collectFields look fs (acc.insert f.name x)

mutual
  /-- `proto_to_value(value, field_descriptor, options)` -/
  def toValue (pool : Pool) : Option Field → PValue → Option Value
    | _, .bool b => some (.bool b)
    | _, .i32 i => some (.int i)
    | _, .i64 i => some (.int i)
    | _, .u32 i => some (.int i)
    -- `Value::from(u64)` is `value as i64`
    | _, .u64 i => some (.int (wrapI64 i))
    | _, .f32 b => if F32.isNaN b then none else some (.float (F32.toF64 b))
    | _, .f64 b => if F64.isNaN b then none else some (.float b)
    | _, .string s => some (.bytes s)
    | _, .bytes b => some (.bytes b)
    | some ⟨_, _, .enum e, _⟩, .enumNumber n =>
      match pool.enum e with
      | some ed => (ed.byNumber n).map .bytes
      | none => none
    | _, .enumNumber _ => none
    | _, .message r fs =>
      match pool.msg r with
      | some md => (collectFields (fun f => toValueLookup pool fs f) md.fields .nil).map .obj
      | none => none
    | ctx, .list xs => (toValueList pool ctx xs).map .arr
    | some f, .map es => if f.isMap then (toValueEntries pool f.entryValue es).map .obj else none
    | none, .map _ => none
  def toValueList (pool : Pool) : Option Field → PList → Option VList
    | _, .nil => some .nil
    | ctx, .cons v vs =>
      match toValue pool ctx v, toValueList pool ctx vs with
      | some x, some xs => some (.cons x xs)
      | _, _ => none
  /-- `v.iter().map(|(k, v)| (k.to_string(), proto_to_value(v, value_field))).collect::<ObjectMap>()`
      as a fold from the right (`collect` lets the later of two equal keys win; the iteration order
      of the `HashMap` is arbitrary, so only maps whose keys print differently are meaningful). -/
  def toValueEntries (pool : Pool) : Field → PMap → Option VMap
    | _, .nil => some .nil
    | vf, .cons k v rest =>
      match toValue pool (some vf) v, toValueEntries pool vf rest with
      | some x, some obj => some (insertNew obj (showMapKey k) x)
      | _, _ => none
  /-- `if v.has_field(f) { proto_to_value(v.get_field(f), Some(f)) }` -/
  def toValueLookup (pool : Pool) : PFields → Field → Option (Option Value)
    | .nil, _ => some none
    | .cons n pv rest, f =>
      if n = f.number then
        (if hasValue pool f pv then (toValue pool (some f) pv).map some else some none)
      else toValueLookup pool rest f
end

/-- `proto_to_value(&Value::Message(m), None, …)` as called by `parse_proto`. -/
def toValueMsg (pool : Pool) (r : Nat) (fs : PFields) : Option Value := toValue pool none (.message r fs)

/-! ### the wire layer (parameter) -/

/-- `try_set_field` lets a single value into a repeated field (`is_valid_for_field` falls through
    to `is_valid(kind)`); on the wire it is one element, so it is decoded as a one-element list. -/
def wrapList (isList : Bool) (orig normed : PValue) : PValue :=
  if isList then
    match orig with
    | .list _ => normed
    | _ => .list (.cons normed .nil)
  else normed

mutual
  /-- `wire = false`: the message as `has_field` / `get_field` show it — a set field that `has`
      says is absent (a field without presence holding its default) is invisible.
      `wire = true`: what survives `DynamicMessage::encode` + `decode` — such a field is not
      written, and a single value in a repeated field comes back as a list. -/
  def normalize (pool : Pool) (wire : Bool) : PValue → PValue
    | .message r fs =>
      match pool.msg r with
      | some md => .message r (normFields pool wire md.fields fs)
      | none => .message r fs
    | .list xs => .list (normList pool wire xs)
    | .map es => .map (normMap pool wire es)
    | pv => pv
  def normList (pool : Pool) (wire : Bool) : PList → PList
    | .nil => .nil
    | .cons v vs => .cons (normalize pool wire v) (normList pool wire vs)
  def normMap (pool : Pool) (wire : Bool) : PMap → PMap
    | .nil => .nil
    | .cons k v rest => .cons k (normalize pool wire v) (normMap pool wire rest)
  def normFields (pool : Pool) (wire : Bool) (fields : List Field) : PFields → PFields
    | .nil => .nil
    | .cons n pv rest =>
      match fields.find? (fun f => f.number == n) with
      | some f =>
        if hasValue pool f pv then
          .cons n (wrapList (wire && f.isList) pv (normalize pool wire pv)) (normFields pool wire fields rest)
        else normFields pool wire fields rest
      | none => normFields pool wire fields rest
end

/-- The wire format of prost / prost-reflect as a parameter.  `Wire` stands for the payload bytes,
    `encode` and `decode` for `DynamicMessage::encode` and `DynamicMessage::decode(descriptor, bytes)`
    (first argument: the message type).  The assumed law: decoding what was encoded gives back the
    message up to `normalize` (fields that `has_field` does not see are not written; a single
    value in a repeated field comes back as a one-element list).  The law is sampled on the real
    crate by the `o.c26.wire` oracle.  It is stated for every abstract message; abstract messages
    that no `DynamicMessage` realises (integers outside the carrier type, ill-typed fields) are
    covered only for uniformity. -/
structure WireCodec (pool : Pool) where
  Wire : Type
  encode : Nat → PFields → Wire
  decode : Nat → Wire → Option PFields
  law : ∀ (r : Nat) (fs : PFields) (md : MsgDesc), pool.msg r = some md →
    decode r (encode r fs) = some (normFields pool true md.fields fs)

/-- `encode_proto` -/
def encodeProto (P : Prims) (pool : Pool) (W : WireCodec pool) (r : Nat) (v : Value) : Option W.Wire :=
  (fromValue P true pool r v).map (W.encode r)

/-- `parse_proto` -/
def parseProto (pool : Pool) (W : WireCodec pool) (r : Nat) (bytes : W.Wire) : Option Value :=
  match W.decode r bytes with
  | some fs => toValueMsg pool r fs
  | none => none

end Proto
