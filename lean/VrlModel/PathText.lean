/-
  VrlModel.PathText — paths as text (property C20).

  Rust anchors:
  * `src/path/owned.rs`  : `From<&OwnedValuePath> for String` + `serialize_field` (`render`),
                           `Display for OwnedTargetPath` (`renderTarget`),
                           `Display for OwnedSegment` + `format_field`/`VALID_FIELD` (`renderSegment`);
  * `src/path/jit.rs`    : the hand-written state machine `JitValuePathIter::next`, char by char
                           (`step`, `atEnd`, `jit`), including the overflow panic of
                           `value * 10 + new_digit` under overflow checks;
  * `src/path/mod.rs`    : `ValuePath::to_owned_value_path` (collect until the first `Invalid`),
                           `parse_value_path`, `get_target_prefix`, `parse_target_path`.

  Representation: text is `List Char` (the JIT parser works on `char_indices`), the fields of a
  parsed path are UTF-8 bytes (`Seg.field : List Nat`, as in `VrlModel.Value`); `Utf8.encode` /
  `Utf8.decode` convert. Slices `&self.path[start..index]` are carried as the list of characters
  consumed since `start`.

  One deliberate reshaping, semantics-preserving: on a backslash inside a quoted field the Rust
  iterator rewinds to the opening quote and re-reads the characters seen so far in the copying
  state `EscapedQuote` (they contain neither `"` nor `\`, so re-reading pushes exactly them into
  `escape_buffer`). The model switches to the copying state with the buffer pre-filled instead of
  rewinding; the nested `self.chars.next()` after a backslash is the explicit state `escapeNext`.
-/
import VrlModel.Value
import VrlModel.Utf8

namespace PathText

/-! ## character classes -/

def isUpper (c : Char) : Bool := decide (65 ≤ c.toNat) && decide (c.toNat ≤ 90)
def isLower (c : Char) : Bool := decide (97 ≤ c.toNat) && decide (c.toNat ≤ 122)
def isDigit (c : Char) : Bool := decide (48 ≤ c.toNat) && decide (c.toNat ≤ 57)

/-- `'A'..='Z' | 'a'..='z' | '_' | '0'..='9' | '@'` — the characters `serialize_field` leaves
    unquoted (also the class `[0-9a-zA-Z_@]` of `VALID_FIELD`, and VRL's `is_ident_continue`). -/
def isSerChar (c : Char) : Bool := isUpper c || isLower c || c == '_' || isDigit c || c == '@'

/-- `'A'..='Z' | 'a'..='z' | '_' | '0'..='9' | '@' | '-'` — what the JIT parser takes as part of
    an unquoted field. -/
def isJitChar (c : Char) : Bool := isSerChar c || c == '-'

/-- `c as isize - '0' as isize`. -/
def digitVal (c : Char) : Int := (c.toNat : Int) - 48

def digitChar (d : Nat) : Char := Char.ofNat (48 + d)

/-! ## rendering (`owned.rs`) -/

inductive Prefix where
  | event
  | metadata
  deriving DecidableEq, Repr

structure TargetPath where
  pfx : Prefix
  path : Path
  deriving DecidableEq

/-- a path segment with its field as characters (a `KeyString` is valid UTF-8). -/
inductive CSeg where
  | field (cs : List Char)
  | index (i : Int)
  deriving DecidableEq

abbrev CPath := List CSeg

def CSeg.toSeg : CSeg → Seg
  | .field cs => .field (Utf8.encode cs)
  | .index i => .index i

def CPath.toPath (p : CPath) : Path := p.map CSeg.toSeg

def Seg.toC : Seg → Option CSeg
  | .field k => (Utf8.decode k).map CSeg.field
  | .index i => some (.index i)

/-- an index segment holds an `isize`. -/
def CSeg.inRange : CSeg → Bool
  | .index i => decide (isizeMin ≤ i) && decide (i ≤ isizeMax)
  | .field _ => true

def CPath.inRange (p : CPath) : Bool := p.all CSeg.inRange

/-- the character view of a path; `none` when a field is not valid UTF-8 (impossible in Rust). -/
def Path.toC (p : Path) : Option CPath := p.mapM Seg.toC

/-- decimal digits of a natural number (`Display for usize`). -/
def natDigits (n : Nat) : List Char :=
  if n < 10 then [digitChar n] else natDigits (n / 10) ++ [digitChar (n % 10)]
decreasing_by omega

/-- `Display for isize`. -/
def intText (i : Int) : List Char :=
  if i < 0 then '-' :: natDigits i.natAbs else natDigits i.toNat

/-- `needs_quotes` of `serialize_field`. -/
def needsQuotes (cs : List Char) : Bool := cs.isEmpty || cs.any (fun c => !isSerChar c)

/-- the loop of `serialize_field` that backslash-escapes `"` and `\`. -/
def escapeField : List Char → List Char
  | [] => []
  | c :: cs => if c == '"' || c == '\\' then '\\' :: c :: escapeField cs else c :: escapeField cs

/-- `serialize_field` without the separator. -/
def fieldText (cs : List Char) : List Char :=
  if needsQuotes cs then '"' :: (escapeField cs ++ ['"']) else cs

/-- one iteration of the loop in `From<&OwnedValuePath> for String`; `first` is `i == 0`. -/
def segText (first : Bool) : CSeg → List Char
  | .field cs => (if first then [] else ['.']) ++ fieldText cs
  | .index i => '[' :: (intText i ++ [']'])

def renderFrom (first : Bool) : CPath → List Char
  | [] => []
  | s :: rest => segText first s ++ renderFrom false rest

/-- `String::from(&OwnedValuePath)` (= `Display for OwnedValuePath`) on the character view. -/
def renderC (p : CPath) : List Char := renderFrom true p

/-- `String::from(&OwnedValuePath)`. -/
def render (p : Path) : Option (List Char) := (Path.toC p).map renderC

def prefixChar : Prefix → Char
  | .event => '.'
  | .metadata => '%'

/-- `Display for OwnedTargetPath`. -/
def renderTargetC (pfx : Prefix) (p : CPath) : List Char := prefixChar pfx :: renderC p

def renderTarget (tp : TargetPath) : Option (List Char) :=
  (Path.toC tp.path).map (renderTargetC tp.pfx)

/-- `VALID_FIELD = ^[0-9]*[a-zA-Z_@][0-9a-zA-Z_@]*$` as a character-class predicate: only
    `[0-9a-zA-Z_@]` and at least one non-digit. -/
def validField (cs : List Char) : Bool := cs.all isSerChar && cs.any (fun c => !isDigit c)

/-- `Display for OwnedSegment` (`format_field`: quotes but does **not** escape). -/
def renderSegmentC : CSeg → List Char
  | .field cs => if validField cs then cs else '"' :: (cs ++ ['"'])
  | .index i => '[' :: (intText i ++ [']'])

def renderSegment (s : Seg) : Option (List Char) := (Seg.toC s).map renderSegmentC

/-! ## the JIT parser (`jit.rs`) -/

inductive JitState where
  | eventRoot
  | start
  | cont                              -- `Continue`
  | dot
  | indexStart
  | negIndex (v : Int)
  | index (v : Int)
  | field (acc : List Char)           -- `Field { start }`: `acc` = `path[start..index]`
  | quote (acc : List Char)           -- `Quote { start }`
  | escapedQuote (buf : List Char)    -- `EscapedQuote`, `buf` = `escape_buffer`
  | escapeNext (buf : List Char)      -- inside `EscapedQuote` after `\`: the nested `chars.next()`
  deriving DecidableEq

/-- what one call of the `Some((index, c))` arm does. -/
inductive Step where
  | go (st : JitState)                -- `(None, st)`
  | emit (s : Seg) (st : JitState)    -- `(Some(Some(segment)), st)`
  | invalid                           -- `(Some(Some(Invalid)), End)`
  | panic                             -- arithmetic overflow (overflow checks on)
  deriving DecidableEq

inductive PResult where
  | ok (p : Path)
  | err
  | panic
  deriving DecidableEq

def PResult.cons (s : Seg) : PResult → PResult
  | .ok p => .ok (s :: p)
  | .err => .err
  | .panic => .panic

def mkField (cs : List Char) : Seg := .field (Utf8.encode cs)

def inIsize (i : Int) : Bool := decide (isizeMin ≤ i) && decide (i ≤ isizeMax)

/-- `value * 10 + new_digit` with overflow checks (`none` = panic). -/
def pushDigit (v d : Int) : Option Int :=
  if inIsize (v * 10) then (if inIsize (v * 10 + d) then some (v * 10 + d) else none) else none

/-- `value * 10 - new_digit` with overflow checks (`none` = panic). -/
def pushDigitNeg (v d : Int) : Option Int :=
  if inIsize (v * 10) then (if inIsize (v * 10 - d) then some (v * 10 - d) else none) else none

/-- the arms shared by `Start`, `Continue`, `EventRoot`, `Dot` once `.` has been dealt with. -/
def segStart (allowIndex : Bool) (c : Char) : Step :=
  if isJitChar c then .go (.field [c])
  else if c == '[' && allowIndex then .go .indexStart
  else if c == '"' then .go (.quote [])
  else .invalid

def step : JitState → Char → Step
  | .start, c => if c == '.' then .go .eventRoot else segStart true c
  | .cont, c => if c == '.' then .go .dot else segStart true c
  | .eventRoot, c => segStart true c
  | .dot, c => segStart false c
  | .field acc, c =>
    if isJitChar c then .go (.field (acc ++ [c]))
    else if c == '.' then .emit (mkField acc) .dot
    else if c == '[' then .emit (mkField acc) .indexStart
    else .invalid
  | .quote acc, c =>
    if c == '"' then .emit (mkField acc) .cont
    else if c == '\\' then .go (.escapeNext acc)     -- rewind + `EscapedQuote` + `\` (see header)
    else .go (.quote (acc ++ [c]))
  | .escapedQuote buf, c =>
    if c == '"' then .emit (mkField buf) .cont
    else if c == '\\' then .go (.escapeNext buf)
    else .go (.escapedQuote (buf ++ [c]))
  | .escapeNext buf, c =>
    if c == '\\' || c == '"' then .go (.escapedQuote (buf ++ [c])) else .invalid
  | .indexStart, c =>
    if isDigit c then .go (.index (digitVal c))
    else if c == '-' then .go (.negIndex 0)
    else .invalid
  | .index v, c =>
    if isDigit c then
      match pushDigit v (digitVal c) with
      | some v' => .go (.index v')
      | none => .panic
    else if c == ']' then .emit (.index v) .cont
    else .invalid
  | .negIndex v, c =>
    if isDigit c then
      match pushDigitNeg v (digitVal c) with
      | some v' => .go (.negIndex v')
      | none => .panic
    else if c == ']' then .emit (.index v) .cont
    else .invalid

/-- the `None` arm of `next` (end of input). -/
def atEnd : JitState → PResult
  | .cont => .ok []
  | .eventRoot => .ok []
  | .field acc => .ok [mkField acc]
  | _ => .err

/-- `JitValuePath::to_owned_value_path`: run the iterator, collecting segments until the end or
    the first `Invalid` (the collect into `Result` stops there). -/
def jit : JitState → List Char → PResult
  | st, [] => atEnd st
  | st, c :: rest =>
    match step st c with
    | .go st' => jit st' rest
    | .emit s st' => (jit st' rest).cons s
    | .invalid => .err
    | .panic => .panic

/-- `parse_value_path`. -/
def parseValuePath (t : List Char) : PResult := jit .start t

/-- `get_target_prefix`: `%` is stripped; a leading `.` is kept for the value-path parser (the
    `Some('.')` arm and the fallback arm of the Rust `match` return the same thing). -/
def getTargetPrefix : List Char → Prefix × List Char
  | [] => (.event, [])
  | c :: rest => if c == '%' then (.metadata, rest) else (.event, c :: rest)

inductive TResult where
  | ok (tp : TargetPath)
  | err
  | panic
  deriving DecidableEq

def TResult.ofPResult (pfx : Prefix) : PResult → TResult
  | .ok p => .ok ⟨pfx, p⟩
  | .err => .err
  | .panic => .panic

/-- `parse_target_path`. -/
def parseTargetPath (t : List Char) : TResult :=
  TResult.ofPResult (getTargetPrefix t).1 (parseValuePath (getTargetPrefix t).2)

end PathText
