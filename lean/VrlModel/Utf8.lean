/-
  VrlModel.Utf8 — UTF-8 between `List Char` (Unicode scalar values; the view of char-indexed APIs
  such as `str::chars`/`char_indices`) and `List Nat` bytes (the view of `KeyString`/`Bytes`).

  `encode` is `char::encode_utf8` per character; `decode` is the strict decoder of
  `String::from_utf8` (rejects overlong forms, surrogates, values above U+10FFFF, stray or missing
  continuation bytes). The proved law (VrlProofs/Lemmas/Utf8.lean) is `decode (encode cs) = some cs`.
-/

namespace Utf8

/-- `char::encode_utf8`. -/
def encodeChar (c : Char) : List Nat :=
  let n := c.toNat
  if n < 0x80 then [n]
  else if n < 0x800 then [0xC0 + n / 64, 0x80 + n % 64]
  else if n < 0x10000 then [0xE0 + n / 4096, 0x80 + n / 64 % 64, 0x80 + n % 64]
  else [0xF0 + n / 262144, 0x80 + n / 4096 % 64, 0x80 + n / 64 % 64, 0x80 + n % 64]

def encode : List Char → List Nat
  | [] => []
  | c :: cs => encodeChar c ++ encode cs

/-- continuation byte `10xxxxxx`. -/
def isCont (b : Nat) : Bool := 0x80 ≤ b && b < 0xC0

/-- the scalar value `n` as a `Char`, `none` for surrogates / out of range. -/
def charOfNat? (n : Nat) : Option Char :=
  if h : n.isValidChar then some (Char.ofNatAux n h) else none

/-- one step of the strict decoder: the first scalar value and the remaining bytes. -/
def decodeOne : List Nat → Option (Char × List Nat)
  | [] => none
  | b0 :: rest =>
    if b0 < 0x80 then (charOfNat? b0).map (·, rest)
    else if b0 < 0xC2 then none
    else if b0 < 0xE0 then
      match rest with
      | b1 :: rest1 =>
        if isCont b1 then (charOfNat? ((b0 - 0xC0) * 64 + (b1 - 0x80))).map (·, rest1) else none
      | _ => none
    else if b0 < 0xF0 then
      match rest with
      | b1 :: b2 :: rest2 =>
        let n := (b0 - 0xE0) * 4096 + (b1 - 0x80) * 64 + (b2 - 0x80)
        if isCont b1 && isCont b2 && 0x800 ≤ n then (charOfNat? n).map (·, rest2) else none
      | _ => none
    else if b0 < 0xF8 then
      match rest with
      | b1 :: b2 :: b3 :: rest3 =>
        let n := (b0 - 0xF0) * 262144 + (b1 - 0x80) * 4096 + (b2 - 0x80) * 64 + (b3 - 0x80)
        if isCont b1 && isCont b2 && isCont b3 && 0x10000 ≤ n then (charOfNat? n).map (·, rest3)
        else none
      | _ => none
    else none

/-- the decoder loop; `fuel` bounds the number of scalar values (every step consumes ≥ 1 byte). -/
def decodeFuel : Nat → List Nat → Option (List Char)
  | _, [] => some []
  | 0, _ :: _ => none
  | fuel + 1, b :: bs =>
    match decodeOne (b :: bs) with
    | none => none
    | some (c, rest) =>
      match decodeFuel fuel rest with
      | none => none
      | some cs => some (c :: cs)

/-- strict UTF-8 decoder (`String::from_utf8`). -/
def decode (bs : List Nat) : Option (List Char) := decodeFuel bs.length bs

end Utf8
