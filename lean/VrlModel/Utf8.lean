/-
  VrlModel.Utf8 — UTF-8 between `List Char` (Unicode scalar values; the view of char-indexed APIs
  such as `str::chars`/`char_indices`) and `List Nat` bytes (the view of `KeyString`/`Bytes`).

  `encode` is `char::encode_utf8` per character; `decode` is the strict decoder of
  `String::from_utf8` (rejects overlong forms, surrogates, values above U+10FFFF, stray or missing
  continuation bytes). The proved law (VrlProofs/Lemmas/Utf8.lean) is `decode (encode cs) = some cs`.
  VrlModel.Utf8 — `String::from_utf8_lossy` / `<[u8]>::utf8_chunks` (core::str::lossy) on byte lists:
  every maximal invalid chunk is replaced by U+FFFD (`EF BF BD`).  A chunk's invalid part is the
  prefix of an ill-formed sequence that `Utf8Chunks::next` consumed before it broke off (1–3 bytes).
-/

namespace Utf8

/-- `char::encode_utf8`. -/
def encodeChar (c : Char) : List Nat :=
  let n := c.toNat
  if n < 0x80 then [n]
  else if n < 0x800 then [0xC0 + n / 64, 0x80 + n % 64]
  else if n < 0x10000 then [0xE0 + n / 4096, 0x80 + n / 64 % 64, 0x80 + n % 64]
  else [0xF0 + n / 262144, 0x80 + n / 4096 % 64, 0x80 + n / 64 % 64, 0x80 + n % 64]

def encode : List Char → List Nat
  | [] => []
  | c :: cs => encodeChar c ++ encode cs

/-- continuation byte `10xxxxxx`. -/
def isCont (b : Nat) : Bool := 0x80 ≤ b && b < 0xC0

/-- the scalar value `n` as a `Char`, `none` for surrogates / out of range. -/
def charOfNat? (n : Nat) : Option Char :=
  if h : n.isValidChar then some (Char.ofNatAux n h) else none

/-- one step of the strict decoder: the first scalar value and the remaining bytes. -/
def decodeOne : List Nat → Option (Char × List Nat)
  | [] => none
  | b0 :: rest =>
    if b0 < 0x80 then (charOfNat? b0).map (·, rest)
    else if b0 < 0xC2 then none
    else if b0 < 0xE0 then
      match rest with
      | b1 :: rest1 =>
        if isCont b1 then (charOfNat? ((b0 - 0xC0) * 64 + (b1 - 0x80))).map (·, rest1) else none
      | _ => none
    else if b0 < 0xF0 then
      match rest with
      | b1 :: b2 :: rest2 =>
        let n := (b0 - 0xE0) * 4096 + (b1 - 0x80) * 64 + (b2 - 0x80)
        if isCont b1 && isCont b2 && 0x800 ≤ n then (charOfNat? n).map (·, rest2) else none
      | _ => none
    else if b0 < 0xF8 then
      match rest with
      | b1 :: b2 :: b3 :: rest3 =>
        let n := (b0 - 0xF0) * 262144 + (b1 - 0x80) * 4096 + (b2 - 0x80) * 64 + (b3 - 0x80)
        if isCont b1 && isCont b2 && isCont b3 && 0x10000 ≤ n then (charOfNat? n).map (·, rest3)
        else none
      | _ => none
    else none

/-- the decoder loop; `fuel` bounds the number of scalar values (every step consumes ≥ 1 byte). -/
def decodeFuel : Nat → List Nat → Option (List Char)
  | _, [] => some []
  | 0, _ :: _ => none
  | fuel + 1, b :: bs =>
    match decodeOne (b :: bs) with
    | none => none
    | some (c, rest) =>
      match decodeFuel fuel rest with
      | none => none
      | some cs => some (c :: cs)

/-- strict UTF-8 decoder (`String::from_utf8`). -/
def decode (bs : List Nat) : Option (List Char) := decodeFuel bs.length bs
def isCont (b : Nat) : Bool := decide (128 ≤ b) && decide (b ≤ 191)

def replacement : List Nat := [239, 191, 189]

/-- second byte admissible after the lead byte `b0` of a three byte sequence -/
def ok3 (b0 b1 : Nat) : Bool :=
  (b0 == 224 && decide (160 ≤ b1) && decide (b1 ≤ 191)) ||
  (decide (225 ≤ b0) && decide (b0 ≤ 236) && isCont b1) ||
  (b0 == 237 && decide (128 ≤ b1) && decide (b1 ≤ 159)) ||
  (decide (238 ≤ b0) && decide (b0 ≤ 239) && isCont b1)

/-- second byte admissible after the lead byte `b0` of a four byte sequence -/
def ok4 (b0 b1 : Nat) : Bool :=
  (b0 == 240 && decide (144 ≤ b1) && decide (b1 ≤ 191)) ||
  (decide (241 ≤ b0) && decide (b0 ≤ 243) && isCont b1) ||
  (b0 == 244 && decide (128 ≤ b1) && decide (b1 ≤ 143))

/-- One step of `Utf8Chunks`: what is emitted for the sequence starting at the head of the list
    and how many bytes it consumes (at least one). -/
def step : List Nat → List Nat × Nat
  | [] => ([], 1)
  | b0 :: rest =>
    if b0 < 128 then ([b0], 1)
    else if 194 ≤ b0 ∧ b0 ≤ 223 then
      match rest with
      | b1 :: _ => if isCont b1 then ([b0, b1], 2) else (replacement, 1)
      | [] => (replacement, 1)
    else if 224 ≤ b0 ∧ b0 ≤ 239 then
      match rest with
      | b1 :: r1 =>
        if ok3 b0 b1 then
          match r1 with
          | b2 :: _ => if isCont b2 then ([b0, b1, b2], 3) else (replacement, 2)
          | [] => (replacement, 2)
        else (replacement, 1)
      | [] => (replacement, 1)
    else if 240 ≤ b0 ∧ b0 ≤ 244 then
      match rest with
      | b1 :: r1 =>
        if ok4 b0 b1 then
          match r1 with
          | b2 :: r2 =>
            if isCont b2 then
              match r2 with
              | b3 :: _ => if isCont b3 then ([b0, b1, b2, b3], 4) else (replacement, 3)
              | [] => (replacement, 3)
            else (replacement, 2)
          | [] => (replacement, 2)
        else (replacement, 1)
      | [] => (replacement, 1)
    else (replacement, 1)

def lossyFuel : Nat → List Nat → List Nat
  | 0, _ => []
  | _, [] => []
  | n + 1, s =>
    let (out, k) := step s
    out ++ lossyFuel n (s.drop k)

/-- `String::from_utf8_lossy(s)` as UTF-8 bytes. -/
def lossy (s : List Nat) : List Nat := lossyFuel s.length s

/-- `s` is valid UTF-8 (the lossy conversion leaves it alone). -/
def valid (s : List Nat) : Bool := lossy s == s

def lowerAscii (b : Nat) : Nat := if 65 ≤ b ∧ b ≤ 90 then b + 32 else b

/-- `str::eq_ignore_ascii_case` -/
def eqIgnoreAsciiCase (a b : List Nat) : Bool := a.map lowerAscii == b.map lowerAscii

end Utf8
