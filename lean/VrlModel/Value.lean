/-
  VrlModel.Value — model of `vrl::value::Value` and of `src/value/value/crud/{get,insert,remove,mod}.rs`.

  Representation choices (DESIGN §3):
  * byte strings and object keys are `List Nat` (bytes 0..255); key order is the lexicographic
    order on bytes, which is the order of Rust's `BTreeMap<KeyString, _>` (`str` ordering = UTF-8
    byte order);
  * objects are association lists kept strictly sorted by key (`VMap.Sorted`, a separate invariant);
  * integers are `Int` (range `i64` is a separate predicate), floats are carried as their 64 bit
    pattern (`Nat`), timestamps as nanoseconds since the epoch, regexes as their pattern bytes.
  * everything that can panic in the Rust (`-isize::MIN`) is an explicit `Outcome.panic`.
-/

abbrev Key := List Nat

/-- lexicographic strict order on keys (byte order of UTF-8 = `str::cmp`). -/
def Key.lt : List Nat → List Nat → Bool
  | [], [] => false
  | [], _ :: _ => true
  | _ :: _, [] => false
  | a :: as, b :: bs => if a < b then true else if a = b then Key.lt as bs else false

mutual
  inductive Value where
    | null
    | bool (b : Bool)
    | int (i : Int)
    | float (bits : Nat)
    | bytes (b : List Nat)
    | ts (ns : Int)
    | regex (pat : List Nat)
    | arr (xs : VList)
    | obj (m : VMap)
  inductive VList where
    | nil
    | cons (v : Value) (vs : VList)
  inductive VMap where
    | nil
    | cons (k : List Nat) (v : Value) (m : VMap)
end

mutual
  def Value.beq : Value → Value → Bool
    | .null, .null => true
    | .bool a, .bool b => a == b
    | .int a, .int b => a == b
    | .float a, .float b => a == b
    | .bytes a, .bytes b => a == b
    | .ts a, .ts b => a == b
    | .regex a, .regex b => a == b
    | .arr a, .arr b => VList.beq a b
    | .obj a, .obj b => VMap.beq a b
    | _, _ => false
  def VList.beq : VList → VList → Bool
    | .nil, .nil => true
    | .cons a as, .cons b bs => Value.beq a b && VList.beq as bs
    | _, _ => false
  def VMap.beq : VMap → VMap → Bool
    | .nil, .nil => true
    | .cons k a as, .cons l b bs => k == l && Value.beq a b && VMap.beq as bs
    | _, _ => false
end

deriving instance DecidableEq for Value, VList, VMap

instance : BEq Value := ⟨Value.beq⟩
instance : Inhabited Value := ⟨.null⟩

inductive Seg where
  | field (k : List Nat)
  | index (i : Int)
  deriving DecidableEq, Repr

abbrev Path := List Seg

inductive Outcome (α : Type) where
  | ok (a : α)
  | panic
  deriving Repr

def isizeMin : Int := -9223372036854775808
def isizeMax : Int := 9223372036854775807

namespace VList

def length : VList → Nat
  | .nil => 0
  | .cons _ vs => vs.length + 1

def getN : VList → Nat → Option Value
  | .nil, _ => none
  | .cons v _, 0 => some v
  | .cons _ vs, n + 1 => vs.getN n

def setN : VList → Nat → Value → VList
  | .nil, _, _ => .nil
  | .cons _ vs, 0, x => .cons x vs
  | .cons v vs, n + 1, x => .cons v (vs.setN n x)

def removeN : VList → Nat → VList
  | .nil, _ => .nil
  | .cons _ vs, 0 => vs
  | .cons v vs, n + 1 => .cons v (vs.removeN n)

def append : VList → VList → VList
  | .nil, ys => ys
  | .cons v vs, ys => .cons v (vs.append ys)

def nulls : Nat → VList
  | 0 => .nil
  | n + 1 => .cons .null (nulls n)

def isEmpty : VList → Bool
  | .nil => true
  | _ => false

/-- `array_index` in `crud/mod.rs`: resolve a possibly negative index against the length.
    `none` when a negative index reaches before the start; a non-negative index is returned
    unchanged (and may be out of range). -/
def arrayIndex (a : VList) (i : Int) : Option Nat :=
  if i ≥ 0 then some i.toNat
  else
    let j := (a.length : Int) + i
    if j ≥ 0 then some j.toNat else none

/-- `Vec<Value>::get_value` / `get_mut_value`. -/
def getIdx (a : VList) (i : Int) : Option Value :=
  match a.arrayIndex i with
  | some n => a.getN n
  | none => none

/-- `Vec<Value>::insert_value` (state after the call). The `-key` overflow is handled by the
    caller (`Outcome.panic`). -/
def insertIdx (a : VList) (i : Int) (x : Value) : VList :=
  if i ≥ 0 then
    if a.length ≤ i.toNat then
      (a.append (nulls (i.toNat - a.length))).append (.cons x .nil)
    else a.setN i.toNat x
  else
    let lenRequired := (-i).toNat
    if a.length < lenRequired then
      .cons x ((nulls (lenRequired - 1 - a.length)).append a)
    else a.setN ((a.length : Int) + i).toNat x

/-- value returned by `Vec<Value>::insert_value`. -/
def insertIdxPrev (a : VList) (i : Int) : Option Value :=
  if i ≥ 0 then
    if a.length ≤ i.toNat then none else a.getN i.toNat
  else
    if a.length < (-i).toNat then none else a.getN ((a.length : Int) + i).toNat

/-- `Vec<Value>::remove_value` : (removed, new array). -/
def removeIdx (a : VList) (i : Int) : Option Value × VList :=
  match a.arrayIndex i with
  | some n => if n < a.length then (a.getN n, a.removeN n) else (none, a)
  | none => (none, a)

end VList

namespace VMap

def get : VMap → List Nat → Option Value
  | .nil, _ => none
  | .cons k v m, q => if k = q then some v else m.get q

/-- `BTreeMap::insert` on the sorted association list. -/
def insert : VMap → List Nat → Value → VMap
  | .nil, q, x => .cons q x .nil
  | .cons k v m, q, x =>
    if Key.lt q k then .cons q x (.cons k v m)
    else if k = q then .cons k x m
    else .cons k v (m.insert q x)

def remove : VMap → List Nat → VMap
  | .nil, _ => .nil
  | .cons k v m, q => if k = q then m else .cons k v (m.remove q)

def isEmpty : VMap → Bool
  | .nil => true
  | _ => false

def length : VMap → Nat
  | .nil => 0
  | .cons _ _ m => m.length + 1

/-- all keys of `m` are strictly greater than `k`. -/
def allGt (k : List Nat) : VMap → Bool
  | .nil => true
  | .cons l _ m => Key.lt k l && allGt k m

end VMap

mutual
  /-- object invariant: keys strictly increasing, recursively. -/
  def Value.Sorted : Value → Bool
    | .arr xs => VList.Sorted xs
    | .obj m => VMap.Sorted m
    | _ => true
  def VList.Sorted : VList → Bool
    | .nil => true
    | .cons v vs => Value.Sorted v && VList.Sorted vs
  def VMap.Sorted : VMap → Bool
    | .nil => true
    | .cons k v m => Value.Sorted v && VMap.allGt k m && VMap.Sorted m
end

namespace Value

/-- `crud::get` as a function of the current (optional) value; `none` = location absent. -/
def getOpt : Option Value → Path → Option Value
  | c, [] => c
  | some (.obj m), .field f :: rest => getOpt (m.get f) rest
  | some (.arr a), .index i :: rest => getOpt (a.getIdx i) rest
  | _, _ :: _ => none

/-- `Value::get`. -/
def get (v : Value) (p : Path) : Option Value := getOpt (some v) p

/-- the object found at a location, or the fresh empty one `crud::insert` starts from. -/
def asMap : Option Value → VMap
  | some (.obj m) => m
  | _ => VMap.nil

/-- the array found at a location, or the fresh empty one `crud::insert` starts from. -/
def asList : Option Value → VList
  | some (.arr a) => a
  | _ => VList.nil

/-- The value stored at a location after `crud::insert` ran through it; `c` is what the location
    held before (`none` = absent: `get_mut_value` returned `None`, or a freshly made container). -/
def insertOpt : Option Value → Path → Value → Value
  | _, [], x => x
  | c, .field f :: rest, x =>
    let m := asMap c
    .obj (m.insert f (insertOpt (m.get f) rest x))
  | c, .index i :: rest, x =>
    let a := asList c
    .arr (a.insertIdx i (insertOpt (a.getIdx i) rest x))

/-- Value returned by `crud::insert` (the previous content of the location). -/
def insertPrev : Option Value → Path → Option Value
  | c, [] => c
  | c, .field f :: rest =>
    let m := asMap c
    insertPrev (m.get f) rest
  | c, .index i :: rest =>
    let a := asList c
    match rest with
    | [] => a.insertIdxPrev i
    | _ => insertPrev (a.getIdx i) rest

def pathPanics : Path → Bool
  | [] => false
  | .index i :: rest => i == isizeMin || pathPanics rest
  | .field _ :: rest => pathPanics rest

/-- `Value::insert` : new value and returned previous value; panics on `-isize::MIN`. -/
def insert (v : Value) (p : Path) (x : Value) : Outcome (Value × Option Value) :=
  if pathPanics p then .panic else .ok (insertOpt (some v) p x, insertPrev (some v) p)

/-- what `remove_value(&())` leaves in a root `Value`. -/
def emptied : Value → Value
  | .obj _ => .obj .nil
  | .arr _ => .arr .nil
  | _ => .null

/-- `crud::remove` seen from the parent collection: `c` is `get_mut_value(key)`.
    Result `none` = `None` (nothing changed). Otherwise `(prev, new, gone)`: the removed value,
    the new content of the location, and whether the parent must drop the location
    (`remove_value(key)`; for the root `Value` that leaves `new`, which is then already emptied). -/
def removeOpt : Option Value → Path → Bool → Option (Value × Value × Bool)
  | none, [], _ => none
  | some v, [], _ => some (v, emptied v, true)
  | some (.obj m), .field f :: rest, prune =>
    match removeOpt (m.get f) rest prune with
    | none => none
    | some (prev, new, gone) =>
      let m' := if gone then m.remove f else m.insert f new
      some (prev, .obj m', prune && m'.isEmpty)
  | some (.arr a), .index i :: rest, prune =>
    match removeOpt (a.getIdx i) rest prune with
    | none => none
    | some (prev, new, gone) =>
      let a' := match a.arrayIndex i with
        | some n => if gone then a.removeN n else a.setN n new
        | none => a
      some (prev, .arr a', prune && a'.isEmpty)
  | _, _ :: _, _ => none

/-- `Value::remove` : (returned value, value afterwards). -/
def remove (v : Value) (p : Path) (prune : Bool) : Option Value × Value :=
  match removeOpt (some v) p prune with
  | none => (none, v)
  | some (prev, new, _) => (some prev, new)

end Value
