/-
  VrlModel.C10 — Spec predicates of property C10 (used by the theorems in VrlProofs/Props/C10.lean and
  evaluated by the oracle `o.c10` on the implementation's observations).
-/
import VrlModel.Arith

namespace C10
open Arith

/-- the six operator results for one operand pair; `none` = the operator failed. -/
structure Obs where
  lt : Option Bool
  le : Option Bool
  eq : Option Bool
  ne : Option Bool
  gt : Option Bool
  ge : Option Bool
  deriving DecidableEq, Repr

/-- all six operators answer; exactly one of `<`, `==`, `>` is true; `!=` is the negation of `==`;
    `<=` is `< ∨ ==`; `>=` is `> ∨ ==`. -/
def consistent (o : Obs) : Bool :=
  match o.lt, o.le, o.eq, o.ne, o.gt, o.ge with
  | some lt, some le, some eq, some ne, some gt, some ge =>
    ((lt && !eq && !gt) || (!lt && eq && !gt) || (!lt && !eq && gt))
      && (ne == !eq) && (le == (lt || eq)) && (ge == (gt || eq))
  | _, _, _, _, _, _ => false

/-- `==` and `!=` answer and are each other's negation. -/
def eqNeConsistent (o : Obs) : Bool :=
  match o.eq, o.ne with
  | some eq, some ne => ne == !eq
  | _, _ => false

/-- the operand pairs for which the property demands an order: two integers, two floats, two byte
    strings, two timestamps; and mixed integer/float pairs (compared after conversion). -/
def comparable : Value → Value → Bool
  | .int _, .int _ => true
  | .float _, .float _ => true
  | .bytes _, .bytes _ => true
  | .ts _, .ts _ => true
  | .int _, .float _ => true
  | .float _, .int _ => true
  | _, _ => false

mutual
  /-- structural identity up to the one identification `f64` equality makes: `-0.0 = +0.0`. -/
  def norm : Value → Value
    | .float b => if F64.isZero b then .float 0 else .float b
    | .arr xs => .arr (normList xs)
    | .obj m => .obj (normMap m)
    | v => v
  def normList : VList → VList
    | .nil => .nil
    | .cons v vs => .cons (norm v) (normList vs)
  def normMap : VMap → VMap
    | .nil => .nil
    | .cons k v m => .cons k (norm v) (normMap m)
end

/-- structural equality (the Spec of `==` on structured values). -/
def structEq (a b : Value) : Bool := decide (norm a = norm b)

mutual
  /-- every float inside is a non-NaN 64-bit pattern (`NotNan<f64>`). -/
  def floatsOK : Value → Bool
    | .float b => decide (b < F64.p64) && !F64.isNaN b
    | .arr xs => floatsOKList xs
    | .obj m => floatsOKMap m
    | _ => true
  def floatsOKList : VList → Bool
    | .nil => true
    | .cons v vs => floatsOK v && floatsOKList vs
  def floatsOKMap : VMap → Bool
    | .nil => true
    | .cons _ v m => floatsOK v && floatsOKMap m
end

/-- Finding class: two different integers that `as f64` maps to the same float. -/
def D_eq_lossy (a b : Int) : Bool := decide (a ≠ b) && F64.eq (F64.ofInt a) (F64.ofInt b)

def isContainer : Value → Bool
  | .arr _ => true
  | .obj _ => true
  | _ => false

/-- The oracle: `none` = the property holds on this observation, otherwise `clause:class`. -/
def check (a b : Value) (o : Obs) : Option String :=
  match a, b with
  | .int x, .int y =>
    if D_eq_lossy x y && o.eq == some true then some "int_eq:D_eq_lossy"
    else if !consistent o then some "consistent:-"
    else if !(o.eq == some (decide (x = y))) then some "int_eq:-"
    else none
  | _, _ =>
    if comparable a b && !consistent o then some "consistent:-"
    else if !eqNeConsistent o then some "ne_negates_eq:-"
    else if isContainer a && isContainer b && floatsOK a && floatsOK b
        && !(o.eq == some (structEq a b)) then some "structural:-"
    else none

def resBool : Res Value → Option Bool
  | .ok (.bool b) => some b
  | _ => none

/-- what the model answers for the six operators, with `eqf` as the equality behind `==`/`!=`. -/
def observeWith (eqf : Value → Value → Bool) (a b : Value) : Obs :=
  { lt := resBool (evalOpWith eqf .lt a b), le := resBool (evalOpWith eqf .le a b),
    eq := resBool (evalOpWith eqf .eq a b), ne := resBool (evalOpWith eqf .ne a b),
    gt := resBool (evalOpWith eqf .gt a b), ge := resBool (evalOpWith eqf .ge a b) }

/-- the pinned tree -/
def observe : Value → Value → Obs := observeWith eqLossy
/-- after the candidate fix -/
def observeFixed : Value → Value → Obs := observeWith eqFixed

end C10
