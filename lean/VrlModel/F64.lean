/-
  VrlModel.F64 — soft-float model of IEEE-754 binary64 (Rust `f64`) as used by vrl's arithmetic.

  A float is carried as its 64-bit pattern (`Nat`, as in `Value.float`).  Every operation is
  computed *exactly* on dyadic numbers `(-1)^s · m · 2^e` (`m : Nat`, `e : Int`) and rounded once,
  to nearest, ties to even (`roundMag`).  NaN is never a first-class result: an operation whose
  IEEE result is NaN (or that receives a NaN pattern) returns `none`.

    bits = sign·2^63 + expField·2^52 + frac
    expField = 0        : value = frac · 2^-1074                (zero / subnormal)
    expField = 1..2046  : value = (2^52 + frac) · 2^(expField-1075)
    expField = 2047     : frac = 0 → ±∞, otherwise NaN

  Validated against the hardware by the `f64.*` correspondence ops (harness/src/c11.rs).
-/

namespace F64

def p52 : Nat := 4503599627370496
def p53 : Nat := 9007199254740992
def p63 : Nat := 9223372036854775808
def p64 : Nat := 18446744073709551616
/-- magnitude bits of ±∞ : 2047 · 2^52 -/
def infBits : Nat := 9218868437227405312

def signBit (b : Nat) : Bool := b / p63 % 2 == 1
def expField (b : Nat) : Nat := b / p52 % 2048
def frac (b : Nat) : Nat := b % p52
/-- the pattern without its sign bit -/
def mag (b : Nat) : Nat := b % p63

def isNaN (b : Nat) : Bool := decide (infBits < mag b)
def isInf (b : Nat) : Bool := mag b == infBits
def isZero (b : Nat) : Bool := mag b == 0
def isFinite (b : Nat) : Bool := decide (mag b < infBits)

/-- integer significand of a finite pattern -/
def mant (b : Nat) : Nat := if expField b = 0 then frac b else p52 + frac b
/-- exponent of the unit in the last place of a finite pattern -/
def expo (b : Nat) : Int := if expField b = 0 then -1074 else (expField b : Int) - 1075

def withSign (neg : Bool) (m : Nat) : Nat := if neg then p63 + m else m

def neg (b : Nat) : Nat := withSign (!signBit b) (mag b)

/-- exponent of the last place of the rounded result: 53 significant bits, but not below 2^-1074. -/
def lastPlace (m : Nat) (e : Int) : Int := max (e + ((Nat.log2 m + 1 : Nat) : Int) - 53) (-1074)

/-- `m · 2^(-sh)` rounded to an integer, nearest, ties to even (exact when `sh ≤ 0`). -/
def roundQ (m : Nat) (sh : Int) : Nat :=
  if sh ≤ 0 then m * 2 ^ (-sh).toNat
  else
    let s := sh.toNat
    let q := m / 2 ^ s
    let r := m % 2 ^ s
    let h := 2 ^ (s - 1)
    if h < r || (r == h && q % 2 == 1) then q + 1 else q

/-- overflow to infinity -/
def clampInf (bits : Nat) : Nat := if infBits ≤ bits then infBits else bits

/-- Round the exact positive dyadic `m · 2^e` to the nearest binary64 magnitude, ties to even;
    overflow gives `infBits`.  The result is the magnitude bit pattern: with
    `e' = max (e + bitlen m − 53) (−1074)` the exponent of the result's last place and `q` the
    rounded significand, the pattern is `(e' + 1074)·2^52 + q` (a carry out of the significand
    lands in the exponent field, which is exactly the IEEE encoding). -/
def roundMag (m : Nat) (e : Int) : Nat :=
  if m = 0 then 0
  else clampInf ((lastPlace m e + 1074).toNat * p52 + roundQ m (lastPlace m e - e))

/-- round a signed exact dyadic; an exact zero takes the sign `zneg`. -/
def roundSigned (v : Int) (e : Int) (zneg : Bool) : Nat :=
  if v = 0 then withSign zneg 0
  else withSign (decide (v < 0)) (roundMag v.natAbs e)

def signedMant (b : Nat) : Int := if signBit b then -(mant b : Int) else (mant b : Int)

/-- `a + b` -/
def add (a b : Nat) : Option Nat :=
  if isNaN a || isNaN b then none
  else if isInf a then
    if isInf b && (signBit a != signBit b) then none else some (withSign (signBit a) infBits)
  else if isInf b then some (withSign (signBit b) infBits)
  else
    let e := min (expo a) (expo b)
    let x := signedMant a * (2 ^ (expo a - e).toNat : Nat)
    let y := signedMant b * (2 ^ (expo b - e).toNat : Nat)
    -- an exact zero sum is +0 unless both operands are negative (−0 + −0)
    some (roundSigned (x + y) e (signBit a && signBit b))

/-- `a − b` = `a + (−b)` (exactly so in IEEE arithmetic, zeros included). -/
def sub (a b : Nat) : Option Nat :=
  if isNaN b then none else add a (neg b)

/-- `a · b` -/
def mul (a b : Nat) : Option Nat :=
  if isNaN a || isNaN b then none
  else
    let s := signBit a != signBit b
    if isInf a || isInf b then
      if isZero a || isZero b then none else some (withSign s infBits)
    else some (withSign s (roundMag (mant a * mant b) (expo a + expo b)))

/-- `a / b`.  The quotient of the significands is computed with 120 extra bits and a sticky bit,
    which rounds like the exact quotient (more than two bits are always cut). -/
def div (a b : Nat) : Option Nat :=
  if isNaN a || isNaN b then none
  else
    let s := signBit a != signBit b
    if isInf a then (if isInf b then none else some (withSign s infBits))
    else if isInf b then some (withSign s 0)
    else if isZero b then (if isZero a then none else some (withSign s infBits))
    else
      let n := mant a * 2 ^ 120
      let q := n / mant b
      let sticky := if n % mant b = 0 then 0 else 1
      some (withSign s (roundMag (2 * q + sticky) (expo a - expo b - 121)))

/-- `a % b` : C `fmod` — exact, the result has the sign of the dividend. -/
def rem (a b : Nat) : Option Nat :=
  if isNaN a || isNaN b then none
  else if isInf a || isZero b then none
  else if isInf b then some a
  else
    let e := min (expo a) (expo b)
    let x := mant a * 2 ^ (expo a - e).toNat
    let y := mant b * 2 ^ (expo b - e).toNat
    some (withSign (signBit a) (roundMag (x % y) e))

/-- Order key: an integer that is monotone in the represented number for every non-NaN pattern
    (sign-magnitude patterns order like their magnitudes); `−0` and `+0` share the key `0`. -/
def key (b : Nat) : Int := if signBit b then -(mag b : Int) else (mag b : Int)

def lt (a b : Nat) : Bool := !isNaN a && !isNaN b && decide (key a < key b)
def le (a b : Nat) : Bool := !isNaN a && !isNaN b && decide (key a ≤ key b)
def eq (a b : Nat) : Bool := !isNaN a && !isNaN b && decide (key a = key b)
def gt (a b : Nat) : Bool := lt b a
def ge (a b : Nat) : Bool := le b a

/-- `i as f64` for an `i64` (round to nearest even); total on `Int`. -/
def ofInt (i : Int) : Nat := withSign (decide (i < 0)) (roundMag i.natAbs 0)

/-- Rust `f64::is_normal`. -/
def isNormal (b : Nat) : Bool := decide (0 < expField b) && decide (expField b < 2047)

end F64
