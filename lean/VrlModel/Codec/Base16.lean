/-
  VrlModel.Codec.Base16 — `encode_base16` / `decode_base16`
  (src/stdlib/{encode,decode}_base16.rs + crate base16 0.2: `encode_lower`, `decode`).
-/
import VrlModel.Codec.Utf8

namespace Codec

/-- lower-case hex digit of a nibble (`HEX_LOWER`). -/
def hexLower (n : Nat) : Nat := if n < 10 then 48 + n else 87 + n

/-- upper-case hex digit of a nibble (percent-encoding's table). -/
def hexUpper (n : Nat) : Nat := if n < 10 then 48 + n else 55 + n

/-- `base16::decode_byte` / `char::to_digit(16)`: value of a hex digit of either case. -/
def hexVal (c : Nat) : Option Nat :=
  if 48 ≤ c ∧ c ≤ 57 then some (c - 48)
  else if 97 ≤ c ∧ c ≤ 102 then some (c - 87)
  else if 65 ≤ c ∧ c ≤ 70 then some (c - 55)
  else none

def isHex (c : Nat) : Bool := (hexVal c).isSome

namespace Base16

/-- `base16::encode_lower`. -/
def enc : List Nat → List Nat
  | [] => []
  | b :: rest => hexLower (b / 16) :: hexLower (b % 16) :: enc rest

/-- `base16::decode`: odd length or a non-hex byte is an error. -/
def dec : List Nat → Option (List Nat)
  | [] => some []
  | [_] => none
  | h :: l :: rest =>
    match hexVal h, hexVal l, dec rest with
    | some x, some y, some r => some ((x * 16 + y) :: r)
    | _, _, _ => none

/-- `encode_base16(value)` (infallible). -/
def encode (v : List Nat) : List Nat := enc v

/-- `decode_base16(value)`: `base16::decode(&value.try_bytes_utf8_lossy()?.to_string())`. -/
def decode (v : List Nat) : Option (List Nat) := dec (Utf8.lossy v)

end Base16
end Codec
