/-
  VrlModel.Codec.Base64 — `encode_base64` / `decode_base64`
  (src/stdlib/{encode,decode}_base64.rs + crate base64-simd 0.8: `STANDARD`, `STANDARD_NO_PAD`,
  `URL_SAFE`, `URL_SAFE_NO_PAD`; RFC 4648 §4/§5).

  Encoder: option `padding` selects the padded or unpadded engine, `charset` the alphabet.
  Decoder: vrl strips *all* trailing `=` bytes and always uses the `*_NO_PAD` engine of the
  selected alphabet; that engine rejects a length ≡ 1 (mod 4), any byte outside the alphabet
  (so an inner `=` too) and non-zero trailing bits (`decode_extra` with `forgiving = false`).
-/
namespace Codec.Base64

inductive Charset where
  | standard | urlSafe
  deriving DecidableEq, Repr

/-- `Base64Charset::from_slice`. -/
def Charset.ofName (bs : List Nat) : Option Charset :=
  if bs = [115, 116, 97, 110, 100, 97, 114, 100] then some .standard        -- "standard"
  else if bs = [117, 114, 108, 95, 115, 97, 102, 101] then some .urlSafe    -- "url_safe"
  else none

/-- symbols 62 and 63 of the alphabet. -/
def Charset.c62 : Charset → Nat
  | .standard => 43   -- '+'
  | .urlSafe => 45    -- '-'
def Charset.c63 : Charset → Nat
  | .standard => 47   -- '/'
  | .urlSafe => 95    -- '_'

/-- `STANDARD_CHARSET` / `URL_SAFE_CHARSET`: 6-bit value → ASCII. -/
def sym (cs : Charset) (i : Nat) : Nat :=
  if i < 26 then 65 + i
  else if i < 52 then 71 + i          -- 'a' + (i - 26)
  else if i < 62 then i - 4           -- '0' + (i - 52)
  else if i = 62 then cs.c62 else cs.c63

/-- `decode_table`: ASCII → 6-bit value, `none` for 0xff. -/
def val (cs : Charset) (c : Nat) : Option Nat :=
  if 65 ≤ c ∧ c ≤ 90 then some (c - 65)
  else if 97 ≤ c ∧ c ≤ 122 then some (c - 71)
  else if 48 ≤ c ∧ c ≤ 57 then some (c + 4)
  else if c = cs.c62 then some 62
  else if c = cs.c63 then some 63
  else none

def padByte : Nat := 61   -- '='

/-- The encoder engine (`Base64::encode_to_string`), `pad` = `Extra::Pad`. -/
def enc (cs : Charset) (pad : Bool) : List Nat → List Nat
  | [] => []
  | [a] =>
    sym cs (a / 4) :: sym cs (a % 4 * 16) :: (if pad then [padByte, padByte] else [])
  | [a, b] =>
    sym cs (a / 4) :: sym cs (a % 4 * 16 + b / 16) :: sym cs (b % 16 * 4) ::
      (if pad then [padByte] else [])
  | a :: b :: c :: rest =>
    sym cs (a / 4) :: sym cs (a % 4 * 16 + b / 16) :: sym cs (b % 16 * 4 + c / 64) ::
      sym cs (c % 64) :: enc cs pad rest

/-- The `*_NO_PAD` decoder engine (`decode_to_vec` with `Extra::NoPad`). -/
def dec (cs : Charset) : List Nat → Option (List Nat)
  | [] => some []
  | [_] => none
  | [x1, x2] =>
    match val cs x1, val cs x2 with
    | some y1, some y2 => if y2 % 16 = 0 then some [y1 * 4 + y2 / 16] else none
    | _, _ => none
  | [x1, x2, x3] =>
    match val cs x1, val cs x2, val cs x3 with
    | some y1, some y2, some y3 =>
      if y3 % 4 = 0 then some [y1 * 4 + y2 / 16, y2 % 16 * 16 + y3 / 4] else none
    | _, _, _ => none
  | x1 :: x2 :: x3 :: x4 :: rest =>
    match val cs x1, val cs x2, val cs x3, val cs x4, dec cs rest with
    | some y1, some y2, some y3, some y4, some r =>
      some ((y1 * 4 + y2 / 16) :: (y2 % 16 * 16 + y3 / 4) :: (y3 % 4 * 64 + y4) :: r)
    | _, _, _, _, _ => none

/-- `value[0..pos]` with `pos` = one past the last byte that is not `=`; when *every* byte is `=`
    (`position` finds nothing) the code keeps the whole value (`map_or(value.len(), ..)`). -/
def stripPad (v : List Nat) : List Nat :=
  if v.all (· == padByte) then v else (v.reverse.dropWhile (· == padByte)).reverse

/-- `encode_base64(value, padding, charset)`; `none` = "unknown charset" error. -/
def encode (v : List Nat) (padding : Bool) (charset : List Nat) : Option (List Nat) :=
  (Charset.ofName charset).map fun cs => enc cs padding v

/-- outcome of `decode_base64`. -/
inductive DecodeResult where
  | ok (bytes : List Nat)
  | badCharset
  | badInput
  deriving DecidableEq, Repr

/-- `decode_base64(value, charset)`. -/
def decode (v : List Nat) (charset : List Nat) : DecodeResult :=
  match Charset.ofName charset with
  | none => .badCharset
  | some cs =>
    match dec cs (stripPad v) with
    | some r => .ok r
    | none => .badInput

end Codec.Base64
