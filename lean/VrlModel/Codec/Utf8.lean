/-
  VrlModel.Codec.Utf8 — `String::from_utf8_lossy` on byte lists (bytes are `Nat`s < 256).

  Rust anchor: `core::str::lossy::Utf8Chunks::next` (used by `Value::try_bytes_utf8_lossy`,
  `PercentDecode::decode_utf8_lossy`): well-formed sequences are copied, every maximal invalid
  prefix of an ill-formed sequence (the lead byte plus the continuation bytes that were still
  acceptable) is replaced by one U+FFFD (`EF BF BD`), and the offending byte is re-examined.
  The model is the same automaton, one byte at a time (structural recursion on the input).
-/
namespace Codec.Utf8

/-- UTF-8 encoding of U+FFFD REPLACEMENT CHARACTER. -/
def fffd : List Nat := [0xEF, 0xBF, 0xBD]

/-- For a lead byte: admissible range of the *next* byte and how many continuation bytes follow
    that one (`utf8_char_width` and the second-byte table of `Utf8Chunks::next`). -/
def lead (b : Nat) : Option (Nat × Nat × Nat) :=
  if 0xC2 ≤ b ∧ b ≤ 0xDF then some (0x80, 0xBF, 0)
  else if b = 0xE0 then some (0xA0, 0xBF, 1)
  else if 0xE1 ≤ b ∧ b ≤ 0xEC then some (0x80, 0xBF, 1)
  else if b = 0xED then some (0x80, 0x9F, 1)
  else if 0xEE ≤ b ∧ b ≤ 0xEF then some (0x80, 0xBF, 1)
  else if b = 0xF0 then some (0x90, 0xBF, 2)
  else if 0xF1 ≤ b ∧ b ≤ 0xF3 then some (0x80, 0xBF, 2)
  else if b = 0xF4 then some (0x80, 0x8F, 2)
  else none

/-- Pending multi-byte sequence: bytes accepted so far, admissible range of the next byte, number
    of continuation bytes still needed after the next one. -/
structure Pend where
  buf : List Nat
  lo : Nat
  hi : Nat
  rem : Nat

/-- The lossy automaton. -/
def go : Option Pend → List Nat → List Nat
  | none, [] => []
  | some _, [] => fffd
  | none, b :: rest =>
    if b < 128 then b :: go none rest
    else match lead b with
      | some (lo, hi, rem) => go (some ⟨[b], lo, hi, rem⟩) rest
      | none => fffd ++ go none rest
  | some p, b :: rest =>
    if p.lo ≤ b ∧ b ≤ p.hi then
      match p.rem with
      | 0 => p.buf ++ b :: go none rest
      | r + 1 => go (some ⟨p.buf ++ [b], 0x80, 0xBF, r⟩) rest
    else
      fffd ++
        (if b < 128 then b :: go none rest
         else match lead b with
           | some (lo, hi, rem) => go (some ⟨[b], lo, hi, rem⟩) rest
           | none => fffd ++ go none rest)

/-- `String::from_utf8_lossy(bytes).into_bytes()`. -/
def lossy (bs : List Nat) : List Nat := go none bs

/-- Well-formed UTF-8 (Unicode Table 3-7), as an inductive predicate independent of `lossy`. -/
inductive Valid : List Nat → Prop where
  | nil : Valid []
  | ascii (b : Nat) (t : List Nat) : b < 128 → Valid t → Valid (b :: t)
  | two (b c : Nat) (t : List Nat) :
      0xC2 ≤ b → b ≤ 0xDF → 0x80 ≤ c → c ≤ 0xBF → Valid t → Valid (b :: c :: t)
  | three (b c d : Nat) (t : List Nat) (lo hi : Nat) :
      lead b = some (lo, hi, 1) → lo ≤ c → c ≤ hi → 0x80 ≤ d → d ≤ 0xBF → Valid t →
      Valid (b :: c :: d :: t)
  | four (b c d e : Nat) (t : List Nat) (lo hi : Nat) :
      lead b = some (lo, hi, 2) → lo ≤ c → c ≤ hi → 0x80 ≤ d → d ≤ 0xBF → 0x80 ≤ e → e ≤ 0xBF →
      Valid t → Valid (b :: c :: d :: e :: t)

/-- Decidable form used by the oracle: `lossy` leaves the bytes unchanged. -/
def isValid (bs : List Nat) : Bool := lossy bs == bs

end Codec.Utf8
