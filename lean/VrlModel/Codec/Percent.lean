/-
  VrlModel.Codec.Percent — `encode_percent` / `decode_percent`
  (src/stdlib/{encode,decode}_percent.rs + crate percent-encoding 2.3:
   `utf8_percent_encode`, `AsciiSet::should_percent_encode`, `percent_decode`,
   `PercentDecode::decode_utf8_lossy`).
-/
import VrlModel.Codec.Utf8
import VrlModel.Codec.Base16

namespace Codec.Percent

/-- The nine `ascii_set` names `encode_percent` accepts (a compile-time enum in vrl). -/
inductive AsciiSet where
  | nonAlphanumeric | controls | fragment | query | special | path | userinfo | component
  | wwwFormUrlencoded
  deriving DecidableEq, Repr

def AsciiSet.all : List AsciiSet :=
  [.nonAlphanumeric, .controls, .fragment, .query, .special, .path, .userinfo, .component,
   .wwwFormUrlencoded]

def AsciiSet.name : AsciiSet → String
  | .nonAlphanumeric => "NON_ALPHANUMERIC"
  | .controls => "CONTROLS"
  | .fragment => "FRAGMENT"
  | .query => "QUERY"
  | .special => "SPECIAL"
  | .path => "PATH"
  | .userinfo => "USERINFO"
  | .component => "COMPONENT"
  | .wwwFormUrlencoded => "WWW_FORM_URLENCODED"

def AsciiSet.ofName (s : String) : Option AsciiSet := AsciiSet.all.find? (·.name == s)

/-- `percent_encoding::CONTROLS`: C0 controls and DEL. -/
def isControl (b : Nat) : Bool := b < 32 || b == 127

def isAlnum (b : Nat) : Bool :=
  (48 ≤ b && b ≤ 57) || (65 ≤ b && b ≤ 90) || (97 ≤ b && b ≤ 122)

-- the `.add(..)` chains of encode_percent.rs, as the added bytes
def fragmentAdd : List Nat := [32, 34, 60, 62, 96]                -- space " < > `
def queryAdd : List Nat := [32, 34, 35, 60, 62]                   -- space " # < >
def specialAdd : List Nat := queryAdd ++ [39]                     -- '
def pathAdd : List Nat := queryAdd ++ [63, 96, 123, 125]          -- ? ` { }
def userinfoAdd : List Nat := pathAdd ++ [47, 58, 59, 61, 64, 91, 92, 93, 94, 124]  -- / : ; = @ [ \ ] ^ |
def componentAdd : List Nat := userinfoAdd ++ [36, 37, 38, 43, 44]                  -- $ % & + ,
def wwwFormAdd : List Nat := componentAdd ++ [33, 39, 40, 41, 126]                  -- ! ' ( ) ~

/-- `AsciiSet::contains` for ASCII bytes (the bit mask, as a predicate). -/
def AsciiSet.contains : AsciiSet → Nat → Bool
  | .nonAlphanumeric, b => b < 128 && !isAlnum b
  | .controls, b => isControl b
  | .fragment, b => isControl b || fragmentAdd.contains b
  | .query, b => isControl b || queryAdd.contains b
  | .special, b => isControl b || specialAdd.contains b
  | .path, b => isControl b || pathAdd.contains b
  | .userinfo, b => isControl b || userinfoAdd.contains b
  | .component, b => isControl b || componentAdd.contains b
  | .wwwFormUrlencoded, b => isControl b || wwwFormAdd.contains b

/-- `AsciiSet::should_percent_encode`: every non-ASCII byte, and the ASCII bytes of the set. -/
def AsciiSet.escapes (set : AsciiSet) (b : Nat) : Bool := decide (128 ≤ b) || set.contains b

def pct : Nat := 37  -- '%'

/-- `percent_encode(bytes, set)`: `%XX` (upper-case hex) for escaped bytes. -/
def encRaw (set : AsciiSet) : List Nat → List Nat
  | [] => []
  | b :: rest =>
    if set.escapes b then pct :: hexUpper (b / 16) :: hexUpper (b % 16) :: encRaw set rest
    else b :: encRaw set rest

/-- `percent_decode(bytes)` collected: `%` followed by two hex digits (either case) is one byte,
    any other `%` is literal (`after_percent_sign`). -/
def decRaw : List Nat → List Nat
  | [] => []
  | b :: h :: l :: rest =>
    if b = pct then
      match hexVal h, hexVal l with
      | some x, some y => (x * 16 + y) :: decRaw rest
      | _, _ => b :: decRaw (h :: l :: rest)
    else b :: decRaw (h :: l :: rest)
  | b :: rest => b :: decRaw rest   -- fewer than two bytes follow: `%` is literal

/-- `encode_percent(value, ascii_set)`:
    `utf8_percent_encode(&value.try_bytes_utf8_lossy()?, set)`. -/
def encode (set : AsciiSet) (v : List Nat) : List Nat := encRaw set (Utf8.lossy v)

/-- `decode_percent(value)`: `percent_decode(&value).decode_utf8_lossy()`. -/
def decode (v : List Nat) : List Nat := Utf8.lossy (decRaw v)

/-- The text contains a `%` followed by two hex digits (would be read as an escape). -/
def hasPctHex : List Nat → Bool
  | [] => false
  | b :: rest =>
    (b == pct &&
      match rest with
      | h :: l :: _ => isHex h && isHex l
      | _ => false) || hasPctHex rest

/-- Exact domain on which the round trip holds for UTF-8 text (theorem `C22.percent_roundtrip_iff`). -/
def roundTripOK (set : AsciiSet) (s : List Nat) : Bool := set.escapes pct || !hasPctHex s

end Codec.Percent
