/-
  VrlModel.Codec.Param — the vrl-owned glue (option dispatch, casts, error mapping) of the codecs
  whose algorithm lives in a third-party crate: gzip, zlib (flate2), zstd, snappy (snap),
  lz4 (lz4_flex), charset (encoding_rs), punycode (idna).

  The third-party primitive is a *structure parameter*; the law assumed of it is a field of the
  structure (a hypothesis of every theorem that takes the structure, never an axiom). The
  correspondence run samples each law on the real crate (oracle op `o.c22`).
-/
import VrlModel.Codec.Utf8

namespace Codec

abbrev Bytes := List Nat

/-- Result of a stdlib call: value, `Err(..)`, or a Rust panic (`expect`, `unwrap`, allocation). -/
inductive Res (α : Type) where
  | ok (a : α)
  | err
  | panic
  deriving DecidableEq, Repr

/-- `i64 as u32` (truncating cast). -/
def asU32 (n : Int) : Nat := (n % 4294967296).toNat

/-- `i64 as i32` (truncating, two's complement). -/
def asI32 (n : Int) : Int := (n + 2147483648) % 4294967296 - 2147483648

/-! ### gzip — src/stdlib/{encode,decode}_gzip.rs -/
namespace Gzip

/-- flate2 `GzEncoder::new(bytes, Compression::new(level)).read_to_end` /
    `MultiGzDecoder::read_to_end`. `compress` may panic (vrl `expect`s the result; flate2
    asserts on the level). Assumed law: levels 0..9 round-trip. -/
structure Prim where
  compress : Nat → Bytes → Res Bytes
  decompress : Bytes → Option Bytes
  rt : ∀ (lvl : Nat) (b : Bytes), lvl ≤ 9 → ∃ c, compress lvl b = .ok c ∧ decompress c = some b

def maxLevel : Nat := 10

/-- the level handed to flate2, `none` = "compression level must be <= 10". -/
def level? (level : Int) : Option Nat :=
  let l := asU32 level
  if l > maxLevel then none else some l

/-- `encode_gzip(value, compression_level)`. -/
def encode (P : Prim) (v : Bytes) (level : Int) : Res Bytes :=
  match level? level with
  | none => .err
  | some l => P.compress (min l 9) v      -- level 10 is clamped to flate2's maximum 9

/-- `decode_gzip(value)`. -/
def decode (P : Prim) (v : Bytes) : Res Bytes :=
  match P.decompress v with
  | some b => .ok b
  | none => .err

end Gzip

/-! ### zlib — src/stdlib/{encode,decode}_zlib.rs (same glue, `ZlibEncoder`/`ZlibDecoder`) -/
namespace Zlib

structure Prim where
  compress : Nat → Bytes → Res Bytes
  decompress : Bytes → Option Bytes
  rt : ∀ (lvl : Nat) (b : Bytes), lvl ≤ 9 → ∃ c, compress lvl b = .ok c ∧ decompress c = some b

def maxLevel : Nat := 10

def level? (level : Int) : Option Nat :=
  let l := asU32 level
  if l > maxLevel then none else some l

/-- `encode_zlib(value, compression_level)`. -/
def encode (P : Prim) (v : Bytes) (level : Int) : Res Bytes :=
  match level? level with
  | none => .err
  | some l => P.compress (min l 9) v      -- level 10 is clamped to flate2's maximum 9

def decode (P : Prim) (v : Bytes) : Res Bytes :=
  match P.decompress v with
  | some b => .ok b
  | none => .err

end Zlib

/-! ### zstd — src/stdlib/{encode,decode}_zstd.rs -/
namespace Zstd

/-- `zstd::encode_all(bytes, level : i32)` (vrl `expect`s it) / `zstd::decode_all`.
    Assumed law: every `i32` level round-trips (libzstd clamps the level). -/
structure Prim where
  encodeAll : Int → Bytes → Res Bytes
  decodeAll : Bytes → Option Bytes
  rt : ∀ (lvl : Int) (b : Bytes), -2147483648 ≤ lvl → lvl ≤ 2147483647 →
    ∃ c, encodeAll lvl b = .ok c ∧ decodeAll c = some b

def encode (P : Prim) (v : Bytes) (level : Int) : Res Bytes := P.encodeAll (asI32 level) v

def decode (P : Prim) (v : Bytes) : Res Bytes :=
  match P.decodeAll v with
  | some b => .ok b
  | none => .err

end Zstd

/-! ### snappy — src/stdlib/{encode,decode}_snappy.rs (raw format, no options) -/
namespace Snappy

/-- `snap::raw::Encoder::compress_vec` / `Decoder::decompress_vec`.
    Assumed law: inputs shorter than 2^32 bytes round-trip (`compress_vec` rejects larger). -/
structure Prim where
  compress : Bytes → Option Bytes
  decompress : Bytes → Option Bytes
  rt : ∀ b : Bytes, b.length < 4294967296 → ∃ c, compress b = some c ∧ decompress c = some b

def encode (P : Prim) (v : Bytes) : Res Bytes :=
  match P.compress v with
  | some c => .ok c
  | none => .err

def decode (P : Prim) (v : Bytes) : Res Bytes :=
  match P.decompress v with
  | some b => .ok b
  | none => .err

end Snappy

/-! ### lz4 — src/stdlib/{encode,decode}_lz4.rs -/
namespace Lz4

/-- `LZ4_FRAME_MAGIC`. -/
def magic : Bytes := [0x04, 0x22, 0x4D, 0x18]

/-- the magic read as the little-endian `u32` that `compress_prepend_size` writes. -/
def magicAsSize : Nat := 0x184D2204

def usizeMax : Nat := 18446744073709551615
def u32Max : Nat := 4294967295

/-- little-endian `u32`. -/
def le32 (n : Nat) : Bytes := [n % 256, n / 256 % 256, n / 65536 % 256, n / 16777216 % 256]

/-- lz4_flex `block::{compress, compress_prepend_size, decompress, decompress_size_prepended}`
    and `frame::FrameDecoder` (`io::copy` into a `Vec::with_capacity(n)`).
    Assumed laws: the block decoders invert the block encoders (given a large enough
    `min_uncompressed_size`); `compress_prepend_size` is the little-endian `u32` length followed by
    the block (its documented format); a block never starts with the frame magic (a block starts
    with a token whose literal length is non-zero unless the input is empty). -/
structure Prim where
  compress : Bytes → Bytes
  compressPrepend : Bytes → Bytes
  decompress : Bytes → Nat → Res Bytes
  decompressPrepended : Bytes → Res Bytes
  frameDecode : Bytes → Nat → Res Bytes
  rtBlock : ∀ (b : Bytes) (n : Nat), b.length ≤ n → n ≤ u32Max → decompress (compress b) n = .ok b
  rtPrepend : ∀ b : Bytes, b.length ≤ u32Max → decompressPrepended (compressPrepend b) = .ok b
  prependShape : ∀ b : Bytes, b.length ≤ u32Max → compressPrepend b = le32 b.length ++ compress b
  blockNoMagic : ∀ b : Bytes, magic.isPrefixOf (compress b) = false

/-- `encode_lz4(value, prepend_size)` (cannot fail). -/
def encode (P : Prim) (v : Bytes) (prependSize : Bool) : Bytes :=
  if prependSize then P.compressPrepend v else P.compress v

/-- `buffer_size` of `DecodeLz4Fn::resolve`: `u32::try_from(buf_size)` else `usize::MAX`. -/
def bufferSize (bufSize : Int) : Nat :=
  if 0 ≤ bufSize ∧ bufSize ≤ 4294967295 then bufSize.toNat else usizeMax

/-- `decode_lz4(value, buf_size, prepended_size)`: frame format is detected by its magic number,
    otherwise the block decoder selected by `prepended_size`. -/
def decode (P : Prim) (v : Bytes) (bufSize : Int) (prependedSize : Bool) : Res Bytes :=
  let n := bufferSize bufSize
  if magic.isPrefixOf v then P.frameDecode v n
  else if prependedSize then P.decompressPrepended v
  else P.decompress v n

end Lz4

/-! ### charset — src/stdlib/{encode,decode}_charset.rs -/
namespace Charset

/-- encoding_rs: `Encoding::for_label`, `Encoding::encode(str).0`, `Encoding::decode(bytes).0`
    (vrl ignores the "had unmappable characters / malformed sequences" flags).
    `representable e t` is the primitive's notion of "text `t` is representable in `e`";
    assumed law: such text round-trips. The same `forLabel` serves both directions. -/
structure Prim where
  Enc : Type
  forLabel : Bytes → Option Enc
  encode : Enc → Bytes → Bytes
  decode : Enc → Bytes → Bytes
  representable : Enc → Bytes → Prop
  rt : ∀ (e : Enc) (t : Bytes), Utf8.lossy t = t → representable e t → decode e (encode e t) = t

/-- `encode_charset(value, to_charset)`: `from_utf8(value).unwrap()` panics on ill-formed UTF-8
    before the label is looked up. -/
def encodeCharset (P : Prim) (v label : Bytes) : Res Bytes :=
  if Utf8.lossy v ≠ v then .err          -- "value is not valid UTF-8" (was: `unwrap` panic)
  else match P.forLabel label with
    | none => .err
    | some e => .ok (P.encode e v)

/-- `decode_charset(value, from_charset)`. -/
def decodeCharset (P : Prim) (v label : Bytes) : Res Bytes :=
  match P.forLabel label with
  | none => .err
  | some e => .ok (P.decode e v)

end Charset

/-! ### punycode — src/stdlib/{encode,decode}_punycode.rs -/
namespace Punycode

def dot : Nat := 46
/-- `PUNYCODE_PREFIX` = "xn--". -/
def prefix_ : Bytes := [120, 110, 45, 45]

/-- `str::split('.')` on UTF-8 bytes (`.` is ASCII, so byte-wise splitting is exact). -/
def splitDot : Bytes → List Bytes
  | [] => [[]]
  | b :: rest =>
    if b = dot then [] :: splitDot rest
    else match splitDot rest with
      | [] => [[b]]
      | p :: ps => (b :: p) :: ps

/-- `.join(".")`. -/
def joinDot : List Bytes → Bytes
  | [] => []
  | [p] => p
  | p :: q :: ps => p ++ dot :: joinDot (q :: ps)

/-- `string.contains("xn--")`. -/
def hasPrefixAnywhere : Bytes → Bool
  | [] => false
  | b :: rest => prefix_.isPrefixOf (b :: rest) || hasPrefixAnywhere rest

def isAscii (bs : Bytes) : Bool := bs.all (· < 128)

/-- `c.is_ascii_lowercase() || c.is_ascii_digit() || c == '.'` for every char (a non-ASCII char
    has only bytes ≥ 128, which fail the test). -/
def allSimple (bs : Bytes) : Bool :=
  bs.all fun b => (97 ≤ b && b ≤ 122) || (48 ≤ b && b ≤ 57) || b == dot

/-- idna 1.x: `domain_to_ascii`, `domain_to_unicode`, `punycode::encode_str`,
    `punycode::decode_to_string`; std `str::to_lowercase`. -/
structure Prim where
  toAscii : Bytes → Option Bytes
  toUnicode : Bytes → Bytes × Bool
  punyEnc : Bytes → Option Bytes
  punyDec : Bytes → Option Bytes
  lower : Bytes → Bytes
  /-- the primitive's notion of a valid (canonical: already UTS-46 mapped, NFC) domain. -/
  validDomain : Bytes → Prop
  /-- assumed: ToUnicode inverts ToASCII on valid domains, whose ToASCII form is ASCII. -/
  rtIdna : ∀ d, validDomain d → ∃ a, toAscii d = some a ∧ isAscii a = true ∧ toUnicode a = (d, true)
  /-- assumed: a ToASCII result without any `xn--` is the (all-ASCII) input itself. -/
  asciiFixed : ∀ d a, validDomain d → toAscii d = some a → hasPrefixAnywhere a = false → a = d
  /-- assumed: raw punycode decoding inverts raw punycode encoding, whose output is ASCII
      without dots. -/
  rtPuny : ∀ l e, punyEnc l = some e → punyDec e = some l ∧ isAscii e = true ∧ dot ∉ e

/-- one label of the `validate: false` encoder. -/
def encLabel (P : Prim) (part : Bytes) : Bytes :=
  if prefix_.isPrefixOf part || isAscii part then P.lower part
  else prefix_ ++ (P.punyEnc (P.lower part)).getD (P.lower part)

/-- `encode_punycode(value, validate)`. -/
def encode (P : Prim) (v : Bytes) (validate : Bool) : Res Bytes :=
  let s := Utf8.lossy v
  if validate then
    match P.toAscii s with
    | some a => .ok a
    | none => .err
  else if allSimple s then .ok s
  else .ok (joinDot ((splitDot s).map (encLabel P)))

/-- one label of the `validate: false` decoder. -/
def decLabel (P : Prim) (part : Bytes) : Bytes :=
  if prefix_.isPrefixOf part then (P.punyDec (part.drop 4)).getD part else part

/-- `decode_punycode(value, validate)`. -/
def decode (P : Prim) (v : Bytes) (validate : Bool) : Res Bytes :=
  let s := Utf8.lossy v
  if !hasPrefixAnywhere s then .ok s
  else if validate then
    match P.toUnicode s with
    | (d, true) => .ok d
    | (_, false) => .err
  else .ok (joinDot ((splitDot s).map (decLabel P)))

end Punycode
end Codec
