/-
  VrlModel.Csv — model of `encode_csv` / `parse_csv` (property C24), over bytes (`List Nat`).

  vrl code     : `src/stdlib/encode_csv.rs` (`encode_csv`: empty array ⇒ "", single-byte delimiter,
                 `write_record`, drop the last byte = the `\n` terminator),
                 `src/stdlib/parse_csv.rs` (`parse_csv`: first record of the reader, no record ⇒ `[]`),
                 `src/stdlib/csv_utils.rs` (`parse_single_byte_delimiter`).
  csv crate    : the writer is modelled completely for the configuration vrl uses
                 (`csv_core::Writer`: `QuoteStyle::Necessary`, quote `"`, `double_quote`, terminator
                 `Any(b'\n')`; `field`/`delimiter`/`terminator` incl. the `record_bytes == 0 ⇒ ""`
                 rule).  The reader is modelled by csv-core's *NFA* (`Reader::transition_nfa`,
                 `transition_final_nfa`, `read_record_nfa`, `strip_utf8_bom`) for the configuration
                 `quote = "`, `escape = None`, `double_quote`, `quoting`, `comment = None`,
                 terminator `CRLF` (either of `\r`, `\n`), with the ε-transitions composed.  The crate
                 actually runs the table DFA that `build_dfa` compiles from this NFA and feeds it in
                 buffer-sized chunks; that the DFA/chunking implement the NFA is assumed (third-party
                 code) and sampled by the `csv.parse` correspondence op.
-/

namespace Csv

def QUOTE : Nat := 34
def CR : Nat := 13
def LF : Nat := 10

/-! ## Writer -/

/-- `Writer::requires_quotes[b]` as set up by `WriterBuilder::build` for delimiter `d`. -/
def special (d b : Nat) : Bool := b == d || b == QUOTE || b == CR || b == LF

/-- `needs_quotes` (`QuoteStyle::Necessary`). -/
def needsQuotes (d : Nat) (f : List Nat) : Bool := f.any (special d)

/-- `csv_core::quote` with `double_quote = true`. -/
def quoteBody : List Nat → List Nat
  | [] => []
  | b :: r => if b = QUOTE then QUOTE :: QUOTE :: quoteBody r else b :: quoteBody r

/-- bytes emitted for one field: `Writer::field` plus the closing quote written by the following
    `delimiter`/`terminator` call. -/
def writeField (d : Nat) (f : List Nat) : List Nat :=
  if needsQuotes d f then QUOTE :: (quoteBody f ++ [QUOTE]) else f

/-- fields joined by the delimiter (`write_field_impl` writes the delimiter before every field but
    the first). -/
def joinFields (d : Nat) : List (List Nat) → List Nat
  | [] => []
  | [f] => writeField d f
  | f :: g :: r => writeField d f ++ d :: joinFields d (g :: r)

/-- `write_record`: fields, then `terminator` (which first writes `""` if nothing was written for
    this record, i.e. the record is a single empty field), then `\n`. -/
def writeRecord (d : Nat) (fs : List (List Nat)) : List Nat :=
  let body := joinFields d fs
  (if body.isEmpty then [QUOTE, QUOTE] else body) ++ [LF]

/-- `encode_csv(value, delimiter)` for an array of byte strings and a single-byte delimiter. -/
def encodeCsv (d : Nat) (fs : List (List Nat)) : List Nat :=
  if fs.isEmpty then [] else (writeRecord d fs).dropLast

/-! ## Reader (csv-core NFA) -/

/-- `Terminator::CRLF.equals`. -/
def isTerm (b : Nat) : Bool := b == CR || b == LF

/-- the NFA states in which an input byte is consumed while a record is being read
    (`StartField`, `InField`, `InQuotedField`, `InDoubleEscapedQuote`); `StartRecord` is handled by
    `readRecord`, the remaining states are ε-states or end the first record. -/
inductive St where
  | startField
  | inField
  | inQuoted
  | inDoubleEsc
  deriving DecidableEq, Repr

/-- Reading the rest of the first record: current state, remaining input, bytes copied to the
    current field so far.  Returns the fields from the current one on.
    End of input = `transition_final_nfa` (every one of the four states ⇒ `EndRecord`, closing the
    current field).  A terminator byte outside quotes ends the record (`EndFieldTerm`,
    `InRecordTerm`, then `EndRecord`/`CRLF`: the record is returned, the rest is not read). -/
def readFields (d : Nat) : St → List Nat → List Nat → List (List Nat)
  | _, [], cur => [cur]
  | .startField, c :: r, cur =>
    if c = QUOTE then readFields d .inQuoted r cur
    else if c = d then cur :: readFields d .startField r []
    else if isTerm c then [cur]
    else readFields d .inField r (cur ++ [c])
  | .inField, c :: r, cur =>
    if c = d then cur :: readFields d .startField r []
    else if isTerm c then [cur]
    else readFields d .inField r (cur ++ [c])
  | .inQuoted, c :: r, cur =>
    if c = QUOTE then readFields d .inDoubleEsc r cur
    else readFields d .inQuoted r (cur ++ [c])
  | .inDoubleEsc, c :: r, cur =>
    if c = QUOTE then readFields d .inQuoted r (cur ++ [c])
    else if c = d then cur :: readFields d .startField r []
    else if isTerm c then [cur]
    else readFields d .inField r (cur ++ [c])

/-- `StartRecord`: terminator bytes (empty lines) are skipped; end of input there ⇒ `End`, no
    record. -/
def readRecord (d : Nat) (input : List Nat) : Option (List (List Nat)) :=
  match input.dropWhile isTerm with
  | [] => none
  | s => some (readFields d .startField s [])

/-- `strip_utf8_bom` (first call of `read_record`). -/
def stripBom : List Nat → List Nat
  | 0xEF :: 0xBB :: 0xBF :: r => r
  | s => s

/-- `parse_csv(value, delimiter)` for a single-byte delimiter: the fields of the first record, `[]`
    if there is none. -/
def parseCsv (d : Nat) (input : List Nat) : List (List Nat) :=
  (readRecord d (stripBom input)).getD []

/-! ## Finding classes of the round trip -/

def startsWithBom : List Nat → Bool
  | 0xEF :: 0xBB :: 0xBF :: _ => true
  | _ => false

/-- delimiters for which the format is self-consistent (the quote and the two line terminators
    are not). -/
def delimOK (d : Nat) : Bool := d != QUOTE && d != CR && d != LF

inductive Class where
  | bom          -- the output starts with a UTF-8 byte-order mark, which the reader strips
  | delimiter    -- delimiter is `"`, `\r` or `\n`
  deriving DecidableEq, Repr

def Class.name : Class → String
  | .bom => "D_bom"
  | .delimiter => "D_delimiter"

def listClass (d : Nat) (fs : List (List Nat)) : Option Class :=
  if !delimOK d then some .delimiter
  else if startsWithBom (encodeCsv d fs) then some .bom
  else none

end Csv
