/-
  VrlModel.Str.Case — `upcase` / `downcase` (src/stdlib/upcase.rs, downcase.rs):
  `value.try_bytes_utf8_lossy()?.to_uppercase()` / `.to_lowercase()`.

  The Unicode tables of Rust's `core::unicode` (`char::to_uppercase`, `char::to_lowercase`, and the
  `Cased` / `Case_Ignorable` properties used by the `Final_Sigma` rule of `str::to_lowercase`) are
  *parameters* (`CaseMap`); the laws the theorems need are explicit hypotheses (`CaseMap.Lawful…`
  in VrlProofs).  `CaseMap.ascii` is a fully modelled instance (identity outside ASCII);
  `CaseMap.ofTable` builds an instance from the finite table the correspondence run observes.

  What is vrl's (and `alloc::str`'s) own logic is modelled exactly:
  * `str::to_uppercase` maps every char through `char::to_uppercase` (1–3 chars), no context;
  * `str::to_lowercase` does the same with `char::to_lowercase`, except for `Σ` (U+03A3), which
    becomes `ς` (U+03C2) when it is preceded by a cased letter (skipping case-ignorable chars) and
    not followed by one, else `σ` (U+03C3).
-/
import VrlModel.Str.Utf8

namespace Str

/-- how a char counts for `case_ignorable_then_cased`: skipped, accepted, or rejected.
    (`Cased` only matters for chars that are not `Case_Ignorable`.) -/
inductive SigmaClass where
  | ignorable | cased | other
  deriving DecidableEq, Repr

structure CaseMap where
  /-- `char::to_uppercase` -/
  toUpper : Nat → List Nat
  /-- `char::to_lowercase` -/
  toLower : Nat → List Nat
  sigmaClass : Nat → SigmaClass

def capSigma : Nat := 0x3A3
def smallSigma : Nat := 0x3C3
def finalSigma : Nat := 0x3C2

/-- `str::to_uppercase` on the chars view. -/
def upcaseCp (cm : CaseMap) : List Nat → List Nat
  | [] => []
  | c :: cs => cm.toUpper c ++ upcaseCp cm cs

/-- `case_ignorable_then_cased(iter)`. -/
def ignThenCased (cm : CaseMap) : List Nat → Bool
  | [] => false
  | c :: cs =>
    match cm.sigmaClass c with
    | .ignorable => ignThenCased cm cs
    | .cased => true
    | .other => false

/-- `str::to_lowercase`; `before` holds the chars already consumed, nearest first
    (`from[..i].chars().rev()`). -/
def downcaseGo (cm : CaseMap) (before : List Nat) : List Nat → List Nat
  | [] => []
  | c :: rest =>
    (if c = capSigma then
      [if ignThenCased cm before && !ignThenCased cm rest then finalSigma else smallSigma]
     else cm.toLower c) ++ downcaseGo cm (c :: before) rest

def downcaseCp (cm : CaseMap) (cs : List Nat) : List Nat := downcaseGo cm [] cs

/-- `upcase(value)` on bytes. -/
def upcase (cm : CaseMap) (bs : List Nat) : List Nat := encode (upcaseCp cm (decodeLossy bs))

/-- `downcase(value)` on bytes. -/
def downcase (cm : CaseMap) (bs : List Nat) : List Nat := encode (downcaseCp cm (decodeLossy bs))

/-! ### the ASCII instance -/

def asciiUpper (c : Nat) : Nat := if 97 ≤ c ∧ c ≤ 122 then c - 32 else c
def asciiLower (c : Nat) : Nat := if 65 ≤ c ∧ c ≤ 90 then c + 32 else c

def asciiSigmaClass (c : Nat) : SigmaClass :=
  if (65 ≤ c ∧ c ≤ 90) ∨ (97 ≤ c ∧ c ≤ 122) then .cased
  -- ASCII `Case_Ignorable`: ' . : ^ `
  else if c = 39 ∨ c = 46 ∨ c = 58 ∨ c = 94 ∨ c = 96 then .ignorable
  else .other

/-- case mapping of ASCII letters, identity elsewhere. -/
def CaseMap.ascii : CaseMap where
  toUpper c := [asciiUpper c]
  toLower c := [asciiLower c]
  sigmaClass := asciiSigmaClass

/-! ### instance from an observed finite table -/

structure CaseEntry where
  cp : Nat
  upper : List Nat
  lower : List Nat
  cls : SigmaClass

def lookupEntry (t : List CaseEntry) (c : Nat) : Option CaseEntry := t.find? (fun e => e.cp == c)

/-- chars not in the table map to themselves (the table lists every char of the inputs). -/
def CaseMap.ofTable (t : List CaseEntry) : CaseMap where
  toUpper c := match lookupEntry t c with | some e => e.upper | none => [c]
  toLower c := match lookupEntry t c with | some e => e.lower | none => [c]
  sigmaClass c := match lookupEntry t c with | some e => e.cls | none => .other

/-- ASCII from the model (`CaseMap.ascii`), every other char from `t`: the instance the
    correspondence run builds from the std tables it observes for the non-ASCII chars of a case. -/
def CaseMap.withAscii (t : CaseMap) : CaseMap where
  toUpper c := if c < 128 then CaseMap.ascii.toUpper c else t.toUpper c
  toLower c := if c < 128 then CaseMap.ascii.toLower c else t.toLower c
  sigmaClass c := if c < 128 then CaseMap.ascii.sigmaClass c else t.sigmaClass c

end Str
