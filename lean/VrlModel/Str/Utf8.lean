/-
  VrlModel.Str.Utf8 — strings of the stdlib string functions.

  A VRL string is a `Value::Bytes` (`List Nat`, bytes 0..255).  Every stdlib string function first
  calls `Value::try_bytes_utf8_lossy` (`simdutf_bytes_utf8_lossy` = `String::from_utf8_lossy`,
  src/value/value.rs), works on the resulting `str` (a sequence of Unicode scalar values) and turns
  the result back into bytes.  The model therefore has two views:

    bytes  --decodeLossy-->  code points (`List Nat`, the `chars()` view)  --encode-->  bytes

  `decodeLossy` is `core::str::lossy::Utf8Chunks` written as a byte-at-a-time state machine (so it
  is structurally recursive and reduces in the kernel): every maximal invalid chunk (a lead byte
  plus the continuation bytes that were still acceptable) becomes one U+FFFD.

  `isWhitespace` is the table of `char::is_whitespace` (Unicode `White_Space`, 25 code points).
-/

namespace Str

/-- Unicode scalar value (what a Rust `char` can hold). -/
def isScalar (c : Nat) : Bool := decide (c < 0xD800) || (decide (0xDFFF < c) && decide (c < 0x110000))

/-- `char::encode_utf8`. -/
def encodeCp (c : Nat) : List Nat :=
  if c < 0x80 then [c]
  else if c < 0x800 then [0xC0 + c / 64, 0x80 + c % 64]
  else if c < 0x10000 then [0xE0 + c / 4096, 0x80 + c / 64 % 64, 0x80 + c % 64]
  else [0xF0 + c / 262144, 0x80 + c / 4096 % 64, 0x80 + c / 64 % 64, 0x80 + c % 64]

/-- the UTF-8 bytes of a sequence of scalar values (`String` contents). -/
def encode : List Nat → List Nat
  | [] => []
  | c :: cs => encodeCp c ++ encode cs

/-- `char::len_utf8`. -/
def lenUtf8 (c : Nat) : Nat :=
  if c < 0x80 then 1 else if c < 0x800 then 2 else if c < 0x10000 then 3 else 4

/-- A multi-byte sequence in progress: `need` continuation bytes are still expected, `acc` holds the
    payload bits read so far, the next byte must lie in `lo..hi` (the second byte of `E0`, `ED`,
    `F0`, `F4` sequences has a restricted range; every later byte is `80..BF`). -/
structure Pend where
  need : Nat
  acc : Nat
  lo : Nat
  hi : Nat
  deriving DecidableEq, Repr

/-- A byte read in the ground state: ASCII is emitted, a lead byte opens a sequence, anything else
    (`80..C1`, `F5..FF`) is an invalid chunk of its own. -/
def start (b : Nat) : List Nat × Option Pend :=
  if b < 0x80 then ([b], none)
  else if 0xC2 ≤ b ∧ b ≤ 0xDF then ([], some ⟨1, b - 0xC0, 0x80, 0xBF⟩)
  else if b = 0xE0 then ([], some ⟨2, 0, 0xA0, 0xBF⟩)
  else if b = 0xED then ([], some ⟨2, 13, 0x80, 0x9F⟩)
  else if 0xE1 ≤ b ∧ b ≤ 0xEF then ([], some ⟨2, b - 0xE0, 0x80, 0xBF⟩)
  else if b = 0xF0 then ([], some ⟨3, 0, 0x90, 0xBF⟩)
  else if 0xF1 ≤ b ∧ b ≤ 0xF3 then ([], some ⟨3, b - 0xF0, 0x80, 0xBF⟩)
  else if b = 0xF4 then ([], some ⟨3, 4, 0x80, 0x8F⟩)
  else ([0xFFFD], none)

/-- one byte: emitted code points and the next state.  A byte that does not continue the pending
    sequence closes it as one U+FFFD and is then read again in the ground state. -/
def step : Option Pend → Nat → List Nat × Option Pend
  | none, b => start b
  | some p, b =>
    if p.lo ≤ b ∧ b ≤ p.hi then
      if p.need ≤ 1 then ([p.acc * 64 + (b - 0x80)], none)
      else ([], some ⟨p.need - 1, p.acc * 64 + (b - 0x80), 0x80, 0xBF⟩)
    else (0xFFFD :: (start b).1, (start b).2)

def decodeGo : Option Pend → List Nat → List Nat
  | none, [] => []
  | some _, [] => [0xFFFD]
  | st, b :: rest => (step st b).1 ++ decodeGo (step st b).2 rest

/-- `String::from_utf8_lossy(bytes).chars()`. -/
def decodeLossy (bs : List Nat) : List Nat := decodeGo none bs

/-- `String::from_utf8_lossy(bytes)` as bytes. -/
def lossy (bs : List Nat) : List Nat := encode (decodeLossy bs)

/-- `std::str::from_utf8(bytes).is_ok()` (no chunk was replaced; a genuine U+FFFD re-encodes to itself). -/
def isValid (bs : List Nat) : Bool := lossy bs == bs

/-- `char::is_whitespace` (Unicode `White_Space`). -/
def isWhitespace (c : Nat) : Bool :=
  (decide (9 ≤ c) && decide (c ≤ 13)) || c == 0x20 || c == 0x85 || c == 0xA0 || c == 0x1680 ||
  (decide (0x2000 ≤ c) && decide (c ≤ 0x200A)) || c == 0x2028 || c == 0x2029 || c == 0x202F ||
  c == 0x205F || c == 0x3000

end Str
