/-
  VrlModel.Str.Fns — the string functions of C28 (src/stdlib/{strip_whitespace,split,join,
  starts_with,ends_with,contains,truncate,strlen,upcase,downcase}.rs).

  Two levels: `…Cp` functions work on the chars view (`List Nat` of scalar values) and carry the
  algebra; the `Value`-level functions add exactly what the Rust adds around them: the argument
  type checks (`try_bytes…`, `try_integer`, `try_boolean`, every failure is the outcome `err`),
  `from_utf8_lossy` on the way in, UTF-8 encoding on the way out; case-insensitive `starts_with`
  has its own hand-written byte iterator instead.  An absent optional argument is `none`.
-/
import VrlModel.Value
import VrlModel.Str.Case

namespace Str

/-- outcome of a stdlib call: value, `Err(..)` (any `ExpressionError`), or a Rust panic. -/
inductive R (α : Type) where
  | ok (a : α)
  | err
  | panic
  deriving DecidableEq, Repr

/-! ### strip_whitespace : `str::trim` -/

def dropWs (cs : List Nat) : List Nat := cs.dropWhile isWhitespace

def trimCp (cs : List Nat) : List Nat := (dropWs (dropWs cs).reverse).reverse

def stripWhitespace : Value → R Value
  | .bytes b => .ok (.bytes (encode (trimCp (decodeLossy b))))
  | _ => .err

/-! ### strlen : `chars().count()` -/

def strlen : Value → R Value
  | .bytes b => .ok (.int (decodeLossy b).length)
  | _ => .err

/-! ### split (string pattern) : `str::splitn(limit, pattern)`

  `n` = number of pieces still allowed, the current one included; with `n ≤ 1` the current piece
  takes the rest of the string.  `skip` counts the chars of a matched delimiter still to be passed
  over; `cur` is the current piece, reversed.  Matches are found left to right, non-overlapping. -/
def splitGo (pat : List Nat) : Nat → Nat → List Nat → List Nat → List (List Nat)
  | _, _, cur, [] => [cur.reverse]
  | n, skip + 1, cur, _ :: rest => splitGo pat n skip cur rest
  | n, 0, cur, c :: rest =>
    if 2 ≤ n ∧ pat.isPrefixOf (c :: rest) = true then
      cur.reverse :: splitGo pat (n - 1) (pat.length - 1) [] rest
    else splitGo pat n 0 (c :: cur) rest

/-- the empty pattern matches at every char boundary: after the leading `""` every char is a piece
    of its own, the piece after the last char is `""`. `k` = pieces still allowed. -/
def charsN : Nat → List Nat → List (List Nat)
  | _, [] => [[]]
  | k, c :: rest => if k ≤ 1 then [c :: rest] else [c] :: charsN (k - 1) rest

def splitCp (n : Nat) (pat s : List Nat) : List (List Nat) :=
  if n = 0 then []
  else if pat = [] then (if n = 1 then [s] else [] :: charsN (n - 1) s)
  else splitGo pat n 0 [] s

/-- default of the optional `limit` parameter (`expr!(999_999_999)`). -/
def defaultLimit : Int := 999999999

def bytesArr : List (List Nat) → VList
  | [] => .nil
  | p :: ps => .cons (.bytes (encode p)) (bytesArr ps)

/-- `split(value, pattern, limit)`; a regex pattern is outside this model (`none`). -/
def split (value pattern : Value) (limit : Option Value) : Option (R Value) :=
  match value with
  | .bytes s =>
    match limit.getD (.int defaultLimit) with
    | .int l =>
      let n := if l < 0 then 0 else l.toNat
      match pattern with
      | .bytes p => some (.ok (.arr (bytesArr (splitCp n (decodeLossy p) (decodeLossy s)))))
      | .regex _ => none
      | _ => some .err
    | _ => some .err
  | _ => some .err

/-! ### join : `[Cow<str>]::join(&separator)` -/

def joinCp (sep : List Nat) : List (List Nat) → List Nat
  | [] => []
  | [x] => x
  | x :: y :: rest => x ++ sep ++ joinCp sep (y :: rest)

/-- every item must be a string. -/
def itemsCp : VList → Option (List (List Nat))
  | .nil => some []
  | .cons (.bytes b) vs => (itemsCp vs).map (decodeLossy b :: ·)
  | .cons _ _ => none

def join (value : Value) (separator : Option Value) : R Value :=
  match value with
  | .arr xs =>
    match itemsCp xs with
    | none => .err
    | some items =>
      match separator with
      | none => .ok (.bytes (encode (joinCp [] items)))
      | some (.bytes sep) => .ok (.bytes (encode (joinCp (decodeLossy sep) items)))
      | some _ => .err
  | _ => .err

/-! ### truncate -/

/-- `limit` of `truncate`: negative → 0. -/
def limitNat (l : Int) : Nat := if l < 0 then 0 else l.toNat

def truncateCp (limit : Nat) (suffix s : List Nat) : List Nat :=
  if limit < s.length then s.take limit ++ suffix else s

def truncate (value limit : Value) (suffix : Option Value) : R Value :=
  match value, limit, suffix.getD (.bytes []) with
  | .bytes s, .int l, .bytes sfx =>
    .ok (.bytes (encode (truncateCp (limitNat l) (decodeLossy sfx) (decodeLossy s))))
  | _, _, _ => .err

/-! ### contains / ends_with : `convert_to_string` (lossy, lower-cased when insensitive), then
    `str::contains` / `str::ends_with` -/

def containsCp (needle : List Nat) : List Nat → Bool
  | [] => needle.isEmpty
  | c :: rest => needle.isPrefixOf (c :: rest) || containsCp needle rest

def convertToString (cm : CaseMap) (lower : Bool) (b : List Nat) : List Nat :=
  if lower then downcaseCp cm (decodeLossy b) else decodeLossy b

def caseArg (cs : Option Value) : Option Bool :=
  match cs.getD (.bool true) with
  | .bool b => some b
  | _ => none

def contains (cm : CaseMap) (value substring : Value) (cs : Option Value) : R Value :=
  match caseArg cs, value, substring with
  | some cs, .bytes v, .bytes s =>
    .ok (.bool (containsCp (convertToString cm (!cs) s) (convertToString cm (!cs) v)))
  | _, _, _ => .err

def endsWith (cm : CaseMap) (value substring : Value) (cs : Option Value) : R Value :=
  match caseArg cs, value, substring with
  | some cs, .bytes v, .bytes s =>
    .ok (.bool ((convertToString cm (!cs) s).isSuffixOf (convertToString cm (!cs) v)))
  | _, _, _ => .err

/-! ### starts_with : raw bytes when case sensitive; a hand-written char iterator otherwise -/

/-- `utf8_width::get_width`. -/
def utf8Width (b : Nat) : Nat :=
  if b ≤ 0x7F then 1 else if 0xC2 ≤ b ∧ b ≤ 0xDF then 2 else if 0xE0 ≤ b ∧ b ≤ 0xEF then 3
  else if 0xF0 ≤ b ∧ b ≤ 0xF4 then 4 else 0

inductive ChItem where
  | ok (c : Nat)
  | bad
  deriving DecidableEq, Repr

/-- `Chars::next` of starts_with.rs on the remaining bytes: item and remaining bytes.
    Width 0 and a lead byte whose sequence runs past the end are invalid bytes (`Err(byte)`; before
    30b55ac they panicked: `.chars().next().unwrap()` on `""`, `&bytes[pos..pos + width]` out of range). -/
def charsNext (bs : List Nat) : Option (ChItem × List Nat) :=
  match bs with
  | [] => none
  | b :: rest =>
    let w := utf8Width b
    if w = 1 then some (.ok b, rest)
    else if w = 0 then some (.bad, rest)            -- a byte that cannot start a sequence
    else if bs.length < w then some (.bad, rest)    -- a sequence cut short by the end of the input
    else match decodeLossy (bs.take w) with
      | [c] => some (.ok c, bs.drop w)
      | _ => some (.bad, rest)

/-- the closure of `starts_with` for two decoded chars: ASCII pairs by `eq_ignore_ascii_case`,
    otherwise the complete lower-case expansions must be equal (`a.to_lowercase().eq(b.to_lowercase())`;
    before 2b95bd7 a truncating `zip`). -/
def ciEq (cm : CaseMap) (a b : Nat) : Bool :=
  if a < 128 ∧ b < 128 then asciiLower a == asciiLower b
  else cm.toLower a == cm.toLower b

/-- `let mut value = Chars::new(bytes); Chars::new(starts).all(|a| match (a, value.next()) {…})`:
    every item of `starts` needs a matching item of `bytes`; an invalid byte on either side, or
    `bytes` running out first, is `false`.  `fuel` bounds the number of items (`starts.length + 1`
    suffices: every item consumes a byte). -/
def ciAll (cm : CaseMap) : Nat → List Nat → List Nat → Bool
  | 0, _, _ => true
  | fuel + 1, starts, bytes =>
    match charsNext starts with
    | none => true
    | some (a, starts') =>
      match a, charsNext bytes with
      | .ok x, some (.ok y, bytes') => ciEq cm x y && ciAll cm fuel starts' bytes'
      | _, _ => false

/-- `fn starts_with(bytes, starts, case)` (no common byte-length pre-check since 2b95bd7). -/
def startsWithBytes (cm : CaseMap) (cs : Bool) (bytes starts : List Nat) : Bool :=
  if cs then decide (starts.length ≤ bytes.length) && starts.isPrefixOf bytes
  else ciAll cm (starts.length + 1) starts bytes

def startsWith (cm : CaseMap) (value substring : Value) (cs : Option Value) : R Value :=
  match caseArg cs, substring, value with
  | some cs, .bytes s, .bytes v => .ok (.bool (startsWithBytes cm cs v s))
  | _, _, _ => .err

/-! ### upcase / downcase on values -/

def upcaseV (cm : CaseMap) : Value → R Value
  | .bytes b => .ok (.bytes (upcase cm b))
  | _ => .err

def downcaseV (cm : CaseMap) : Value → R Value
  | .bytes b => .ok (.bytes (downcase cm b))
  | _ => .err

end Str
