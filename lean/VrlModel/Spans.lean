/-
  VrlModel.Spans — the span PRODUCERS of the compiler front-end that do arithmetic (C33).

  Source text = `List Nat` (UTF-8 bytes). A span is a pair of byte offsets.

  Modelled code (quirks included):
    * `str::is_char_boundary`                                           → `isCharBoundary`
    * `Assignment::new`      (src/compiler/expression/assignment.rs)    → `assignmentSpan`
        `assignment_span = Span::new(target_span.start(), expr_span.start() - 1)`  (unchecked `- 1`)
    * `verify_overwritable`  (same file)                                → `popStep`, `walk`, `verifyOverwritable`
        walks the target path from the back; per popped segment
          segment_start = parent_span.end().saturating_sub(len(Display of segment))
          segment_span  = (segment_start, parent_span.end())
          parent_span   = (parent_span.start(), segment_start.saturating_sub(1))   for a field
                          (parent_span.start(), segment_start)                     for an index
        and reports the first segment whose parent kind is not a container (the kind check is a
        parameter `valid`: the type checker is not part of this model).
    * `Display for OwnedSegment` / `format_field` (src/path/owned.rs)    → `displayBytes`, `displayLen`
        `VALID_FIELD = ^[0-9]*[a-zA-Z_@][0-9a-zA-Z_@]*$` as a character-class predicate `validField`;
        an invalid field is wrapped in quotes WITHOUT escaping; an index prints as `[<decimal>]`.
    * the lexer's literal scanners and their errors (src/parser/lex.rs)  → `scanString`, `scanQuoted`,
        `LexErr`, `LexErr.label` (`string_literal`, `escape_code`, `unicode_escape`, `quoted_literal`,
        `Error::offset_by`, `DiagnosticMessage::labels for Error`), and the nested lexer that
        `query_start` runs on `&input[pos + 1..]` inside a delimited region of a query.
        The model follows the repaired code: /repo 45c5794 (`EscapeChar` label = the whole
        character, `start + len_utf8(ch)`) and 694e815 (the nested lexer's `StringLiteral` error is
        reported at the opening quote `pos`, not at `pos + 1`).
-/

namespace Spans

structure Span where
  start : Nat
  stop : Nat
deriving Repr, DecidableEq, BEq

/-- Rust operations that can panic are explicit outcomes. -/
inductive Res (α : Type) where
  | ok (a : α)
  | panic
deriving Repr, DecidableEq

/-! ## UTF-8 boundaries -/

/-- continuation byte `10xxxxxx` -/
def isCont (b : Nat) : Bool := decide (128 ≤ b) && decide (b < 192)

/-- `str::is_char_boundary(i)`: `0` and `len` are boundaries, positions past the end are not,
    any other position is a boundary iff the byte there is not a continuation byte. -/
def isCharBoundary (src : List Nat) (i : Nat) : Bool :=
  match i with
  | 0 => true
  | _ =>
    match src[i]? with
    | none => i == src.length
    | some b => !isCont b

/-- the property's span predicate: ordered, inside the source, on character boundaries. -/
def WF (src : List Nat) (s : Span) : Prop :=
  s.start ≤ s.stop ∧ s.stop ≤ src.length ∧
  isCharBoundary src s.start = true ∧ isCharBoundary src s.stop = true

instance (src : List Nat) (s : Span) : Decidable (WF src s) := by unfold WF; infer_instance

/-- which clause of `WF` a span violates (first in the order reversed, past_end, split_char). -/
def clause (src : List Nat) (s : Span) : Option String :=
  if s.stop < s.start then some "reversed"
  else if src.length < s.stop then some "past_end"
  else if !(isCharBoundary src s.start && isCharBoundary src s.stop) then some "split_char"
  else none

/-! ## `Assignment::new` -/

/-- `Span::new(target_span.start(), expr_span.start() - 1)`; `usize` subtraction panics at 0
    (debug profile / overflow checks, the profile of the pinned test-suite). -/
def assignmentSpan (target expr : Span) : Res Span :=
  if expr.start = 0 then .panic else .ok ⟨target.start, expr.start - 1⟩

/-! ## path segments and their `Display` -/

inductive Seg where
  | field (name : List Nat)   -- UTF-8 bytes of the (unescaped) field name
  | index (i : Int)
deriving Repr, DecidableEq

def isDigit (b : Nat) : Bool := decide (48 ≤ b) && decide (b ≤ 57)
def isAlphaU (b : Nat) : Bool :=
  (decide (65 ≤ b) && decide (b ≤ 90)) || (decide (97 ≤ b) && decide (b ≤ 122)) || b == 95 || b == 64
/-- `[0-9a-zA-Z_@]` -/
def isFieldChar (b : Nat) : Bool := isDigit b || isAlphaU b

/-- `^[0-9]*[a-zA-Z_@][0-9a-zA-Z_@]*$`: every byte in the class and at least one non-digit. -/
def validField (f : List Nat) : Bool := f.all isFieldChar && f.any isAlphaU

/-- decimal digits of `n` (most significant first); `fuel` bounds the number of digits. -/
def decDigitsAux : Nat → Nat → List Nat → List Nat
  | 0, _, acc => acc
  | fuel + 1, n, acc =>
    if n < 10 then (48 + n) :: acc else decDigitsAux fuel (n / 10) ((48 + n % 10) :: acc)

/-- enough fuel for every 64-bit `isize` (19 digits) and far beyond -/
def decDigits (n : Nat) : List Nat := decDigitsAux 40 n []

/-- `write!(f, "[{i}]")` / `format_field` -/
def displayBytes : Seg → List Nat
  | .field f => if validField f then f else [34] ++ f ++ [34]
  | .index i =>
    if i < 0 then [91, 45] ++ decDigits i.natAbs ++ [93] else [91] ++ decDigits i.toNat ++ [93]

def displayLen (s : Seg) : Nat := (displayBytes s).length

/-- `1` for a field (the separating dot that `verify_overwritable` assumes), `0` for an index. -/
def dotLen : Seg → Nat
  | .field _ => 1
  | .index _ => 0

/-! ## `verify_overwritable` -/

/-- one iteration of the `while let Some(last) = path.segments.pop()` loop:
    returns `(segment_span, new parent_span)`; `Nat` subtraction is `saturating_sub`. -/
def popStep (parent : Span) (s : Seg) : Span × Span :=
  let segStart := parent.stop - displayLen s
  match s with
  | .field _ => (⟨segStart, parent.stop⟩, ⟨parent.start, segStart - 1⟩)
  | .index _ => (⟨segStart, parent.stop⟩, ⟨parent.start, segStart⟩)

/-- every `(segment_span, parent_span)` pair the loop computes, in pop order
    (`revSegs` = the path's segments from the back). -/
def walk (parent : Span) : List Seg → List (Span × Span)
  | [] => []
  | s :: rest => popStep parent s :: walk (popStep parent s).2 rest

/-- the loop itself: `valid remaining` is the kind check for the parent that has `remaining`
    segments (`parent_kind.contains_object()` / `contains_array()`); the first failing pop is the
    error `InvalidParentPathSegment { segment_span, parent_span, .. }`. -/
def overwritableLoop (valid : Nat → Bool) (parent : Span) : List Seg → Option (Span × Span)
  | [] => none
  | s :: rest =>
    if valid rest.length then overwritableLoop valid (popStep parent s).2 rest
    else some (popStep parent s)

def verifyOverwritable (valid : Nat → Bool) (target : Span) (segs : List Seg) : Option (Span × Span) :=
  overwritableLoop valid target segs.reverse

/-- the source spelling `verify_overwritable` silently assumes: a dot before a field, the
    `Display` text of the segment. -/
def canon (s : Seg) : List Nat :=
  match s with
  | .field _ => 46 :: displayBytes s
  | .index _ => displayBytes s

/-- decidable hypothesis of the `_partial` theorems: read backwards from `stop`, the source holds
    the canonical spelling of every popped segment, and what is left still begins at/after `start`. -/
def canonAtB (src : List Nat) (start : Nat) : Nat → List Seg → Bool
  | stop, [] => decide (start ≤ stop)
  | stop, s :: rest =>
    decide ((canon s).length ≤ stop) &&
    ((src.drop (stop - (canon s).length)).take (canon s).length == canon s) &&
    canonAtB src start (stop - (canon s).length) rest

/-- weaker, length-only hypothesis: the popped segments' `Display` lengths (plus a dot per field)
    fit between `start` and `stop`. -/
def fitsB (start : Nat) : Nat → List Seg → Bool
  | stop, [] => decide (start ≤ stop)
  | stop, s :: rest => decide (displayLen s + dotLen s ≤ stop) && fitsB start (stop - (displayLen s + dotLen s)) rest

/-! ## the lexer's literal scanners (src/parser/lex.rs)

  The lexer iterates over `char_indices()`: a list of `(byte offset, code point)`; `len` is
  `input.len()` (`next_index()` = offset of the next character, or `len` at the end). -/

/-- decode UTF-8 (the input of the lexer is a `&str`, hence valid UTF-8; a truncated sequence
    simply ends the list) -/
def charIndicesFrom : Nat → List Nat → List (Nat × Nat)
  | _, [] => []
  | pos, b0 :: rest =>
    if b0 < 128 then (pos, b0) :: charIndicesFrom (pos + 1) rest
    else if b0 < 224 then
      match rest with
      | b1 :: r => (pos, (b0 % 32) * 64 + b1 % 64) :: charIndicesFrom (pos + 2) r
      | [] => []
    else if b0 < 240 then
      match rest with
      | b1 :: b2 :: r => (pos, ((b0 % 16) * 64 + b1 % 64) * 64 + b2 % 64) :: charIndicesFrom (pos + 3) r
      | _ => []
    else
      match rest with
      | b1 :: b2 :: b3 :: r =>
        (pos, (((b0 % 8) * 64 + b1 % 64) * 64 + b2 % 64) * 64 + b3 % 64) :: charIndicesFrom (pos + 4) r
      | _ => []

/-- the part of UTF-8 validity the span theorems need: a lead byte is followed by the right
    number of continuation bytes, and no character is encoded in more bytes than `char::len_utf8`
    says (no overlong forms).
    (Every Rust `&str` satisfies it.) -/
def wfUtf8 : List Nat → Bool
  | [] => true
  | b0 :: rest =>
    if b0 < 128 then wfUtf8 rest
    else if b0 < 192 then false
    else if b0 < 224 then
      match rest with
      | b1 :: r => isCont b1 && decide (128 ≤ (b0 % 32) * 64 + b1 % 64) && wfUtf8 r
      | [] => false
    else if b0 < 240 then
      match rest with
      | b1 :: b2 :: r =>
        isCont b1 && isCont b2 && decide (2048 ≤ ((b0 % 16) * 64 + b1 % 64) * 64 + b2 % 64) && wfUtf8 r
      | _ => false
    else if b0 < 248 then
      match rest with
      | b1 :: b2 :: b3 :: r =>
        isCont b1 && isCont b2 && isCont b3 &&
          decide (65536 ≤ (((b0 % 8) * 64 + b1 % 64) * 64 + b2 % 64) * 64 + b3 % 64) && wfUtf8 r
      | _ => false
    else false

def charIndices (src : List Nat) : List (Nat × Nat) := charIndicesFrom 0 src

/-- `Lexer::next_index` -/
def nextIndex (len : Nat) : List (Nat × Nat) → Nat
  | [] => len
  | (p, _) :: _ => p

inductive LexErr where
  | stringLiteral (start : Nat)                      -- E207
  | literal (start : Nat)                            -- E208
  | escapeChar (start : Nat) (ch : Option Nat)       -- E209
  | unicodeEscape (start stop : Nat)                 -- E211
deriving Repr, DecidableEq

instance : DecidableEq (Except LexErr Nat) := fun a b =>
  match a, b with
  | .ok x, .ok y => if h : x = y then isTrue (by rw [h]) else isFalse (by intro e; cases e; exact h rfl)
  | .error x, .error y => if h : x = y then isTrue (by rw [h]) else isFalse (by intro e; cases e; exact h rfl)
  | .ok _, .error _ => isFalse (by intro e; cases e)
  | .error _, .ok _ => isFalse (by intro e; cases e)

/-- `char::len_utf8` -/
def utf8Len (c : Nat) : Nat :=
  if c < 128 then 1 else if c < 2048 then 2 else if c < 65536 then 3 else 4

def LexErr.code : LexErr → Nat
  | .stringLiteral _ => 207
  | .literal _ => 208
  | .escapeChar _ _ => 209
  | .unicodeEscape _ _ => 211

/-- `impl DiagnosticMessage for Error { fn labels }`: the single primary label of each error. -/
def LexErr.label : LexErr → Span
  | .stringLiteral s => ⟨s, s + 1⟩
  | .literal s => ⟨s, s + 1⟩
  | .escapeChar s none => ⟨s, s + 1⟩
  -- /repo 45c5794: `start + ch.map_or(1, char::len_utf8)` (was `start + 1`: the label ended
  -- inside a multi-byte character, former finding class D_lexer_char_span)
  | .escapeChar s (some c) => ⟨s, s + utf8Len c⟩
  | .unicodeEscape s e => ⟨s, e⟩

/-- `Error::offset_by` -/
def LexErr.offsetBy (o : Nat) : LexErr → LexErr
  | .stringLiteral s => .stringLiteral (s + o)
  | .literal s => .literal (s + o)
  | .escapeChar s c => .escapeChar (s + o) c
  | .unicodeEscape s e => .unicodeEscape (s + o) (e + o)

/-- `'\n' | '\'' | '"' | '\\' | 'n' | 'r' | 't' | '{' | '}' | '0'` -/
def isSimpleEscape (c : Nat) : Bool :=
  c == 10 || c == 39 || c == 34 || c == 92 || c == 110 || c == 114 || c == 116 || c == 123 || c == 125 || c == 48

/-- `char::is_ascii_hexdigit` with the digit's value -/
def hexDigitVal (c : Nat) : Option Nat :=
  if 48 ≤ c ∧ c ≤ 57 then some (c - 48)
  else if 97 ≤ c ∧ c ≤ 102 then some (c - 87)
  else if 65 ≤ c ∧ c ≤ 70 then some (c - 55)
  else none

/-- `u32::from_str_radix(hex, 16)` succeeds and `char::from_u32` accepts the value -/
def validScalar (v : Nat) : Bool :=
  decide (v < 4294967296) && (decide (v < 55296) || (decide (57344 ≤ v) && decide (v ≤ 1114111)))

/-- scanner state of `string_literal` + `escape_code` + `unicode_escape` -/
inductive StrSt where
  | normal
  | esc (bs : Nat)                          -- after `\` at offset `bs`
  | uni (bs : Nat)                          -- after `\u`
  | hex (bs : Nat) (count : Nat) (v : Nat)  -- after `\u{`, `count` hex digits of value `v` read
deriving Repr, DecidableEq

/-- `Lexer::string_literal(start)` after the opening quote has been consumed: `Ok(end)` = offset
    just past the closing quote, or the lexer error. One character per step. -/
def scanString (len start : Nat) : StrSt → List (Nat × Nat) → Except LexErr Nat
  | .normal, [] => .error (.stringLiteral start)
  | .normal, (p, c) :: rest =>
    if c = 34 then .ok (nextIndex len rest)
    else if c = 92 then scanString len start (.esc p) rest
    else scanString len start .normal rest
  | .esc bs, [] => .error (.escapeChar bs none)
  | .esc bs, (p, c) :: rest =>
    if isSimpleEscape c then scanString len start .normal rest
    else if c = 117 then scanString len start (.uni bs) rest
    else .error (.escapeChar p (some c))
  | .uni bs, [] => .error (.escapeChar bs none)
  | .uni bs, (p, c) :: rest =>
    if c = 123 then scanString len start (.hex bs 0 0) rest else .error (.escapeChar p (some c))
  | .hex bs _ _, [] => .error (.escapeChar bs none)
  | .hex bs n v, (p, c) :: rest =>
    if c = 125 then
      if n = 0 then .error (.unicodeEscape bs (nextIndex len rest))
      else if validScalar v then scanString len start .normal rest
      else .error (.unicodeEscape bs (nextIndex len rest))
    else
      match hexDigitVal c with
      | some d => scanString len start (.hex bs (n + 1) (v * 16 + d)) rest
      | none => .error (.escapeChar p (some c))

/-- `Lexer::quoted_literal(start)` (`s'…'`, `r'…'`, `t'…'`) after the opening `'`:
    a backslash skips one character. -/
def scanQuoted (len start : Nat) : Bool → List (Nat × Nat) → Except LexErr Nat
  | _, [] => .error (.literal start)
  | true, _ :: rest => scanQuoted len start false rest
  | false, (_, c) :: rest =>
    if c = 39 then .ok (nextIndex len rest)
    else if c = 92 then scanQuoted len start true rest
    else scanQuoted len start false rest

/-- top-level string literal whose opening quote is the first character of the source -/
def lexStringAt0 (src : List Nat) : Except LexErr Nat :=
  scanString src.length 0 .normal ((charIndices src).drop 1)

/-- `query_start`'s look-ahead inside a delimited region: the string literal whose opening quote
    is at byte `pos` is scanned by a NESTED lexer over `&input[pos + 1..]` with `start = 0`, and
    the error is shifted by `pos + 1`, except that `StringLiteral { start }` is put back on the
    opening quote. -/
def lexNestedString (src : List Nat) (pos : Nat) : Except LexErr Nat :=
  let sub := src.drop (pos + 1)
  match scanString sub.length 0 .normal (charIndices sub) with
  | .ok e => .ok (e + pos + 1)
  | .error e =>
    -- /repo 694e815: `StringLiteral { start }` is the opening quote at `pos`, not `0 + pos + 1`
    -- (was: one past the quote — past the end for `[ "`, former finding class D_eof_span)
    match e.offsetBy (pos + 1) with
    | .stringLiteral _ => .error (.stringLiteral pos)
    | e' => .error e'

/-- the entry shapes covered by the `c33.lexspan` correspondence:
      `"…`                       top-level `string_literal(0)`
      `s'…`, `r'…`, `t'…`        top-level `quoted_literal(0)`
      `[ "…`, `{ "…`, `f( "…`    nested lexer at the quote (byte 2 / 3)
    `none` = another shape (outside the modelled fragment). -/
def lexFirst (src : List Nat) : Option (Except LexErr Nat) :=
  match src with
  | 34 :: _ => some (lexStringAt0 src)
  | c :: 39 :: _ =>
    if c = 115 ∨ c = 114 ∨ c = 116 then
      some (scanQuoted src.length 0 false ((charIndices src).drop 2))
    else none
  | 91 :: 32 :: 34 :: _ => some (lexNestedString src 2)
  | 123 :: 32 :: 34 :: _ => some (lexNestedString src 2)
  | 102 :: 40 :: 32 :: 34 :: _ => some (lexNestedString src 3)
  | _ => none

end Spans
