import VrlModel.Wire
import VrlModel.C18

namespace Driver.C18
open Wire

def showOutcomeInsert : Outcome (Value × Option Value) → String
  | .panic => "panic"
  | .ok (v, prev) => "ok\t" ++ showValue v ++ "\t" ++ showOptValue prev

def boolOf (s : String) : Option Bool :=
  if s == "1" then some true else if s == "0" then some false else none

def optValueOfString (s : String) : Option (Option Value) :=
  if s == "none" then some none else (valueOfString s).map some

def beqOpt : Option Value → Option Value → Bool
  | none, none => true
  | some a, some b => a == b
  | _, _ => false

/-- Spec oracle on the implementation's observations.
    args: v p q x prune | v' (after insert) g1=get v' p, g2=get v q, g3=get v' q,
          r=removed by remove(v,p,prune), g0=get v p, sortedAfter flags are computed here. -/
def oracle (v : Value) (p q : Path) (x : Value) (v' : Value)
    (g1 g2 g3 r g0 : Option Value) (vr : Value) (ip gr : Option Value) : String :=
  if !beqOpt g1 (some x) then "fails get_insert:-"
  else if !beqOpt r g0 then "fails remove_returns_get:-"
  else if !beqOpt ip g0 then "fails insert_returns_get:-"
  else if C18.fieldsOnly p && !p.isEmpty && gr.isSome then "fails get_after_remove:-"
  else if !(Value.Sorted v' && Value.Sorted vr) then "fails sorted:-"
  else if g0.isNone && !(vr == v) then "fails remove_absent_unchanged:-"
  else if C18.diverge p q && !beqOpt g3 g2 then
    match C18.frameClass (some v) p with
    | .coerce => "fails frame:D_coerce"
    | .pad => "fails frame:D_pad"
    | .shift => if C18.shiftNeg v p q then "fails frame_shift_negative:-" else "fails frame:D_shift"
    | .none => "fails frame:-"
  else "holds"

def handle (op : String) (args : List String) : Option String :=
  match op, args with
  | "val.get", [v, p] => do
    let v ← valueOfString v
    let p ← pathOfString p
    pure (showOptValue (v.get p))
  | "val.insert", [v, p, x] => do
    let v ← valueOfString v
    let p ← pathOfString p
    let x ← valueOfString x
    pure (showOutcomeInsert (v.insert p x))
  | "val.remove", [v, p, pr] => do
    let v ← valueOfString v
    let p ← pathOfString p
    let pr ← boolOf pr
    let (r, v') := v.remove p pr
    pure (showOptValue r ++ "\t" ++ showValue v')
  | "o.c18", [v, p, q, x, _prune, "|", v', g1, g2, g3, r, g0, vr, ip, gr] => do
    let v ← valueOfString v
    let p ← pathOfString p
    let q ← pathOfString q
    let x ← valueOfString x
    let v' ← valueOfString v'
    let g1 ← optValueOfString g1
    let g2 ← optValueOfString g2
    let g3 ← optValueOfString g3
    let r ← optValueOfString r
    let g0 ← optValueOfString g0
    let vr ← valueOfString vr
    let ip ← optValueOfString ip
    let gr ← optValueOfString gr
    pure (oracle v p q x v' g1 g2 g3 r g0 vr ip gr)
  | _, _ => none

end Driver.C18
