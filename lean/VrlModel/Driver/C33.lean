import VrlModel.Wire
import VrlModel.Spans

/-
  Line-protocol handlers of C33.

    o.c33            <x+hex src> | <diags> <render> <render coloured>
        diags  = `-` | `<sev><code>[/<token>]:<s>-<e>,<s>-<e>…;…` | `panic` (then <render> = panic site)
        prints `holds` or `fails <clause>:<class>`:
          panic:<site>             `compile` panicked (a C04 finding seen by the C33 stream)
          render:panic / render:render_failed
          span:E<code>:reversed | past_end | split_char      first label violating `Spans.WF`
    c33.overwritable <x+hex src> | <ts>-<te> <segments> <k>     → `<s>-<e> <s>-<e>` (segment, parent)
    c33.assignspan   <x+hex src> | <ts>-<te> <expr start>       → `<s>-<e>` | `panic`
    c33.lexspan      <x+hex src>                                → `err <code> <s>-<e>` | `ok` | `oom`
-/
namespace Driver.C33
open Spans

def srcOfHex (s : String) : Option (List Nat) :=
  match s.toList with
  | 'x' :: rest => Wire.bytesOfHexChars rest
  | _ => none

def spanOfString (s : String) : Option Span :=
  match s.splitOn "-" with
  | [a, b] => do
    let a ← a.toNat?
    let b ← b.toNat?
    pure ⟨a, b⟩
  | _ => none

def showSpan (s : Span) : String := toString s.start ++ "-" ++ toString s.stop

/-- `e642:11-16,7-10` → (code, labels) -/
def diagOfString (s : String) : Option (Nat × String × List Span) :=
  match s.splitOn ":" with
  | [head, labels] => do
    -- `e203/RQuery`: severity, code and (syntax errors) the unexpected token's name
    let (codeS, tag) := match (String.ofList (head.toList.drop 1)).splitOn "/" with
      | [c, t] => (c, t)
      | _ => (String.ofList (head.toList.drop 1), "")
    let code ← codeS.toNat?
    let ls ← if labels.isEmpty then some [] else (labels.splitOn ",").mapM spanOfString
    pure (code, tag, ls)
  | _ => none

def firstBadLabel (src : List Nat) : List (Nat × String × List Span) → Option String
  | [] => none
  | (code, tag, ls) :: rest =>
    match ls.findSome? (fun l => clause src l) with
    | some c => some ("span:E" ++ toString code ++ ":" ++ c ++ (if tag.isEmpty then "" else ":" ++ tag))
    | none => firstBadLabel src rest

def oracle (src : List Nat) (diags render renderColored : String) : Option String :=
  if diags == "panic" then some ("fails panic:" ++ render)
  else if render == "panic" || renderColored == "panic" then some "fails render:panic"
  else if render != "ok" || renderColored != "ok" then some "fails render:render_failed"
  else do
    let ds ← if diags == "-" then some [] else (diags.splitOn ";").mapM diagOfString
    match firstBadLabel src ds with
    | some c => pure ("fails " ++ c)
    | none => pure "holds"

def segOfString (s : String) : Option Spans.Seg :=
  match s.toList with
  | 'f' :: 'x' :: rest => (Wire.bytesOfHexChars rest).map Spans.Seg.field
  | 'i' :: rest => (String.ofList rest).toInt?.map Spans.Seg.index
  | _ => none

def segsOfString (s : String) : Option (List Spans.Seg) :=
  if s == "-" then some [] else (s.splitOn " ").mapM segOfString

def showLex : Except LexErr Nat → Nat → String
  | .error e, _ => "err " ++ toString e.code ++ " " ++ showSpan e.label
  | .ok stop, len => if stop == len then "ok" else "oom"

def handle (op : String) (args : List String) : Option String :=
  match op, args with
  | "o.c33", [h, "|", diags, r, rc] => do
    let src ← srcOfHex h
    oracle src diags r rc
  | "c33.overwritable", [_, "|", t, segs, k] => do
    let t ← spanOfString t
    let segs ← segsOfString segs
    let k ← k.toNat?
    match verifyOverwritable (fun remaining => remaining != k) t segs with
    | some (sg, p) => pure (showSpan sg ++ " " ++ showSpan p)
    | none => pure "none"
  | "c33.assignspan", [_, "|", t, e] => do
    let t ← spanOfString t
    let e ← e.toNat?
    match assignmentSpan t ⟨e, e⟩ with
    | .ok s => pure (showSpan s)
    | .panic => pure "panic"
  | "c33.lexspan", [h] => do
    let src ← srcOfHex h
    match lexFirst src with
    | some r => pure (showLex r src.length)
    | none => pure "oom"
  | _, _ => none

end Driver.C33
