import VrlModel.KindWire
import VrlModel.KindSpec

namespace Driver.C19
open Wire KindWire

def boolOf (s : String) : Option Bool :=
  if s == "1" then some true else if s == "0" then some false else none

def b (x : Bool) : String := if x then "1" else "0"

def preds (k : Kind) : String :=
  String.join ([k.isAny, k.isJson, k.isExact, k.isNever, k.isCollection, k.containsAnyDefined,
    k.containsPrimitive, k.containsBytes, k.containsInteger, k.containsFloat, k.containsBoolean,
    k.containsTimestamp, k.containsRegex, k.containsNull, k.containsUndefined, k.containsArray,
    k.containsObject, k.isBytes, k.isInteger, k.isFloat, k.isBoolean, k.isTimestamp, k.isRegex,
    k.isNull, k.isUndefined, k.isArray, k.isObject].map b)

def optN : Option Nat → String
  | none => "none"
  | some n => toString n

def emptyStr : Col.EmptyState → String
  | .always => "Always"
  | .maybe => "Maybe"
  | .never => "Never"

def colinfo (k : Kind) : String :=
  let a := match k.array with
    | none => "_"
    | some c => optN c.largestKnownIndex ++ " " ++ toString c.minLength ++ " " ++ optN c.exactLength
        ++ " " ++ emptyStr c.isEmpty ++ " " ++ b c.isAny ++ " " ++ b c.isUnknownExact
  let o := match k.object with
    | none => "_"
    | some c => emptyStr c.isEmpty ++ " " ++ b c.isAny ++ " " ++ b c.isUnknownExact
  a ++ " / " ++ o

def handle (op : String) (args : List String) : Option String :=
  match op, args with
  | "kind.of", [v] => do
    let v ← valueOfString v
    pure (showKind v.kindOf)
  | "kind.at", [k, p] => do
    let k ← kindOfString k
    let p ← pathOfString p
    pure (showOutcomeKind (k.atPathO p))
  | "kind.get", [k, p] => do
    let k ← kindOfString k
    let p ← pathOfString p
    pure (showOutcomeKind (k.getO p))
  | "kind.insert", [k, p, x] => do
    let k ← kindOfString k
    let p ← pathOfString p
    let x ← kindOfString x
    pure (showOutcomeKind (k.insertO p x))
  | "kind.set", [k, p, x] => do
    let k ← kindOfString k
    let p ← pathOfString p
    let x ← kindOfString x
    pure (showOutcomeKind (k.setAtPathO p x))
  | "kind.remove", [k, p, c] => do
    let k ← kindOfString k
    let p ← pathOfString p
    let c ← boolOf c
    pure (match k.remove p c with
      | .panic => "panic"
      | .ok (k', r) => "ok\t" ++ showKind k' ++ "\t" ++ showKind r)
  | "kind.union", [x, y] => do
    let x ← kindOfString x
    let y ← kindOfString y
    pure (showKind (x.union y))
  | "kind.merge", [x, y, ow] => do
    let x ← kindOfString x
    let y ← kindOfString y
    let ow ← boolOf ow
    pure (showKind (x.merge y (if ow then .overwrite else .union)))
  | "kind.superset", [x, y] => do
    let x ← kindOfString x
    let y ← kindOfString y
    pure (if x.isSuperset y then "ok" else "err")
  | "kind.intersects", [x, y] => do
    let x ← kindOfString x
    let y ← kindOfString y
    pure (b (x.intersects y))
  | "kind.eq", [x, y] => do
    let x ← kindOfString x
    let y ← kindOfString y
    pure (b (x.eq y))
  | "kind.canon", [k] => do
    let k ← kindOfString k
    pure (showKind k.canonicalize)
  | "kind.preds", [k] => do
    let k ← kindOfString k
    pure (preds k)
  | "kind.colinfo", [k] => do
    let k ← kindOfString k
    pure (colinfo k)
  | "kind.upgrade", [k] => do
    let k ← kindOfString k
    pure (showKind k.upgradeUndefined)
  | "kind.prims", [k] => do
    let k ← kindOfString k
    pure (showKind k.toPrimitives)
  | "kind.reduced", [k] => do
    let k ← kindOfString k
    let a := match k.array with
      | none => "_"
      | some c => showKind c.reducedKind
    let o := match k.object with
      | none => "_"
      | some c => showKind c.reducedKind
    pure (a ++ "\t" ++ o)
  | "kind.anon", [k] => do
    let k ← kindOfString k
    match k with
    | .mk p a o =>
      let f : OCol → OCol
        | .none => .none
        | .some c => .some c.anonymize
      pure (showKind (.mk p (f a) (f o)))
  | _, _ => none

end Driver.C19
