import VrlModel.KindWire
import VrlModel.KindSpec
import VrlModel.C19

namespace Driver.C19
open Wire KindWire

def boolOf (s : String) : Option Bool :=
  if s == "1" then some true else if s == "0" then some false else none

def b (x : Bool) : String := if x then "1" else "0"

def preds (k : Kind) : String :=
  String.join ([k.isAny, k.isJson, k.isExact, k.isNever, k.isCollection, k.containsAnyDefined,
    k.containsPrimitive, k.containsBytes, k.containsInteger, k.containsFloat, k.containsBoolean,
    k.containsTimestamp, k.containsRegex, k.containsNull, k.containsUndefined, k.containsArray,
    k.containsObject, k.isBytes, k.isInteger, k.isFloat, k.isBoolean, k.isTimestamp, k.isRegex,
    k.isNull, k.isUndefined, k.isArray, k.isObject].map b)

def optN : Option Nat → String
  | none => "none"
  | some n => toString n

def emptyStr : Col.EmptyState → String
  | .always => "Always"
  | .maybe => "Maybe"
  | .never => "Never"

def colinfo (k : Kind) : String :=
  let a := match k.array with
    | none => "_"
    | some c => optN c.largestKnownIndex ++ " " ++ toString c.minLength ++ " " ++ optN c.exactLength
        ++ " " ++ emptyStr c.isEmpty ++ " " ++ b c.isAny ++ " " ++ b c.isUnknownExact
  let o := match k.object with
    | none => "_"
    | some c => emptyStr c.isEmpty ++ " " ++ b c.isAny ++ " " ++ b c.isUnknownExact
  a ++ " / " ++ o

def optValueOfString (s : String) : Option (Option Value) :=
  if s == "none" then some none else (valueOfString s).map some

/-- `panic` or a kind -/
def okindOfString (s : String) : Option (Option Kind) :=
  if s == "panic" then some none else (kindOfString s).map some

def okOf (s : String) : Option Bool :=
  if s == "ok" then some true else if s == "err" then some false else none

def verdict (ok : Bool) (clause cls : String) : String :=
  if ok then "holds" else "fails " ++ clause ++ ":" ++ cls

/-- Spec oracle on the implementation's observations. -/
def handleOracle (op : String) (args : List String) : Option String :=
  match op, args with
  | "o.c19.of", [v, "|", kv, selfSup] => do
    let v ← valueOfString v
    let kv ← kindOfString kv
    let s ← okOf selfSup
    pure (if !Spec.mem v kv then "fails of:-" else if !s then "fails of_self_superset:-" else "holds")
  | "o.c19.at", [v, k, p, "|", g, atK, getK] => do
    let v ← valueOfString v
    let k ← kindOfString k
    let p ← pathOfString p
    let g ← optValueOfString g
    let atK ← okindOfString atK
    let getK ← okindOfString getK
    match atK, getK with
    | some atK, some getK =>
      pure (if !C19.atLaw v k g atK then "fails at:" ++ (C19.atClass k p).name
        else if !C19.getLaw v k g getK then "fails at:" ++ (C19.atClass k p).name else "holds")
    | _, _ => pure (if Spec.mem v k then "fails at:" ++ (C19.panicClassAt k p).name else "holds")
  | "o.c19.insert", [v, k, p, x, xk, "|", v', k'] => do
    let v ← valueOfString v
    let k ← kindOfString k
    let p ← pathOfString p
    let x ← valueOfString x
    let xk ← kindOfString xk
    if v' == "panic" then pure "holds" else
    let v' ← valueOfString v'
    let k' ← okindOfString k'
    match k' with
    | some k' => pure (verdict (C19.insertLaw v k x xk v' k') "insert" (C19.insertClass k p xk).name)
    | none => pure (verdict (!(Spec.mem v k && Spec.mem x xk)) "insert" "D_panic")
  | "o.c19.remove", [v, k, p, c, "|", removed, v', k', r] => do
    let v ← valueOfString v
    let k ← kindOfString k
    let p ← pathOfString p
    let c ← boolOf c
    let removed ← optValueOfString removed
    let v' ← valueOfString v'
    let k' ← okindOfString k'
    let r ← okindOfString r
    match k', r with
    | some k', some r =>
      pure (if !C19.removeLaw v k v' k' then "fails remove:" ++ (C19.removeClass k p c).name
        else if !C19.removedLaw v k removed r then "fails at:" ++ (C19.atClass k p).name else "holds")
    | _, _ => pure (verdict (!Spec.mem v k) "remove" (C19.panicClassRemove k p c).name)
  | "o.c19.union", [v, a, b, "|", u] => do
    let v ← valueOfString v
    let a ← kindOfString a
    let b ← kindOfString b
    let u ← kindOfString u
    pure (verdict (C19.unionLaw v a b u) "union" (C19.unionClass a b).name)
  | "o.c19.merge", [va, ka, vb, kb, "|", m, mk] => do
    let va ← valueOfString va
    let ka ← kindOfString ka
    let vb ← valueOfString vb
    let kb ← kindOfString kb
    if m == "err" then pure "holds" else
    let m ← valueOfString m
    let mk ← kindOfString mk
    pure (verdict (C19.mergeLaw va ka vb kb m mk) "merge" (C19.mergeClass ka kb).name)
  | "o.c19.superset", [v, a, b, "|", res] => do
    let v ← valueOfString v
    let a ← kindOfString a
    let b ← kindOfString b
    let res ← okOf res
    pure (verdict (C19.supersetLaw v a b res) "superset" "-")
  | "o.c19.memsup", [v, k, "|", res] => do
    let v ← valueOfString v
    let k ← kindOfString k
    let res ← okOf res
    pure (verdict (C19.memsupLaw v k res) "memsup" (C19.memsupClass k res).name)
  | "o.c19.canon", [v, k, "|", kc, eqSelf] => do
    let v ← valueOfString v
    let k ← kindOfString k
    let kc ← kindOfString kc
    pure (if !C19.canonLaw v k kc then "fails canon:" ++ (C19.canonClass k).name
      else if !C19.canonRevLaw v k kc then "fails canon_rev:" ++ (C19.canonClass k).name
      else if eqSelf != "1" then "fails canon_eq:" ++ (C19.canonClass k).name else "holds")
  | _, _ => none

def handle (op : String) (args : List String) : Option String :=
  match op, args with
  | "kind.of", [v] => do
    let v ← valueOfString v
    pure (showKind v.kindOf)
  | "kind.at", [k, p] => do
    let k ← kindOfString k
    let p ← pathOfString p
    pure (showOutcomeKind (k.atPathO p))
  | "kind.get", [k, p] => do
    let k ← kindOfString k
    let p ← pathOfString p
    pure (showOutcomeKind (k.getO p))
  | "kind.insert", [k, p, x] => do
    let k ← kindOfString k
    let p ← pathOfString p
    let x ← kindOfString x
    pure (showOutcomeKind (k.insertO p x))
  | "kind.set", [k, p, x] => do
    let k ← kindOfString k
    let p ← pathOfString p
    let x ← kindOfString x
    pure (showOutcomeKind (k.setAtPathO p x))
  | "kind.remove", [k, p, c] => do
    let k ← kindOfString k
    let p ← pathOfString p
    let c ← boolOf c
    pure (match k.remove p c with
      | .panic => "panic"
      | .ok (k', r) => "ok\t" ++ showKind k' ++ "\t" ++ showKind r)
  | "kind.union", [x, y] => do
    let x ← kindOfString x
    let y ← kindOfString y
    pure (showKind (x.union y))
  | "kind.merge", [x, y, ow] => do
    let x ← kindOfString x
    let y ← kindOfString y
    let ow ← boolOf ow
    pure (showKind (x.merge y (if ow then .overwrite else .union)))
  | "kind.superset", [x, y] => do
    let x ← kindOfString x
    let y ← kindOfString y
    pure (if x.isSuperset y then "ok" else "err")
  | "kind.intersects", [x, y] => do
    let x ← kindOfString x
    let y ← kindOfString y
    pure (b (x.intersects y))
  | "kind.eq", [x, y] => do
    let x ← kindOfString x
    let y ← kindOfString y
    pure (b (x.eq y))
  | "kind.canon", [k] => do
    let k ← kindOfString k
    pure (showKind k.canonicalize)
  | "kind.preds", [k] => do
    let k ← kindOfString k
    pure (preds k)
  | "kind.colinfo", [k] => do
    let k ← kindOfString k
    pure (colinfo k)
  | "kind.upgrade", [k] => do
    let k ← kindOfString k
    pure (showKind k.upgradeUndefined)
  | "kind.prims", [k] => do
    let k ← kindOfString k
    pure (showKind k.toPrimitives)
  | "kind.reduced", [k] => do
    let k ← kindOfString k
    let a := match k.array with
      | none => "_"
      | some c => showKind c.reducedKind
    let o := match k.object with
      | none => "_"
      | some c => showKind c.reducedKind
    pure (a ++ "\t" ++ o)
  | "kind.anon", [k] => do
    let k ← kindOfString k
    match k with
    | .mk p a o =>
      let f : OCol → OCol
        | .none => .none
        | .some c => .some c.anonymize
      pure (showKind (.mk p (f a) (f o)))
  | _, _ => handleOracle op args

end Driver.C19
