import VrlModel.Wire
import VrlModel.C34

/-! `o.c34`: the implementation compiled a program, collected the unused-RESULT warnings (not the
    unused-variable ones), and for each flagged span compiled and ran the program with that span
    replaced by `null` (harness/src/c34.rs). The Spec predicate `C34.removable` is evaluated on the
    two runs. -/

namespace Driver.C34
open Wire

def obsOf (out ev md : String) : Option C34.Obs := do
  let ev ← valueOfString ev
  let md ← valueOfString md
  pure ⟨out == "ok", ev, md⟩

/-- per flagged span: start end kind mayFail outcome event metadata -/
def checkSpans (o : C34.Obs) : List String → Option String
  | [] => some "holds"
  | _start :: _end :: kind :: fall :: out :: ev :: md :: rest =>
    if out == "nocompile" then checkSpans o rest else do
    let e ← obsOf out ev md
    -- `fall`: 0 = the compiler types the flagged expression infallible and it contains no `!`/abort,
    -- 1 = it can fail, ? = undetermined (treated as "can fail": the weaker claim)
    if C34.removable (fall != "0") o e then checkSpans o rest
    else
      let cls := if kind == "object" then "D_object_member_effect"
                 else if kind == "call" then "D_call_argument_effect"
                 else if kind == "operand" then "D_operand_of_unused_op"
                 else if kind == "after_closure" then "D_element_after_closure_call"
                 else "-"
      pure ("fails removable:" ++ cls)
  | _ => none

def handle (op : String) (args : List String) : Option String :=
  match op, args with
  | "o.c34", _src :: _event :: _meta :: "|" :: out :: ev :: md :: _n :: spans => do
    if out == "panic" then pure "holds" else     -- panics belong to C04
    let o ← obsOf out ev md
    checkSpans o spans
  | _, _ => none

end Driver.C34
