import VrlModel.Wire
import VrlModel.Arith
import VrlModel.C10
import VrlModel.C11

/-! Line-protocol handlers shared by C10 and C11: `f64.*`, `ar.*`, `vrl.*`, `vrl.lit.*`, `o.c10`, `o.c11`. -/
namespace Driver.ArithOps
open Wire Arith

def errName : Err → String
  | .expected => "Expected" | .coerce => "Coerce" | .rem => "Rem" | .mul => "Mul" | .div => "Div"
  | .divideByZero => "DivideByZero" | .nanFloat => "NanFloat" | .add => "Add" | .sub => "Sub"
  | .or => "Or" | .and => "And" | .gt => "Gt" | .ge => "Ge" | .lt => "Lt" | .le => "Le" | .merge => "Merge"

def errOfName (s : String) : Option Err :=
  [Err.expected, .coerce, .rem, .mul, .div, .divideByZero, .nanFloat, .add, .sub, .or, .and, .gt, .ge,
    .lt, .le, .merge].find? (fun e => errName e == s)

def showRes : Res Value → String
  | .ok v => "ok " ++ showValue v
  | .err e => "err:" ++ errName e
  | .panic => "panic"

/-- `-` = not observed -/
def parseRes (s : String) : Option (Option (Res Value)) :=
  if s == "-" then some none
  else if s == "panic" then some (some .panic)
  else if s.startsWith "ok " then (valueOfString (dropPrefix s 3)).map fun v => some (.ok v)
  else if s.startsWith "err:" then (errOfName (dropPrefix s 4)).map fun e => some (.err e)
  else none

def parseF (s : String) : Option Nat :=
  if s.startsWith "d:" then natOfHexChars (s.toList.drop 2) else none

def showF : Option Nat → String
  | none => "nan"
  | some b => "d:" ++ hex16 b

def tf (b : Bool) : String := if b then "t" else "f"

def f64Handle (name : String) (x y : Nat) : Option String :=
  match name with
  | "add" => some (showF (F64.add x y))
  | "sub" => some (showF (F64.sub x y))
  | "mul" => some (showF (F64.mul x y))
  | "div" => some (showF (F64.div x y))
  | "rem" => some (showF (F64.rem x y))
  | "lt" => some (tf (F64.lt x y))
  | "le" => some (tf (F64.le x y))
  | "eq" => some (tf (F64.eq x y))
  | _ => none

/-- the trait methods called directly -/
def direct (name : String) (a b : Value) : Option (Res Value) :=
  match name with
  | "add" => some (tryAdd a b)
  | "sub" => some (trySub a b)
  | "mul" => some (tryMul a b)
  | "div" => some (tryDiv a b)
  | "rem" => some (tryRem a b)
  | "gt" => some (tryCmp .gt a b)
  | "ge" => some (tryCmp .ge a b)
  | "lt" => some (tryCmp .lt a b)
  | "le" => some (tryCmp .le a b)
  | "and" => some (tryAnd a b)
  | "merge" => some (tryMerge a b)
  | "or" => some (tryOr a (.ok b))
  | "eq" => some (.ok (.bool (eqImpl a b)))
  | "ne" => some (.ok (.bool (!eqImpl a b)))
  | _ => none

/-- the operator as `Op::resolve` (or the `mod` function) evaluates it on resolved operands -/
def viaOp (name : String) (a b : Value) : Option (Res Value) :=
  match name with
  | "add" => some (evalOp .add a b)
  | "sub" => some (evalOp .sub a b)
  | "mul" => some (evalOp .mul a b)
  | "div" => some (evalOp .div a b)
  | "mod" => some (tryRem a b)
  | "gt" => some (evalOp .gt a b)
  | "ge" => some (evalOp .ge a b)
  | "lt" => some (evalOp .lt a b)
  | "le" => some (evalOp .le a b)
  | "eq" => some (evalOp .eq a b)
  | "ne" => some (evalOp .ne a b)
  | "and" => some (evalAnd a b)
  | "or" => some (tryOr a (.ok b))
  | _ => none

def parseCmpObs (s : String) : Option (Option Bool) :=
  if s == "t" then some (some true) else if s == "f" then some (some false)
  else if s == "err" then some none else none

def holdsOr : Option String → String
  | none => "holds"
  | some c => "fails " ++ c

def handle (op : String) (args : List String) : Option String :=
  if op == "f64.ofint" then
    match args with
    | [i] => (parseInt i).map fun i => showF (some (F64.ofInt i))
    | _ => none
  else if op.startsWith "f64." then
    match args with
    | [x, y] => do
      let x ← parseF x
      let y ← parseF y
      f64Handle (dropPrefix op 4) x y
    | _ => none
  else if op == "ar.or.err" then
    match args with
    | [x] => (valueOfString x).map fun x => showRes (tryOr x (.err .expected))
    | _ => none
  else if op.startsWith "ar." then
    match args with
    | [x, y] => do
      let x ← valueOfString x
      let y ← valueOfString y
      (direct (dropPrefix op 3) x y).map showRes
    | _ => none
  else if op.startsWith "vrl.lit." then
    match args with
    | [x, y] => do
      let x ← valueOfString x
      let y ← valueOfString y
      (viaOp (dropPrefix op 8) x y).map showRes
    | _ => none
  else if op.startsWith "vrl." then
    match args with
    | [x, y] => do
      let x ← valueOfString x
      let y ← valueOfString y
      (viaOp (dropPrefix op 4) x y).map showRes
    | _ => none
  else if op == "o.c10" then
    match args with
    | [x, y, "|", lt, le, eq, ne, gt, ge] => do
      let x ← valueOfString x
      let y ← valueOfString y
      let o : C10.Obs := { lt := ← parseCmpObs lt, le := ← parseCmpObs le, eq := ← parseCmpObs eq,
                           ne := ← parseCmpObs ne, gt := ← parseCmpObs gt, ge := ← parseCmpObs ge }
      pure (holdsOr (C10.check x y o))
    | _ => none
  else if op == "o.c11" then
    match args with
    | x :: y :: "|" :: obs => do
      let x ← valueOfString x
      let y ← valueOfString y
      let rs ← obs.mapM parseRes
      if rs.length ≠ 10 then none
      else pure (holdsOr (C11.check x y (rs.take 5) (rs.drop 5)))
    | _ => none
  else none

end Driver.ArithOps
