import VrlModel.Wire
import VrlModel.Json

/-! Line-protocol handlers of C21 (JSON).  The float/timestamp texts the implementation printed
    arrive as a table in the observations (`d:<bits>=<hex text>`, `ts:<ns>=<hex text>`), so the
    model never prints a float itself; number → float conversion is `Json.serdeParseF`. -/
namespace Driver.C21
open Wire Json

structure Tab where
  floats : List (Nat × List Nat) := []
  tss : List (Int × List Nat) := []

def parseEntry (t : Tab) (e : String) : Option Tab :=
  match e.splitOn "=" with
  | [k, txt] => do
    let bytes ← bytesOfHex txt
    if k.startsWith "d:" then do
      let b ← natOfHexChars (k.toList.drop 2)
      pure { t with floats := (b, bytes) :: t.floats }
    else if k.startsWith "ts:" then do
      let i ← parseInt (dropPrefix k 3)
      pure { t with tss := (i, bytes) :: t.tss }
    else none
  | _ => none

def parseTab (s : String) : Option Tab :=
  if s == "-" then some {} else (tokens s).foldlM parseEntry {}

def prims (t : Tab) : Prims where
  showF := fun b => ((t.floats.find? (fun p => p.1 == b)).map (·.2)).getD []
  parseF := serdeParseF
  showTs := fun i => ((t.tss.find? (fun p => p.1 == i)).map (·.2)).getD []

def boolOf (s : String) : Option Bool :=
  if s == "1" then some true else if s == "0" then some false else none

def showRes : Option Value → String
  | none => "err"
  | some v => "ok\t" ++ showValue v

def resOfString (s : String) : Option (Option Value) :=
  if s == "err" then some none
  else if s.startsWith "ok " then (valueOfString (dropPrefix s 3)).map some
  else none

def runParse (mode : String) (s : List Nat) : Option (Option Value) :=
  let P := prims {}
  match mode.splitOn ":" with
  | ["plain"] => some (parseJson P true s)
  | ["strict"] => some (parseJson P false s)
  | ["serde"] => some (deFromSlice P s)
  | ["depth", n] => (parseInt n).map fun d => parseJsonDepth P true d s
  | ["depthstrict", n] => (parseInt n).map fun d => parseJsonDepth P false d s
  | _ => none

def tokClass (text : List Nat) : String :=
  match lexNum text with
  | some (t, []) => if t.wf then (if t.isFloat then "float" else "int") else "bad"
  | _ => "bad"

def handle (op : String) (args : List String) : Option String :=
  match op, args with
  | "c21.enc", [pretty, v, "|", tab] => do
    let p ← boolOf pretty
    let v ← valueOfString v
    let t ← parseTab tab
    pure (hexOfBytes (encodeJson (prims t) p v))
  | "c21.ser", [pretty, v, "|", tab] => do
    let p ← boolOf pretty
    let v ← valueOfString v
    let t ← parseTab tab
    pure (hexOfBytes (serToString (prims t) p v))
  | "c21.parse", [mode, hex] => do
    let s ← bytesOfHex hex
    let r ← runParse mode s
    pure (showRes r)
  | "c21.float", [_bits, "|", text] => do
    let s ← bytesOfHex text
    let back := match serdeParseF s with
      | some b => hex16 b
      | none => "err"
    pure (back ++ " " ++ tokClass s)
  | "o.c21", [_pretty, v, "|", r1, r2, r3] => do
    let v ← valueOfString v
    let r1 ← resOfString r1
    let r2 ← resOfString r2
    let r3 ← resOfString r3
    match (roundTripClass v r1 <|> roundTripClass v r2 <|> roundTripClass v r3) with
    | some cls => pure ("fails " ++ cls)
    | none => pure "holds"
  | _, _ => none

end Driver.C21
