/-
  Line-protocol handler for C23 (encryption round trips). Arguments are hex byte strings.

  correspondence ops (reply must equal the implementation's):
    c23.enc  alg key iv pt        -> ok:<ciphertext length> | err:alg | err:key:N:M | err:iv:N:M | panic
    c23.dec  alg key iv ct        -> ok:<plaintext length>  | err:… | err:input | panic
                                     (only generated where the glue determines the answer)
    c23.compile enc|dec alg       -> ok | compile-error            (constant `algorithm` argument)
    c23.upper bytes               -> ASCII projection of from_utf8_lossy(bytes).to_uppercase()
    c23.pad   scheme pt           -> padded buffer (block-padding crate called directly)
    c23.unpad scheme buf          -> ok:<bytes> | err
    c23.ip.enc / c23.ip.dec  text parsed key mode -> ok | err:ip | err:mode | err:key:<mode>:<N>:<4|6> | panic
  oracle ops (observations after `|`; reply holds / fails <clause>:<class>):
    o.c23        alg key iv pt | enc dec            RoundTripObs
    o.c23.pad    alg key iv pt | ctlen rawpadded    the buffer CBC encrypted is `pad scheme implFill pt`
    o.c23.unpad  alg key iv ct | raw dec            decrypt = unpadBlocks of the raw CBC decryption
    o.c23.garbage alg key iv ct | dec               NoPanicObs (class D_aead_reject)
    o.c23.ip     text key mode | ip enc dec         IpRoundTripObs (classes D_v4mapped, D_pfx_equal_halves, D_pfx_v4form)
-/
import VrlModel.Wire
import VrlModel.Crypt

namespace Driver.C23
open Wire Crypt

def hex (s : String) : Option Bytes := if s == "-" then some [] else bytesOfHex s
def showHex (b : Bytes) : String := if b.isEmpty then "-" else hexOfBytes b

def showErr : Err → String
  | .invalidAlgorithm => "err:alg"
  | .keySize n m => s!"err:key:{n}:{m}"
  | .ivSize n m => s!"err:iv:{n}:{m}"
  | .invalidInput => "err:input"

/-- outcome with the length only (what the glue determines). -/
def showResLen : Res Err → String
  | .ok b => s!"ok:{b.length}"
  | .err e => showErr e
  | .panic => "panic"

def showRes : Res Err → String
  | .ok b => "ok:" ++ showHex b
  | .err e => showErr e
  | .panic => "panic"

def parseRes (s : String) : Option (Res Err) :=
  if s == "panic" then some .panic
  else if s == "err:alg" then some (.err .invalidAlgorithm)
  else if s == "err:input" then some (.err .invalidInput)
  else match s.splitOn ":" with
    | ["ok", h] => (hex h).map .ok
    | ["err", "key", n, m] => do pure (.err (.keySize (← n.toNat?) (← m.toNat?)))
    | ["err", "iv", n, m] => do pure (.err (.ivSize (← n.toNat?) (← m.toNat?)))
    | _ => none

def padOfName (s : String) : Option Pad :=
  if s == "pkcs7" then some .pkcs7
  else if s == "ansix923" then some .ansix923
  else if s == "iso7816" then some .iso7816
  else if s == "iso10126" then some .iso10126
  else none

/-- `4:<8 hex>` / `6:<32 hex>` / `x` -/
def parseIpObs (s : String) : Option (Option Ip) :=
  if s == "x" then some none
  else match s.splitOn ":" with
    | ["4", h] => (bytesOfHex h).bind fun o => if o.length = 4 then some (some (.v4 o)) else none
    | ["6", h] => (bytesOfHex h).bind fun o => if o.length = 16 then some (some (.v6 o)) else none
    | _ => none

/-- outcome of an ip op: `ok:<ip>` | `err:…` | `panic` -/
inductive IpObs
  | ok (ip : Ip) | err | panic

def parseIpRes (s : String) : Option IpObs :=
  if s == "panic" then some .panic
  else if s.startsWith "err" then some .err
  else if s.startsWith "ok:" then
    match parseIpObs (dropPrefix s 3) with
    | some (some ip) => some (.ok ip)
    | _ => none
  else none

def showMode : Mode → String
  | .aes128 => "aes128"
  | .pfx => "pfx"

def showIpRes : Res IpErr → String
  | .ok _ => "ok"
  | .err .parse => "err:ip"
  | .err .mode => "err:mode"
  | .err .pfxHalves => "err:pfxhalves"
  | .err (.key m v4) => s!"err:key:{showMode m}:{m.keyLen}:{if v4 then "4" else "6"}"
  | .panic => "panic"

/-- IP primitives whose parser answers `parsed` for the given text (the std parser's answer, sampled
    by the harness and passed along), everything else as in `toyIpPrims`. -/
def ipPrimsWith (parsed : Option Ip) : IpPrims := { toyIpPrims with parseIp := fun _ => parsed }

/-- primitives whose raw CBC decryption answers `raw` (sampled on the real `cbc`/`aes` crates). -/
def primsWithCbcDec (raw : Bytes) : Prims := { toyPrims with cbcDec := fun _ _ _ _ => raw }

def cbcPadOf (alg : Bytes) : Option Pad :=
  match algOfEncrypt (upperModel alg) with
  | some (.cbc _ p) => some p
  | _ => none

def handle (op : String) (args : List String) : Option String :=
  match op, args with
  | "c23.enc", [alg, key, iv, pt] => do
    pure (showResLen (encryptFn toyPrims (← hex alg) (← hex key) (← hex iv) (← hex pt)))
  | "c23.dec", [alg, key, iv, ct] => do
    pure (showResLen (decryptFn toyPrims (← hex alg) (← hex key) (← hex iv) (← hex ct)))
  | "c23.compile", [_fn, alg] => do
    -- both `compile`s call the same `is_valid_algorithm`
    pure (if compileAccepts toyPrims (← hex alg) then "ok" else "compile-error")
  | "c23.upper", [b] => do
    pure (showHex (asciiProjection (upperModel (← hex b))))
  | "c23.pad", [scheme, pt] => do
    pure (showHex (pad (← padOfName scheme) implFill (← hex pt)))
  | "c23.unpad", [scheme, buf] => do
    let buf ← hex buf
    -- `unpad_blocks` is only reached with whole blocks
    if buf.length % 16 ≠ 0 then none
    else pure (match unpadBlocks (← padOfName scheme) buf with
      | some p => "ok:" ++ showHex p
      | none => "err")
  | "c23.ip.enc", [_text, parsed, key, mode] => do
    let parsed ← parseIpObs parsed
    pure (showIpRes (encryptIp (ipPrimsWith parsed) [] (← hex key) (← hex mode)))
  | "c23.ip.dec", [_text, parsed, key, mode] => do
    let parsed ← parseIpObs parsed
    pure (showIpRes (decryptIp (ipPrimsWith parsed) [] (← hex key) (← hex mode)))
  | "o.c23", [alg, key, iv, pt, "|", enc, dec] => do
    let ok := RoundTripObs upperModel (← hex alg) (← hex key) (← hex iv) (← hex pt)
      (← parseRes enc) (← parseRes dec)
    pure (if ok then "holds" else "fails roundtrip:-")
  | "o.c23.pad", [alg, _key, _iv, pt, "|", ctlen, raw] => do
    let alg ← hex alg
    let pt ← hex pt
    let raw ← hex raw
    let n ← ctlen.toNat?
    match algOfEncrypt (upperModel alg) with
    | some (.cbc k p) =>
      pure (if raw == pad p implFill pt && n == ctLen (.cbc k p) pt.length then "holds"
            else "fails pad:-")
    | _ => none
  | "o.c23.unpad", [alg, key, iv, ct, "|", raw, dec] => do
    let raw ← hex raw
    let dec ← parseRes dec
    let model := decryptFn (primsWithCbcDec raw) (← hex alg) (← hex key) (← hex iv) (← hex ct)
    pure (if dec == model then "holds" else "fails unpad:-")
  | "o.c23.garbage", [alg, key, iv, _ct, "|", dec] => do
    let dec ← parseRes dec
    let alg ← hex alg
    let key ← hex key
    let iv ← hex iv
    pure (if NoPanicObs dec then "holds"
          else if D_aead_reject upperModel alg key iv then "fails nopanic:D_aead_reject"
          else "fails nopanic:-")
  | "o.c23.ip", [_text, key, mode, "|", ip, enc, dec] => do
    let key ← hex key
    let mode ← hex mode
    let ip ← parseIpObs ip
    let enc ← parseIpRes enc
    let dec ← parseIpRes dec
    match ip, modeOf mode with
    | some ip, some m =>
      -- only generated for parsable addresses, valid modes and keys of the right size
      let decIp := match dec with | .ok d => some d | _ => none
      pure (if IpRoundTripObs ip decIp then "holds"
        else if D_pfx_equal_halves m key then "fails roundtrip:D_pfx_equal_halves"
        else if D_v4mapped ip then "fails roundtrip:D_v4mapped"
        else match enc with
          | .ok e => if D_pfx_v4form m ip e then "fails roundtrip:D_pfx_v4form" else "fails roundtrip:-"
          | _ => "fails roundtrip:-")
    | _, _ => none
  | _, _ => none

end Driver.C23
