import VrlModel.Wire

/-! Oracles of the stdlib sweep (C04 no panic, C05 prompt termination, bounded output).
    The functions themselves are mostly outside the model: the Spec predicate is evaluated on the
    implementation's observed outcome class; a finding is identified by clause + function name. -/

namespace Driver.Sweep
open Wire

def handle (op : String) (args : List String) : Option String :=
  match op, args with
  | "o.c04.fn", [fname, _src, _event, "|", cls, _detail] =>
    if cls == "panic" then some ("fails panic:" ++ fname)
    else if cls == "abort" then some ("fails abort:" ++ fname)
    else some "holds"
  | "o.c05.fn", [fname, _src, _event, "|", cls, bucket, outSize, inSize] => do
    let o ← outSize.toNat?
    let i ← inSize.toNat?
    if cls == "timeout" || bucket == "timeout" then pure ("fails time:" ++ fname)
    else if bucket == "slow" then pure ("fails slow:" ++ fname)
    -- "grows its output without bound": far beyond anything proportional to the input; a documented cap such
    -- as random_bytes' 64 KiB (131074 characters on the wire) is bounded
    else if o > 2097152 + 256 * i then pure ("fails size:" ++ fname)
    else pure "holds"
  | "o.c14", [_src, _event, _metadata, _seed, "|", sameCompile, sameText, cleared, threads, _status] =>
    -- determinism observed on the implementation
    if sameCompile != "1" then some "fails determinism:compile_twice"
    else if cleared == "0" then some "fails determinism:cleared_runtime"
    else if threads == "0" then some "fails determinism:threads"
    else if sameText != "1" then some "fails determinism:D_diag_hint_order"
    else some "holds"
  | "o.c14.fn", [fname, _src, _eventA, _eventB, "|", same, threads] =>
    -- a compiled program keeps no state from one event to the next (panics are C04's)
    if same == "panic" then some "holds"
    else if same != "1" then some ("fails determinism:state:" ++ fname)
    else if threads != "1" then some ("fails determinism:threads:" ++ fname)
    else some "holds"
  | _, _ => none

end Driver.Sweep
