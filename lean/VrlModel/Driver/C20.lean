import VrlModel.Wire
import VrlModel.C20

namespace Driver.C20
open Wire PathText PathVrl

def textOfHex (h : String) : Option (List Char) := (bytesOfHex h).bind Utf8.decode

def hexOfText (cs : List Char) : String := hexOfBytes (Utf8.encode cs)

def prefixTag : Prefix → String
  | .event => "e"
  | .metadata => "m"

def prefixOfTag (s : String) : Option Prefix :=
  if s == "e" then some .event else if s == "m" then some .metadata else none

def showParsed : C20.Parsed → String
  | .ok none p => "ok " ++ showPath p
  | .ok (some pfx) p => "ok " ++ prefixTag pfx ++ " " ++ showPath p
  | .err => "err"
  | .panic => "panic"

def showVTarget : VTarget → String
  | .path tp => "path " ++ prefixTag tp.pfx ++ " " ++ showPath tp.path
  | .nopath => "nopath"
  | .panic => "panic"

def kindOf (s : String) : Option C20.Kind :=
  if s == "v" then some .value else if s == "e" then some (.target .event)
  else if s == "m" then some (.target .metadata) else none

def segOfString' (s : String) : Option Seg :=
  match pathOfString s with
  | some [x] => some x
  | _ => none

/-- `ok <path>` / `ok <e|m> <path>` / `err` / `panic` as printed by the harness. -/
def parsedOfString (target : Bool) (s : String) : Option C20.Parsed :=
  if s == "err" then some .err
  else if s == "panic" then some .panic
  else if s.startsWith "ok " then
    let r := dropPrefix s 3
    if target then do
      let pfx ← prefixOfTag (String.ofList (r.toList.take 1))
      let p ← pathOfString (dropPrefix r 2)
      pure (.ok (some pfx) p)
    else (pathOfString r).map (.ok none)
  else none

def vtargetOfString (s : String) : Option VTarget :=
  if s == "nopath" then some .nopath
  else if s == "panic" then some .panic
  else if s.startsWith "path " then do
    let r := dropPrefix s 5
    let pfx ← prefixOfTag (String.ofList (r.toList.take 1))
    let p ← pathOfString (dropPrefix r 2)
    pure (.path ⟨pfx, p⟩)
  else none

def tresultOfParsed : C20.Parsed → Option TResult
  | .ok (some pfx) p => some (.ok ⟨pfx, p⟩)
  | .ok none _ => none
  | .err => some .err
  | .panic => some .panic

def handle (op : String) (args : List String) : Option String :=
  match op, args with
  | "c20.render", [k, p] => do
    let k ← kindOf k
    let p ← pathOfString p
    let t ← C20.renderKind k p
    pure (hexOfText t)
  | "c20.seg", [s] => do
    let s ← segOfString' s
    let t ← renderSegment s
    pure (hexOfText t)
  | "c20.parse", [k, t] => do
    let t ← textOfHex t
    if k == "v" then pure (showParsed (C20.parseKind .value t))
    else if k == "t" then pure (showParsed (C20.parseKind (.target .event) t))
    else none
  | "c20.vrl", [t] => do
    let t ← textOfHex t
    pure (showVTarget (vrlPath t))
  | "o.c20", [k, p, "|", _text, reply] => do
    let kind ← kindOf k
    let p ← pathOfString p
    let obs ← parsedOfString (k != "v") reply
    if C20.roundTripHolds kind p obs then pure "holds"
    else match C20.rtClass kind p with
      | .rootValuePath => pure "fails roundtrip:D_root_value_path"
      | .rootMetadata => pure "fails roundtrip:D_root_metadata"
      | .none => pure "fails roundtrip:-"
  | "o.c20.seg", [s, "|", _text, reply] => do
    let s ← segOfString' s
    let obs ← parsedOfString false reply
    if C20.segRoundTripHolds s obs then pure "holds"
    else if C20.segUnescaped s then pure "fails segment:D_segment_display_unescaped"
    else pure "fails segment:-"
  | "o.c20.agree", [t, "|", v, s] => do
    let t ← textOfHex t
    let v ← vtargetOfString v
    let s ← (parsedOfString true s).bind tresultOfParsed
    if C20.agreeHolds v s then pure "holds"
    else if C20.hasTemplate t then pure "fails agree:D_template_field"
    else pure "fails agree:-"
  | _, _ => none

end Driver.C20
