import VrlModel.Search.Wire
import VrlModel.Search.Visitor

/-! Line-protocol handlers of C30 (`c30.*`, `o.c30`) and C31 (`c31.*`, `o.c31`). -/
namespace Driver.SearchOps
open Search Search.Wire

def F : FloatLib := FloatLib.ref

def showParse : ParseOut → String
  | .ok t => "ok\t" ++ showTree t
  | .err => "err"
  | .panic => "panic"
  | .oof => "oof"

def handle (op : String) (args : List String) : Option String :=
  match op, args with
  | "c30.parse", [q] => do
    let q ← strOfHex q
    pure (showParse (parse F q))
  | "c30.lucene", [t] => do
    let t ← treeOfString t
    pure (hexOfStr (t.toLucene F))
  | "c30.f64", [s] => do
    let s ← strOfHex s
    match F.parse s with
    | none => pure "err"
    | some b => pure (_root_.Wire.hex16 b ++ "\t" ++ hexOfStr (F.toText b))
  | _, _ => none

end Driver.SearchOps
