import VrlModel.Search.Wire
import VrlModel.Search.Visitor
import VrlModel.Search.Match
import VrlModel.Search.NF
import VrlModel.Search.MatchSpec

/-! Line-protocol handlers of C30 (`c30.*`, `o.c30`) and C31 (`c31.*`, `o.c31`). -/
namespace Driver.SearchOps
open Search Search.Wire

def F : FloatLib := FloatLib.ref

def showParse : ParseOut → String
  | .ok t => "ok\t" ++ showTree t
  | .err => "err"
  | .panic => "panic"
  | .oof => "oof"

/-- the instance of the third-party primitives the driver runs the model with: reference float
    printing, the reference glob matcher, identity for `from_utf8_lossy` (inputs are checked to be
    valid UTF-8), no timestamps (events containing one are out of the model). -/
def E : Env := Env.ref

def validUtf8 : List Nat → Bool
  | [] => true
  | b :: r =>
    if b < 0x80 then validUtf8 r
    else
      let ba := ByteArray.mk ((b :: r).map (·.toUInt8)).toArray
      (String.fromUTF8? ba).isSome

mutual
  /-- inside the model: no timestamp, every byte string valid UTF-8 -/
  partial def valueInModel : Value → Bool
    | .ts _ => false
    | .bytes b => validUtf8 b
    | .regex b => validUtf8 b
    | .arr a => listInModel a
    | .obj m => mapInModel m
    | _ => true
  partial def listInModel : VList → Bool
    | .nil => true
    | .cons v vs => valueInModel v && listInModel vs
  partial def mapInModel : VMap → Bool
    | .nil => true
    | .cons k v m => validUtf8 k && valueInModel v && mapInModel m
end

mutual
  partial def valueAscii : Value → Bool
    | .bytes b => b.all (· < 128)
    | .regex b => b.all (· < 128)
    | .arr a => listAscii a
    | .obj m => mapAscii m
    | _ => true
  partial def listAscii : VList → Bool
    | .nil => true
    | .cons v vs => valueAscii v && listAscii vs
  partial def mapAscii : VMap → Bool
    | .nil => true
    | .cons k v m => k.all (· < 128) && valueAscii v && mapAscii m
end

def leafUsesWord : Leaf → Bool
  | .term a _ | .quoted a _ | .pfx a _ | .wildcard a _ =>
    (normalizeFields a).any fun f => match f with | .default _ => true | _ => false
  | _ => false

def leafAscii : Leaf → Bool
  | .term _ v | .quoted _ v | .pfx _ v | .wildcard _ v => v.all (·.toNat < 128)
  | _ => true

mutual
  /-- the word-boundary regex is only given a reference for ASCII text -/
  partial def wordsAscii : QNode → Bool
    | .leaf l => !leafUsesWord l || leafAscii l
    | .neg n => wordsAscii n
    | .bool _ ns => wordsAsciiL ns
  partial def wordsAsciiL : QList → Bool
    | .nil => true
    | .cons n ns => wordsAscii n && wordsAsciiL ns
  partial def usesWord : QNode → Bool
    | .leaf l => leafUsesWord l
    | .neg n => usesWord n
    | .bool _ ns => usesWordL ns
  partial def usesWordL : QList → Bool
    | .nil => false
    | .cons n ns => usesWord n || usesWordL ns
end

def showMatch : MatchOut → String
  | .ok true => "true"
  | .ok false => "false"
  | .err => "err"
  | .panic => "panic"

def showPathOut : PathOut → String
  | .ok p => "ok\t" ++ _root_.Wire.showPath p
  | .err => "err"
  | .panic => "panic"

/-- the observed parse of the query: `ok <tree>` | `err` | `panic` -/
def parseObs (s : String) : Option (Option QNode) :=
  if s.startsWith "ok " then (treeOfString (_root_.Wire.dropPrefix s 3)).map some
  else if s == "err" || s == "panic" then some none
  else none

def modelMatch (t : QNode) (ev : Value) : String :=
  if !valueInModel ev then "oom"
  else if usesWord t && !(wordsAscii t && valueAscii ev) then "oom"
  else showMatch (matchQuery E t ev)

def parseBoolObs (s : String) : Option Bool :=
  if s == "true" then some true else if s == "false" then some false else none

partial def parseFm : List String → Option (Spec.Fm × List String)
  | [] => none
  | t :: rest =>
    if t == "a" then some (.atom 0, rest)
    else if t == "b" then some (.atom 1, rest)
    else if t == "c" then some (.atom 2, rest)
    else if t == "!" || t == "!-" then (parseFm rest).map fun (f, r) => (.not f, r)
    else if t == "&" || t == "&&" then do
      let (f, r) ← parseFm rest
      let (g, r') ← parseFm r
      pure (.and f g, r')
    else if t == "|" || t == "||" then do
      let (f, r) ← parseFm rest
      let (g, r') ← parseFm r
      pure (.or f g, r')
    else if t == "j" then do
      let (f, r) ← parseFm rest
      let (g, r') ← parseFm r
      pure (.juxt f g, r')
    else none

/-- compositional oracle on the implementation's observations -/
def skelOracle (fm : Spec.Fm) (ra rb rc rw : String) : String :=
  match parseBoolObs ra, parseBoolObs rb, parseBoolObs rc with
  | some a, some b, some c =>
    let val : Nat → Bool := fun i => if i == 0 then a else if i == 1 then b else c
    match parseBoolObs rw with
    | some w => if w == fm.eval val then "holds" else "fails compose:-"
    | none => "fails compose:-"
  | _, _, _ => "holds"

def leafOracle (t : QNode) (ev : Value) (r : String) : String :=
  if !valueInModel ev then "oom"
  else if usesWord t && !(wordsAscii t && valueAscii ev) then "oom"
  else
    let expected := showMatch (Spec.run E t ev)
    if expected == r then "holds"
    else if Spec.devExistsTags t then "fails leaf:D_exists_tags_never"
    else "fails leaf:-"

/-- observed parse result: `ok <tree>` → some (some t); `err`/`panic` → some none -/
def c30Oracle (p1 p2 : String) : Option String := do
  match ← parseObs p1 with
  | none => pure "holds"                      -- not accepted: nothing to round-trip
  | some t1 =>
    if p2 == p1 then pure "holds"
    else match rootDefect F t1 with
      | some d => pure ("fails roundtrip:" ++ d.name)
      | none => pure "fails roundtrip:-"

/-- a tree in normal form must come back unchanged from the implementation -/
def c30TreeOracle (t : QNode) (p2 : String) : String :=
  if NFRoot F t then
    (if p2 == "ok " ++ showTree t then "holds" else "fails nf:-")
  else "holds"

def handle (op : String) (args : List String) : Option String :=
  match op, args with
  | "c30.parse", [q] => do
    let q ← strOfHex q
    pure (showParse (parse F q))
  | "c30.lucene", [t] => do
    let t ← treeOfString t
    pure (hexOfStr (t.toLucene F))
  | "c30.f64", [s] => do
    let s ← strOfHex s
    match F.parse s with
    | none => pure "err"
    | some b => pure (_root_.Wire.hex16 b ++ "\t" ++ hexOfStr (F.toText b))
  | "o.c30", [_q, "|", p1, _l, p2] => c30Oracle p1 p2
  | "o.c30.tree", [t, "|", _l, p2] => do
    let t ← treeOfString t
    pure (c30TreeOracle t p2)
  | "c30.nf", [t] => do
    let t ← treeOfString t
    pure (match rootDefect F t with | some d => d.name | none => "nf")
  | "c31.match", [_q, ev, "|", tree] => do
    let ev ← _root_.Wire.valueOfString ev
    match ← parseObs tree with
    | none => pure (if tree == "panic" then "panic" else "err")
    | some t => pure (modelMatch t ev)
  | "o.c31", ["skel", f, _qa, _qb, _qc, _ev, "|", ra, rb, rc, rw, _text] => do
    match parseFm (_root_.Wire.tokens f) with
    | some (fm, []) => pure (skelOracle fm ra rb rc rw)
    | _ => none
  | "o.c31", ["range", attr, lo, hi, _li, _ui, _ev, "|", r, l, u] => do
    let attr ← strOfHex attr
    let lo ← strOfHex lo
    let hi ← strOfHex hi
    let star := ['*']
    if lo == star && hi == star then pure "holds"
    else
      let side (txt : Str) (obs : String) : Option (Option Bool) :=
        if txt == star then some none else (parseBoolObs obs).map some
      match parseBoolObs r, side lo l, side hi u with
      | some r, some l, some u =>
        let single := (normalizeFields (if attr.isEmpty then defaultField else attr)).length == 1
        pure (if Spec.rangeIdentity single r l u then "holds" else "fails range:-")
      | _, _, _ => pure "holds"
  | "o.c31", ["leaf", _q, ev, "|", tree, r] => do
    let ev ← _root_.Wire.valueOfString ev
    match ← parseObs tree with
    | none => pure (if r == "err" || r == "panic" then "holds" else "fails leaf:-")
    | some t => pure (leafOracle t ev r)
  | "c31.regex", [kind, pat, text] => do
    let pat ← _root_.Wire.bytesOfHex pat
    let text ← _root_.Wire.bytesOfHex text
    if kind == "w" then pure (if Glob.wild pat text then "true" else "false")
    else if kind == "b" then
      -- word boundaries: the reference is ASCII only
      if (pat ++ text).all (· < 128) then pure (if Glob.word pat text then "true" else "false") else pure "oom"
    else none
  | "c31.path", [t] => do
    let t ← strOfHex t
    pure (showPathOut (parseValuePath t))
  | _, _ => none

end Driver.SearchOps
