import VrlModel.Wire
import VrlModel.ReadOnly

namespace Driver.C15
open Wire ReadOnly

def parseEntry (e : String) : Option RO :=
  match e.splitOn ":" with
  | [head, p] =>
    match head.toList with
    | [t, r] => do
      let m ← if t == 'e' then some false else if t == 'm' then some true else none
      let rec ← if r == 'r' then some true else if r == 'n' then some false else none
      let p ← pathOfString p
      pure ⟨m, p, rec⟩
    | _ => none
  | _ => none

def parseCfg (s : String) : Option (List RO) :=
  if s == "-" then some [] else (s.splitOn " ; ").mapM parseEntry

/-- entries of an access log whose kind letter is in `kinds` (`i` insert, `r` removal): `(isMeta, path)` -/
def entriesOf (kinds : List Char) (log : String) : List (Bool × Path) :=
  if log == "-" then [] else
    (log.splitOn " | ").filterMap fun e =>
      match e.toList with
      | k :: m :: rest =>
        if kinds.contains k then
          let rest := if rest.head? == some '!' then rest.drop 1 else rest
          match rest with
          | ':' :: p => (pathOfString (String.ofList p)).map (m == 'm', ·)
          | _ => none
        else none
      | _ => none

/-- write / removal entries of an access log -/
def writesOf (log : String) : List (Bool × Path) := entriesOf ['i', 'r'] log

def handle (op : String) (args : List String) : Option String :=
  match op, args with
  | "c15.ro", [cfg, m, p] => do
    let cfg ← parseCfg cfg
    let p ← pathOfString p
    pure (if isReadOnly cfg (m == "m") p then "1" else "0")
  | "o.c15", [_src, cfg, _event, _metadata, "|", same, log] => do
    -- Spec: every read-only location holds after the run what it held before.
    let cfg ← parseCfg cfg
    let flags := tokens same
    let writes := writesOf log
    let bad := (cfg.zip flags).find? fun (_, f) => f != "1"
    match bad with
    | none => pure "holds"
    | some (ro, _) =>
      let ws := (writes.filter (·.1 == ro.isMeta)).map (·.2)
      let rs := ((entriesOf ['r'] log).filter (·.1 == ro.isMeta)).map (·.2)
      pure (match classify ro ws rs with
        | .nonrecursiveChild => "fails readonly:D_nonrecursive_child"
        | .negativeIndex => "fails readonly:D_negative_index"
        | .coercion => "fails readonly:D_container_coercion"
        | .removeShift => "fails readonly:D_remove_index_shift"
        | .unknown => "fails readonly:-")
  | _, _ => none

end Driver.C15
