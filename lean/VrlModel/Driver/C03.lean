import VrlModel.Wire
import VrlModel.KindWire
import VrlModel.KindSpec

/-! `o.c03.fn` (harness/src/c03.rs): one stdlib call, the TypeDef kind and `return_kind()` mask the
    real compiler / function report for it, and what the call evaluated to. Spec:
    * the value belongs to the declared result kind (`Spec.memR`, the C19 membership relation);
    * the value's kind is one of the documented return kinds;
    * a call typed infallible (accepted without `!`) never errors;
    * a call with a runtime-typed argument of a wrong type errors or still returns a value of the
      declared type (it never panics: C04).
    Panics / aborts / timeouts are C04's and C05's. A finding is identified by clause + function. -/

namespace Driver.C03
open Wire

def kindBit : Value → Nat
  | .bytes _ => 2 | .int _ => 4 | .float _ => 8 | .bool _ => 16 | .obj _ => 32 | .arr _ => 64
  | .ts _ => 128 | .regex _ => 256 | .null => 512

def handle (op : String) (args : List String) : Option String :=
  match op, args with
  | "o.c03.fn", [fname, _src, _event, "|", kind, mask, bang, wrong, cls, value] => do
    let k ← KindWire.kindOfString kind
    let mask ← mask.toNat?
    if cls == "err" then
      pure (if bang == "0" then "fails infallible_err:" ++ fname else "holds")
    else if cls != "ok" then pure "holds"
    else if value == "-" then pure "oom"            -- value too large to transport
    else
      let v ← valueOfString value
      if !Spec.memR v k then pure ("fails result_type:" ++ fname)
      else if (mask / kindBit v) % 2 == 0 then pure ("fails return_kind:" ++ fname)
      else
        -- a wrong-typed runtime argument (`wrong`) that is tolerated is not "misbehaving" as long as
        -- the value stays inside the declared type (checked above); panics are C04's
        let _ := wrong
        pure "holds"
  | _, _ => none

end Driver.C03
