import VrlModel.Lang.Parse
import VrlModel.Lang.Eval
import VrlModel.Lang.Info

namespace Driver.LangRun
open Wire
open _root_.Lang

def showOutcome : RunOutcome → String
  | .ok v => "ok " ++ showValue v
  | .error => "error"
  | .abort none => "abort -"
  | .abort (some m) => "abort " ++ hexOfBytes m
  | .panic => "panic"
  | .oom => "oom"

def insertSorted (x : String × Value) : List (String × Value) → List (String × Value)
  | [] => [x]
  | y :: ys => if x.1 < y.1 then x :: y :: ys else y :: insertSorted x ys

def showVars (vs : List (String × Value)) : String :=
  let sorted := vs.foldl (fun acc x => insertSorted x acc) []
  "vars" ++ String.join (sorted.map fun (n, v) => " v:" ++ n ++ "=" ++ showValue v ++ ";")

def natList (s : String) : Option (List Nat) :=
  if s == "-" then some [] else (tokens s).mapM String.toNat?

def hexList (s : String) : Option (List (List Nat)) :=
  if s == "-" then some [] else (tokens s).mapM fun t => if t == "e" then some [] else bytesOfHex t

def showAccess (a : Access) : String :=
  (match a.kind with | 0 => "g" | 1 => "i" | _ => "r") ++ (if a.isMeta then "m" else "e")
    ++ (if a.rejected then "!" else "") ++ ":" ++ showPath a.path

def handle (op : String) (args : List String) : Option String :=
  match op, args with
  | "lang.run", [_src, event, metadata, faults, "|", prog, errs] => do
    let prog ← Parse.program prog
    let event ← valueOfString event
    let metadata ← valueOfString metadata
    let faults ← natList faults
    let errs ← hexList errs
    let s0 : St := { vars := [], event, metadata, faults, ops := 0, log := [], errs }
    let (out, s) := run prog s0
    match out with
    | .oom => pure "oom"
    | _ =>
      pure (showOutcome out ++ "\t" ++ showValue s.event ++ "\t" ++ showValue s.metadata ++ "\t" ++
        showVars s.vars ++ "\tlog " ++ " | ".intercalate (s.log.reverse.map showAccess))
  | "o.c16", [_src, _event, _metadata, _faults, "|", prog, implQ, implA, log] => do
    -- (1) the lists the model computes from the compiled tree are contained in the reported ones
    -- (so the theorem `C16.run_covered` speaks about the reported lists); (2) on the observed run:
    -- every read/removal is covered (equal, ancestor or descendant) by a reported query — the root
    -- check of `Runtime::resolve` reads the event root —, every insert by a reported assignment.
    let prog ← Parse.program prog
    let parseList : String → Option (List (Bool × Path)) := fun t =>
      if t == "-" then some [] else
        (t.splitOn " | ").mapM fun e =>
          if e.startsWith "e:" then (pathOfString (dropPrefix e 2)).map (false, ·)
          else if e.startsWith "m:" then (pathOfString (dropPrefix e 2)).map (true, ·)
          else none
    let iq ← parseList implQ
    let ia ← parseList implA
    let isPrefix : Path → Path → Bool := fun a b => a.length ≤ b.length && (b.take a.length == a)
    let covered : List (Bool × Path) → Bool × Path → Bool := fun l x =>
      l.any fun y => y.1 == x.1 && (isPrefix y.2 x.2 || isPrefix x.2 y.2)
    let mq := queriesS prog
    let ma := assignsS prog
    if !(mq.all (iq.contains ·)) then pure "fails info:queries_missing"
    else if !(ma.all (ia.contains ·)) then pure "fails info:assignments_missing"
    else
      let entries := if log == "-" then [] else log.splitOn " | "
      let parseEntry : String → Option (Char × Bool × Path) := fun e =>
        match e.toList with
        | k :: m :: rest =>
          let rest := if rest.head? == some '!' then rest.drop 1 else rest
          match rest with
          | ':' :: p => (pathOfString (String.ofList p)).map (k, m == 'm', ·)
          | _ => none
        | _ => none
      let es ← entries.mapM parseEntry
      let bad := (es.zipIdx).find? fun ((k, m, p), i) =>
        if i == 0 && k == 'g' && !m && p.isEmpty then false     -- root check
        else if k == 'i' then !covered ia (m, p) else !covered iq (m, p)
      match bad with
      | none => pure "holds"
      | some ((k, _, _), _) => pure (if k == 'i' then "fails write_uncovered:-" else "fails read_uncovered:-")
  | "o.c17.nopanic", [tag, _src, _event, _metadata, faults, "|", cls, _nops] =>
    -- Spec on the implementation's observation: no panic under any fault schedule; a rejected root
    -- read (operation 0) ends the run with an error.
    if cls == "panic" then some ("fails nopanic:" ++ tag)
    else if (natList faults).map (·.contains 0) == some true && cls != "error" then some ("fails root_error:" ++ tag)
    else some "holds"
  | _, [_src, event, metadata, faults, "|", prog, errs, o1, o2, o3, o4] =>
    -- Spec oracle: when the run exercises the construct the property is about (a `return`, an
    -- `abort`, a closure call, `??`/`ok, err =`, `||`/`&&`/`if`), the implementation's observed
    -- outcome / event / metadata / variables must be what the semantics proved to satisfy the
    -- property yields.
    if !(op.startsWith "o.c") then none else do
    let prog ← Parse.program prog
    let event ← valueOfString event
    let metadata ← valueOfString metadata
    let faults ← natList faults
    let errs ← hexList errs
    let s0 : St := { vars := [], event, metadata, faults, ops := 0, log := [], errs }
    let (out, s) := run prog s0
    match out with
    | .oom => pure "oom"
    | _ =>
      let relevant : Bool :=
        (op == "o.c06" && s.evRet) || (op == "o.c07" && s.evAbort) || (op == "o.c13" && s.evClosure) ||
        (op == "o.c08" && s.evCatch) || (op == "o.c09" && s.evShort) ||
        (op == "o.c17" && !faults.isEmpty)
      if !relevant then pure "holds"
      else
        let specLine := showOutcome out ++ "\t" ++ showValue s.event ++ "\t" ++ showValue s.metadata ++ "\t" ++
          showVars s.vars
        let obsLine := o1 ++ "\t" ++ o2 ++ "\t" ++ o3 ++ "\t" ++ o4
        if specLine == obsLine then pure "holds" else pure "fails semantics:-"
  | _, _ => none

end Driver.LangRun
