import VrlModel.Wire
import VrlModel.Conversion
import VrlModel.C35

/-!
  Line-protocol handler for C35: `c35.parse`, `c35.convert`, `c35.white`, `o.c35.lower`, `o.c35`, `o.c35.nopanic`,
  `o.c35.reconv`.
  The third-party primitives of the model (`FloatText`, `Chrono`) are instantiated from the
  observations the harness made by calling core/chrono directly (see harness/src/c35.rs).
-/
namespace Driver.C35
open Wire Cnv

def tzOfString (s : String) : Tz := if s == "local" then .local else .named s
def showTz : Tz → String
  | .local => "local"
  | .named n => n

def charsOfHex (h : String) : Option (List Char) := do
  let bs ← bytesOfHex h
  let s ← String.fromUTF8? (ByteArray.mk (bs.map (·.toUInt8)).toArray)
  pure s.toList

def hexOfChars (cs : List Char) : String := hexOfBytes (bytesOfString (String.ofList cs))

def showConv : Conversion → String
  | .bytes => "bytes"
  | .integer => "integer"
  | .float => "float"
  | .boolean => "boolean"
  | .timestamp tz => "timestamp " ++ showTz tz
  | .timestampFmt f tz => "timestampfmt " ++ hexOfChars f ++ " " ++ showTz tz
  | .timestampTzFmt f => "timestamptzfmt " ++ hexOfChars f

def showErr : ConvErr → String
  | .boolParse => "err:bool"
  | .intParse => "err:int"
  | .nanFloat => "err:nan"
  | .floatParse => "err:float"
  | .timestampParse => "err:ts"
  | .autoTimestampParse => "err:autots"

def showResult : ConvResult → String
  | .ok v => "ok " ++ showValue v
  | .err e => showErr e
  | .panic => "panic"

def resultOfString (s : String) : Option ConvResult :=
  if s == "panic" then some .panic
  else if s == "err:bool" then some (.err .boolParse)
  else if s == "err:int" then some (.err .intParse)
  else if s == "err:nan" then some (.err .nanFloat)
  else if s == "err:float" then some (.err .floatParse)
  else if s == "err:ts" then some (.err .timestampParse)
  else if s == "err:autots" then some (.err .autoTimestampParse)
  else if s.startsWith "ok " then (valueOfString (dropPrefix s 3)).map .ok
  else none

/-- `-` or `<secs>.<nanos>` -/
def instOfString (s : String) : Option Inst :=
  match s.splitOn "." with
  | [a, b] => do
    let secs ← a.toInt?
    let n ← b.toNat?
    pure (secs, n)
  | _ => none

abbrev Obs := List (String × String)

def obsOfString (s : String) : Obs :=
  (s.splitOn " ").filterMap fun e =>
    match e.splitOn "=" with
    | [k, v] => some (k, v)
    | _ => none

def Obs.get (o : Obs) (k : String) : Option String := (o.find? (·.1 == k)).map (·.2)

/-- zone table of one successfully parsed (text, format) pair -/
abbrev PTab := List (String × Option Inst)

def ptabOfString (s : String) : PTab :=
  (s.splitOn ",").filterMap fun e =>
    match e.splitOn "~" with
    | [z, r] => some (z, instOfString r)
    | _ => none

def floatText (o : Obs) : FloatText where
  parseF := fun _ => (o.get "F").bind fun r => if r == "-" then none else natOfHexChars r.toList
  showF := fun _ => []

def chrono (o : Obs) : Chrono PTab where
  parse := fun _ fmt =>
    match o.get ("N:" ++ hexOfChars fmt) with
    | none => none
    | some r => if r == "perr" then none else some (ptabOfString r)
  resolveLocal := fun p => ((p.find? (·.1 == "local")).map (·.2)).join
  resolveNamed := fun n p => ((p.find? (·.1 == n)).map (·.2)).join
  parseFromStr := fun _ fmt => (o.get ("Z:" ++ hexOfChars fmt)).bind instOfString
  parseRfc3339 := fun _ => (o.get "R3").bind instOfString
  parseRfc2822 := fun _ => (o.get "R2").bind instOfString

/-- the instants chrono handed out that the conversion under zone `tz` can reach: the zone's column
    of every zone-less entry, and every zone-explicit / RFC entry -/
def obsInstants (o : Obs) (tz : String) : List Inst :=
  o.flatMap fun (k, v) =>
    if k.startsWith "N:" then
      (((ptabOfString v).find? (·.1 == tz)).bind (·.2)).toList
    else (instOfString v).toList

/-- the only non-ASCII characters whose lowercase contains ASCII characters may contain only
    characters outside the alphabet of the boolean words (`c35.lower` reply check). -/
def boolAlphabet : List Nat := (wTrue ++ wYes ++ wFalse ++ wNo)

def lowerSweepOK (reply : String) : Bool :=
  (reply.splitOn " ").all fun e =>
    match e.splitOn ":" with
    | [_, h] => match bytesOfHex h with
      | some bs => bs.all fun b => !boolAlphabet.contains b
      | none => false
    | _ => e == ""

def whiteList : List Nat :=
  (List.range 0x3001).filter fun n => isWhite (Char.ofNat n)

def hexNat (n : Nat) : String := String.ofList (Nat.toDigits 16 n)

/-- class names printed after `fails ` -/
def showRtClass : C35.RtClass → String
  | .none => "rt:-"
  | .zoneAbbrev => "rt:D_zone_abbrev"
  | .literalPercent => "rt:D_literal_percent"

def handle (op : String) (args : List String) : Option String :=
  match op, args with
  | "c35.parse", [name, tz] => do
    let name ← charsOfHex name
    pure (match Conversion.parse name (tzOfString tz) with
      | some c => showConv c
      | none => "err:unknown")
  | "c35.convert", name :: bytes :: tz :: rest => do
    let name ← charsOfHex name
    let bytes ← bytesOfHex bytes
    let o := match rest with
      | ["|", obs] => obsOfString obs
      | _ => []
    pure (match convertNamed (floatText o) (chrono o) name (tzOfString tz) bytes with
      | some r => showResult r
      | none => "err:unknown")
  | "c35.white", [] => some (" ".intercalate (whiteList.map hexNat))
  | "o.c35.lower", ["|", sweep] => some (if lowerSweepOK sweep then "holds" else "fails lower:-")
  | "o.c35", [v, name, tz, _render, "|", _conv, _text, unamb, off, res] => do
    let v ← valueOfString v
    let r ← resultOfString res
    let name ← charsOfHex name
    let off ← off.toInt?
    let conv ← Conversion.parse name (tzOfString tz)
    if C35.roundTripOK v r then pure "holds"
    -- outside the domain of chrono's round-trip law: wall-clock time inside a DST fold (zone-less
    -- formats), or a zone offset with seconds that `%z` cannot print
    else if unamb == "0" || off % 60 != 0 then pure "holds"
    else pure ("fails " ++ showRtClass (C35.rtClass conv))
  | "o.c35.nopanic", [name, bytes, tz, "|", obs, res] => do
    let _ ← charsOfHex name
    let _ ← bytesOfHex bytes
    let r ← resultOfString res
    let o := obsOfString obs
    if C35.noPanic r then pure "holds"
    else
      -- the model has no panicking path (C35.convert_no_panic). A panic of the implementation is
      -- named after the fixed class when chrono handed out (for the configured zone, or from a
      -- zone-explicit parser) an instant in D_leap_offset: a regression of 83f4a4b
      pure (if (obsInstants o tz).any C35.D_leap_offset then "fails nopanic:D_leap_offset"
        else "fails nopanic:-")
  | "o.c35.reconv", [name, _text, tz, "|", v, _inst, _rfc, res, _eq] => do
    let v ← valueOfString v
    let r ← resultOfString res
    let name ← charsOfHex name
    let _ ← Conversion.parse name (tzOfString tz)
    if C35.roundTripOK v r then pure "holds" else pure "fails reconv:-"
  | _, _ => none

end Driver.C35
