import VrlModel.Wire
import VrlModel.C25

/-! Line-protocol handlers of C25: correspondence ops `c25.*` (model of one stdlib function per
    op; absent optional arguments are `-`) and oracle ops `o.c25.*` (Spec predicates of
    VrlModel/C25.lean on the implementation's observations). -/
namespace Driver.C25
open Wire Conv

def showRes : Res Value → String
  | .ok v => "ok\t" ++ showValue v
  | .err => "err"
  | .panic => "panic"

/-- an observation `ok <value>` | `err` | `panic` -/
def resOfString (s : String) : Option (Res Value) :=
  if s == "err" then some .err
  else if s == "panic" then some .panic
  else if s.startsWith "ok " then (valueOfString (dropPrefix s 3)).map .ok
  else none

def optArg (s : String) : Option (Option Value) :=
  if s == "-" then some none else (valueOfString s).map some

def unitOfString (s : String) : Option Time.TUnit :=
  if s == "s" || s == "-" then some .seconds
  else if s == "ms" then some .milliseconds
  else if s == "us" then some .microseconds
  else if s == "ns" then some .nanoseconds
  else none

def keysOfValue : Value → Option (List Key)
  | .arr a => go a
  | _ => none
where
  go : VList → Option (List Key)
    | .nil => some []
    | .cons (.bytes b) rest => (go rest).map (Utf8.lossy b :: ·)
    | .cons _ _ => none

def dot : Value := .bytes [46]

def std6 := Ip.V6Text.std

/-- chrono as observed by the harness on this very case (`-` = not applicable). -/
def chronoOf (valid : String) (zone : String) (text : String) (pFixed pIn : String) : Option Time.Chrono := do
  let txt ← if text == "-" then some (some []) else if text == "panic" then some none else (bytesOfHex text).map some
  let pp : String → Option (Option (Int × Nat)) := fun s =>
    if s == "-" || s == "none" then some none
    else
      match s.splitOn "," with
      | [a, b] => do
        let x ← parseInt a
        let y ← parseInt b
        pure (some (x, y.toNat))
      | _ => none
  let pf ← pp pFixed
  let pi ← pp pIn
  pure {
    validFormat := fun _ => valid == "1"
    tzByName := fun _ => if zone == "named" then some 0 else none
    format := fun _ _ _ => txt
    parseFixed := fun _ _ => pf
    parseIn := fun _ _ _ => pi }

def classFlatten (sep : Key) (m : VMap) : String :=
  if C25.flatOKM sep m then "-"
  else if C25.D_sep_overlapM sep m then "D_sep_overlap"
  else "-"

def verdict (ok : Bool) (cls : String) : String := if ok then "holds" else "fails " ++ cls

def handle (op : String) (args : List String) : Option String :=
  match op, args with
  | "c25.format_int", [n, b] => do
    let n ← valueOfString n
    let b ← optArg b
    pure (showRes (formatInt n (b.getD (.int 10))))
  | "c25.parse_int", [s, b] => do
    let s ← valueOfString s
    let b ← optArg b
    pure (showRes (parseInt s b))
  | "c25.to_entries", [v] => do
    let v ← valueOfString v
    pure (showRes (toEntries v))
  | "c25.from_entries", [v] => do
    let v ← valueOfString v
    pure (showRes (fromEntries v))
  | "c25.flatten", [v, sep, ex] => do
    let v ← valueOfString v
    let sep ← optArg sep
    let ex ← if ex == "-" then some [] else (valueOfString ex).bind keysOfValue
    pure (showRes (Flat.flatten v (sep.getD dot) ex))
  | "c25.unflatten", [v, sep, r] => do
    let v ← valueOfString v
    let sep ← optArg sep
    let r ← optArg r
    pure (showRes (Flat.unflatten v (sep.getD dot) (r.getD (.bool true))))
  | "c25.ip_aton", [v] => do pure (showRes (Ip.ipAton (← valueOfString v)))
  | "c25.ip_ntoa", [v] => do pure (showRes (Ip.ipNtoa (← valueOfString v)))
  | "c25.ip_pton", [v] => do pure (showRes (Ip.ipPton std6 (← valueOfString v)))
  | "c25.ip_ntop", [v] => do pure (showRes (Ip.ipNtop std6 (← valueOfString v)))
  | "c25.ip_to_ipv6", [v] => do pure (showRes (Ip.ipToIpv6 std6 (← valueOfString v)))
  | "c25.ipv6_to_ipv4", [v] => do pure (showRes (Ip.ipv6ToIpv4 std6 (← valueOfString v)))
  | "c25.to_unix", [v, u] => do
    let v ← valueOfString v
    let u ← unitOfString u
    pure (showRes (Time.toUnix u v))
  | "c25.from_unix", [v, u] => do
    let v ← valueOfString v
    let u ← unitOfString u
    pure (showRes (Time.fromUnix u v))
  | "c25.format_ts", [v, fmt, tz, "|", valid, zone, text] => do
    let v ← valueOfString v
    let fmt ← valueOfString fmt
    let tz ← optArg tz
    let c ← chronoOf valid zone text "-" "-"
    pure (showRes (Time.formatTimestamp c v fmt tz))
  | "c25.parse_ts", [v, fmt, tz, "|", zone, pFixed, pIn] => do
    let v ← valueOfString v
    let fmt ← valueOfString fmt
    let tz ← optArg tz
    let c ← chronoOf "1" zone "-" pFixed pIn
    pure (showRes (Time.parseTimestamp c .local v fmt tz))
  -- oracles ------------------------------------------------------------------------------
  | "o.c25.int", [n, b, "|", f, p] => do
    let n ← parseInt n
    let b ← parseInt b
    let f ← resOfString f
    let p ← resOfString p
    let _ := f
    pure (verdict (C25.specInt n b f p) "format_int:-")
  | "o.c25.entries", [o, "|", _there, back] => do
    let o ← valueOfString o
    let back ← resOfString back
    match o with
    | .obj m => pure (verdict (C25.specEntries m back) "entries:-")
    | _ => none
  | "o.c25.flatten", [o, sep, "|", _there, back] => do
    let o ← valueOfString o
    let sep ← bytesOfHex sep
    let back ← resOfString back
    match o with
    | .obj m => pure (verdict (C25.specFlatten sep m back) ("flatten:" ++ classFlatten sep m))
    | _ => none
  | "o.c25.aton", [n, "|", _there, back] => do
    let n ← parseInt n
    let back ← resOfString back
    pure (verdict (C25.specAton n back) "ip_aton:-")
  | "o.c25.ntoa", [s, "|", there, back] => do
    let s ← bytesOfHex s
    let there ← resOfString there
    let back ← resOfString back
    pure (verdict (C25.specNtoa s there back) "ip_ntoa:-")
  | "o.c25.pton", [b, "|", _there, back] => do
    let b ← bytesOfHex b
    let back ← resOfString back
    pure (verdict (C25.specPton b back) "ip_pton:-")
  | "o.c25.mapped", [a, "|", _there, back] => do
    let a ← bytesOfHex a
    let back ← resOfString back
    pure (verdict (C25.specMapped a back) "mapped:-")
  | "o.c25.unix", [t, u, "|", there, back] => do
    let t ← parseInt t
    let u ← unitOfString u
    let there ← resOfString there
    let back ← resOfString back
    pure (verdict (C25.specUnix u t there back) "unix:-")
  | "o.c25.unix_inv", [n, u, "|", there, back] => do
    let n ← parseInt n
    let _u ← unitOfString u
    let there ← resOfString there
    let back ← resOfString back
    pure (verdict (C25.specUnixInv n there back) "unix_inv:-")
  | "o.c25.timestamp", [t, fmt, _tz, "|", _there, back, off] => do
    let t ← parseInt t
    let fmt ← bytesOfHex fmt
    let back ← resOfString back
    let off ← parseInt off
    pure (verdict (C25.specTimestamp t back)
      (if C25.D_negative_epoch_seconds fmt t then "timestamp:D_negative_epoch_seconds"
       else if C25.D_offset_seconds off then "timestamp:D_offset_seconds" else "timestamp:-"))
  | _, _ => none

end Driver.C25
