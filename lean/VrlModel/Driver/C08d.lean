import VrlModel.Wire
import VrlModel.KindWire
import VrlModel.Lang.Default

/-! C08 clause (c): the default stored by a failing infallible assignment.
    `c08.default <kind>`: `Kind::default_value` vs `Lang.defaultValue` (correspondence).
    `o.c08.default <src> <event>`: the real compiler's kind for `.ok` after `.ok, .err = e`, and the
    value `.ok` holds after a run in which `e` failed (`.err` is a string): `Lang.defaultSpec`. -/

namespace Driver.C08d
open Wire

def handle (op : String) (args : List String) : Option String :=
  match op, args with
  | "c08.default", [k] => do
    let k ← KindWire.kindOfString k
    pure (showValue (Lang.defaultValue k))
  | "o.c08.default", [_src, _event, "|", kind, failed, okv] => do
    if failed != "1" then pure "holds" else     -- `e` succeeded: nothing to say about the default
    let T ← KindWire.kindOfString kind
    let v ← valueOfString okv
    pure (if Lang.defaultSpec T v then "holds"
          else if !(decide (v = Lang.defaultValue T)) then "fails default:not_the_default_of_the_type"
          else "fails default:outside_reported_type")
  | _, _ => none

end Driver.C08d
