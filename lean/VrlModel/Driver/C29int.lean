import VrlModel.Wire
import VrlModel.C29int
import VrlModel.Driver.C25

/-! Handlers of the integer/conversion part of C29: `c29.abs`, `c29.mod`, `c29.to_int`,
    `c29.to_string` (reply `unmodelled` where a float/chrono primitive decides) and the oracles
    `o.c29.abs`, `o.c29.mod`, `o.c29.text`. -/
namespace Driver.C29int
open Wire Conv Driver.C25

def showOptRes : Option (Res Value) → String
  | some r => showRes r
  | none => "unmodelled"

def handle (op : String) (args : List String) : Option String :=
  match op, args with
  | "c29.abs", [v] => do pure (showRes (Num.abs (← valueOfString v)))
  | "c29.mod", [a, b] => do pure (showOptRes (Num.mod (← valueOfString a) (← valueOfString b)))
  | "c29.to_int", [v] => do pure (showRes (Num.toInt (← valueOfString v)))
  | "c29.to_string", [v] => do pure (showOptRes (Num.toString (← valueOfString v)))
  | "o.c29.abs", [n, "|", r] => do
    let n ← parseInt n
    let r ← resOfString r
    pure (verdict (C29.specAbs n r) "abs:-")
  | "o.c29.mod", [a, b, "|", r] => do
    let a ← parseInt a
    let b ← parseInt b
    let r ← resOfString r
    pure (verdict (C29.specMod a b r) "mod:-")
  | "o.c29.text", [i, "|", _text, pa, p10, ti] => do
    let i ← parseInt i
    let pa ← resOfString pa
    let p10 ← resOfString p10
    let ti ← resOfString ti
    pure (verdict (C29.specText i pa p10 ti) "text:-")
  | _, _ => none

end Driver.C29int
