import VrlModel.Lang.Parse
import VrlModel.Lang.Type
import VrlModel.Lang.TypeSpec
import VrlModel.KindWire

/-! `c01.typeinfo` (harness/src/tinfo.rs): the model of the compiler's type inference
    (`Lang.typeInfo` / `Lang.constOf`) run on the compiled tree the real compiler dumped, printing
    the same canonical text as the harness prints from the real compiler's `type_info`. -/

namespace Driver.TypeInfo
open Wire
open _root_.Lang

def showTd (t : TypeDef) : String :=
  KindWire.showKind t.kind ++ "\t" ++ (if t.fallible then "1" else "0") ++ "\t" ++ KindWire.showKind t.returns

def showConst : Option Value → String
  | none => "-"
  | some v => showValue v

def insertSorted (x : String × Details) : List (String × Details) → List (String × Details)
  | [] => [x]
  | y :: ys => if x.1 < y.1 then x :: y :: ys else y :: insertSorted x ys

/-- target kind, metadata kind, the variables in name order -/
def showState (T : TState) : String :=
  let sorted := T.locals.foldl (fun acc x => insertSorted x acc) []
  "S\t" ++ KindWire.showKind T.target ++ "\t" ++ KindWire.showKind T.metadata ++ "\t" ++ toString sorted.length ++
    String.join (sorted.map fun (n, d) => "\tv:" ++ n ++ "\t" ++ showTd d.td ++ "\t" ++ showConst d.value)

/-- the root expressions, stepped like `Block::type_info` -/
def showRoots : Exprs → TState → List String
  | .nil, _ => []
  | .cons e es, T =>
    let c := constOf e T
    let a := typeInfo e T
    ("R\t" ++ showTd a.1 ++ "\t" ++ showConst c) :: showState a.2 :: showRoots es a.2

/-- `del!` / `exists!` are not representable in the tree the reader builds (the `!` is dropped) -/
def hasBangQueryFn (dump : String) : Bool :=
  (dump.splitOn "(call del 1 ").length > 1 || (dump.splitOn "(call exists 1 ").length > 1

def handle (op : String) (args : List String) : Option String :=
  match op, args with
  | "c01.typeinfo", [_src, tk, mk, "|", dump] => do
    let prog ← Parse.program dump
    let target ← KindWire.kindOfString tk
    let metadata ← KindWire.kindOfString mk
    let T0 : TState := { target, metadata }
    let fin := typeSeq prog T0 {}
    if fin.2.oom || hasBangQueryFn dump then pure "oom" else
    pure ("\t".intercalate (("roots\t" ++ toString prog.length) :: showRoots prog T0 ++
      [("F\t" ++ showTd fin.1.finish), showState fin.2]))
  -- analysis aid (not part of any check): which side condition of the soundness theorem, if any, a
  -- compiled program fails (`safe` = the theorem applies; `safe+nan` = with float arithmetic)
  | "c01.checks", [_src, tk, mk, "|", dump] => do
    let prog ← Parse.program dump
    let target ← KindWire.kindOfString tk
    let metadata ← KindWire.kindOfString mk
    let T0 : TState := { target, metadata }
    let cs := checksSeq prog T0 {}
    match pickClass cs with
    | some c => pure c.name
    | none => pure (if cs.contains .nan then "safe+nan" else "safe")
  | _, _ => none

end Driver.TypeInfo
