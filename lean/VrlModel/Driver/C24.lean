import VrlModel.Wire
import VrlModel.KeyValue
import VrlModel.Csv

/-!
  Line-protocol handler of C24.

  correspondence ops (reply = canonical result of the model):
    kv.encode      <obj> <kd hex> <fd hex> <flatten 0|1>      → ok <hex> | oom
    kv.logfmt.enc  <obj>                                      → ok <hex> | oom
    kv.parse       <line hex> <kd hex> <fd hex> <s|l> <0|1>    → ok <obj> | err | oom
    kv.logfmt.dec  <line hex>                                 → ok <obj> | err | oom
    csv.encode     <array of byte strings> <delim hex>        → ok <hex> | err
    csv.parse      <hex> <delim hex>                          → ok <array> | err
  oracle ops (reply = `holds` or `fails <clause>:<class>`), observations after `|`:
    o.c24.kv       <obj> <kd hex> <fd hex> | <encoded hex|err> <ok|err> <parsed obj|->
    o.c24.logfmt   <obj>                   | <encoded hex|err> <ok|err> <parsed obj|->
    o.c24.csv      <array> <delim hex>     | <encoded hex|err> <ok|err> <parsed array|->
  `oom` = input outside the model (invalid UTF-8, floats, timestamps).
-/

namespace Driver.C24
open Wire

/-- strict UTF-8 decoding (Lean core). -/
def dec (b : List Nat) : Option (List Char) :=
  (String.fromUTF8? (ByteArray.mk (b.map UInt8.ofNat).toArray)).map String.toList

def enc (s : List Char) : List Nat := bytesOfString (String.ofList s)

def hexChars (s : String) : Option (List Char) := (bytesOfHex s).bind dec

def kvalToValue : KV.KVal → Value
  | .str s => .bytes (enc s)
  | .tru => .bool true
  | .arr xs => .arr (xs.foldr (fun s acc => .cons (.bytes (enc s)) acc) .nil)

def objToValue (m : List (List Char × KV.KVal)) : Value :=
  .obj (m.foldr (fun kv acc => .cons (enc kv.1) (kvalToValue kv.2) acc) .nil)

def showParse : KV.Res (List (List Char × KV.KVal)) → String
  | .ok m => "ok\t" ++ showValue (objToValue m)
  | .err => "err"

/-- a flat object with string values as its entries (key order of the wire form = BTreeMap order). -/
def flatStrings : VMap → Option (List (List Char × List Char))
  | .nil => some []
  | .cons k (.bytes v) m => do
    let k ← dec k
    let v ← dec v
    let r ← flatStrings m
    pure ((k, v) :: r)
  | .cons _ _ _ => none

def bytesList : VList → Option (List (List Nat))
  | .nil => some []
  | .cons (.bytes b) r => (bytesList r).map (b :: ·)
  | .cons _ _ => none

def arrOfBytes (l : List (List Nat)) : Value :=
  .arr (l.foldr (fun b acc => .cons (.bytes b) acc) .nil)

def wsOf (s : String) : Option KV.Whitespace :=
  if s == "s" then some .strict else if s == "l" then some .lenient else none

def boolOf (s : String) : Option Bool :=
  if s == "1" then some true else if s == "0" then some false else none

/-- Spec predicate of C24 (key-value clauses) on the implementation's observations: for a flat
    object whose keys and values are non-empty strings (`C24.flatStr`; key order is given by the wire
    form) the parsed value must be the object itself.  Failures are classified by
    `KV.objectClass`, the classifier whose complement is the hypothesis of `kv_roundtrip_partial`. -/
def kvOracle (kd fd : List Char) (o : List (List Char × List Char)) (st pv : String) : String :=
  if o.any (fun kv => kv.1.isEmpty || kv.2.isEmpty) then "holds"   -- outside the property's domain
  else if st == "ok" && pv == showValue (objToValue (KV.expected o)) then "holds"
  else match KV.objectClass kd fd o with
    | some c => "fails kv:" ++ c.name
    | none => "fails kv:-"

def handle (op : String) (args : List String) : Option String :=
  match op, args with
  | "kv.encode", [v, kd, fd, fb] => do
    let v ← valueOfString v
    let fb ← boolOf fb
    let .obj m := v | none
    match hexChars kd, hexChars fd with
    | some kd, some fd =>
      match KV.encodeValue dec kd fd fb m with
      | some out => pure ("ok\t" ++ hexOfBytes (enc out))
      | none => pure "oom"
    | _, _ => pure "oom"
  | "kv.logfmt.enc", [v] => do
    let v ← valueOfString v
    let .obj m := v | none
    match KV.encodeValue dec ['='] [' '] true m with
    | some out => pure ("ok\t" ++ hexOfBytes (enc out))
    | none => pure "oom"
  | "kv.parse", [s, kd, fd, ws, sk] => do
    let ws ← wsOf ws
    let sk ← boolOf sk
    match hexChars s, hexChars kd, hexChars fd with
    | some s, some kd, some fd =>
      pure (showParse (KV.parseKV { kd := kd, fd := fd, ws := ws, standalone := sk } s))
    | _, _, _ => pure "oom"
  | "kv.logfmt.dec", [s] =>
    match hexChars s with
    | some s => pure (showParse (KV.parseLogfmt s))
    | none => pure "oom"
  | "csv.encode", [v, d] => do
    let v ← valueOfString v
    let .arr xs := v | none
    let fs ← bytesList xs
    let d ← bytesOfHex d
    match d with
    | [d] => pure ("ok\t" ++ hexOfBytes (Csv.encodeCsv d fs))
    | _ => pure (if fs.isEmpty then "ok\t" else "err")
  | "csv.parse", [s, d] => do
    let s ← bytesOfHex s
    let d ← bytesOfHex d
    match d with
    | [d] => pure ("ok\t" ++ showValue (arrOfBytes (Csv.parseCsv d s)))
    | _ => pure "err"
  | "o.c24.kv", [v, kd, fd, "|", _enc, st, pv] => do
    let v ← valueOfString v
    let .obj m := v | none
    let o ← flatStrings m
    let kd ← hexChars kd
    let fd ← hexChars fd
    pure (kvOracle kd fd o st pv)
  | "o.c24.logfmt", [v, "|", _enc, st, pv] => do
    let v ← valueOfString v
    let .obj m := v | none
    let o ← flatStrings m
    pure (kvOracle ['='] [' '] o st pv)
  | "o.c24.csv", [v, d, "|", _enc, st, pv] => do
    let v ← valueOfString v
    let .arr xs := v | none
    let fs ← bytesList xs
    let d ← bytesOfHex d
    let [d] := d | none
    if st == "ok" && pv == showValue (arrOfBytes fs) then pure "holds"
    else match Csv.listClass d fs with
      | some c => pure ("fails csv:" ++ c.name)
      | none => pure "fails csv:-"
  | _, _ => none

end Driver.C24
