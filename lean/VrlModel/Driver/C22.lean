import VrlModel.Wire
import VrlModel.C22

namespace Driver.C22
open Wire Codec

def showOpt : Option (List Nat) → String
  | some b => "ok " ++ hexOfBytes b
  | none => "err"

def showB64 : Base64.DecodeResult → String
  | .ok b => "ok " ++ hexOfBytes b
  | _ => "err"

/-- observation `ok:<hex>` / `err` / `panic` / `-` (decoder not run). -/
def resOfObs (s : String) : Option (Option (Res Bytes)) :=
  if s == "err" then some (some .err)
  else if s == "panic" then some (some .panic)
  else if s == "-" then some none
  else if s.startsWith "ok:" then (bytesOfHex (dropPrefix s 3)).map fun b => some (.ok b)
  else none

def startsWithBytes (p l : List Nat) : Bool := p.isPrefixOf l

/-- encodings whose `output_encoding()` is UTF-8 (encoding_rs / WHATWG "get an encoder"). -/
def utf8OutputEncodings : List String := ["UTF-16LE", "UTF-16BE", "replacement"]

/-- Japanese legacy encodings whose encoder folds several code points onto one byte sequence. -/
def jisEncodings : List String := ["Shift_JIS", "EUC-JP", "ISO-2022-JP"]

/-- does the UTF-8 text contain U+2212 (all three), U+00A5 / U+203E (Shift_JIS, EUC-JP,
    ISO-2022-JP fold them onto `\` and `~`) or a half-width katakana U+FF61..U+FF9F (ISO-2022-JP
    folds them onto full-width)? -/
def hasJisFolded : List Nat → Bool
  | [] => false
  | 0xE2 :: 0x88 :: 0x92 :: _ => true
  | 0xC2 :: 0xA5 :: _ => true
  | 0xE2 :: 0x80 :: 0xBE :: _ => true
  | 0xEF :: 0xBD :: c :: rest => (0xA1 ≤ c && c ≤ 0xBF) || hasJisFolded (c :: rest)
  | 0xEF :: 0xBE :: c :: rest => (0x80 ≤ c && c ≤ 0x9F) || hasJisFolded (c :: rest)
  | _ :: rest => hasJisFolded rest

def isBom (e : List Nat) : Bool :=
  startsWithBytes [0xEF, 0xBB, 0xBF] e || startsWithBytes [0xFF, 0xFE] e || startsWithBytes [0xFE, 0xFF] e

/-- Classification of a charset round-trip failure (all inside encoding_rs, outside the model). -/
def charsetClass (name : String) (text enc : List Nat) : String :=
  if utf8OutputEncodings.contains name then "charset:D_output_encoding_is_utf8"
  else if isBom enc then "charset:D_bom_sniffed"
  else if jisEncodings.contains name && hasJisFolded text then "charset:D_jis_folding"
  else "charset:-"

/-- Spec oracle on the implementation's observations of one `o.c22` case. -/
def oracle (codec opts : String) (b : Bytes) (enc : Res Bytes) (dec : Option (Res Bytes))
    (flags : List String) : String :=
  let holds (d : Option (Res Bytes)) : Bool :=
    match d with
    | some r => decide (C22.RoundTrip b r)
    | none => false
  -- preconditions under which the property quantifies
  let pre : Bool :=
    if codec == "pct" || codec == "pctdefault" then Utf8.isValid b
    else if codec == "charset" then Utf8.isValid b && flags.getD 1 "0" == "1"
    else if codec == "puny" then Utf8.isValid b && flags.getD 0 "0" == "1"
    else if codec == "gzip" || codec == "zlib" then
      -- levels flate2 accepts (level 10 panics inside flate2, > 10 is rejected: C03/C04)
      opts == "-" ||
        (match parseInt opts with
         | some l => (match Gzip.level? l with | some k => decide (k ≤ 9) | none => false)
         | none => false)
    else if codec == "lz4" then
      -- block mode without size prefix needs `buf_size` ≥ length (default 1_000_000)
      match opts.splitOn "/" with
      | ["true", _] => true
      | ["false", "-"] => decide (b.length ≤ 1000000)
      | ["false", n] =>
        (match parseInt n with
         | some n => decide (0 ≤ n ∧ n ≤ 4294967295 ∧ (b.length : Int) ≤ n)
         | none => false)
      | _ => false
    else true
  if !pre then "holds"
  else if holds dec then
    -- laws of the primitives that the theorems assume besides the round trip itself
    if codec == "lz4" && opts.startsWith "false" then
      match enc with
      | .ok e => if Lz4.magic.isPrefixOf e then "fails lz4:block_starts_with_frame_magic" else "holds"
      | _ => "holds"
    else "holds"
  else
    let cls : String :=
      if codec == "pct" then
        match Percent.AsciiSet.ofName opts with
        | some set => if C22.D_percent_literal set b then "percent:D_percent_literal" else "percent:-"
        | none => "percent:-"
      else if codec == "pctdefault" then "percent:-"
      else if codec == "charset" then
        match enc with
        | .ok e => charsetClass (flags.getD 0 "") b e
        | _ => "charset:-"
      else codec ++ ":-"
    "fails " ++ cls

def handle (op : String) (args : List String) : Option String :=
  match op, args with
  | "c22.b16enc", [b] => do
    let b ← bytesOfHex b
    pure ("ok " ++ hexOfBytes (Base16.encode b))
  | "c22.b16dec", [b] => do
    let b ← bytesOfHex b
    pure (showOpt (Base16.decode b))
  | "c22.b64enc", [cs, pad, b] => do
    let cs ← bytesOfHex cs
    let b ← bytesOfHex b
    let pad ← if pad == "1" then some true else if pad == "0" then some false else none
    pure (showOpt (Base64.encode b pad cs))
  | "c22.b64dec", [cs, b] => do
    let cs ← bytesOfHex cs
    let b ← bytesOfHex b
    pure (showB64 (Base64.decode b cs))
  | "c22.pctenc", [set, b] => do
    let set ← Percent.AsciiSet.ofName set
    let b ← bytesOfHex b
    pure ("ok " ++ hexOfBytes (Percent.encode set b))
  | "c22.pctdec", [b] => do
    let b ← bytesOfHex b
    pure ("ok " ++ hexOfBytes (Percent.decode b))
  | "c22.level", [codec, level] => do
    let l ← parseInt level
    let r ←
      if codec == "gzip" then some (Gzip.level? l)
      else if codec == "zlib" then some (Zlib.level? l)
      else none
    pure (match r with | none => "err" | some _ => "run")
  | "c22.charset.panics", [b] => do
    let b ← bytesOfHex b
    pure (if Utf8.lossy b ≠ b then "panic" else "nopanic")
  | "o.c22", codec :: opts :: b :: "|" :: enc :: dec :: flags => do
    let b ← bytesOfHex b
    let enc ← resOfObs enc
    let enc ← enc
    let dec ← resOfObs dec
    pure (oracle codec opts b enc dec flags)
  | "o.c22.lz4len", [len, "|", _head, outcome] => do
    let n ← len.toNat?
    pure (if outcome == "same" then "holds"
          else if C22.D_lz4_size_is_magic n then "fails lz4:D_size_is_frame_magic"
          else "fails lz4:-")
  | _, _ => none

end Driver.C22
