import VrlModel.Wire
import VrlModel.C22

namespace Driver.C22
open Wire Codec

def showOpt : Option (List Nat) → String
  | some b => "ok " ++ hexOfBytes b
  | none => "err"

def showB64 : Base64.DecodeResult → String
  | .ok b => "ok " ++ hexOfBytes b
  | _ => "err"

/-- observation `ok:<hex>` / `err` / `panic` / `-` (decoder not run). -/
def resOfObs (s : String) : Option (Option (Res Bytes)) :=
  if s == "err" then some (some .err)
  else if s == "panic" then some (some .panic)
  else if s == "-" then some none
  else if s.startsWith "ok:" then (bytesOfHex (dropPrefix s 3)).map fun b => some (.ok b)
  else none

def startsWithBytes (p l : List Nat) : Bool := p.isPrefixOf l

/-- encodings whose `output_encoding()` is UTF-8 (encoding_rs / WHATWG "get an encoder"). -/
def utf8OutputEncodings : List String := ["UTF-16LE", "UTF-16BE", "replacement"]

/-- code points of well-formed UTF-8 (classification only; ill-formed tails are dropped). -/
partial def codepoints : List Nat → List Nat
  | [] => []
  | b :: rest =>
    if b < 0x80 then b :: codepoints rest
    else if b < 0xE0 then
      match rest with
      | c :: r => (b % 32 * 64 + c % 64) :: codepoints r
      | _ => []
    else if b < 0xF0 then
      match rest with
      | c :: d :: r => (b % 16 * 4096 + c % 64 * 64 + d % 64) :: codepoints r
      | _ => []
    else
      match rest with
      | c :: d :: e :: r => (b % 8 * 262144 + c % 64 * 4096 + d % 64 * 64 + e % 64) :: codepoints r
      | _ => []

/-- code points the WHATWG encoders of the Japanese legacy encodings fold onto another character:
    U+2212 → U+FF0D (all three); U+00A5 → `\`, U+203E → `~` (Shift_JIS, EUC-JP);
    half-width katakana U+FF61..U+FF9F → full-width (ISO-2022-JP). -/
def jisFolded (name : String) (cp : Nat) : Bool :=
  if name == "ISO-2022-JP" then cp == 0x2212 || (0xFF61 ≤ cp && cp ≤ 0xFF9F)
  else if name == "Shift_JIS" || name == "EUC-JP" then cp == 0x2212 || cp == 0xA5 || cp == 0x203E
  else false

/-- private-use code points that the GBK / gb18030 encoder (gb18030-2022 tables) still encodes
    but whose bytes now decode to the newly assigned non-PUA characters. -/
def gbPua : List Nat :=
  [0xE78D, 0xE78E, 0xE78F, 0xE790, 0xE791, 0xE792, 0xE793, 0xE794, 0xE795, 0xE796,
   0xE81E, 0xE826, 0xE82B, 0xE82C, 0xE832, 0xE843, 0xE854, 0xE864]

def gbFolded (name : String) (cp : Nat) : Bool :=
  (name == "GBK" || name == "gb18030") && gbPua.contains cp

def isBom (e : List Nat) : Bool :=
  startsWithBytes [0xEF, 0xBB, 0xBF] e || startsWithBytes [0xFF, 0xFE] e || startsWithBytes [0xFE, 0xFF] e

/-- Classification of a charset round-trip failure (all inside encoding_rs, outside the model). -/
def charsetClass (name : String) (text enc : List Nat) : String :=
  let cps := codepoints text
  if utf8OutputEncodings.contains name then "charset:D_output_encoding_is_utf8"
  else if isBom enc then "charset:D_bom_sniffed"
  else if cps.any (jisFolded name) then "charset:D_jis_folding"
  else if cps.any (gbFolded name) then "charset:D_gb18030_pua"
  else "charset:-"

def hexList (s : String) : Option (List Nat) :=
  if s == "-" then some [] else (s.splitOn ",").mapM fun t => natOfHexChars t.toList

/-- oracle of an exhaustive sweep: every failing scalar must be in a listed class. -/
def sweepOracle (name : String) (bad ctx : List Nat) : String :=
  if !ctx.isEmpty then "fails charset:context-dependent"
  else if bad.isEmpty then "holds"
  else if bad.all (jisFolded name) then "fails charset:D_jis_folding"
  else if bad.all (gbFolded name) then "fails charset:D_gb18030_pua"
  else "fails charset:-"

/-- Spec oracle on the implementation's observations of one `o.c22` case. -/
def oracle (codec opts : String) (b : Bytes) (enc : Res Bytes) (dec : Option (Res Bytes))
    (flags : List String) : String :=
  let holds (d : Option (Res Bytes)) : Bool :=
    match d with
    | some r => decide (C22.RoundTrip b r)
    | none => false
  -- preconditions under which the property quantifies
  let pre : Bool :=
    if codec == "pct" || codec == "pctdefault" then Utf8.isValid b
    else if codec == "charset" then Utf8.isValid b && flags.getD 1 "0" == "1"
    else if codec == "puny" then Utf8.isValid b && flags.getD 0 "0" == "1"
    else if codec == "gzip" || codec == "zlib" then
      -- levels flate2 accepts (level 10 panics inside flate2, > 10 is rejected: C03/C04)
      opts == "-" ||
        (match parseInt opts with
         | some l => (match Gzip.level? l with | some k => decide (k ≤ 9) | none => false)
         | none => false)
    else if codec == "lz4" then
      -- block mode without size prefix needs `buf_size` ≥ length (default 1_000_000)
      match opts.splitOn "/" with
      | ["true", _] => true
      | ["false", "-"] => decide (b.length ≤ 1000000)
      | ["false", n] =>
        (match parseInt n with
         | some n => decide (0 ≤ n ∧ n ≤ 4294967295 ∧ (b.length : Int) ≤ n)
         | none => false)
      | _ => false
    else true
  if !pre then "holds"
  else if holds dec then
    -- laws of the primitives that the theorems assume besides the round trip itself
    if codec == "lz4" && opts.startsWith "false" then
      match enc with
      | .ok e => if Lz4.magic.isPrefixOf e then "fails lz4:block_starts_with_frame_magic" else "holds"
      | _ => "holds"
    else "holds"
  else
    let cls : String :=
      if codec == "pct" then
        match Percent.AsciiSet.ofName opts with
        | some set => if C22.D_percent_literal set b then "percent:D_percent_literal" else "percent:-"
        | none => "percent:-"
      else if codec == "pctdefault" then "percent:-"
      else if codec == "charset" then
        match enc with
        | .ok e => charsetClass (flags.getD 0 "") b e
        | _ => "charset:-"
      else codec ++ ":-"
    "fails " ++ cls

def handle (op : String) (args : List String) : Option String :=
  match op, args with
  | "c22.b16enc", [b] => do
    let b ← bytesOfHex b
    pure ("ok " ++ hexOfBytes (Base16.encode b))
  | "c22.b16dec", [b] => do
    let b ← bytesOfHex b
    pure (showOpt (Base16.decode b))
  | "c22.b64enc", [cs, pad, b] => do
    let cs ← bytesOfHex cs
    let b ← bytesOfHex b
    let pad ← if pad == "1" then some true else if pad == "0" then some false else none
    pure (showOpt (Base64.encode b pad cs))
  | "c22.b64dec", [cs, b] => do
    let cs ← bytesOfHex cs
    let b ← bytesOfHex b
    pure (showB64 (Base64.decode b cs))
  | "c22.pctenc", [set, b] => do
    let set ← Percent.AsciiSet.ofName set
    let b ← bytesOfHex b
    pure ("ok " ++ hexOfBytes (Percent.encode set b))
  | "c22.pctdec", [b] => do
    let b ← bytesOfHex b
    pure ("ok " ++ hexOfBytes (Percent.decode b))
  | "c22.level", [codec, level] => do
    let l ← parseInt level
    let r ←
      if codec == "gzip" then some (Gzip.level? l)
      else if codec == "zlib" then some (Zlib.level? l)
      else none
    pure (match r with | none => "err" | some _ => "run")
  | "c22.charset.panics", [b] => do
    let b ← bytesOfHex b
    -- `Charset.encodeCharset` with the label "utf-8" (always known): ill-formed UTF-8 is an error
    -- (it was an `unwrap` panic before /repo e4ac0e1), anything else encodes
    pure (if Utf8.lossy b ≠ b then "err" else "ok")
  | "o.c22", codec :: opts :: b :: "|" :: enc :: dec :: flags => do
    let b ← bytesOfHex b
    let enc ← resOfObs enc
    let enc ← enc
    let dec ← resOfObs dec
    pure (oracle codec opts b enc dec flags)
  | "o.c22.lz4len", [len, "|", _head, outcome] => do
    let n ← len.toNat?
    pure (if outcome == "same" then "holds"
          else if C22.D_lz4_size_is_magic n then "fails lz4:D_size_is_frame_magic"
          else "fails lz4:-")
  | "o.c22.sweep", [_label, _lo, _hi, "|", name, _tested, bad, ctx] => do
    let bad ← hexList bad
    let ctx ← hexList ctx
    pure (sweepOracle name bad ctx)
  | _, _ => none

end Driver.C22
