import VrlModel.Wire
import VrlModel.Tz
import VrlModel.Driver.C35

/-!
  Line-protocol handler for C36:
  `o.c36 <tag> <mode> <hex source> <event> <tzA> <tzB> | <called functions, comma separated> <deterministic> <equal>`
      the DRIVER decides from `TzModel.tzReaders` whether the program is zone-sensitive;
  `c36.parse_timestamp <hex value> <hex format> <timezone arg or -> <ctx tz> | <chrono observations>`
      correspondence of the stdlib glue of `parse_timestamp` with `TzModel.parseTimestampFn`.
  `c36.readers` the list itself (compared with the harness' own grep-derived expectation).
-/
namespace Driver.C36
open Wire TzModel

def firstNonReader (calls : List String) (tag : String) : String :=
  match calls.filter (fun f => !isTzReader f) with
  | _ => tag

def handle (op : String) (args : List String) : Option String :=
  match op, args with
  | "o.c36", [tag, mode, _src, _event, _tzA, _tzB, "|", calls, det, equal] =>
    let calls := (calls.splitOn ",").filter (· ≠ "")
    some (match verdict mode calls (det == "1") (equal == "1") with
      | .holds => "holds"
      | .skippedNondeterministic => "holds"
      | .failsTz => "fails tz:" ++ firstNonReader calls tag
      | .failsExplicit => "fails tzexplicit:" ++ tag
      | .failsNotSensitive => "fails tznotsensitive:" ++ tag)
  | "c36.parse_timestamp", value :: format :: tzarg :: ctx :: rest => do
    let value ← bytesOfHex value
    let format ← Driver.C35.charsOfHex format
    let o := match rest with
      | ["|", obs] => Driver.C35.obsOfString obs
      | _ => []
    -- an unparsable `timezone:` argument is an error before any conversion (observed: `TZ=bad`)
    if o.get "TZ" == some "bad" then pure "error"
    else
      let tzArg := if tzarg == "-" then none else if tzarg == "" then some .local else some (Driver.C35.tzOfString tzarg)
      pure (match parseTimestampFn (Driver.C35.floatText o) (Driver.C35.chrono o) (Driver.C35.tzOfString ctx)
          value format tzArg with
        | .ok v => "ok " ++ showValue v
        | .err _ => "error"
        | .panic => "panic")
  | "c36.readers", [] => some (",".intercalate (tzReaderNames.mergeSort (fun a b => decide (a ≤ b))))
  | _, _ => none

end Driver.C36
