import VrlModel.Wire
import VrlModel.ProtoWire
import VrlModel.ProtoSpec

/-! Line-protocol handler of C26 (protobuf round trip).  The root message of a pool text is index 0. -/
namespace Driver.C26
open Wire Proto ProtoWire

/-- the driver has no model of float parsing/printing and timestamp printing: cases that reach
    them are answered `oom` (see `needsPrims`) -/
def noPrims : Prims := { parseF64 := fun _ => none, parseF32 := fun _ => none, fmtF64 := fun _ => [], fmtTs := fun _ => [] }

mutual
  /-- does converting `x` for field `f` reach one of the `Prims`? -/
  partial def needsPrims (pool : Pool) : Field → Value → Bool
    | ⟨_, _, k, .repeated⟩, .arr a => needsPrimsList pool k a
    | ⟨_, _, _, _⟩, .arr _ => false
    | ⟨_, _, k, .map _⟩, .obj m => needsPrimsEntries pool k m
    | ⟨_, _, _, .map _⟩, _ => false
    | ⟨_, _, .message r, _⟩, .obj m =>
      match pool.msg r with
      | some md => md.fields.any fun f =>
          match m.get f.name with
          | some x => needsPrims pool f x
          | none => false
      | none => false
    | ⟨_, _, .scalar .double, _⟩, .bytes _ => true
    | ⟨_, _, .scalar .float, _⟩, .bytes _ => true
    | ⟨_, _, .scalar .string, _⟩, .float _ => true
    | ⟨_, _, .scalar .string, _⟩, .ts _ => true
    | _, _ => false
  partial def needsPrimsList (pool : Pool) : Kind → VList → Bool
    | _, .nil => false
    | k, .cons x xs => needsPrims pool (Field.plain k) x || needsPrimsList pool k xs
  partial def needsPrimsEntries (pool : Pool) : Kind → VMap → Bool
    | _, .nil => false
    | k, .cons _ x rest => needsPrims pool (Field.plain k) x || needsPrimsEntries pool k rest
end

def rootField : Field := ⟨[], 0, .message 0, .optional⟩

def roundTrip (pool : Pool) (v : Value) : String :=
  match fromValue noPrims true pool 0 v with
  | none => "err"
  | some fs =>
    let fs' := match pool.msg 0 with
      | some md => normFields pool true md.fields fs
      | none => fs
    match toValueMsg pool 0 fs' with
    | none => "perr"
    | some x => "ok " ++ showValue x

/-- Spec oracle: `acc` = did `encode_proto` accept the value, `res` = what `parse_proto` made of
    the payload.  The predicate of the theorems: a shaped value is accepted and comes back as
    `dropDefaults`; anything else that is accepted and comes back different is classified by its
    first defect. -/
def oracle (pool : Pool) (v : Value) (acc : String) (res : String) : String :=
  if !pool.Ok then "fails desc:-"
  else
    let shaped := Shaped pool 0 v
    let cls := match defectMsg pool 0 v with
      | some d => d.name
      | none => "-"
    if acc == "err" then (if shaped then "fails accept:-" else "holds")
    else if res == "ok " ++ showValue (dropDefaultsMsg pool 0 v) then "holds"
    else "fails rt:" ++ cls

def handle (op : String) (args : List String) : Option String :=
  match op, args with
  | "c26.rt", [_, p, v] => do
    let pool ← poolOfString p
    let v ← valueOfString v
    if needsPrims pool rootField v then pure "oom" else pure (roundTrip pool v)
  | "c26.pv", [_, p, v] => do
    let pool ← poolOfString p
    let v ← valueOfString v
    if needsPrims pool rootField v then pure "oom"
    else
      match fromValue noPrims true pool 0 v with
      | none => pure "err"
      | some fs => pure ("ok " ++ showPV (normalize pool false (.message 0 fs)))
  | "c26.pvs", [_, p, v] => do
    let pool ← poolOfString p
    let v ← valueOfString v
    if needsPrims pool rootField v then pure "oom"
    else
      match fromValue noPrims false pool 0 v with
      | none => pure "err"
      | some fs => pure ("ok " ++ showPV (normalize pool false (.message 0 fs)))
  | "c26.parse", [_, p, pv] => do
    let pool ← poolOfString p
    let pv ← pvOfString pv
    match toValue pool none pv with
    | none => pure "perr"
    | some x => pure ("ok " ++ showValue x)
  | "o.c26", [_, p, v, "|", acc, res] => do
    let pool ← poolOfString p
    let v ← valueOfString v
    pure (oracle pool v acc res)
  | "o.c26.wire", [_, p, _, "|", before, after] => do
    let pool ← poolOfString p
    let b ← pvOfString before
    let a ← pvOfString after
    pure (if showPV (normalize pool true b) == showPV a then "holds" else "fails wire_law:-")
  | "f32.of_f64", [b] => do
    let b ← natOfHexChars b.toList
    pure (hex8 (F32.ofF64 b))
  | "f32.to_f64", [b] => do
    let b ← natOfHexChars b.toList
    pure (hex16 (F32.toF64 b))
  | "f32.of_int", [i] => do
    let i ← parseInt i
    pure (hex8 (F32.ofInt i))
  | _, _ => none

end Driver.C26
