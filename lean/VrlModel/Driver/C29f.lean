import VrlModel.Wire
import VrlModel.Round
import VrlModel.Driver.C28

/-! Line-protocol handlers of the float part of C29: `c29f.*`, `o.c29f`, `o.c29f.conv`. -/
namespace Driver.C29f
open Wire Str Round
open Driver.C28 (showR optArg replyOf hexNat)

def modeOf (s : String) : Option Mode :=
  if s == "round" then some .round else if s == "ceil" then some .ceil
  else if s == "floor" then some .floor else if s == "trunc" then some .trunc else none

def floatOfR : R Value → Option Nat
  | .ok (.float b) => some b
  | _ => none

def clsName : Cls → String
  | .overflowMult => "D_overflow_mult"
  | .underflowMult => "D_underflow_mult"
  | .productRounding => "D_product_rounding"
  | .none => "-"

/-- the observed `parse::<f64>` result as the model's parameter -/
def parseOf (s : String) : Option (List Nat → Option Nat) :=
  if s == "err" || s == "-" then some (fun _ => none)
  else (hexNat s).map fun b => fun _ => some b

def handle (op : String) (args : List String) : Option String :=
  match op, args with
  | "c29f.rint", [m, b] => do
    let m ← modeOf m; let b ← hexNat b
    pure (if F64.isNaN b then "nan" else hex16 (rint m b))
  | "c29f.to_float", [v, "|", p] => do
    let v ← valueOfString v; let p ← parseOf p
    pure (showR (toFloat p v))
  | "c29f.parse_float", [v, "|", p] => do
    let v ← valueOfString v; let p ← parseOf p
    pure (showR (parseFloat p v))
  | "o.c29f", [x, p, "|", r, c, f, m10] => do
    let x ← valueOfString x; let p ← optArg p
    let r ← replyOf r; let c ← replyOf c; let f ← replyOf f; let m10 ← hexNat m10
    match x, p.getD (.int 0), floatOfR r, floatOfR c, floatOfR f with
    | .float x, .int p, some r, some c, some f =>
      if spec x p ⟨r, c, f⟩ then pure "holds"
      else pure ("fails round:" ++ clsName (classify x p m10))
    | _, _, _, _, _ => none
  | "o.c29f.conv", [v, "|", tf, pf, _ts, backP, backT] => do
    let v ← valueOfString v
    let tf ← replyOf tf; let pf ← replyOf pf
    match v with
    | .bytes _ => pure (if tf == pf then "holds" else "fails conv:-")
    | .float b => do
      -- a float printed by to_string parses back to itself through both functions
      let bp ← replyOf backP; let bt ← replyOf backT
      pure (if tf == .ok (.float b) && bp == .ok (.float b) && bt == .ok (.float b) then "holds" else "fails conv:-")
    | _ => pure "holds"
  | _, _ =>
    let f := if op == "c29f.round" then some Mode.round else if op == "c29f.ceil" then some Mode.ceil
      else if op == "c29f.floor" then some Mode.floor else none
    match f, args with
    | some mode, [x, p, "|", m10] => do
      let x ← valueOfString x; let p ← optArg p
      let m10 := (hexNat m10).getD 0
      pure (showR (roundFn mode (fun _ => m10) x p))
    | _, _ => none

end Driver.C29f
