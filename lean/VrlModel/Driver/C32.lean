import VrlModel.Wire
import VrlModel.Grok
import VrlModel.GrokRegex
import VrlModel.C32

/-!
  Line-protocol handlers of C32 (grok rules).

    rule, alias names/definitions, inputs : hex of the UTF-8 text (`-` = empty)
    aliases : `<hexname>:<hexdef>` separated by single spaces (`-` = none)

  The model is instantiated with the reference engine `Rx.refEngine`, with the primitives below
  (decimal → binary64 by exact rational rounding, ASCII case mapping) and with the few entries of the
  built-in pattern library the generator uses.
-/
namespace Driver.C32
open Grok

def strOfHex (h : String) : Option Str :=
  if h == "-" then some [] else do
    let bs ← Wire.bytesOfHex h
    let ba := ByteArray.mk (bs.map (·.toUInt8)).toArray
    let s ← String.fromUTF8? ba
    pure s.toList

def hexOfStr (s : Str) : String :=
  if s.isEmpty then "-" else Wire.hexOfBytes (utf8 s)

def aliasesOfString (a : String) : Option (List (Str × Str)) :=
  if a == "-" then some [] else
    (a.splitOn " ").mapM fun item =>
      match item.splitOn ":" with
      | [k, v] => do pure ((← strOfHex k), (← strOfHex v))
      | _ => none

/-! ### primitives -/

/-- `num / den` (exact rational, `num > 0`) rounded to the nearest binary64 magnitude. -/
def roundRat (num den : Nat) : Nat :=
  let s := Nat.log2 den + 1 + 1200
  let n := num * 2 ^ s
  let q := n / den
  let sticky := if n % den = 0 then 0 else 1
  F64.roundMag (2 * q + sticky) (-(s : Int) - 1)

def lowerAscii (s : Str) : Str := s.map Char.toLower

/-- Rust `f64::from_str`: `[+-]? (inf|infinity|nan | digits [. digits?] | . digits) ([eE][+-]?digits)?`. -/
def parseF64 (s : Str) : Option (Option Nat) :=
  let (neg, r) := match s with
    | '-' :: r => (true, r)
    | '+' :: r => (false, r)
    | r => (false, r)
  let sgn (m : Nat) : Nat := F64.withSign neg m
  let low := lowerAscii r
  if low = "inf".toList || low = "infinity".toList then some (some (sgn F64.infBits))
  else if low = "nan".toList then some (some (F64.infBits + 1))     -- some NaN pattern
  else
    let ip := r.takeWhile isDigit
    let r1 := r.dropWhile isDigit
    let (fp, r2) := match r1 with
      | '.' :: r' => (r'.takeWhile isDigit, r'.dropWhile isDigit)
      | _ => ([], r1)
    if ip.isEmpty && fp.isEmpty then some none
    else
      let expo : Option Int := match r2 with
        | [] => some 0
        | e :: r3 =>
          if e = 'e' || e = 'E' then
            let (eneg, ds) := match r3 with
              | '-' :: d => (true, d)
              | '+' :: d => (false, d)
              | d => (false, d)
            if isAsciiDigits ds then some (if eneg then -(natOfDigits ds : Int) else natOfDigits ds) else none
          else none
      match expo with
      | none => some none
      | some e =>
        if e.natAbs > 5000 then none
        else
          let m := natOfDigits (ip ++ fp)
          let e10 : Int := e - fp.length
          if m = 0 then some (some (sgn 0))
          else if e10 ≥ 0 then some (some (sgn (F64.roundMag (m * 10 ^ e10.toNat) 0)))
          else some (some (sgn (roundRat m (10 ^ (-e10).toNat))))

def asciiOnly (s : Str) : Bool := s.all (fun c => c.toNat < 128)

def prims : Prims where
  parseF64 := parseF64
  lower := fun s => if asciiOnly s then some (s.map Char.toLower) else none
  upper := fun s => if asciiOnly s then some (s.map Char.toUpper) else none

/-- the entries of `patterns/core.pattern` the generator refers to (data). -/
def lib : List (Str × Str) := [
  ("numberStr".toList, "[+-]?(?>\\d+(?:\\.(?:\\d*)?)?|\\.\\d+)".toList),
  ("numberExtStr".toList, "[+-]?(?>\\d+(?:\\.(?:\\d*)?)?|\\.\\d+)(?:[eE][+-]?\\d+)?".toList),
  ("integerStr".toList, "[+-]?\\d+".toList),
  ("integerExtStr".toList, "[+-]?\\d+(?:[eE][+-]?\\d+)?".toList),
  ("word".toList, "\\b\\w+\\b".toList),
  ("notSpace".toList, "\\S+".toList),
  ("data".toList, ".*?".toList),
  ("greedyData".toList, ".*".toList),
  ("space".toList, "\\s+".toList)
]

/-! ### canonical replies -/

def showErr : Err → String
  | .circular n => "err:circular:" ++ hexOfStr n
  | .unknownFilter => "err:filter"
  | .invalidArgs => "err:args"
  | .syntax => "err:syntax"
  | .undef => "err:undef"
  | .regex => "err:regex"

def showFilter : Filter → String
  | .integer => "int"
  | .integerExt => "intext"
  | .number => "num"
  | .numberExt => "numext"
  | .nullIf s => "nullif:" ++ hexOfStr s
  | .scale b => "scale:" ++ Wire.hex16 b
  | .lowercase => "lower"
  | .uppercase => "upper"
  | .boolean => "bool"
  | .other n => "other:" ++ String.ofList n

def showPathS (p : List Str) : String :=
  if p.isEmpty then "-" else ".".intercalate (p.map hexOfStr)

def showField (nf : Nat × Field) : String :=
  toString nf.1 ++ "=" ++ showPathS nf.2.path ++ "="
    ++ (if nf.2.filters.isEmpty then "-" else ",".intercalate (nf.2.filters.map showFilter))

def insertByKey (x : Nat × Field) : List (Nat × Field) → List (Nat × Field)
  | [] => [x]
  | y :: ys => if x.1 ≤ y.1 then x :: y :: ys else y :: insertByKey x ys

def showFields (fs : List (Nat × Field)) : String :=
  if fs.isEmpty then "-" else ";".intercalate ((fs.foldr insertByKey []).map showField)

def showOut {α : Type} (f : α → String) : Out α → String
  | .ok a => f a
  | .err e => showErr e
  | .panic => "panic"
  | .oom => "oom"
  | .fuel => "fuel"

def compile (rule : Str) (aliases : List (Str × Str)) : Out (Rule Rx.refEngine) :=
  compileRule prims Rx.refEngine lib aliases rule

/-- the reference gives `\d \w \s \b` an ASCII meaning only. -/
def declines (r : Rule Rx.refEngine) (input : Str) : Bool :=
  Rx.usesClasses r.rx && !asciiOnly input

def showMatch : MatchRes → String
  | .noMatch => "nomatch"
  | .matched v n => "ok\t" ++ Wire.showValue v ++ "\t" ++ toString n

def matchRule (rule : Str) (aliases : List (Str × Str)) (input : Str) : Out MatchRes := do
  let rules ← compileRules prims Rx.refEngine lib aliases [rule]
  if rules.any (declines · input) then .oom
  else parseGrok prims Rx.refEngine input rules

/-! ### oracle ops: the Spec predicates of VrlModel/C32.lean on the implementation's observations

    items : `L:<hex>` literal text (escaped with `esc` in the rule, raw in the input)
            `T:<hex>` verbatim regular-expression text
            `P:<name>:<dest|->:<filter|->:<sample|->` placeholder `%{name:dest:filter}`; `sample` is the
            text the generator put in the input for it            (separated by single spaces) -/

inductive WItem where
  | lit (s : Str)
  | verb (s : Str)
  | ph (name dest filter sample : Str)

def witemOfString (t : String) : Option WItem :=
  match t.splitOn ":" with
  | ["L", h] => (strOfHex h).map .lit
  | ["T", h] => (strOfHex h).map .verb
  | ["P", n, d, f, smp] => do pure (.ph (← strOfHex n) (← strOfHex d) (← strOfHex f) (← strOfHex smp))
  | _ => none

def witemsOfString (s : String) : Option (List WItem) :=
  if s == "-" then some [] else (s.splitOn " ").mapM witemOfString

/-- destination path and filters of a placeholder, read with the model's own placeholder parser. -/
def destOf (name dest filter : Str) : Out (Option (List Str × List Filter)) := do
  let text := cs!"%{" ++ name ++ (if dest.isEmpty && filter.isEmpty then [] else ':' :: dest)
    ++ (if filter.isEmpty then [] else ':' :: filter) ++ cs!"}"
  let p ← (match parsePlaceholder prims text with
    | .ok p => (.ok p : Out Pat)
    | .error .syntax => .err .syntax
    | .error .oom => .oom)
  match p.dest with
  | none => pure none
  | some ⟨path, none⟩ => pure (some (path, []))
  | some ⟨path, some f⟩ => do
    let flt ← filterOf f
    pure (some (path, [flt]))

def capsOfItems : List WItem → Out (List C32.Cap)
  | [] => .ok []
  | .ph n d f smp :: rest => do
    let r ← capsOfItems rest
    match ← destOf n d f with
    | some (path, fl) => pure (⟨path, fl, smp⟩ :: r)
    | none => pure r
  | _ :: rest => capsOfItems rest

def specItems : List WItem → List C32.Item
  | [] => []
  | .lit s :: rest => .text (C32.esc s) :: specItems rest
  | .verb s :: rest => .text s :: specItems rest
  | .ph n d f _ :: rest => .ph n (if d.isEmpty && f.isEmpty then none else some ([], none)) :: specItems rest

/-- case-mapping table observed on Rust core for the non-ASCII samples: `L <text> <lower> <upper>` -/
def caseTable : List String → Option (List (Str × Str × Str))
  | [] => some []
  | "L" :: t :: l :: u :: rest => do
    let t ← strOfHex t
    let l ← strOfHex l
    let u ← strOfHex u
    let r ← caseTable rest
    pure ((t, l, u) :: r)
  | _ => none

/-- the driver's primitives, with Rust core's answers for the listed non-ASCII texts -/
def primsWith (tbl : List (Str × Str × Str)) : Prims where
  parseF64 := prims.parseF64
  lower := fun s => match prims.lower s with
    | some r => some r
    | none => (tbl.find? (·.1 == s)).map (·.2.1)
  upper := fun s => match prims.upper s with
    | some r => some r
    | none => (tbl.find? (·.1 == s)).map (·.2.2)

def oracleCap (items : List WItem) (aliases : List (Str × Str)) (obs0 : List String) : String :=
  let (obs, prims) := match obs0 with
    | "ok" :: w :: tbl => (["ok", w], primsWith ((caseTable tbl).getD []))
    | o => (o, prims)
  match capsOfItems items with
  | .ok caps =>
    (match C32.expected prims caps, obs with
     | .ok v, ["ok", w] =>
       if Wire.showValue v == w then "holds"
       else if C32.D_unguarded_alt aliases (specItems items) then "fails anchor:D_unguarded_alt"
       else if C32.D_name_order caps.length then "fails capture:D_name_order"
       else "fails capture:-"
     | _, ["panic"] => "fails filter:-"   -- no filter may panic (scale/NaN was fixed in /repo)
     | .oom, _ => "oom"
     | _, _ =>
       -- any other mismatch: a rule with an unguarded alternation matches something else than its text
       if C32.D_unguarded_alt aliases (specItems items) then "fails anchor:D_unguarded_alt" else "fails capture:-")
  | .oom => "oom"
  | _ => "fails capture:-"

def oracleAnch (items : List WItem) (aliases : List (Str × Str)) (input : Str) (obs : String) : String :=
  let sitems := specItems items
  match Rx.parse (C32.groupedSource aliases sitems) with
  | .ok re =>
    if Rx.usesClasses re && !asciiOnly input then "oom"
    else
      let want := (Rx.search re input).isSome
      let got := obs == "m"
      if obs != "m" && obs != "n" then "fails anchor:-"
      else if want == got then "holds"
      else if C32.D_unguarded_alt aliases sitems then "fails anchor:D_unguarded_alt"
      else "fails anchor:-"
  | .error _ => "oom"

def compileObs (s : String) : Option C32.CompileObs :=
  if s == "accepted" then some .accepted
  else if s == "circular" then some .circular
  else if s == "other" then some .otherError
  else if s == "panic" then some .panicked
  else none

def handle (op : String) (args : List String) : Option String :=
  match op, args with
  | "c32.compile", [rule, aliases] => do
    let rule ← strOfHex rule
    let aliases ← aliasesOfString aliases
    pure (showOut (fun r => "ok\t" ++ showFields r.fields) (compile rule aliases))
  | "c32.src", [rule, aliases] => do
    let rule ← strOfHex rule
    let aliases ← aliasesOfString aliases
    pure (showOut (fun sf => "src:" ++ hexOfStr sf.1) (ruleSource prims aliases (rule ++ ['('])))
  | "c32.match", [rule, aliases, input] => do
    let rule ← strOfHex rule
    let aliases ← aliasesOfString aliases
    let input ← strOfHex input
    pure (showOut showMatch (matchRule rule aliases input))
  | "c32.vrl", [rule, aliases, input] => do
    let rule ← strOfHex rule
    let aliases ← aliasesOfString aliases
    let input ← strOfHex input
    pure (match matchRule rule aliases input with
      | .ok .noMatch => "nomatch"
      | .ok (.matched v _) => "ok\t" ++ Wire.showValue v
      | .err _ => "compile-error"
      | .panic => "panic"
      | .oom => "oom"
      | .fuel => "fuel")
  | "o.c32.lit", [lit, input, "|", obs] => do
    let lit ← strOfHex lit
    let input ← strOfHex input
    pure (if obs != "m" && obs != "n" then "fails literal:-"
          else if C32.litSpec lit input (obs == "m") then "holds" else "fails literal:-")
  | "o.c32.cyc", [rule, aliases, "|", obs] => do
    let rule ← strOfHex rule
    let aliases ← aliasesOfString aliases
    let obs ← compileObs obs
    pure (if obs == .panicked then
            -- compiling a rule must not panic (`nullIf()` used to: fixed in /repo)
            "fails compile:-"
          else if C32.cycSpec prims aliases rule obs then "holds" else "fails cycle:-")
  | "o.c32.cap", items :: aliases :: "|" :: obs => do
    let items ← witemsOfString items
    let aliases ← aliasesOfString aliases
    pure (oracleCap items aliases obs)
  | "o.c32.anch", [items, aliases, input, "|", obs] => do
    let items ← witemsOfString items
    let aliases ← aliasesOfString aliases
    let input ← strOfHex input
    pure (oracleAnch items aliases input obs)
  | _, _ => none

end Driver.C32
