import VrlModel.Wire
import VrlModel.KindWire
import VrlModel.C03

/-! Correspondence ops of the C03 signature model (harness/src/c03decl.rs):

      c03.sig  <fname>          `Fn.returnMask` and `Fn.params`
      c03.decl <fname> <arg>…   `C03.declared` : `ok <fallible> <kind>` | `rejected`
      c03.run  <fname> <arg>…   `C03.model`    : `ok <value>` | `err` | `panic`

    An argument is `"<keyword> <L|R> <value>"`: `L` a literal (`Arg.lit v`), `R` the event field
    `.p<i>`, typed `Kind.any` by the compiler (`Arg.dyn Kind.any`).

    `c03.run` answers `oom` where the value depends on a third-party primitive of `C03.Env` that the
    driver cannot compute (Unicode case tables for non-ASCII text, float parsing/printing, chrono
    printing, `powf` outside the exactly representable powers of ten, the regex engine). -/

namespace Driver.C03Decl
open Wire C03

structure ArgSpec where
  keyword : String
  literal : Bool
  value : Value

def parseArg (s : String) : Option ArgSpec :=
  match tokens s with
  | kw :: lr :: rest =>
    match parseValue rest with
    | some (v, []) =>
      if lr == "L" then some ⟨kw, true, v⟩ else if lr == "R" then some ⟨kw, false, v⟩ else none
    | _ => none
  | _ => none

/-- the kind the compiler gives an event field `.p<i>` under the default external environment -/
def fieldKind : Kind := Kind.any

def slotsOf (F : Fn) (args : List ArgSpec) : Option (ASlots × Slots) :=
  if args.any (fun a => !(F.params.any fun p => p.keyword == a.keyword)) then none
  else
    let find (p : Param) : Option ArgSpec := args.find? fun a => a.keyword == p.keyword
    some (F.params.map (fun p => (find p).map fun a => if a.literal then Arg.lit a.value else Arg.dyn fieldKind),
          F.params.map (fun p => (find p).map (·.value)))

def showSig (F : Fn) : String :=
  toString F.returnMask ++ String.join (F.params.map fun p =>
    " " ++ p.keyword ++ ":" ++ toString p.mask ++ ":" ++ (if p.required then "1" else "0"))

/-! #### the driver's `Env` and the cases it cannot answer -/

def pow10Exact (p : Int) : Nat := if 0 ≤ p ∧ p ≤ 22 then F64.roundMag (10 ^ p.toNat) 0 else 0

def env : Env where
  cm := Str.CaseMap.ascii
  pow10 := pow10Exact
  parseF := fun _ => none
  showFloat := fun _ => []
  showTs := fun _ => []
  json := { showF := fun _ => [], parseF := fun _ => none, showTs := fun _ => [] }
  regexSplit := fun _ _ _ => []

def nonAscii : Value → Bool
  | .bytes b => b.any (· ≥ 128)
  | _ => false

mutual
  def hasFloatOrTs : Value → Bool
    | .float _ => true
    | .ts _ => true
    | .arr xs => hasFloatOrTsL xs
    | .obj m => hasFloatOrTsM m
    | _ => false
  def hasFloatOrTsL : VList → Bool
    | .nil => false
    | .cons v vs => hasFloatOrTs v || hasFloatOrTsL vs
  def hasFloatOrTsM : VMap → Bool
    | .nil => false
    | .cons _ v m => hasFloatOrTs v || hasFloatOrTsM m
end

/-- does `model env F vs` depend on a primitive the driver's `env` does not compute? -/
def envDependent (F : Fn) (vs : Slots) : Bool :=
  let present := vs.filterMap id
  match F with
  | .upcase | .downcase | .startsWith | .endsWith | .contains => present.any nonAscii
  | .toFloat | .parseFloat => present.any fun v => match v with | .bytes _ => true | _ => false
  | .toString => present.any fun v => match v with | .float _ => true | .ts _ => true | _ => false
  | .floor | .ceil | .round =>
    (match vs with
     | [some (.float _), some (.int p)] => !(decide (0 ≤ p) && decide (p ≤ 22))
     | _ => false)
  | .encodeJson => (match vs with | some v :: _ => hasFloatOrTs v | _ => false)
  | .split => present.any fun v => match v with | .regex _ => true | _ => false
  | _ => false

def showR : Str.R Value → String
  | .ok v => "ok " ++ showValue v
  | .err => "err"
  | .panic => "panic"

def handle (op : String) (args : List String) : Option String :=
  match op, args with
  | "c03.sig", [fname] => (Fn.ofName fname).map showSig
  | "c03.decl", fname :: rest => do
    let F ← Fn.ofName fname
    let specs ← rest.mapM parseArg
    let (as, _) ← slotsOf F specs
    match declared F as with
    | none => pure "rejected"
    | some td => pure ("ok " ++ (if td.fallible then "1" else "0") ++ " " ++ KindWire.showKind td.kind)
  | "c03.run", fname :: rest => do
    let F ← Fn.ofName fname
    let specs ← rest.mapM parseArg
    let (as, vs) ← slotsOf F specs
    match declared F as with
    | none => pure "rejected"
    | some _ => if envDependent F vs then pure "oom" else pure (showR (model env F vs))
  | _, _ => none

end Driver.C03Decl
