import VrlModel.Wire
import VrlModel.C28

/-! Line-protocol handlers of C28: correspondence ops `c28.<fn>` and oracle ops `o.c28.<law>`. -/
namespace Driver.C28
open Wire Str Coll

def showR : R Value → String
  | .ok v => "ok\t" ++ showValue v
  | .err => "err"
  | .panic => "panic"

/-- `-` = optional argument absent -/
def optArg (s : String) : Option (Option Value) :=
  if s == "-" then some none else (valueOfString s).map some

def hexNat (s : String) : Option Nat := if s.isEmpty then none else natOfHexChars s.toList

def cpList (s : String) : Option (List Nat) :=
  if s.isEmpty then some [] else (s.splitOn ".").mapM hexNat

def sigmaOf (s : String) : Option SigmaClass :=
  if s == "c" then some .cased else if s == "i" then some .ignorable else if s == "o" then some .other else none

def entryOf (s : String) : Option CaseEntry :=
  match s.splitOn ":" with
  | [c, u, l, k] => do
    let c ← hexNat c
    let u ← cpList u
    let l ← cpList l
    let k ← sigmaOf k
    pure ⟨c, u, l, k⟩
  | _ => none

/-- the observed std table for the non-ASCII chars of the inputs; ASCII comes from the model. -/
def caseMapOf (s : String) : Option CaseMap :=
  if s == "-" then some CaseMap.ascii
  else do
    let es ← (tokens s).mapM entryOf
    pure (CaseMap.ofTable es).withAscii

/-- a reply of the implementation used as an observation: `ok <value>` | `err` | `panic` -/
def replyOf (s : String) : Option (R Value) :=
  if s == "err" then some .err
  else if s == "panic" then some .panic
  else if s.startsWith "ok " then (valueOfString (dropPrefix s 3)).map R.ok
  else none

def boolOfR : R Value → Option Bool
  | .ok (.bool b) => some b
  | _ => none

def intOfR : R Value → Option Int
  | .ok (.int i) => some i
  | _ => none

def bytesOfR : R Value → Option (List Nat)
  | .ok (.bytes b) => some b
  | _ => none

def verdict (clause : String) (ok : Bool) (cls : String := "-") : Option String :=
  if ok then none else some ("fails " ++ clause ++ ":" ++ cls)

def firstFail (vs : List (Option String)) : String :=
  match vs.findSome? id with
  | some s => s
  | none => "holds"

def wsBlock (lo hi : Nat) : String :=
  "ws" ++ String.join (((List.range (hi - lo)).map (· + lo)).filterMap fun c =>
    if isScalar c && isWhitespace c then some (" " ++ String.ofList (Nat.toDigits 16 c)) else none)

/-- one entry of the exhaustive case-map scan: c:upper:lower:upper(upper):lower(lower) -/
def caseLawEntry (s : String) : Option Bool :=
  match s.splitOn ":" with
  | [_, u, l, uu, ll] => do
    let u ← cpList u
    let l ← cpList l
    let uu ← cpList uu
    let ll ← cpList ll
    pure (uu == u && ll == l && !l.contains capSigma)
  | _ => none

def handleCorr (name : String) (args : List String) : Option String :=
  match name, args with
  | "upcase", [v, "|", t] => do
    let v ← valueOfString v; let cm ← caseMapOf t
    pure (showR (upcaseV cm v))
  | "downcase", [v, "|", t] => do
    let v ← valueOfString v; let cm ← caseMapOf t
    pure (showR (downcaseV cm v))
  | "strip_whitespace", [v] => do
    let v ← valueOfString v
    pure (showR (stripWhitespace v))
  | "strlen", [v] => do
    let v ← valueOfString v
    pure (showR (strlen v))
  | "split", [v, p, l] => do
    let v ← valueOfString v; let p ← optArg p; let l ← optArg l
    match p with
    | none => pure "err"
    | some p =>
      match split v p l with
      | some r => pure (showR r)
      | none => pure "oom"
  | "join", [v, s] => do
    let v ← valueOfString v; let s ← optArg s
    pure (showR (join v s))
  | "truncate", [v, l, s] => do
    let v ← valueOfString v; let l ← optArg l; let s ← optArg s
    match l with
    | none => pure "err"
    | some l => pure (showR (truncate v l s))
  | "starts_with", [v, s, c, "|", t] => do
    let v ← valueOfString v; let s ← optArg s; let c ← optArg c; let cm ← caseMapOf t
    match s with
    | none => pure "err"
    | some s => pure (showR (startsWith cm v s c))
  | "ends_with", [v, s, c, "|", t] => do
    let v ← valueOfString v; let s ← optArg s; let c ← optArg c; let cm ← caseMapOf t
    match s with
    | none => pure "err"
    | some s => pure (showR (endsWith cm v s c))
  | "contains", [v, s, c, "|", t] => do
    let v ← valueOfString v; let s ← optArg s; let c ← optArg c; let cm ← caseMapOf t
    match s with
    | none => pure "err"
    | some s => pure (showR (contains cm v s c))
  | "slice", [v, s, e] => do
    let v ← valueOfString v; let s ← optArg s; let e ← optArg e
    match s with
    | none => pure "err"
    | some s => pure (showR (slice v s e))
  | "unique", [v] => do
    let v ← valueOfString v
    pure (showR (unique v))
  | "compact", [v, r, n, s, o, a, nl] => do
    let v ← valueOfString v; let r ← optArg r; let n ← optArg n; let s ← optArg s
    let o ← optArg o; let a ← optArg a; let nl ← optArg nl
    pure (showR (compact v r n s o a nl))
  | "keys", [v] => do
    let v ← valueOfString v
    pure (showR (keys v))
  | "values", [v] => do
    let v ← valueOfString v
    pure (showR (values v))
  | "length", [v] => do
    let v ← valueOfString v
    pure (showR (length v))
  | "merge", [a, b, d] => do
    let a ← valueOfString a; let b ← optArg b; let d ← optArg d
    match b with
    | none => pure "err"
    | some b => pure (showR (merge a b d))
  | "wsscan", [lo, hi] => do
    let lo ← lo.toNat?; let hi ← hi.toNat?
    pure (wsBlock lo hi)
  | _, _ => none

/-- is the oracle's law applicable / does it hold on the observations -/
def handleOracle (law : String) (args : List String) : Option String :=
  match law, args with
  | "casemap", [_, _, "|", _, es] =>
    if es == "-" then some "holds"
    else do
      let rs ← (tokens es).mapM caseLawEntry
      pure (firstFail [verdict "casemap" (rs.all id)])
  | "idem", [f, _, "|", r1, r2] => do
    let r1 ← replyOf r1
    -- the casing family is the third-party `convert_case` crate behind a two-line wrapper
    let cls := if f == "b:757063617365" || f == "b:646f776e63617365" || f == "b:73747269705f77686974657370616365"
      then "-" else "D_casing"
    match r1 with
    | .ok v => do
      let r2 ← replyOf r2
      pure (firstFail [verdict "idem" (r2 == .ok v) cls])
    | _ => pure "holds"
  | "strip", [s, "|", r] => do
    let s ← valueOfString s; let r ← replyOf r
    match s, r with
    | .bytes s, .ok (.bytes r) =>
      pure (firstFail [verdict "strip" (C28.specTrim (decodeLossy s) (decodeLossy r) && isValid r)])
    | .bytes _, _ => pure "fails strip:-"
    | _, r => pure (firstFail [verdict "strip" (r == .err)])
  | "strlen", [s, "|", r] => do
    let s ← valueOfString s; let r ← replyOf r
    match s, r with
    | .bytes s, .ok (.int n) => pure (firstFail [verdict "strlen" (C28.specStrlen s n)])
    | .bytes _, _ => pure "fails strlen:-"
    | _, r => pure (firstFail [verdict "strlen" (r == .err)])
  | "split_join", [s, d, l, "|", sp, j] => do
    let s ← valueOfString s; let d ← valueOfString d; let l ← optArg l; let sp ← replyOf sp
    let applicable := match s, d, l with
      | .bytes _, .bytes _, none => true
      | .bytes _, .bytes _, some (.int l) => decide (1 ≤ l)
      | _, _, _ => false
    if !applicable then pure "holds"
    else
      match s, sp with
      | .bytes s, .ok _ => do
        let j ← replyOf j
        pure (firstFail [verdict "split_join" (j == .ok (.bytes (lossy s)))])
      | _, _ => pure "fails split_join:-"
  | "affix", [v, s, "|", sw, ew, ct, swi, ewi, cti, dv, ds, t] => do
    let v ← valueOfString v; let s ← valueOfString s
    let ew ← replyOf ew; let ct ← replyOf ct
    let ewi ← replyOf ewi; let cti ← replyOf cti
    let dv ← replyOf dv; let ds ← replyOf ds
    let cm ← caseMapOf t
    match v, s, bytesOfR dv, bytesOfR ds with
    | .bytes v, .bytes s, some dv, some ds =>
      -- the chars view of both strings (what `contains` / `ends_with` compare)
      let lv := decodeLossy v; let ls := decodeLossy s
      let dv := decodeLossy dv; let ds := decodeLossy ds
      let bothValid := isValid v && isValid s
      let swOK := match replyOf sw with
        | some (.ok (.bool b)) => C28.specStartsWith lv ls b
        | _ => false
      let swiR := replyOf swi
      let swiOK := match swiR with
        | some (.ok (.bool b)) => C28.specStartsWith dv ds b
        | _ => false
      -- where `starts_with_ci_spec_partial` / `starts_with_ci_sound_partial` do not apply
      let swiCls :=
        if swiR == some .panic then "D_starts_with_panic"
        else if !bothValid then "D_starts_with_invalid_utf8"
        else if !(C28.noSigma lv && C28.noSigma ls) then "D_starts_with_final_sigma"
        else if !(C28.singleLower cm lv && C28.singleLower cm ls) && swiR == some (.ok (.bool false)) then
          "D_starts_with_lower_expansion"
        else "-"
      pure (firstFail [
        verdict "affix" ((boolOfR ew).any (C28.specEndsWith lv ls)),
        verdict "affix" ((boolOfR ct).any (C28.specContains lv ls)),
        verdict "affix" swOK (if bothValid then "-" else "D_starts_with_raw_bytes"),
        verdict "affix_ci" ((boolOfR ewi).any (C28.specEndsWith dv ds)),
        verdict "affix_ci" ((boolOfR cti).any (C28.specContains dv ds)),
        verdict "affix_ci" swiOK swiCls])
    | _, _, _, _ => none
  | "truncate", [s, l, sfx, "|", lt, ls, t, l0] => do
    let s ← valueOfString s; let l ← valueOfString l; let sfx ← optArg sfx
    let t ← replyOf t; let l0 ← replyOf l0
    let sfxOK := match sfx with | none => true | some (.bytes _) => true | _ => false
    match s, l, sfxOK with
    | .bytes _, .int l, true => do
      let lt ← replyOf lt; let ls ← replyOf ls
      match t, intOfR lt, intOfR ls, intOfR l0 with
      | .ok _, some lt, some ls, some l0 =>
        -- short strings are returned unchanged (second clause: no suffix when nothing was cut)
        pure (firstFail [verdict "truncate" (C28.specTruncate l lt ls),
                         verdict "truncate" (decide (l0 ≤ (if l < 0 then 0 else l)) → decide (lt = l0))])
      | _, _, _, _ => pure "fails truncate:-"
    | _, _, _ => pure (firstFail [verdict "truncate" (t == .err)])
  | "slice", [v, s, e, "|", r] => do
    let v ← valueOfString v; let s ← valueOfString s; let e ← optArg e; let r ← replyOf r
    let eOK : Option (Option Int) := match e with
      | none => some none
      | some (.int e) => some (some e)
      | _ => none
    match s, eOK with
    | .int s, some e =>
      match v with
      | .bytes b =>
        let w := match r with | .ok (.bytes w) => some (some w) | .err => some none | _ => none
        match w with
        | some w => pure (firstFail [verdict "slice" (C28.specSliceL b s e w)])
        | none => pure "fails slice:-"
      | .arr xs =>
        let w := match r with | .ok (.arr w) => some (some (toList w)) | .err => some none | _ => none
        match w with
        | some w => pure (firstFail [verdict "slice" (C28.specSliceL (toList xs) s e w)])
        | none => pure "fails slice:-"
      | _ => pure (firstFail [verdict "slice" (r == .err)])
    | _, _ => pure (firstFail [verdict "slice" (r == .err)])
  | "unique", [v, "|", r] => do
    let v ← valueOfString v; let r ← replyOf r
    match v, r with
    | .arr xs, .ok (.arr out) => pure (firstFail [verdict "unique" (C28.specUnique (toList xs) (toList out))])
    | .arr _, _ => pure "fails unique:-"
    | _, r => pure (firstFail [verdict "unique" (r == .err)])
  | "compact", [v, r, n, s, o, a, nl, "|", res] => do
    let v ← valueOfString v; let r ← optArg r; let n ← optArg n; let s ← optArg s
    let o ← optArg o; let a ← optArg a; let nl ← optArg nl; let res ← replyOf res
    match optBool true r, optBool true n, optBool true s, optBool true o, optBool true a, optBool false nl with
    | some r, some n, some s, some o, some a, some nl =>
      let opts : CompactOptions := ⟨r, n, s, o, a, nl⟩
      let isColl := match v with | .arr _ => true | .obj _ => true | _ => false
      if isColl then
        match res with
        | .ok w => pure (firstFail [verdict "compact" (C28.specCompact opts v w)])
        | _ => pure "fails compact:-"
      else pure (firstFail [verdict "compact" (res == .err)])
    | _, _, _, _, _, _ => pure (firstFail [verdict "compact" (res == .err)])
  | "kvl", [v, "|", ks, vs, n] => do
    let v ← valueOfString v; let ks ← replyOf ks; let vs ← replyOf vs; let n ← replyOf n
    match v with
    | .obj m =>
      match ks, vs, n with
      | .ok (.arr ks), .ok (.arr vs), .ok (.int n) =>
        pure (firstFail [verdict "kvl" (C28.specKVL m (toList ks) (toList vs) n)])
      | _, _, _ => pure "fails kvl:-"
    | _ => pure (firstFail [verdict "kvl" (ks == .err && vs == .err)])
  | "merge", [a, b, d, "|", r] => do
    let a ← valueOfString a; let b ← valueOfString b; let d ← optArg d; let r ← replyOf r
    match a, b, optBool false d with
    | .obj a, .obj b, some d =>
      match r with
      | .ok (.obj r) => pure (firstFail [verdict "merge" (C28.specMerge d a b r)])
      | _ => pure "fails merge:-"
    | _, _, _ => pure (firstFail [verdict "merge" (r == .err)])
  | _, _ => none

def handle (op : String) (args : List String) : Option String :=
  if op.startsWith "c28." then handleCorr (dropPrefix op 4) args
  else if op.startsWith "o.c28." then handleOracle (dropPrefix op 6) args
  else none

end Driver.C28
