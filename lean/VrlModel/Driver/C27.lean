import VrlModel.Wire
import VrlModel.Hash.Vrl

/-!
  Line-protocol handler of C27. Correspondence ops (reply `ok <tab> <value>` or `err`):

    c27.md5 <hex> | c27.sha1 <hex> | c27.seahash <hex>
    c27.sha2 <hex> <variant> | c27.sha3 <hex> <variant> | c27.crc <hex> <algorithm>
    c27.xxhash <hex> <variant> | c27.hmac <hex value> <hex key> <algorithm>

  a variant/algorithm argument `-` means "argument absent" (the function's default applies).
-/
namespace Driver.C27
open Wire Hash.Vrl

def showRes : Res → String
  | .ok v => "ok\t" ++ showValue v
  | .err => "err"

def optName (s : String) : Option String := if s == "-" then none else some s

def handle (op : String) (args : List String) : Option String :=
  match op, args with
  | "c27.md5", [b] => do pure (showRes (md5 (← bytesOfHex b)))
  | "c27.sha1", [b] => do pure (showRes (sha1 (← bytesOfHex b)))
  | "c27.seahash", [b] => do pure (showRes (seahash (← bytesOfHex b)))
  | "c27.sha2", [b, v] => do pure (showRes (sha2 (optName v) (← bytesOfHex b)))
  | "c27.sha3", [b, v] => do pure (showRes (sha3 (optName v) (← bytesOfHex b)))
  | "c27.crc", [b, v] => do pure (showRes (crc (optName v) (← bytesOfHex b)))
  | "c27.xxhash", [b, v] => do pure (showRes (xxhash (optName v) (← bytesOfHex b)))
  | "c27.hmac", [b, k, v] => do pure (showRes (hmac (optName v) (← bytesOfHex b) (← bytesOfHex k)))
  | _, _ => none

end Driver.C27
