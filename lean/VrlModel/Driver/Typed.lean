import VrlModel.Wire
import VrlModel.KindWire
import VrlModel.KindSpec
import VrlModel.Arith
import VrlModel.Lang.Parse
import VrlModel.Lang.TypeSpec

/-! Oracles of C01 / C02 / C12 on the implementation's own type information (harness/src/typed.rs):
    the Spec predicates (`Spec.memR`, `Spec.mem`) are evaluated on the values the implementation
    produced and the kinds / fallibility flags / constants the implementation's compiler reported. -/

namespace Driver.Typed
open Wire

structure Step where
  kind : Kind
  fallible : Bool
  const : Option Value
  out : String
  val : Option Value

def parseOut (s : String) : String × Option Value :=
  if s.startsWith "ok " then ("ok", valueOfString (dropPrefix s 3))
  else if s.startsWith "ret " then ("ret", valueOfString (dropPrefix s 4))
  else (s, none)

def parseSteps : List String → Option (List Step)
  | [] => some []
  | k :: f :: c :: o :: rest => do
    let kind ← KindWire.kindOfString k
    let const ← if c == "-" then some none else (valueOfString c).map some
    let (out, val) := parseOut o
    let tl ← parseSteps rest
    pure (⟨kind, f == "1", const, out, val⟩ :: tl)
  | _ => none

/-! the root expressions of the dump, as token lists (`(prog e1 e2 … )`: an opening token starts with
    `(`, the closing token is `)`; values and paths contain neither) -/

def splitRootsAux : List String → Nat → List String → List (List String) → List (List String)
  | [], _, cur, acc => (if cur.isEmpty then acc else cur.reverse :: acc).reverse
  | t :: ts, depth, cur, acc =>
    if t.startsWith "(" then splitRootsAux ts (depth + 1) (t :: cur) acc
    else if t == ")" then
      if depth == 0 then (if cur.isEmpty then acc else cur.reverse :: acc).reverse   -- end of `(prog`
      else if depth == 1 then splitRootsAux ts 0 [] ((t :: cur).reverse :: acc)
      else splitRootsAux ts (depth - 1) (t :: cur) acc
    else splitRootsAux ts depth (t :: cur) acc

def splitRoots (dump : String) : List (List String) :=
  match tokens dump with
  | "(prog" :: rest => splitRootsAux rest 0 [] []
  | _ => []

/-- `(call <name> <bang> …` occurrences in a root: (name, bang) -/
def callsOf : List String → List (String × Bool)
  | "(call" :: n :: b :: rest => (n, b == "1") :: callsOf (n :: b :: rest)
  | _ :: rest => callsOf rest
  | [] => []

def rootHasCall (toks : List String) (name : String) : Bool := (callsOf toks).any (·.1 == name)
def rootHasBang (toks : List String) : Bool := (callsOf toks).any (·.2)
def rootHasClosure (toks : List String) : Bool := toks.contains "(closure"
/-- a function call the model of the type inference does not cover (`del` / `exists` on queries are
    expression forms of the model) -/
def rootHasAnyCall (toks : List String) : Bool :=
  (callsOf toks).any fun (n, b) => !((n == "del" || n == "exists") && !b)

/-- NAME of the finding class of an oracle failure observed at root `i` (the failure itself is decided
    by the Spec predicate), decided from the compiled tree of the roots `0..i` that ran:
    * no function call among them (inside the model of the type inference): the side condition of the
      soundness theorem (`Lang.checks`) that fails, the most specific one (`Chk.priority`) when several
      fail — `-` when none fails, i.e. when the theorem applies and the failure contradicts it
      (a VIOLATION);
    * with function calls (outside the model): for a value, `map_keys` in root `i` →
      `D_map_keys_type_def`; a closure in any of the roots → `D_closure_effects_ignored`; otherwise the
      failed typing side condition met while typing the tree with calls taken as opaque,
      `D_call_typing` if none. -/
def features (dump : String) (T0 : Lang.TState) (i : Nat) (isValue : Bool) : String :=
  match Lang.Parse.program dump with
  | none => "-"
  | some prog =>
    let roots := (splitRoots dump).take (i + 1)
    let failed := ((Lang.rootChecks prog T0).take (i + 1)).flatten
    let pick := if isValue then Lang.pickClass else Lang.pickStateClass
    if !roots.any rootHasAnyCall then
      match pick failed with
      | some c => c.name
      | none => "-"
    else if isValue && (match roots.getLast? with | some r => rootHasCall r "map_keys" | none => false) then
      "D_map_keys_type_def"
    else if roots.any rootHasClosure then "D_closure_effects_ignored"
    else
      match pick (failed.filter fun c => c != Lang.Chk.outOfModel && c != Lang.Chk.structural) with
      | some c => c.name
      | none => "D_call_typing"

def srcOfHex (h : String) : String :=
  match bytesOfHex h with
  | some bs => String.fromUTF8! (ByteArray.mk (bs.map (·.toUInt8)).toArray)
  | none => ""

def anyObject : Kind := Kind.ofObject Col.any

def judge (op : String) (T0 : Lang.TState) (rest : List String) : Option String :=
  match rest with
  | dump :: resK :: retK :: tgtK :: metaK :: flags :: outcome :: ev :: md :: _n :: stepFields => do
    let resK ← KindWire.kindOfString resK
    let retK ← KindWire.kindOfString retK
    let tgtK ← KindWire.kindOfString tgtK
    let metaK ← KindWire.kindOfString metaK
    let ev ← valueOfString ev
    let md ← valueOfString md
    let steps ← parseSteps stepFields
    let (out, val) := parseOut outcome
    -- the class is the first failed side condition among the root expressions that ran
    -- (computed only for failures: the functions below are not called on the `holds` path)
    let feat (_ : Unit) := features dump T0 (steps.length - 1) true
    let featAt (i : Nat) := features dump T0 i true
    -- the final type state assumes the whole program ran: after a `return` nothing is known
    let featEnd (_ : Unit) :=
      if out == "ret" then "D_return_skips_effects" else features dump T0 (steps.length - 1) false
    -- `f!(…)` is typed infallible by design (the error terminates the program): roots with a `!` are
    -- not judged by the `infallible_expr` clause
    let roots := splitRoots dump
    let bangAt (i : Nat) : Bool := match roots[i]? with | some r => rootHasBang r | none => false
    let fl := flags.toList
    let progFallible := fl[0]? == some '1'
    let progAbortable := fl[1]? == some '1'
    let hasBang := fl[2]? == some '1'
    let hasAbort := fl[3]? == some '1'
    if out == "panic" then pure "holds" else     -- panics belong to C04
    if op == "o.c01" then
      -- every root expression's value belongs to the kind assigned to it
      match steps.findIdx? (fun st => st.out == "ok" && !(match st.val with | some v => Spec.memR v st.kind | none => true)) with
      | some i => pure ("fails step_value:" ++ featAt i)
      | none =>
        if out == "ok" && !(match val with | some v => Spec.memR v resK | none => true) then pure ("fails result:" ++ feat ())
        else if out == "ret" && !(match val with | some v => Spec.memR v retK | none => true) then pure ("fails returns:" ++ feat ())
        else if (out == "ok" || out == "ret") && !Spec.mem ev tgtK then pure ("fails event:" ++ featEnd ())
        else if (out == "ok" || out == "ret") && !Spec.mem md metaK then pure ("fails metadata:" ++ featEnd ())
        else pure "holds"
    else if op == "o.c02" then
      -- an expression typed infallible never raises an error (NaN excepted); a program without `!`
      -- and `abort` never fails; non-fallible / non-abortable programs never error / abort
      match (steps.zipIdx.find? (fun (st, i) => !st.fallible && st.out == "err" && !bangAt i)).map (·.2) with
      | some i => pure ("fails infallible_expr:" ++ featAt i)
      | none =>
        if !hasBang && !hasAbort && (out == "err" || out == "abort") then pure ("fails program:" ++ feat ())
        else if !progFallible && out == "err" then pure ("fails info_fallible:" ++ feat ())
        else if !progAbortable && out == "abort" then pure ("fails info_abortable:" ++ feat ())
        else pure "holds"
    else
      -- a root expression with a compile-time constant evaluates to exactly that constant
      match steps.findIdx? (fun st => st.out == "ok" && (match st.const, st.val with
          | some c, some v => !(c == v)
          | _, _ => false)) with
      | some i => pure ("fails constant:" ++ featAt i)
      | none => pure "holds"
  | _ => none

def handle (op : String) (args : List String) : Option String :=
  match op, args with
  | _, _src :: _event :: _meta :: "|" :: rest =>
    if op == "o.c01" || op == "o.c02" || op == "o.c12" then
      judge op { target := anyObject, metadata := anyObject } rest
    else none
  | _, _src :: tk :: mk :: _event :: _meta :: "|" :: rest =>
    if op == "o.c01.env" || op == "o.c02.env" || op == "o.c12.env" then do
      let target ← KindWire.kindOfString tk
      let metadata ← KindWire.kindOfString mk
      judge ((op.splitOn ".env").headD op) { target, metadata } rest
    else none
  | _, _ => none

end Driver.Typed
