import VrlModel.Wire
import VrlModel.KindWire
import VrlModel.KindSpec
import VrlModel.Arith

/-! Oracles of C01 / C02 / C12 on the implementation's own type information (harness/src/typed.rs):
    the Spec predicates (`Spec.memR`, `Spec.mem`) are evaluated on the values the implementation
    produced and the kinds / fallibility flags / constants the implementation's compiler reported. -/

namespace Driver.Typed
open Wire

structure Step where
  kind : Kind
  fallible : Bool
  const : Option Value
  out : String
  val : Option Value

def parseOut (s : String) : String × Option Value :=
  if s.startsWith "ok " then ("ok", valueOfString (dropPrefix s 3))
  else if s.startsWith "ret " then ("ret", valueOfString (dropPrefix s 4))
  else (s, none)

def parseSteps : List String → Option (List Step)
  | [] => some []
  | k :: f :: c :: o :: rest => do
    let kind ← KindWire.kindOfString k
    let const ← if c == "-" then some none else (valueOfString c).map some
    let (out, val) := parseOut o
    let tl ← parseSteps rest
    pure (⟨kind, f == "1", const, out, val⟩ :: tl)
  | _ => none

/-- the primary syntactic feature of the source, used only to NAME the finding class of a failure
    (the failure itself is decided by the Spec predicate): the first that applies, in this order. -/
def features (src : String) : String :=
  let has (p : String) : Bool := (src.splitOn p).length > 1
  if has "map_keys(" then "D_map_keys_type_def"          -- map_keys keeps the input's known fields
  else if has "-> |" then "D_closure_effects_ignored"    -- effects of closure bodies never reach the caller's type state
  else if has "del(" then "D_del_typing"                 -- type-level removal (C19 classes, variables not updated)
  else if has "[-" then "D_negative_index_kind"          -- type-level insert/get at negative indices (C19 classes)
  else if has "return" then "D_return_skips_effects"     -- final type state assumes the whole program ran
  else if has "|=" || has " | " then "D_merge_kind"      -- Collection::merge (C19 D_merge_overwrite_maybe_absent)
  else "-"

def srcOfHex (h : String) : String :=
  match bytesOfHex h with
  | some bs => String.fromUTF8! (ByteArray.mk (bs.map (·.toUInt8)).toArray)
  | none => ""

def handle (op : String) (args : List String) : Option String :=
  match op, args with
  | _, src :: _event :: _meta :: "|" :: resK :: retK :: tgtK :: metaK :: flags :: outcome :: ev :: md :: _n :: stepFields =>
    if !(op == "o.c01" || op == "o.c02" || op == "o.c12") then none else do
    let resK ← KindWire.kindOfString resK
    let retK ← KindWire.kindOfString retK
    let tgtK ← KindWire.kindOfString tgtK
    let metaK ← KindWire.kindOfString metaK
    let ev ← valueOfString ev
    let md ← valueOfString md
    let steps ← parseSteps stepFields
    let (out, val) := parseOut outcome
    let feat := features (srcOfHex src)
    let fl := flags.toList
    let progFallible := fl[0]? == some '1'
    let progAbortable := fl[1]? == some '1'
    let hasBang := fl[2]? == some '1'
    let hasAbort := fl[3]? == some '1'
    if out == "panic" then pure "holds" else     -- panics belong to C04
    if op == "o.c01" then
      -- every root expression's value belongs to the kind assigned to it
      match steps.find? (fun st => st.out == "ok" && !(match st.val with | some v => Spec.memR v st.kind | none => true)) with
      | some _ => pure ("fails step_value:" ++ feat)
      | none =>
        if out == "ok" && !(match val with | some v => Spec.memR v resK | none => true) then pure ("fails result:" ++ feat)
        else if out == "ret" && !(match val with | some v => Spec.memR v retK | none => true) then pure ("fails returns:" ++ feat)
        else if (out == "ok" || out == "ret") && !Spec.mem ev tgtK then pure ("fails event:" ++ feat)
        else if (out == "ok" || out == "ret") && !Spec.mem md metaK then pure ("fails metadata:" ++ feat)
        else pure "holds"
    else if op == "o.c02" then
      -- an expression typed infallible never raises an error (NaN excepted); a program without `!`
      -- and `abort` never fails; non-fallible / non-abortable programs never error / abort
      match steps.find? (fun st => !st.fallible && st.out == "err") with
      | some _ => pure ("fails infallible_expr:" ++ feat)
      | none =>
        if !hasBang && !hasAbort && (out == "err" || out == "abort") then pure ("fails program:" ++ feat)
        else if !progFallible && out == "err" then pure ("fails info_fallible:" ++ feat)
        else if !progAbortable && out == "abort" then pure ("fails info_abortable:" ++ feat)
        else pure "holds"
    else
      -- a root expression with a compile-time constant evaluates to that constant
      match steps.find? (fun st => st.out == "ok" && (match st.const, st.val with
          | some c, some v => !(Arith.veq c v)
          | _, _ => false)) with
      | some _ => pure ("fails constant:" ++ feat)
      | none => pure "holds"
  | _, _ => none

end Driver.Typed
