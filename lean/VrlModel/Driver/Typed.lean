import VrlModel.Wire
import VrlModel.KindWire
import VrlModel.KindSpec
import VrlModel.Arith
import VrlModel.Lang.Parse
import VrlModel.Lang.TypeSpec

/-! Oracles of C01 / C02 / C12 on the implementation's own type information (harness/src/typed.rs):
    the Spec predicates (`Spec.memR`, `Spec.mem`) are evaluated on the values the implementation
    produced and the kinds / fallibility flags / constants the implementation's compiler reported. -/

namespace Driver.Typed
open Wire

structure Step where
  kind : Kind
  fallible : Bool
  const : Option Value
  out : String
  val : Option Value

def parseOut (s : String) : String × Option Value :=
  if s.startsWith "ok " then ("ok", valueOfString (dropPrefix s 3))
  else if s.startsWith "ret " then ("ret", valueOfString (dropPrefix s 4))
  else (s, none)

def parseSteps : List String → Option (List Step)
  | [] => some []
  | k :: f :: c :: o :: rest => do
    let kind ← KindWire.kindOfString k
    let const ← if c == "-" then some none else (valueOfString c).map some
    let (out, val) := parseOut o
    let tl ← parseSteps rest
    pure (⟨kind, f == "1", const, out, val⟩ :: tl)
  | _ => none

/-- does the compiled tree contain a call of `name` / a closure? -/
def hasCall (dump : String) (name : String) : Bool := (dump.splitOn ("(call " ++ name ++ " ")).length > 1
def hasClosure (dump : String) : Bool := (dump.splitOn "(closure ").length > 1
def hasAnyCall (dump : String) : Bool :=
  -- `del` / `exists` on queries are modelled (they are not calls of the model's tree)
  ((dump.splitOn "(call ").filter fun part =>
    !(part.startsWith "del 0 " || part.startsWith "exists 0 ")).length > 1

/-- NAME of the finding class of an oracle failure (the failure itself is decided by the Spec
    predicate). Decided from the compiled tree:
    * programs inside the model of the type inference (no function call): the side condition of the
      soundness theorem (`Lang.checks`) that fails among the root expressions that ran, the most
      specific one (`Chk.priority`) when several fail — `-` when none fails, i.e. when the theorem
      applies and the failure contradicts it (a VIOLATION);
    * programs with function calls (outside the model): `map_keys` → `D_map_keys_type_def`, closure →
      `D_closure_effects_ignored`, otherwise the failed typing side condition met while typing the tree
      with calls taken as opaque, `D_call_typing` if none. -/
def features (dump : String) (T0 : Lang.TState) (upTo : Nat) : String :=
  match Lang.Parse.program dump with
  | none => "-"
  | some prog =>
    let failed := ((Lang.rootChecks prog T0).take upTo).flatten
    if !hasAnyCall dump then
      match Lang.pickClass failed with
      | some c => c.name
      | none => "-"
    else if hasCall dump "map_keys" then "D_map_keys_type_def"
    else if hasClosure dump then "D_closure_effects_ignored"
    else
      match Lang.pickClass (failed.filter fun c => c != Lang.Chk.outOfModel && c != Lang.Chk.structural) with
      | some c => c.name
      | none => "D_call_typing"

def srcOfHex (h : String) : String :=
  match bytesOfHex h with
  | some bs => String.fromUTF8! (ByteArray.mk (bs.map (·.toUInt8)).toArray)
  | none => ""

def anyObject : Kind := Kind.ofObject Col.any

def judge (op : String) (T0 : Lang.TState) (rest : List String) : Option String :=
  match rest with
  | dump :: resK :: retK :: tgtK :: metaK :: flags :: outcome :: ev :: md :: _n :: stepFields => do
    let resK ← KindWire.kindOfString resK
    let retK ← KindWire.kindOfString retK
    let tgtK ← KindWire.kindOfString tgtK
    let metaK ← KindWire.kindOfString metaK
    let ev ← valueOfString ev
    let md ← valueOfString md
    let steps ← parseSteps stepFields
    let (out, val) := parseOut outcome
    -- the class is the first failed side condition among the root expressions that ran
    -- (computed only for failures: the functions below are not called on the `holds` path)
    let feat (_ : Unit) := features dump T0 steps.length
    let featAt (i : Nat) := features dump T0 (i + 1)
    -- the final type state assumes the whole program ran: after a `return` nothing is known
    let featEnd (_ : Unit) := if out == "ret" then "D_return_skips_effects" else feat ()
    let fl := flags.toList
    let progFallible := fl[0]? == some '1'
    let progAbortable := fl[1]? == some '1'
    let hasBang := fl[2]? == some '1'
    let hasAbort := fl[3]? == some '1'
    if out == "panic" then pure "holds" else     -- panics belong to C04
    if op == "o.c01" then
      -- every root expression's value belongs to the kind assigned to it
      match steps.findIdx? (fun st => st.out == "ok" && !(match st.val with | some v => Spec.memR v st.kind | none => true)) with
      | some i => pure ("fails step_value:" ++ featAt i)
      | none =>
        if out == "ok" && !(match val with | some v => Spec.memR v resK | none => true) then pure ("fails result:" ++ feat ())
        else if out == "ret" && !(match val with | some v => Spec.memR v retK | none => true) then pure ("fails returns:" ++ feat ())
        else if (out == "ok" || out == "ret") && !Spec.mem ev tgtK then pure ("fails event:" ++ featEnd ())
        else if (out == "ok" || out == "ret") && !Spec.mem md metaK then pure ("fails metadata:" ++ featEnd ())
        else pure "holds"
    else if op == "o.c02" then
      -- an expression typed infallible never raises an error (NaN excepted); a program without `!`
      -- and `abort` never fails; non-fallible / non-abortable programs never error / abort
      match steps.findIdx? (fun st => !st.fallible && st.out == "err") with
      | some i => pure ("fails infallible_expr:" ++ featAt i)
      | none =>
        if !hasBang && !hasAbort && (out == "err" || out == "abort") then pure ("fails program:" ++ feat ())
        else if !progFallible && out == "err" then pure ("fails info_fallible:" ++ feat ())
        else if !progAbortable && out == "abort" then pure ("fails info_abortable:" ++ feat ())
        else pure "holds"
    else
      -- a root expression with a compile-time constant evaluates to exactly that constant
      match steps.findIdx? (fun st => st.out == "ok" && (match st.const, st.val with
          | some c, some v => !(c == v)
          | _, _ => false)) with
      | some i => pure ("fails constant:" ++ featAt i)
      | none => pure "holds"
  | _ => none

def handle (op : String) (args : List String) : Option String :=
  match op, args with
  | _, _src :: _event :: _meta :: "|" :: rest =>
    if op == "o.c01" || op == "o.c02" || op == "o.c12" then
      judge op { target := anyObject, metadata := anyObject } rest
    else none
  | _, _src :: tk :: mk :: _event :: _meta :: "|" :: rest =>
    if op == "o.c01.env" || op == "o.c02.env" || op == "o.c12.env" then do
      let target ← KindWire.kindOfString tk
      let metadata ← KindWire.kindOfString mk
      judge ((op.splitOn ".env").headD op) { target, metadata } rest
    else none
  | _, _ => none

end Driver.Typed
