/-
  VrlModel.C20 — the decidable Spec predicates of property C20 (used by the theorems in
  VrlProofs/Props/C20.lean and, on the implementation's observations, by the oracle ops) and the
  finding classes.
-/
import VrlModel.PathText
import VrlModel.PathVrl

namespace C20
open PathText PathVrl

/-- which renderer/parser pair: `OwnedValuePath` or `OwnedTargetPath` with a prefix. -/
inductive Kind where
  | value
  | target (pfx : Prefix)
  deriving DecidableEq

/-- result of a string parser, uniform over `parse_value_path` / `parse_target_path`. -/
inductive Parsed where
  | ok (pfx : Option Prefix) (p : Path)
  | err
  | panic
  deriving DecidableEq

def renderKind : Kind → Path → Option (List Char)
  | .value, p => render p
  | .target pfx, p => renderTarget ⟨pfx, p⟩

def ofPResult : PResult → Parsed
  | .ok p => .ok none p
  | .err => .err
  | .panic => .panic

def ofTResult : TResult → Parsed
  | .ok tp => .ok (some tp.pfx) tp.path
  | .err => .err
  | .panic => .panic

def parseKind : Kind → List Char → Parsed
  | .value, t => ofPResult (parseValuePath t)
  | .target _, t => ofTResult (parseTargetPath t)

/-- every index of the path is an `isize` value. -/
def pathInRange (p : Path) : Bool :=
  p.all fun s => match s with
    | .index i => inIsize i
    | .field _ => true

def expected : Kind → Path → Parsed
  | .value, p => .ok none p
  | .target pfx, p => .ok (some pfx) p

/-- clause (1) on an observation: parsing the rendered text gave the path back. -/
def roundTripHolds (k : Kind) (p : Path) (obs : Parsed) : Bool := obs == expected k p

/-- finding classes of clause (1). -/
inductive RtClass where
  | rootValuePath    -- `OwnedValuePath::root()` renders to "" which does not parse
  | rootMetadata     -- `OwnedTargetPath::metadata_root()` renders to "%" which does not parse
  | none
  deriving DecidableEq

def rtClass : Kind → Path → RtClass
  | .value, [] => .rootValuePath
  | .target .metadata, [] => .rootMetadata
  | _, _ => .none

/-- `Display for OwnedSegment` round trip on an observation. -/
def segRoundTripHolds (s : Seg) (obs : Parsed) : Bool := obs == .ok none [s]

/-- the field contains `"` or `\` (which `format_field` does not escape). -/
def segUnescaped : Seg → Bool
  | .field k => k.any (fun b => b == 34 || b == 92)
  | .index _ => false

/-- clause (2) on a pair of observations: when the VRL parser and the string parser both accept
    the text they denote the same target path. -/
def agreeHolds (v : VTarget) (s : TResult) : Bool :=
  match v, s with
  | .path tp₁, .ok tp₂ => tp₁ == tp₂
  | _, _ => true

/-- the text continues with `{{` (start of a template section in a VRL string literal) or with
    `\\}}` (which `template()` rewrites to `}}` before unescaping, also after an escaped backslash). -/
def startsTpl : List Char → Bool
  | '{' :: '{' :: _ => true
  | '\\' :: '}' :: '}' :: _ => true
  | _ => false

/-- finding class of clause (2): the text contains `{{` or `\\}}` somewhere. -/
def hasTemplate : List Char → Bool
  | [] => false
  | c :: rest => startsTpl (c :: rest) || hasTemplate rest

end C20
