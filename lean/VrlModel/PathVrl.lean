/-
  VrlModel.PathVrl — the path sub-grammar of VRL source text (property C20, clause 2).

  Rust anchors: `src/parser/parser.lalrpop` (`Query`, `QueryTarget`, `Path`, `PathSegment`, `Field`,
  `AnyIdent`, `PathField`, `String`, `Integer`), `src/parser/lex.rs` (`query_start` chain rules,
  `identifier_or_function_call`, `numeric_literal_or_identifier`, `string_literal`, `escape_code`,
  `unicode_escape`, `StringLiteralToken::template`, `unescape_string_literal`),
  `src/parser/template_string.rs` (`Display for TemplateString`).

  What is modelled: the answer to "is this text, as a whole VRL program, exactly one query on the
  external target, and which path does it denote?" for texts made of a prefix (`.` / `%`),
  fields (identifier-like tokens or string literals), `[integer]` segments and blanks. The full
  lexer (2.5 kLoC) and the LALRPOP tables are not modelled: the function below is the language
  those two accept on this fragment, written as one character-level machine (`vstep`) in the
  style of the JIT machine so that the two can be compared state by state. It is *validated*,
  not derived: `c20.vrl` runs every text up to length 5/6 over the path alphabet (and a random
  stream over a wider one) through the real parser and compiler and compares.
  Outside the fragment the model answers `nopath` (newlines, `;`, `#` comments, parentheses, braces
  outside strings, `'`, operators …): such texts are never a path of the fragment, although the
  real parser accepts some of them as a program containing a path (`.a # c`, `.a;`, "\n.a").

  Lexer facts the machine encodes (each observed on the real parser):
  * a query chain starts at `.`/`%`; inside it `.` is only accepted after an identifier
    character, `"` or `]` (so `..a`, `%.a` are not paths); blanks end the chain (allowed only
    inside `[ ]` and around the whole query);
  * `PathSegment = "."? Field | "[" Integer "]"`: a field may follow a segment without a dot
    (`.a"b"`, `.[0]a`, `."a"b`);
  * an identifier-like token is a maximal run of `[0-9A-Za-z_@]`; it is *not* a field when it is
    the single `_` (token `Underscore`) or starts with a digit and consists of digits and `_`
    only (integer/float literal); keywords and reserved words are fields (`AnyIdent`);
  * an integer is `-?[0-9][0-9_]*` (underscores dropped), must fit `i64`, and may be
    surrounded by blanks inside the brackets;
  * a string literal field has VRL escapes (`\n \r \t \0 \' \" \\ \{ \}`, backslash-newline,
    `\u{HEX}`) and goes through `template()` + `Display for TemplateString`: a `{{ x }}` section
    is re-rendered as `{{ x }}` with normalised blanks, an unterminated one is dropped.
-/
import VrlModel.PathText

namespace PathVrl
open PathText

/-! ## string literals: `template()`, `unescape_string_literal`, `Display` -/

/-- `char::is_whitespace` (Unicode `White_Space`). -/
def isRustWs (c : Char) : Bool :=
  let n := c.toNat
  (decide (9 ≤ n) && decide (n ≤ 13)) || n == 0x20 || n == 0x85 || n == 0xA0 || n == 0x1680 ||
  (decide (0x2000 ≤ n) && decide (n ≤ 0x200A)) || n == 0x2028 || n == 0x2029 || n == 0x202F ||
  n == 0x205F || n == 0x3000

/-- blanks the lexer skips between tokens: whitespace except `\n` (token `Newline`). -/
def isBlank (c : Char) : Bool := isRustWs c && c != '\n'

def hexDigitVal (c : Char) : Option Nat :=
  let n := c.toNat
  if 48 ≤ n ∧ n ≤ 57 then some (n - 48)
  else if 97 ≤ n ∧ n ≤ 102 then some (n - 87)
  else if 65 ≤ n ∧ n ≤ 70 then some (n - 55)
  else none

/-- the single-character escapes of `unescape_string_literal`. -/
def simpleEscape (c : Char) : Option Char :=
  if c == '\'' then some '\''
  else if c == '"' then some '"'
  else if c == '\\' then some '\\'
  else if c == 'n' then some '\n'
  else if c == 'r' then some '\r'
  else if c == 't' then some '\t'
  else if c == '0' then some (Char.ofNat 0)
  else if c == '{' then some '{'
  else if c == '}' then some '}'
  else none

inductive UMode where
  | normal
  | esc                       -- after `\`
  | skipWs                    -- after `\` newline: drop following whitespace
  | uOpen                     -- after `\u`
  | uHex (v : Option Nat)     -- inside `\u{…`
  deriving DecidableEq

/-- `unescape_string_literal`. `none` stands for the `unimplemented!`/`expect`/index panics, which
    the lexer's validation of escape codes makes unreachable from source text. -/
def unesc : UMode → List Char → Option (List Char)
  | .normal, [] => some []
  | .skipWs, [] => some []
  | _, [] => none
  | .normal, c :: r =>
    if c == '\\' then unesc .esc r else (unesc .normal r).map (c :: ·)
  | .skipWs, c :: r =>
    if isRustWs c then unesc .skipWs r
    else if c == '\\' then unesc .esc r
    else (unesc .normal r).map (c :: ·)
  | .esc, c :: r =>
    if c == '\n' then unesc .skipWs r
    else if c == 'u' then unesc .uOpen r
    else match simpleEscape c with
      | some x => (unesc .normal r).map (x :: ·)
      | none => none
  | .uOpen, c :: r => if c == '{' then unesc (.uHex none) r else none
  | .uHex v, c :: r =>
    if c == '}' then
      match v.bind Utf8.charOfNat? with
      | some ch => (unesc .normal r).map (ch :: ·)
      | none => none
    else match hexDigitVal c with
      | some d => unesc (.uHex (some (v.getD 0 * 16 + d))) r
      | none => none

def unescape (s : List Char) : Option (List Char) := unesc .normal s

/-- `str::trim`. -/
def trim (s : List Char) : List Char :=
  ((s.dropWhile isRustWs).reverse.dropWhile isRustWs).reverse

/-- `StringLiteralToken::template` followed by `Display for TemplateString`:
    `tpl` = inside `{{ … }}`, `cur` = `current`, `out` = text of the segments pushed so far. -/
def tmpl : Bool → List Char → List Char → List Char → Option (List Char)
  | tpl, cur, out, [] =>
    if !tpl && !cur.isEmpty then (unescape cur).map (out ++ ·) else some out
  | true, cur, out, '}' :: '}' :: rest =>
    tmpl false [] (if cur.isEmpty then out else out ++ ['{', '{', ' '] ++ trim cur ++ [' ', '}', '}']) rest
  | false, cur, out, '\\' :: '{' :: '{' :: rest => tmpl false (cur ++ ['{', '{']) out rest
  | false, cur, out, '\\' :: '}' :: '}' :: rest => tmpl false (cur ++ ['}', '}']) out rest
  | false, cur, out, '{' :: '{' :: rest =>
    if cur.isEmpty then tmpl true [] out rest
    else match unescape cur with
      | some lit => tmpl true [] (out ++ lit) rest
      | none => none
  | tpl, cur, out, c :: rest => tmpl tpl (cur ++ [c]) out rest

/-- the field a string literal with raw content `raw` denotes (`Field = String => <>.to_string()`). -/
def stringField (raw : List Char) : Option (List Char) := tmpl false [] [] raw

/-! ## the machine -/

/-- an identifier-like run is a `Field` unless it is the token `_` or a numeric literal. -/
def validIdent (acc : List Char) : Bool :=
  acc != ['_'] &&
  !(match acc with
    | c :: _ => isDigit c && acc.all (fun x => isDigit x || x == '_')
    | [] => true)

/-- `int.replace('_', "").parse::<i64>()` for a run of digits and underscores. -/
def digitsValue (acc : List Char) : Nat :=
  acc.foldl (fun v c => if isDigit c then v * 10 + (c.toNat - 48) else v) 0

def intValue (neg : Bool) (acc : List Char) : Option Int :=
  let v : Int := if neg then -(digitsValue acc : Int) else (digitsValue acc : Int)
  if inIsize v then some v else none

inductive VState where
  | afterPrefix
  | afterSeg
  | afterDot
  | ident (acc : List Char)
  | str (raw : List Char)
  | strEsc (raw : List Char)
  | strU (raw : List Char)                       -- after `\u`
  | strUHex (raw : List Char) (hex : List Char)  -- after `\u{`
  | bracket                                      -- after `[`, blanks skipped
  | negSign                                      -- after `[` `-`
  | num (neg : Bool) (acc : List Char)
  | bracketEnd (v : Int)                         -- after the integer, blanks skipped
  | trailing
  deriving DecidableEq

inductive VStep where
  | go (st : VState)
  | emit (s : Seg) (st : VState)
  | endIdent (s : Seg)     -- an identifier ended *before* this character, which is then dispatched
  | reject
  | panic
  deriving DecidableEq

/-- dispatch of a character where a segment may start. `dotOk`: a `.` may come first
    (not right after the prefix or another `.`); `restOk`: something other than a field may come
    (not right after a `.`). `none` = not a path. -/
def vSegStart (dotOk restOk : Bool) (c : Char) : Option VState :=
  if isSerChar c then some (.ident [c])
  else if c == '"' then some (.str [])
  else if c == '.' && dotOk then some .afterDot
  else if c == '[' && restOk then some .bracket
  else if isBlank c && restOk then some .trailing
  else none

def VStep.ofOption : Option VState → VStep
  | some st => .go st
  | none => .reject

def vstep : VState → Char → VStep
  | .afterPrefix, c => .ofOption (vSegStart false true c)
  | .afterSeg, c => .ofOption (vSegStart true true c)
  | .afterDot, c => .ofOption (vSegStart false false c)
  | .ident acc, c =>
    if isSerChar c then .go (.ident (acc ++ [c]))
    else if validIdent acc then
      .endIdent (mkField acc)
    else .reject
  | .str raw, c =>
    if c == '"' then
      match stringField raw with
      | some f => .emit (mkField f) .afterSeg
      | none => .panic
    else if c == '\\' then .go (.strEsc raw)
    else .go (.str (raw ++ [c]))
  | .strEsc raw, c =>
    if c == 'u' then .go (.strU raw)
    else if c == '\n' || (simpleEscape c).isSome then .go (.str (raw ++ ['\\', c]))
    else .reject
  | .strU raw, c => if c == '{' then .go (.strUHex raw []) else .reject
  | .strUHex raw hex, c =>
    if c == '}' then
      match hex.foldl (fun v d => v.bind fun n => (hexDigitVal d).map (n * 16 + ·)) (some 0) with
      | some n =>
        if !hex.isEmpty && (Utf8.charOfNat? n).isSome
        then .go (.str (raw ++ ['\\', 'u', '{'] ++ hex ++ ['}']))
        else .reject
      | none => .reject
    else if (hexDigitVal c).isSome then .go (.strUHex raw (hex ++ [c]))
    else .reject
  | .bracket, c =>
    if isBlank c then .go .bracket
    else if isDigit c then .go (.num false [c])
    else if c == '-' then .go .negSign
    else .reject
  | .negSign, c => if isDigit c then .go (.num true [c]) else .reject
  | .num neg acc, c =>
    if isDigit c || c == '_' then .go (.num neg (acc ++ [c]))
    else match intValue neg acc with
      | none => .reject
      | some v =>
        if c == ']' then .emit (.index v) .afterSeg
        else if isBlank c then .go (.bracketEnd v)
        else .reject
  | .bracketEnd v, c =>
    if isBlank c then .go (.bracketEnd v)
    else if c == ']' then .emit (.index v) .afterSeg
    else .reject
  | .trailing, c => if isBlank c then .go .trailing else .reject

inductive VResult where
  | path (p : Path)
  | nopath
  | panic
  deriving DecidableEq

def VResult.cons (s : Seg) : VResult → VResult
  | .path p => .path (s :: p)
  | r => r

def vAtEnd : VState → VResult
  | .afterPrefix => .path []
  | .afterSeg => .path []
  | .trailing => .path []
  | .ident acc => if validIdent acc then .path [mkField acc] else .nopath
  | _ => .nopath

def vrun : VState → List Char → VResult
  | st, [] => vAtEnd st
  | st, c :: rest =>
    match vstep st c with
    | .go st' => vrun st' rest
    | .emit s st' => (vrun st' rest).cons s
    | .endIdent s =>
      match vSegStart true true c with
      | some st' => (vrun st' rest).cons s
      | none => .nopath
    | .reject => .nopath
    | .panic => .panic

inductive VTarget where
  | path (tp : TargetPath)
  | nopath
  | panic
  deriving DecidableEq

def VTarget.ofVResult (pfx : Prefix) : VResult → VTarget
  | .path p => .path ⟨pfx, p⟩
  | .nopath => .nopath
  | .panic => .panic

/-- the text as a whole VRL program: leading blanks, prefix, segments, trailing blanks. -/
def vrlPath : List Char → VTarget
  | [] => .nopath
  | c :: rest =>
    if isBlank c then vrlPath rest
    else if c == '.' then VTarget.ofVResult .event (vrun .afterPrefix rest)
    else if c == '%' then VTarget.ofVResult .metadata (vrun .afterPrefix rest)
    else .nopath

end PathVrl
