/-
  VrlModel.C34 — the Spec of C34: what "the flagged expression is removable" means on the
  observations of two runs (original program, program with the flagged expression deleted).
-/
import VrlModel.Value

namespace C34

/-- what a run shows of itself: did it succeed, final event, final metadata. -/
structure Obs where
  ok : Bool
  event : Value
  metadata : Value

/-- `removable mayFail o e`: `o` is the original run, `e` the run of the edited program.
    A successful original run is reproduced (success, event, metadata); a failing original run
    stays failing unless the deleted expression is one that can fail. -/
def removable (mayFail : Bool) (o e : Obs) : Bool :=
  if o.ok then e.ok && decide (e.event = o.event) && decide (e.metadata = o.metadata)
  else mayFail || !e.ok

end C34
