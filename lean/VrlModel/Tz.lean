/-
  VrlModel.Tz — where the configured timezone (`Context::timezone()`, compiler/context.rs) can enter
  a program's result.

  `tzReaders` is the HAND-WRITTEN list of the stdlib functions whose `resolve` reads `ctx.timezone()`
  (reflection on the compiled crate cannot see this; obtained by `grep -n 'timezone()' src/stdlib`,
  and validated BEHAVIOURALLY by the C36 check: every stdlib function is run under pairs of
  configured zones and any function outside this list whose result differs is a failure `tz:<fn>`).
  Per function: the conditions under which the configured zone is NOT consulted / cannot matter.

  `format_timestamp` and `to_unix_timestamp` are deliberately absent: without a `timezone:` argument
  `format_timestamp` formats in UTC, it never reads the configured zone.

  The language model (Lang/Eval.lean) has no zone parameter at all: `Lang.run : Exprs → St → …`.
  `runTz` below is that model with the parameter `Runtime::resolve(target, program, timezone)`
  carries; that it ignores the parameter is true BY CONSTRUCTION and says nothing about the code
  beyond what the `lang.run` correspondence and the behavioural check `o.c36` establish.
-/
import VrlModel.Lang.Eval
import VrlModel.Conversion

namespace TzModel
open Lang

/-- condition under which a reader does not consult (or is unaffected by) the configured zone -/
inductive Unless where
  /-- an explicit `timezone:` argument replaces the configured zone -/
  | timezoneArgument
  /-- the format is zone-explicit (`format_has_zone`): the text must carry its own offset -/
  | formatHasZone
  /-- the input text carries an explicit UTC offset (RFC 3339 / `%z` timestamps in the message) -/
  | inputHasOffset
  /-- the value is already a timestamp and is returned unchanged -/
  | valueIsTimestamp
  deriving DecidableEq, Repr

structure TzReader where
  name : String
  site : String
  notConsultedWhen : List Unless
  deriving Repr

def tzReaders : List TzReader := [
  { name := "parse_timestamp", site := "stdlib/parse_timestamp.rs:23 `.unwrap_or(*ctx.timezone())`",
    notConsultedWhen := [.timezoneArgument, .formatHasZone, .valueIsTimestamp] },
  { name := "parse_syslog", site := "stdlib/parse_syslog.rs:8 (RFC 3164 timestamps have no zone)",
    notConsultedWhen := [.inputHasOffset] },
  { name := "parse_linux_authorization",
    site := "stdlib/parse_linux_authorization.rs:1 compiles to `ParseSyslogFn` (alias of parse_syslog; no `timezone()` in its own file: found by the behavioural check, not by the grep)",
    notConsultedWhen := [.inputHasOffset] },
  { name := "parse_apache_log", site := "stdlib/parse_apache_log.rs:53 → log_util::parse_time",
    notConsultedWhen := [.inputHasOffset] },
  { name := "parse_common_log", site := "stdlib/parse_common_log.rs:23 → log_util::parse_time",
    notConsultedWhen := [.inputHasOffset] },
  { name := "parse_nginx_log", site := "stdlib/parse_nginx_log.rs:70 → log_util::parse_time",
    notConsultedWhen := [.inputHasOffset] },
  { name := "get_timezone_name", site := "stdlib/get_timezone_name.rs:17 (returns the zone's name)",
    notConsultedWhen := [] }]

def tzReaderNames : List String := tzReaders.map (·.name)

def isTzReader (f : String) : Bool := tzReaderNames.contains f

/-! ### calls of a compiled program -/

mutual
  def callsE : Expr → List String
    | .lit _ | .noop | .qext _ _ | .qvar _ _ | .var _ | .existsExt _ _ | .existsVar _ _ => []
    | .grp e | .not e | .ret e | .qexpr e _ | .existsExpr e _ => callsE e
    | .blk es | .arr es => callsEs es
    | .obj kvs => callsK kvs
    | .ifte p t _ e => callsEs p ++ callsEs t ++ callsEs e
    | .op _ l r => callsE l ++ callsE r
    | .asg _ e | .iasg _ _ e _ => callsE e
    | .abort _ m => callsE m
    | .delExt _ _ _ c | .delVar _ _ _ c => callsE c
    | .delExpr e _ _ c => callsE e ++ callsE c
    | .call name _ _ args _ _ body => name :: (callsA args ++ callsEs body)
  def callsEs : Exprs → List String
    | .nil => []
    | .cons e es => callsE e ++ callsEs es
  def callsK : KExprs → List String
    | .nil => []
    | .cons _ e kes => callsE e ++ callsK kes
  def callsA : Args → List String
    | .nil => []
    | .cons _ e as => callsE e ++ callsA as
end

/-- syntactic: the program calls no tz reader -/
def tzFree (prog : Exprs) : Bool := (callsEs prog).all fun f => !isTzReader f

/-- syntactic: every call is to a function of the modelled stdlib subset (`Lang.fnParams`) -/
def inModel (prog : Exprs) : Bool := (callsEs prog).all fun f => (fnParams f).isSome

/-- `Runtime::resolve(target, program, timezone)` in the language model: the zone is accepted and
    ignored — `Lang.run` has no zone parameter and the modelled stdlib subset contains no reader. -/
def runTz (_tz : Cnv.Tz) (prog : Exprs) (s : St) : RunOutcome × St := run prog s

/-! ### the interface through which a zone could enter: stdlib dispatch with readers as parameters -/

/-- a reader's behaviour is a parameter (third-party: chrono / syslog_loose), it may depend on `tz` -/
abbrev ReaderImpl := Cnv.Tz → String → List (Option Value) → Res

/-- value-level stdlib dispatch with the zone: only names in `tzReaders` get to see it -/
def callStd (rd : ReaderImpl) (tz : Cnv.Tz) (name : String) (args : List (Option Value)) : Res :=
  if isTzReader name then rd tz name args else purFn name args

/-! ### `parse_timestamp` (stdlib/parse_timestamp.rs), the main reader: glue over the C35 model -/

/-- `parse_timestamp(value: <bytes>, format, timezone?)` under configured zone `ctx`:
    `Conversion::timestamp(&format, timezone.unwrap_or(*ctx.timezone())).convert(value)`
    (the format is NOT trimmed here). -/
def parseTimestampFn {P : Type} (ft : Cnv.FloatText) (ch : Cnv.Chrono P) (ctx : Cnv.Tz)
    (value : List Nat) (format : List Char) (timezoneArg : Option Cnv.Tz) : Cnv.ConvResult :=
  Cnv.convert ft ch (Cnv.Conversion.ofTimestampFmt format (timezoneArg.getD ctx)) value

/-- the verdict of the behavioural oracle `o.c36`:
    `sensitive` = the program calls a reader (computed from `tzReaders`);
    mode `auto`: a difference is allowed only for sensitive programs;
    mode `explicit` (explicit `timezone:` argument / explicit offset): no difference allowed;
    mode `sensitive` (zone-less input to a reader, zones with different offsets): must differ. -/
inductive Verdict where
  | holds
  | skippedNondeterministic
  | failsTz            -- a function outside `tzReaders` depends on the configured zone
  | failsExplicit      -- explicit zone/offset did not win
  | failsNotSensitive  -- a listed reader did not react to the zone (list entry unjustified)
  deriving DecidableEq, Repr

def verdict (mode : String) (calls : List String) (deterministic equal : Bool) : Verdict :=
  if !deterministic then .skippedNondeterministic
  else if mode == "explicit" then (if equal then .holds else .failsExplicit)
  else if mode == "sensitive" then (if equal then .failsNotSensitive else .holds)
  else if equal then .holds
  else if calls.any isTzReader then .holds
  else .failsTz

end TzModel
