/-
  VrlModel.Wire — canonical text form of values and paths for the line protocol (DESIGN Appendix B).

    value := n | t | f | i:<dec> | d:<16 hex> | b:<hex> | ts:<dec ns> | re:<hex>
           | [ value* ] | { (k:<hex> value)* }        tokens separated by single spaces
    path  := ( .<hex field> | #<dec index> )*         segments separated by single spaces; root = "-"
-/
import VrlModel.Value

namespace Wire

def hexDigit (n : Nat) : Char :=
  if n < 10 then Char.ofNat (48 + n) else Char.ofNat (87 + n)

def hexOfBytes (bs : List Nat) : String :=
  String.ofList (bs.flatMap fun b => [hexDigit (b / 16 % 16), hexDigit (b % 16)])

def hexVal (c : Char) : Option Nat :=
  let n := c.toNat
  if 48 ≤ n ∧ n ≤ 57 then some (n - 48)
  else if 97 ≤ n ∧ n ≤ 102 then some (n - 87)
  else if 65 ≤ n ∧ n ≤ 70 then some (n - 55)
  else none

def bytesOfHexChars : List Char → Option (List Nat)
  | [] => some []
  | [_] => none
  | a :: b :: rest => do
    let x ← hexVal a
    let y ← hexVal b
    let r ← bytesOfHexChars rest
    pure ((x * 16 + y) :: r)

def bytesOfHex (s : String) : Option (List Nat) := bytesOfHexChars s.toList

def natOfHexChars (cs : List Char) : Option Nat :=
  cs.foldlM (fun acc c => (hexVal c).map (fun d => acc * 16 + d)) 0

def hex16 (n : Nat) : String :=
  String.ofList ((List.range 16).reverse.map fun k => hexDigit (n / 16 ^ k % 16))

def bytesOfString (s : String) : List Nat := s.toUTF8.toList.map (·.toNat)

def parseInt (s : String) : Option Int := s.toInt?

def dropPrefix (s : String) (n : Nat) : String := String.ofList (s.toList.drop n)

mutual
  partial def parseValue : List String → Option (Value × List String)
    | [] => none
    | tok :: rest =>
      if tok == "n" then some (.null, rest)
      else if tok == "t" then some (.bool true, rest)
      else if tok == "f" then some (.bool false, rest)
      else if tok == "[" then (parseList rest).map fun (xs, r) => (.arr xs, r)
      else if tok == "{" then (parseMap rest).map fun (m, r) => (.obj m, r)
      else if tok.startsWith "i:" then (parseInt (dropPrefix tok 2)).map fun i => (.int i, rest)
      else if tok.startsWith "d:" then
        (natOfHexChars (tok.toList.drop 2)).map fun n => (.float n, rest)
      else if tok.startsWith "b:" then (bytesOfHex (dropPrefix tok 2)).map fun b => (.bytes b, rest)
      else if tok.startsWith "ts:" then (parseInt (dropPrefix tok 3)).map fun i => (.ts i, rest)
      else if tok.startsWith "re:" then (bytesOfHex (dropPrefix tok 3)).map fun b => (.regex b, rest)
      else none
  partial def parseList : List String → Option (VList × List String)
    | [] => none
    | tok :: rest =>
      if tok == "]" then some (.nil, rest)
      else do
        let (v, r) ← parseValue (tok :: rest)
        let (vs, r') ← parseList r
        pure (.cons v vs, r')
  partial def parseMap : List String → Option (VMap × List String)
    | [] => none
    | tok :: rest =>
      if tok == "}" then some (.nil, rest)
      else if tok.startsWith "k:" then do
        let k ← bytesOfHex (dropPrefix tok 2)
        let (v, r) ← parseValue rest
        let (m, r') ← parseMap r
        pure (.cons k v m, r')
      else none
end

def tokens (s : String) : List String := (s.splitOn " ").filter (· ≠ "")

def valueOfString (s : String) : Option Value :=
  match parseValue (tokens s) with
  | some (v, []) => some v
  | _ => none

def segOfString (t : String) : Option Seg :=
  if t.startsWith "." then (bytesOfHex (dropPrefix t 1)).map Seg.field
  else if t.startsWith "#" then (parseInt (dropPrefix t 1)).map Seg.index
  else none

def pathOfString (s : String) : Option Path :=
  if s == "-" then some [] else (tokens s).mapM segOfString

mutual
  def showValue : Value → String
    | .null => "n"
    | .bool true => "t"
    | .bool false => "f"
    | .int i => "i:" ++ toString i
    | .float b => "d:" ++ hex16 b
    | .bytes b => "b:" ++ hexOfBytes b
    | .ts i => "ts:" ++ toString i
    | .regex b => "re:" ++ hexOfBytes b
    | .arr xs => "[" ++ showList xs ++ " ]"
    | .obj m => "{" ++ showMap m ++ " }"
  def showList : VList → String
    | .nil => ""
    | .cons v vs => " " ++ showValue v ++ showList vs
  def showMap : VMap → String
    | .nil => ""
    | .cons k v m => " k:" ++ hexOfBytes k ++ " " ++ showValue v ++ showMap m
end

def showOptValue : Option Value → String
  | none => "none"
  | some v => showValue v

def showSeg : Seg → String
  | .field k => "." ++ hexOfBytes k
  | .index i => "#" ++ toString i

def showPath : Path → String
  | [] => "-"
  | p => " ".intercalate (p.map showSeg)

end Wire
