/-
  VrlModel.C19 — the C19 laws as decidable predicates on observations (used by the theorems and
  by the oracle) and the decidable finding classes (DESIGN §7 C19).
-/
import VrlModel.KindSpec

namespace C19
open Spec

/-! ### the laws, on observations -/

/-- reading: `get v p = g`, `at_path K p = atK`. -/
def atLaw (v : Value) (K : Kind) (g : Option Value) (atK : Kind) : Bool :=
  !mem v K || memOpt g atK

/-- `Kind::get`: the run-time result of a read (absent ⇒ `null`) is in `K.get p`. -/
def getLaw (v : Value) (K : Kind) (g : Option Value) (getK : Kind) : Bool :=
  !mem v K || mem (g.getD .null) getK

def insertLaw (v : Value) (K : Kind) (x : Value) (X : Kind) (v' : Value) (K' : Kind) : Bool :=
  !(mem v K && mem x X) || mem v' K'

def removeLaw (v : Value) (K : Kind) (v' : Value) (K' : Kind) : Bool :=
  !mem v K || mem v' K'

/-- the removed value (or `null` when nothing was there) is in the returned kind. -/
def removedLaw (v : Value) (K : Kind) (removed : Option Value) (R : Kind) : Bool :=
  !mem v K || mem (removed.getD .null) R

def unionLaw (v : Value) (A B U : Kind) : Bool :=
  !(mem v A || mem v B) || mem v U

def mergeLaw (a : Value) (A : Kind) (b : Value) (B : Kind) (m : Value) (M : Kind) : Bool :=
  !(mem a A && mem b B) || mem m M

def supersetLaw (v : Value) (A B : Kind) (res : Bool) : Bool :=
  !(res && mem v B) || mem v A

def memsupLaw (v : Value) (K : Kind) (res : Bool) : Bool :=
  mem v K == res

/-- `canonicalize` keeps every member. -/
def canonLaw (v : Value) (K Kc : Kind) : Bool :=
  !mem v K || mem v Kc

/-- `canonicalize` adds no member. -/
def canonRevLaw (v : Value) (K Kc : Kind) : Bool :=
  !mem v Kc || mem v K

end C19

/-! ### finding classes (DESIGN §7 C19): decidable predicates on the inputs -/

mutual
  /-- an `Infinite` unknown other than `any` occurs somewhere in the kind. -/
  def Kind.hasNonAnyInf : Kind → Bool
    | .mk _ a o => OCol.hasNonAnyInf a || OCol.hasNonAnyInf o
  def OCol.hasNonAnyInf : OCol → Bool
    | .none => false
    | .some c => Col.hasNonAnyInf c
  def Col.hasNonAnyInf : Col → Bool
    | .mk k u => KList.hasNonAnyInf k || Unknown.hasNonAnyInf u
  def KList.hasNonAnyInf : KList → Bool
    | .nil => false
    | .cons _ v m => Kind.hasNonAnyInf v || KList.hasNonAnyInf m
  def Unknown.hasNonAnyInf : Unknown → Bool
    | .exact k => Kind.hasNonAnyInf k
    | .infinite i => !i.isAny
end

mutual
  /-- some `Exact` unknown turns into an `Infinite` one under `Unknown::canonicalize`
      (`to_kind().or_undefined()` is `is_any` / `is_json`, which look at the top-level states only). -/
  def Kind.hasExactToInf : Kind → Bool
    | .mk _ a o => OCol.hasExactToInf a || OCol.hasExactToInf o
  def OCol.hasExactToInf : OCol → Bool
    | .none => false
    | .some c => Col.hasExactToInf c
  def Col.hasExactToInf : Col → Bool
    | .mk k u => KList.hasExactToInf k || Unknown.hasExactToInf u
  def KList.hasExactToInf : KList → Bool
    | .nil => false
    | .cons _ v m => Kind.hasExactToInf v || KList.hasExactToInf m
  def Unknown.hasExactToInf : Unknown → Bool
    | .exact k => k.orUndefined.isAny || k.orUndefined.isJson || Kind.hasExactToInf k
    | .infinite _ => false
end

mutual
  /-- some unknown (at any depth) satisfies `P`. -/
  def Kind.anyUnknown (P : Unknown → Bool) : Kind → Bool
    | .mk _ a o => OCol.anyUnknown P a || OCol.anyUnknown P o
  def OCol.anyUnknown (P : Unknown → Bool) : OCol → Bool
    | .none => false
    | .some c => Col.anyUnknown P c
  def Col.anyUnknown (P : Unknown → Bool) : Col → Bool
    | .mk k u => KList.anyUnknown P k || Unknown.anyUnknown P u
  def KList.anyUnknown (P : Unknown → Bool) : KList → Bool
    | .nil => false
    | .cons _ v m => Kind.anyUnknown P v || KList.anyUnknown P m
  def Unknown.anyUnknown (P : Unknown → Bool) : Unknown → Bool
    | .exact k => P (.exact k) || Kind.anyUnknown P k
    | .infinite i => P (.infinite i)
end

/-- an `Exact(k)` unknown whose `k.is_any()` (which holds for `never` and for every kind with all
    top-level states, whatever its collections): `Unknown::is_superset` takes it for a superset of
    every `Infinite`. `Unknown::from(Kind)` never builds it; merging `Exact` unknowns can. -/
def Unknown.exactIsAny : Unknown → Bool
  | .exact k => k.isAny
  | .infinite _ => false

mutual
  /-- the keys of every known map are strictly increasing (what a `BTreeMap` guarantees). -/
  def Kind.SortedK : Kind → Bool
    | .mk _ a o => OCol.SortedK a && OCol.SortedK o
  def OCol.SortedK : OCol → Bool
    | .none => true
    | .some c => Col.SortedK c
  def Col.SortedK : Col → Bool
    | .mk k u => KList.SortedKeys k && KList.SortedK k && Unknown.SortedK u
  def KList.SortedK : KList → Bool
    | .nil => true
    | .cons _ v m => Kind.SortedK v && KList.SortedK m
  def Unknown.SortedK : Unknown → Bool
    | .exact k => Kind.SortedK k
    | .infinite _ => true
end

namespace C19
open Spec

/-- `pred` holds at some step of the walk of `p` through `k` (the kind met at a segment is the
    `at_path` of the prefix before it). `pred` also sees the rest of the path. -/
def anyOnPath (pred : Kind → Seg → Path → Bool) : Kind → Path → Bool
  | _, [] => false
  | k, s :: rest => pred k s rest || anyOnPath pred (k.getSeg s) rest

/-- an index segment meets an array collection with a known index that may be absent
    (its kind admits `undefined`): `min_length` / `largest_known_index` / hole filling treat such
    an index as present. -/
def optionalIdx (k : Kind) (s : Seg) (_ : Path) : Bool :=
  match s, k.array with
  | .index _, some c => c.known.any (fun _ v => v.prim.undefined)
  | _, _ => false

/-- a field (index) segment meets a kind that has the object (array) state *and* other states:
    `insert_recursive` keeps the collection alternative although the run-time value may be another
    alternative; compaction in `remove` likewise. -/
def unionAlt (k : Kind) (s : Seg) (_ : Path) : Bool :=
  match s with
  | .field _ => k.hasObj && !k.isObject
  | .index _ => k.hasArr && !k.isArray

/-- a negative index reaches before the start of an array of exactly known, non-zero length:
    the exact-length branch of `insert_recursive` fills holes behind the known indices instead of
    shifting them. -/
def negExactNoShift (k : Kind) (s : Seg) (_ : Path) : Bool :=
  match s, k.array with
  | .index i, some c =>
    decide (i < 0) && !c.unknownKind.containsAnyDefined && !c.known.isEmpty &&
      decide (c.minLength < (-i).toNat)
  | _, _ => false

/-- the index an index segment resolves to when the length is taken to be `min_length`. -/
def resolvedIdx (c : Col) (i : Int) : Nat :=
  if i < 0 then ((c.minLength : Int) + i).toNat else i.toNat

/-- a negative index meets an array of unknown length whose candidate range
    `min_index ..= largest_known_index` contains an index that is not known: `remove_inner` only
    considers the removal of known indices, so the shift caused by removing an unknown one is missed. -/
def negGap (k : Kind) (s : Seg) (_ : Path) : Bool :=
  match s, k.array with
  | .index i, some c =>
    decide (i < 0) && c.unknownKind.containsAnyDefined &&
    (match c.largestKnownIndex with
     | some l =>
       let minIndex := l + 1 - (-i).toNat
       (List.range (l + 1 - minIndex)).any (fun j => !c.known.contains (Key.ofIdx (minIndex + j)))
     | none => false)
  | _, _ => false

/-- the removal continues below a field / index that is not known: `remove_inner` then works on a
    temporary and the collection (its `unknown`) is left unchanged. -/
def throughUnknown (k : Kind) (s : Seg) (rest : Path) : Bool :=
  !rest.isEmpty &&
  match s with
  | .field f =>
    (match k.object with
     | some c => !c.known.contains f
     | none => false)
  | .index i =>
    (match k.array with
     | some c => c.unknownKind.containsAnyDefined &&
         (decide (i < 0) || !c.known.contains (Key.ofIdx i.toNat))
     | none => false)

/-- the collection a segment addresses has a known entry that may be absent: `Collection::is_empty`
    answers `Never` as soon as there is a known entry, so compaction of a collection whose known
    entries are all absent at run time is missed. -/
def optionalKnown (k : Kind) (s : Seg) (_ : Path) : Bool :=
  match s with
  | .field _ =>
    (match k.object with
     | some c => c.known.any (fun _ v => v.prim.undefined)
     | none => false)
  | .index _ =>
    (match k.array with
     | some c => c.known.any (fun _ v => v.prim.undefined)
     | none => false)

end C19

namespace Spec

/-- non-negative path: every index segment is `≥ 0`. -/
def nonNegSeg : Seg → Bool
  | .field _ => true
  | .index i => decide (0 ≤ i)

def nonNegPath (p : Path) : Bool := p.all nonNegSeg

end Spec

namespace C19
open Spec

/-- a negative index meets an array whose length is not exactly known: `get_recursive` unions the
    candidate known kinds with `merge_keep`. -/
def negUnknown (k : Kind) (s : Seg) (_ : Path) : Bool :=
  match s, k.array with
  | .index i, some c => decide (i < 0) && c.unknownKind.containsAnyDefined
  | _, _ => false

/-- the kind `insert_recursive` continues with below a segment (for a negative index: the kind
    `at_path` continues with). -/
def insertNext (k : Kind) : Seg → Kind
  | .field f =>
    let col := k.object.getD Col.empty
    (col.known.get f).getD col.unknownKind
  | .index i =>
    if i < 0 then k.getSeg (.index i)
    else
      let col := k.array.getD Col.empty
      (col.known.get (Key.ofIdx i.toNat)).getD col.unknownKind

/-- `pred` holds at some step of the walk `insert_recursive` makes along `p`. -/
def anyOnInsertPath (pred : Kind → Seg → Path → Bool) : Kind → Path → Bool
  | _, [] => false
  | k, s :: rest => pred k s rest || anyOnInsertPath pred (insertNext k s) rest

/-- a field (index) segment meets a kind that has the object (array) state *and* other states, and
    that collection has a known entry that must be present: `insert_recursive` keeps the collection
    alternative's required entries although the run-time value may be another alternative. -/
def unionAltReq (k : Kind) (s : Seg) (_ : Path) : Bool :=
  match s with
  | .field _ =>
    k.hasObj && !k.isObject &&
      (match k.object with
       | some c => c.known.any (fun _ v => !v.prim.undefined)
       | none => false)
  | .index _ =>
    k.hasArr && !k.isArray &&
      (match k.array with
       | some c => c.known.any (fun _ v => !v.prim.undefined)
       | none => false)

/-- the finding classes of C19 (`none` = outside every class). -/
inductive Cls where
  | minlen_counts_optional | neg_insert_exact_noshift | insert_union_alt | inf_over_exact
  | remove_neg_gap | remove_through_unknown
  | compact_optional_known | compact_union_alt | merge_overwrite_maybe_absent
  | merge_unknown_overwrite | superset_inf_vs_exact | canon_exact_to_infinite | neg_min | none
  deriving DecidableEq, Repr

def Cls.name : Cls → String
  | .minlen_counts_optional => "D_minlen_counts_optional"
  | .neg_insert_exact_noshift => "D_neg_insert_exact_noshift"
  | .insert_union_alt => "D_insert_union_alt"
  | .inf_over_exact => "D_inf_over_exact"
  | .remove_neg_gap => "D_remove_neg_gap"
  | .remove_through_unknown => "D_remove_through_unknown"
  | .compact_optional_known => "D_compact_optional_known"
  | .compact_union_alt => "D_compact_union_alt"
  | .merge_overwrite_maybe_absent => "D_merge_overwrite_maybe_absent"
  | .merge_unknown_overwrite => "D_merge_unknown_overwrite"
  | .superset_inf_vs_exact => "D_superset_inf_vs_exact"
  | .canon_exact_to_infinite => "D_canon_exact_to_infinite"
  | .neg_min => "D_neg_min"
  | .none => "-"

def atClass (K : Kind) (p : Path) : Cls :=
  if anyOnPath optionalIdx K p then .minlen_counts_optional
  else if anyOnPath negUnknown K p && K.hasNonAnyInf then .inf_over_exact
  else .none

def insertClass (K : Kind) (p : Path) (X : Kind) : Cls :=
  if anyOnInsertPath optionalIdx K p then .minlen_counts_optional
  else if anyOnInsertPath negExactNoShift K p then .neg_insert_exact_noshift
  else if anyOnInsertPath unionAltReq K p then .insert_union_alt
  else if anyOnInsertPath negUnknown K p && (K.hasNonAnyInf || X.hasNonAnyInf) then .inf_over_exact
  else .none

def removeClass (K : Kind) (p : Path) (compact : Bool) : Cls :=
  if anyOnPath optionalIdx K p then .minlen_counts_optional
  else if anyOnPath negGap K p then .remove_neg_gap
  else if anyOnPath throughUnknown K p then .remove_through_unknown
  else if compact && anyOnPath optionalKnown K p then .compact_optional_known
  else if compact && anyOnPath unionAlt K p then .compact_union_alt
  else if K.hasNonAnyInf then .inf_over_exact
  else .none

/-- the model predicts the panic: the `-isize::MIN` negation (the only one left since e3023e2). -/
def panicClassRemove (K : Kind) (p : Path) (compact : Bool) : Cls :=
  match K.remove p compact with
  | .panic => if Value.pathPanics p then .neg_min else .none
  | .ok _ => .none

def panicClassAt (K : Kind) (p : Path) : Cls :=
  if K.atPathPanics p then .neg_min else .none

def unionClass (A B : Kind) : Cls :=
  if A.hasNonAnyInf || B.hasNonAnyInf then .inf_over_exact else .none

/-- `Collection::merge(overwrite)` takes the other side's kind for a key known there even when
    that kind admits `undefined`. -/
def overwriteMaybeAbsent (B : Kind) : Bool :=
  match B.object with
  | some c => c.known.any (fun _ v => v.prim.undefined)
  | none => false

/-- both object collections have an `Exact` unknown with defined states: `Unknown::merge` merges them
    with `overwrite`, i.e. as if an unknown field of the result were the merge of two objects. -/
def unknownOverwrite (A B : Kind) : Bool :=
  match A.object, B.object with
  | some a, some b =>
    a.unknown.isExact && a.unknownKind.containsAnyDefined &&
    b.unknown.isExact && b.unknownKind.containsAnyDefined
  | _, _ => false

def mergeClass (A B : Kind) : Cls :=
  if overwriteMaybeAbsent B then .merge_overwrite_maybe_absent
  else if unknownOverwrite A B then .merge_unknown_overwrite
  else if A.hasNonAnyInf || B.hasNonAnyInf then .inf_over_exact
  else .none

def canonClass (K : Kind) : Cls :=
  if K.hasExactToInf then .canon_exact_to_infinite else .none

def memsupClass (K : Kind) (res : Bool) : Cls :=
  if !res && K.hasNonAnyInf then .superset_inf_vs_exact else .none

/-! ### the laws on the model (what the theorems are about) -/

/-- run-time `a | b` on objects: `lhs.into_iter().chain(rhs).collect()`. -/
def _root_.VMap.mergeInto : VMap → VMap → VMap
  | a, .nil => a
  | a, .cons k v m => VMap.mergeInto (a.insert k v) m

def atLawM (v : Value) (K : Kind) (p : Path) : Bool :=
  atLaw v K (v.get p) (K.atPath p) && getLaw v K (v.get p) (K.get p)

def insertLawM (v : Value) (K : Kind) (p : Path) (x : Value) (X : Kind) : Bool :=
  match v.insert p x with
  | .panic => true
  | .ok (v', _) => insertLaw v K x X v' (K.insert p X)

/-- a panic of `Kind::remove` counts as a violation when `v ∈ K` (`Value::remove` never panics). -/
def removeLawM (v : Value) (K : Kind) (p : Path) (compact : Bool) : Bool :=
  match K.remove p compact with
  | .panic => !mem v K
  | .ok (K', R) =>
    removeLaw v K (v.remove p compact).2 K' && removedLaw v K (v.remove p compact).1 R

def unionLawM (v : Value) (A B : Kind) : Bool := unionLaw v A B (A.union B)

def mergeLawM (a : Value) (A : Kind) (b : Value) (B : Kind) : Bool :=
  match a, b with
  | .obj ma, .obj mb => mergeLaw a A b B (.obj (ma.mergeInto mb)) (A.merge B .overwrite)
  | _, _ => true

def supersetLawM (v : Value) (A B : Kind) : Bool := supersetLaw v A B (A.isSuperset B)

def memsupLawM (v : Value) (K : Kind) : Bool := memsupLaw v K (K.isSuperset v.kindOf)

def canonLawM (v : Value) (K : Kind) : Bool := canonLaw v K K.canonicalize

end C19
