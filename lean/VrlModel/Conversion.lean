/-
  VrlModel.Conversion — model of `src/compiler/conversion/mod.rs` (`Conversion::{parse, timestamp,
  convert}`, `parse_bool`, `format_has_zone`, `parse_timestamp`, `parse_unix_timestamp`) and of
  `src/compiler/datetime.rs` (`TimeZone::datetime_from_str`, `datetime_to_utc`).

  Representation:
  * conversion names and strftime formats are `List Char` (`&str`; `str::trim` is Unicode aware);
  * the text to convert is `List Nat` (bytes). `convert` first applies `String::from_utf8_lossy`;
    everything vrl-owned that inspects the text (`parse_bool`, integer parsing) only ever matches
    ASCII, and an invalid or non-ASCII byte sequence becomes a non-ASCII character, so these are
    modelled directly on the bytes (see `parseBool` for the one Unicode fact this relies on);
  * an instant is the pair `(secs, nanos)` = (`DateTime::timestamp()`, `timestamp_subsec_nanos()`);
    `nanos ≥ 10^9` is chrono's representation of a leap second. `datetime_to_utc` is
    `ts.with_timezone(&Utc)` (since 83f4a4b): the SAME pair, leap-second representation included,
    and it cannot fail. (Before, it rebuilt the instant with `Utc.timestamp_opt(..).single()
    .expect(..)` and panicked on the pairs chrono refuses, `timestampOptOk = false`: a leap second
    on a UTC second that is not :59 — finding `nopanic:D_leap_offset`, now fixed.)
    `ConvResult.panic` / `R.panic` remain as outcomes of the wire format (what the harness reports
    when the real code panics); no modelled path produces them any more
    (`C35.convert_no_panic`).
  * a timestamp VALUE is observed as a nanosecond count (`Value.ts`, wire `ts:<ns>` =
    `timestamp()·10⁹ + timestamp_subsec_nanos()`, which is also what `timestamp_nanos_opt` gives):
    the leap-second representation `(s, 10⁹ + f)` is not distinguished from `(s + 1, f)`.
  * third-party primitives are parameters: `FloatText` (core's `f64` parsing/printing) and
    `Chrono` (strftime parsing, zone resolution, RFC 3339 / RFC 2822 parsing). Their laws are
    hypotheses of the theorems in `VrlProofs/Props/C35.lean`.
-/
import VrlModel.Value

namespace Cnv

/-! ## Zones and conversions -/

/-- `vrl::compiler::TimeZone`: `Local` or `Named(chrono_tz::Tz)` (identified by its tz-database name). -/
inductive Tz where
  | local
  | named (name : String)
  deriving DecidableEq, Repr

/-- `enum Conversion`. -/
inductive Conversion where
  | bytes
  | integer
  | float
  | boolean
  | timestamp (tz : Tz)
  | timestampFmt (fmt : List Char) (tz : Tz)
  | timestampTzFmt (fmt : List Char)
  deriving DecidableEq, Repr

/-! ## `Conversion::parse` -/

/-- `char::is_whitespace` (Unicode `White_Space`), what `str::trim` strips. -/
def isWhite (c : Char) : Bool :=
  let n := c.toNat
  (9 ≤ n && n ≤ 13) || n == 32 || n == 0x85 || n == 0xA0 || n == 0x1680 ||
  (0x2000 ≤ n && n ≤ 0x200A) || n == 0x2028 || n == 0x2029 || n == 0x202F || n == 0x205F || n == 0x3000

def trimStart (s : List Char) : List Char := s.dropWhile isWhite

/-- `str::trim`. -/
def trim (s : List Char) : List Char := (trimStart (trimStart s).reverse).reverse

/-- `s.splitn(2, '|')`: the text before the first `|` and, if there is one, everything after it. -/
def split2 : List Char → List Char × Option (List Char)
  | [] => ([], none)
  | c :: r =>
    if c = '|' then ([], some r)
    else
      let p := split2 r
      (c :: p.1, p.2)

/-- `needle` is a prefix of `s`. -/
def isPrefix : List Char → List Char → Bool
  | [], _ => true
  | _ :: _, [] => false
  | a :: as, b :: bs => a == b && isPrefix as bs

/-- `str::contains(&str)`. -/
def hasSub (needle : List Char) : List Char → Bool
  | [] => isPrefix needle []
  | c :: r => isPrefix needle (c :: r) || hasSub needle r

/-- `format_has_zone`: does the strftime format contain `%Z`, `%z`, `%:z`, `%#z` or `%+`? -/
def formatHasZone (fmt : List Char) : Bool :=
  hasSub ['%', 'Z'] fmt || hasSub ['%', 'z'] fmt || hasSub ['%', ':', 'z'] fmt ||
  hasSub ['%', '#', 'z'] fmt || hasSub ['%', '+'] fmt

/-- `Conversion::timestamp(fmt, tz)`. -/
def Conversion.ofTimestampFmt (fmt : List Char) (tz : Tz) : Conversion :=
  if formatHasZone fmt then .timestampTzFmt fmt else .timestampFmt fmt tz

def nAsis : List Char := ['a', 's', 'i', 's']
def nBytes : List Char := ['b', 'y', 't', 'e', 's']
def nString : List Char := ['s', 't', 'r', 'i', 'n', 'g']
def nInteger : List Char := ['i', 'n', 't', 'e', 'g', 'e', 'r']
def nInt : List Char := ['i', 'n', 't']
def nFloat : List Char := ['f', 'l', 'o', 'a', 't']
def nBool : List Char := ['b', 'o', 'o', 'l']
def nBoolean : List Char := ['b', 'o', 'o', 'l', 'e', 'a', 'n']
def nTimestamp : List Char := ['t', 'i', 'm', 'e', 's', 't', 'a', 'm', 'p']

/-- the name table of `Conversion::parse` for names without a `|` part. -/
def parseName (a : List Char) (tz : Tz) : Option Conversion :=
  if a = nAsis ∨ a = nBytes ∨ a = nString then some .bytes
  else if a = nInteger ∨ a = nInt then some .integer
  else if a = nFloat then some .float
  else if a = nBool ∨ a = nBoolean then some .boolean
  else if a = nTimestamp then some (.timestamp tz)
  else none

/-- `Conversion::parse(s, tz)`; `none` = `Err(UnknownConversion)`. Both parts are trimmed; only
    `timestamp` may carry a `|format` part (so `int|` is an error, `timestamp|` has the empty format). -/
def Conversion.parse (s : List Char) (tz : Tz) : Option Conversion :=
  let p := split2 s
  match p.2 with
  | none => parseName (trim p.1) tz
  | some f => if trim p.1 = nTimestamp then some (Conversion.ofTimestampFmt (trim f) tz) else none

/-! ## Integer text: `str::parse::<i64>` (`core::num::from_str_radix`, radix 10) -/

def i64Min : Int := -9223372036854775808
def i64Max : Int := 9223372036854775807

/-- digit loop for a non-negative literal: `checked_mul(10)` then `checked_add(digit)`;
    `none` = `InvalidDigit` or `PosOverflow`. -/
def accPos : Int → List Nat → Option Int
  | acc, [] => some acc
  | acc, d :: ds =>
    if d < 48 ∨ 57 < d then none
    else if i64Max < acc * 10 then none
    else if i64Max < acc * 10 + ((d - 48 : Nat) : Int) then none
    else accPos (acc * 10 + ((d - 48 : Nat) : Int)) ds

/-- digit loop after a `-`: `checked_mul(10)` then `checked_sub(digit)`; `none` = `InvalidDigit`/`NegOverflow`. -/
def accNeg : Int → List Nat → Option Int
  | acc, [] => some acc
  | acc, d :: ds =>
    if d < 48 ∨ 57 < d then none
    else if acc * 10 < i64Min then none
    else if acc * 10 - ((d - 48 : Nat) : Int) < i64Min then none
    else accNeg (acc * 10 - ((d - 48 : Nat) : Int)) ds

/-- `i64::from_str`: empty → `Empty`; a lone sign → `InvalidDigit`; one optional `+`/`-`; digits. -/
def parseI64 : List Nat → Option Int
  | [] => none
  | [43] => none
  | [45] => none
  | 43 :: ds => accPos 0 ds
  | 45 :: ds => accNeg 0 ds
  | ds => accPos 0 ds

/-- decimal digits (ASCII) of a natural number, most significant first (`Display for u64`). -/
def natDigits (n : Nat) : List Nat :=
  if h : n < 10 then [48 + n] else natDigits (n / 10) ++ [48 + n % 10]
termination_by n
decreasing_by omega

/-- `Display for i64`. -/
def showI64 (i : Int) : List Nat :=
  if i < 0 then 45 :: natDigits i.natAbs else natDigits i.natAbs

/-! ## `parse_bool` -/

def wTrue : List Nat := [116, 114, 117, 101]
def wT : List Nat := [116]
def wYes : List Nat := [121, 101, 115]
def wY : List Nat := [121]
def wFalse : List Nat := [102, 97, 108, 115, 101]
def wF : List Nat := [102]
def wNo : List Nat := [110, 111]
def wN : List Nat := [110]
def wZero : List Nat := [48]

def isTrueWord (s : List Nat) : Bool := s == wTrue || s == wT || s == wYes || s == wY
def isFalseWord (s : List Nat) : Bool := s == wFalse || s == wF || s == wNo || s == wN

def lowerByte (b : Nat) : Nat := if 65 ≤ b ∧ b ≤ 90 then b + 32 else b

/-- `str::to_lowercase` as far as `parse_bool` can observe it: ASCII letters are lowered, every
    other byte is kept. Justification (Rust core's Unicode tables, swept exhaustively by the
    correspondence op `c35.lower`): the only non-ASCII characters whose lowercase contains an ASCII
    character are U+0130 (`i` + U+0307) and U+212A (`k`), and neither `i` nor `k` occurs in
    true/t/yes/y/false/f/no/n — so a text with a non-ASCII (or invalid, hence U+FFFD) byte
    sequence never lowercases to one of the words, exactly as here where bytes ≥ 0x80 stay. -/
def lowerAscii (s : List Nat) : List Nat := s.map lowerByte

/-- `parse_bool` (`isize` = `i64` on the 64-bit targets the harness runs on). -/
def parseBool (s : List Nat) : Option Bool :=
  if isTrueWord s then some true
  else if isFalseWord s || s == wZero then some false
  else
    match parseI64 s with
    | some n => some (n != 0)
    | none =>
      if isTrueWord (lowerAscii s) then some true
      else if isFalseWord (lowerAscii s) then some false
      else none

def showBool (b : Bool) : List Nat := if b then wTrue else wFalse

/-! ## Parameters: float text and chrono -/

/-- core's `f64` text functions on bit patterns. -/
structure FloatText where
  /-- `str::parse::<f64>` of the (lossy) text: the parsed value's bit pattern. -/
  parseF : List Nat → Option Nat
  /-- `Display for f64`. -/
  showF : Nat → List Nat

/-- NaN test on a binary64 bit pattern (`NotNan::new` fails). -/
def isNaN (bits : Nat) : Bool := (bits / 2 ^ 52) % 2 ^ 11 == 2047 && bits % 2 ^ 52 != 0

/-- an instant as chrono reports it: `(timestamp(), timestamp_subsec_nanos())`. -/
abbrev Inst := Int × Nat

/-- chrono (and chrono-tz) as used by the conversion code. `P` is `chrono::format::Parsed`. -/
structure Chrono (P : Type) where
  /-- `chrono::format::parse(&mut Parsed::new(), s, StrftimeItems::new(fmt))` (`none` = `Err`). -/
  parse : List Nat → List Char → Option P
  /-- `Parsed::to_datetime_with_timezone(&Local)`. -/
  resolveLocal : P → Option Inst
  /-- `Parsed::to_datetime_with_timezone(&tz)` for a named zone. -/
  resolveNamed : String → P → Option Inst
  /-- `DateTime::<FixedOffset>::parse_from_str(s, fmt)`. -/
  parseFromStr : List Nat → List Char → Option Inst
  /-- `DateTime::parse_from_rfc3339(s)`. -/
  parseRfc3339 : List Nat → Option Inst
  /-- `DateTime::parse_from_rfc2822(s)`. -/
  parseRfc2822 : List Nat → Option Inst

/-! ## `datetime.rs` -/

/-- outcome of `convert`-level computations that may panic. -/
inductive R (α : Type) where
  | ok (a : α)
  | err
  | panic
  deriving DecidableEq, Repr

/-- `Utc.timestamp_opt(secs, nanos)` is `Single` iff the date is in chrono's range and the
    nanosecond field is < 2·10⁹ and, if ≥ 10⁹ (leap second), `secs % 60 == 59`
    (`NaiveTime::from_num_seconds_from_midnight_opt`, `DateTime::from_timestamp`).
    Used by `parse_unix_timestamp` (with `nanos = 0`); `datetime_to_utc` no longer goes through it. -/
def chronoMinSecs : Int := -8334601228800   -- -262143-01-01T00:00:00Z
def chronoMaxSecs : Int := 8210266876799    -- +262142-12-31T23:59:59Z

def timestampOptOk (secs : Int) (nanos : Nat) : Bool :=
  decide (chronoMinSecs ≤ secs) && decide (secs ≤ chronoMaxSecs) && decide (nanos < 2000000000) &&
  (decide (nanos < 1000000000) || secs % 60 == 59)

/-- `datetime_to_utc`: `ts.with_timezone(&Utc)` — `Utc.from_utc_datetime` of the UTC date-time the
    `DateTime<Tz>` stores: `timestamp()` and `timestamp_subsec_nanos()` are unchanged (a leap-second
    nanosecond field ≥ 10⁹ is kept, also on a UTC second that is not :59), nothing is re-validated,
    nothing can fail. -/
def datetimeToUtc (i : Inst) : R Inst := .ok i

/-- `TimeZone::datetime_from_str(&self, s, format)`. -/
def datetimeFromStr {P : Type} (ch : Chrono P) (tz : Tz) (s : List Nat) (fmt : List Char) : R Inst :=
  match ch.parse s fmt with
  | none => .err
  | some p =>
    match tz with
    | .local =>
      match ch.resolveLocal p with
      | none => .err
      | some i => datetimeToUtc i
    | .named n =>
      match ch.resolveNamed n p with
      | none => .err
      | some i => datetimeToUtc i

/-! ## `parse_timestamp` -/

/-- `TIMESTAMP_LOCAL_FORMATS` -/
def localFormats : List (List Char) := [
  ['%', 'F', ' ', '%', 'T'],
  ['%', 'v', ' ', '%', 'T'],
  ['%', 'F', 'T', '%', 'T'],
  ['%', 'm', '/', '%', 'd', '/', '%', 'Y', ':', '%', 'T'],
  ['%', 'a', ',', ' ', '%', 'd', ' ', '%', 'b', ' ', '%', 'Y', ' ', '%', 'T'],
  ['%', 'a', ' ', '%', 'd', ' ', '%', 'b', ' ', '%', 'T', ' ', '%', 'Y'],
  ['%', 'A', ' ', '%', 'd', ' ', '%', 'B', ' ', '%', 'T', ' ', '%', 'Y'],
  ['%', 'a', ' ', '%', 'b', ' ', '%', 'e', ' ', '%', 'T', ' ', '%', 'Y']]

/-- `TIMESTAMP_TZ_FORMATS` -/
def tzFormats : List (List Char) := [
  ['%', '+'],
  ['%', 'a', ' ', '%', 'd', ' ', '%', 'b', ' ', '%', 'T', ' ', '%', 'Z', ' ', '%', 'Y'],
  ['%', 'a', ' ', '%', 'd', ' ', '%', 'b', ' ', '%', 'T', ' ', '%', 'z', ' ', '%', 'Y'],
  ['%', 'a', ' ', '%', 'd', ' ', '%', 'b', ' ', '%', 'T', ' ', '%', '#', 'z', ' ', '%', 'Y'],
  ['%', 'd', '/', '%', 'b', '/', '%', 'Y', ':', '%', 'T', ' ', '%', 'z']]

/-- the loop over `TIMESTAMP_LOCAL_FORMATS`: first `Ok` wins (a panic inside `datetime_from_str`
    would leave the loop and propagate; `datetimeFromStr` has no such outcome any more). -/
def tryLocal {P : Type} (ch : Chrono P) (tz : Tz) (s : List Nat) : List (List Char) → Option (R Inst)
  | [] => none
  | f :: fs =>
    match datetimeFromStr ch tz s f with
    | .ok i => some (.ok i)
    | .panic => some .panic
    | .err => tryLocal ch tz s fs

/-- the loop over `TIMESTAMP_TZ_FORMATS` (`DateTime::parse_from_str` then `datetime_to_utc`). -/
def tryZoned {P : Type} (ch : Chrono P) (s : List Nat) : List (List Char) → Option (R Inst)
  | [] => none
  | f :: fs =>
    match ch.parseFromStr s f with
    | some i => some (datetimeToUtc i)
    | none => tryZoned ch s fs

/-- `parse_unix_timestamp`: `s.parse::<i64>()` then `Utc.timestamp_opt(secs, 0)` must be `Single`. -/
def parseUnixTimestamp (s : List Nat) : Option Inst :=
  match parseI64 s with
  | some secs => if timestampOptOk secs 0 then some (secs, 0) else none
  | none => none

/-- `parse_timestamp(tz, s)`; `.err` = `AutoTimestampParse`. The configured zone is consulted only
    by the first loop. -/
def parseTimestamp {P : Type} (ch : Chrono P) (tz : Tz) (s : List Nat) : R Inst :=
  match tryLocal ch tz s localFormats with
  | some r => r
  | none =>
    match parseUnixTimestamp s with
    | some i => .ok i
    | none =>
      match ch.parseRfc3339 s with
      | some i => datetimeToUtc i
      | none =>
        match ch.parseRfc2822 s with
        | some i => datetimeToUtc i
        | none =>
          match tryZoned ch s tzFormats with
          | some r => r
          | none => .err

/-! ## `Conversion::convert` -/

/-- `enum Error` (the class only). -/
inductive ConvErr where
  | boolParse | intParse | nanFloat | floatParse | timestampParse | autoTimestampParse
  deriving DecidableEq, Repr

inductive ConvResult where
  | ok (v : Value)
  | err (e : ConvErr)
  | panic
  deriving DecidableEq

/-- a timestamp value: nanoseconds since the epoch (`secs·10⁹ + nanos`). -/
def instNs (i : Inst) : Int := i.1 * 1000000000 + (i.2 : Int)

def tsResult (e : ConvErr) : R Inst → ConvResult
  | .ok i => .ok (.ts (instNs i))
  | .err => .err e
  | .panic => .panic

/-- The zone-explicit branch `Self::TimestampTzFmt(format)`: **no `Tz` anywhere in its inputs**. -/
def convertTzFmt {P : Type} (ch : Chrono P) (fmt : List Char) (s : List Nat) : ConvResult :=
  match ch.parseFromStr s fmt with
  | none => .err .timestampParse
  | some i => tsResult .timestampParse (datetimeToUtc i)

/-- `Conversion::convert::<Value>(&self, bytes)`. -/
def convert {P : Type} (ft : FloatText) (ch : Chrono P) (conv : Conversion) (s : List Nat) : ConvResult :=
  match conv with
  | .bytes => .ok (.bytes s)
  | .integer =>
    match parseI64 s with
    | some i => .ok (.int i)
    | none => .err .intParse
  | .float =>
    match ft.parseF s with
    | none => .err .floatParse
    | some bits => if isNaN bits then .err .nanFloat else .ok (.float bits)
  | .boolean =>
    match parseBool s with
    | some b => .ok (.bool b)
    | none => .err .boolParse
  | .timestamp tz => tsResult .autoTimestampParse (parseTimestamp ch tz s)
  | .timestampFmt fmt tz => tsResult .timestampParse (datetimeFromStr ch tz s fmt)
  | .timestampTzFmt fmt => convertTzFmt ch fmt s

/-- `Conversion::parse(name, tz)?.convert(bytes)` as the embedder uses it (`none` = unknown name). -/
def convertNamed {P : Type} (ft : FloatText) (ch : Chrono P) (name : List Char) (tz : Tz) (s : List Nat) :
    Option ConvResult :=
  (Conversion.parse name tz).map fun cv => convert ft ch cv s

end Cnv
