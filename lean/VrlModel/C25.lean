/-
  VrlModel.C25 — the decidable Spec predicates of C25 ("paired conversion functions are mutually
  inverse"), one per pair, phrased on *observations* (input, result of the first function, result
  of the second function applied to it). The theorems of VrlProofs/Props/C25.lean state them of
  the model functions; the `o.c25.*` oracle ops evaluate the same predicates on what the
  implementation returned. Finding classes are the decidable predicates `D_*`.
-/
import VrlModel.Conv.Int
import VrlModel.Conv.Entries
import VrlModel.Conv.Flatten
import VrlModel.Conv.Ip
import VrlModel.Conv.Time

namespace C25
open Conv

/-- the second observation is `ok x` -/
def restores (second : Res Value) (x : Value) : Bool := second == .ok x

/-! #### format_int / parse_int -/

def intDomain (n b : Int) : Bool := inI64 n && decide (2 ≤ b) && decide (b ≤ 36)

/-- clause `int`: on the domain, `format_int` succeeds and `parse_int` (same base) restores `n`. -/
def specInt (n b : Int) (_formatted parsed : Res Value) : Bool :=
  !intDomain n b || restores parsed (.int n)

/-! #### to_entries / from_entries -/

def keysFixed : VMap → Bool
  | .nil => true
  | .cons k _ m => Utf8.fixed k && keysFixed m

/-- objects as the implementation holds them: keys sorted and valid UTF-8 -/
def entriesDomain (m : VMap) : Bool := VMap.Sorted m && keysFixed m

def specEntries (m : VMap) (back : Res Value) : Bool :=
  !entriesDomain m || restores back (.obj m)

/-! #### flatten / unflatten -/

/-- `k` does not contain `sep` -/
def noSep (sep k : Key) : Bool := !containsSub sep k

/-- the first occurrence of `sep` in `k ++ sep` is the appended one: `k` does not contain `sep`
    and no occurrence straddles the end of `k` (automatic when `sep` is a single character). -/
def sepFree (sep k : Key) : Bool := Flat.splitOnce sep (k ++ sep) == some (k, [])

mutual
  /-- domain as worded in the property: no key anywhere contains the separator, no container
      anywhere (below the root) is empty. -/
  def statedOK (sep : Key) : Value → Bool
    | .obj m => !m.isEmpty && statedOKM sep m
    | .arr a => !a.isEmpty && statedOKL sep a
    | _ => true
  def statedOKM (sep : Key) : VMap → Bool
    | .nil => true
    | .cons k v m => noSep sep k && statedOK sep v && statedOKM sep m
  def statedOKL (sep : Key) : VList → Bool
    | .nil => true
    | .cons v vs => statedOK sep v && statedOKL sep vs
end

mutual
  /-- domain of the theorem: along the *object spine* (arrays are opaque leaves for both
      functions) every key is `sepFree`, every nested object is non-empty, keys are sorted. -/
  def flatOKM (sep : Key) : VMap → Bool
    | .nil => true
    | .cons k v m => sepFree sep k && flatOKV sep v && VMap.allGt k m && flatOKM sep m
  def flatOKV (sep : Key) : Value → Bool
    | .obj m => !m.isEmpty && flatOKM sep m
    | _ => true
end

mutual
  /-- finding class: some key on the object spine does not contain the separator and yet is not
      `sepFree` (the separator overlaps itself across the join, e.g. key `xa`, separator `aa`). -/
  def D_sep_overlapM (sep : Key) : VMap → Bool
    | .nil => false
    | .cons k v m => (noSep sep k && !sepFree sep k) || D_sep_overlapV sep v || D_sep_overlapM sep m
  def D_sep_overlapV (sep : Key) : Value → Bool
    | .obj m => D_sep_overlapM sep m
    | _ => false
end

def specFlatten (sep : Key) (m : VMap) (back : Res Value) : Bool :=
  !(sep != [] && (flatOKM sep m || (VMap.Sorted m && statedOKM sep m))) || restores back (.obj m)

/-! #### ip_aton / ip_ntoa, ip_pton / ip_ntop, mapped addresses -/

def specAton (n : Int) (back : Res Value) : Bool :=
  !(decide (0 ≤ n) && decide (n ≤ 4294967295)) || restores back (.int n)

/-- text direction: whatever `ip_aton` accepts, `ip_ntoa` prints back -/
def specNtoa (s : List Nat) (there back : Res Value) : Bool :=
  match there with
  | .ok _ => restores back (.bytes s)
  | _ => true

def octets (b : List Nat) : Bool := b.all (· < 256)

def specPton (b : List Nat) (back : Res Value) : Bool :=
  !((b.length == 4 || b.length == 16) && octets b) || restores back (.bytes b)

/-- `ipv6_to_ipv4 (ip_to_ipv6 s)` for the canonical text `s` of the IPv4 address `a` -/
def specMapped (a : List Nat) (back : Res Value) : Bool :=
  !(a.length == 4 && octets a) || restores back (.bytes (Ip.showV4 a))

/-- the assumed law of the IPv6 text parameter at one address `g` (8 segments): what `Display`
    prints is ASCII, is not (a prefix that parses as) an IPv4 address, and parses back to `g`. -/
def v6ok (c : Ip.V6Text) (g : List Nat) : Bool :=
  (c.show6 g).all (· < 128) && (Ip.readV4 (c.show6 g)).isNone && c.parse6 (c.show6 g) == some g

/-! #### to_unix_timestamp / from_unix_timestamp -/

/-- `from(to(t))` is `t` rounded down to the unit; in particular `t` itself iff `t` is a
    multiple of the unit. (For nanoseconds `to` fails outside the `i64` range.) -/
def specUnix (u : Time.TUnit) (t : Int) (there back : Res Value) : Bool :=
  !Time.tsInRange t ||
  (match there with
   | .ok _ => restores back (.ts (t - t % u.ns))
   | _ => u == .nanoseconds && !inI64 t)

/-- `to(from(n)) = n` whenever `from` accepts `n`. -/
def specUnixInv (n : Int) (there back : Res Value) : Bool :=
  !inI64 n ||
  (match there with
   | .ok _ => restores back (.int n)
   | _ => true)

/-! #### format_timestamp / parse_timestamp -/

/-- the zone `format_timestamp` formats in: UTC without a `timezone` argument -/
def zoneOfArg (c : Time.Chrono) : Option Value → Option Time.Zone
  | none => some .utc
  | some (.bytes b) => Time.parseZone c (Utf8.lossy b)
  | some _ => none

/-- `parse_timestamp` accepts its `timezone` argument (absent, or a name that resolves) -/
def tzAccepted (c : Time.Chrono) (tz : Option Value) : Bool :=
  tz.isNone || (zoneOfArg c tz).isSome

/-- the assumed law of the chrono parameter at one point: formatting `t` in zone `z` with the
    (valid, full-precision, offset-carrying) format `f` gives a text that `parse_from_str` maps
    back to the same instant. -/
def tsLaw (c : Time.Chrono) (z : Time.Zone) (t : Int) (f : List Nat) : Bool :=
  match c.format z t f with
  | some txt =>
    c.validFormat f && Utf8.fixed txt &&
      c.parseFixed txt f == some (t / 1000000000, (t % 1000000000).toNat)
  | none => false

def specTimestamp (t : Int) (back : Res Value) : Bool :=
  !Time.tsInRange t || restores back (.ts t)

/-- finding class (chrono, not modelled): the format prints the epoch seconds with `%s`, which
    chrono's parser does not accept with a minus sign. -/
def D_negative_epoch_seconds (fmt : List Nat) (t : Int) : Bool :=
  containsSub [37, 115] fmt && decide (t < 0)

/-- finding class (chrono, not modelled): the zone's UTC offset at the instant is not a whole
    number of minutes (local mean time before standard time was adopted); `%z`, `%:z` and `%+`
    print hours and minutes only. `offset` = seconds east of UTC as chrono-tz reports them. -/
def D_offset_seconds (offset : Int) : Bool := offset % 60 != 0

end C25
