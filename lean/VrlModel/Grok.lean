/-
  VrlModel.Grok — model of vrl's Datadog-grok rule compiler and matcher (property C32).

  Rust anchors (pinned tree):
    src/datadog/grok/parse_grok_rules.rs   GROK_PATTERN_RE segmentation, parse_grok_rule, resolve_grok_pattern,
                                           parse_alias (alias_stack), resolves_match_function, parse_pattern
    src/datadog/grok/lexer.rs, parser.lalrpop   the `%{matcher:destination:filter}` placeholder syntax
    src/datadog/grok/grok.rs               Grok::compile (expansion of `%{name:alias}` with the built-in
                                           library), Pattern::new (names), match_against
    src/datadog/grok/grok_filter.rs        GrokFilter::try_from, apply_filter (scalar filters)
    src/datadog/grok/parse_grok.rs         parse_grok, apply_grok_rule, postprocess_value

  Parameters (third-party / data, never axioms):
    * `Engine`  – the regular-expression engine (onig): compile, group names, search with captures;
    * `Prims`   – Rust core primitives: `str::parse::<f64>`, `str::to_lowercase/to_uppercase`;
    * `lib`     – the built-in pattern library (`patterns/*.pattern`), as data.
  Text is `List Char` (Unicode scalar values); values use the shared `Value` model.

  Text outside placeholders is appended to the regular expression **verbatim**: vrl does not escape
  it, the rule author does.
-/
import VrlModel.Value
import VrlModel.F64

namespace Grok

abbrev Str := List Char

open Lean in
/-- `cs!"abc"` = `['a', 'b', 'c']` (a list literal, so that it reduces in the kernel). -/
macro:max "cs!" s:str : term => do
  let elems : Array (TSyntax `term) :=
    (s.getString.toList.map fun c => (Syntax.mkCharLit c : TSyntax `term)).toArray
  `(([$elems,*] : List Char))

/-- compile-time errors of `parse_grok_rules` (`parse_grok_rules::Error`), by class. -/
inductive Err where
  | circular (first : Str)   -- CircularDependencyInAliasDefinition(alias_stack.first())
  | unknownFilter            -- UnknownFilter
  | invalidArgs              -- InvalidFunctionArguments
  | syntax                   -- InvalidGrokExpression(<placeholder>, _): lexer / LALRPOP error
  | undef                    -- InvalidGrokExpression(<regex>, DefinitionNotFound)
  | regex                    -- InvalidGrokExpression(<regex>, any other Grok::compile error)
  deriving DecidableEq, Repr

/-- Outcome of a modelled computation. `panic` is a Rust panic, `oom` means a parameter (engine,
    primitive) or an unmodelled filter declined to answer, `fuel` is the exhaustion of a recursion
    bound (proved unreachable, C32.parseRule_terminates). -/
inductive Out (α : Type) where
  | ok (a : α)
  | err (e : Err)
  | panic
  | oom
  | fuel
  deriving Repr, DecidableEq

namespace Out
def bind {α β : Type} : Out α → (α → Out β) → Out β
  | .ok a, f => f a
  | .err e, _ => .err e
  | .panic, _ => .panic
  | .oom, _ => .oom
  | .fuel, _ => .fuel
instance : Monad Out where
  pure := .ok
  bind := Out.bind
end Out

/-- Rust core primitives used by the grok code, as parameters. -/
structure Prims where
  /-- `str::parse::<f64>`: `some none` = parse error, `some (some bits)` = the value (may be NaN/±∞);
      the outer `none` = the instance declines (the model then answers `oom`). -/
  parseF64 : Str → Option (Option Nat)
  /-- `str::to_lowercase`, `str::to_uppercase` (`none` = the instance declines) -/
  lower : Str → Option Str
  upper : Str → Option Str

/-! ## 1. Segmentation: `GROK_PATTERN_RE.find_iter(rule)`

    `%\{(?:[^"\}]|(?<!\\)"(?:\\"|[^"])*(?<!\\)")+\}` — after `%{`, one or more items, each a
    character other than `"` and `}`, or a string that starts at a `"` not preceded by `\` and ends
    at the next `"` not preceded by `\`; then `}`. The expression is deterministic (an item can
    be read in one way only), so leftmost-first search = the scanner below. -/

inductive Piece where
  | text (s : Str)
  | ph (s : Str)      -- a placeholder, `%{` … `}` included
  deriving DecidableEq, Repr

inductive ScanSt where
  | items (nonempty : Bool)
  | str
  deriving DecidableEq

/-- scan the rest of a placeholder after `%{`; `prev` is the previous character.
    Result: (body up to and including the closing `}`, rest of the rule). -/
def scanPh : ScanSt → Char → Str → Option (Str × Str)
  | _, _, [] => none
  | .items ne, prev, c :: cs =>
    if c = '}' then (if ne then some (['}'], cs) else none)
    else if c = '"' then
      if prev = '\\' then none
      else match scanPh .str c cs with
        | some (b, r) => some (c :: b, r)
        | none => none
    else match scanPh (.items true) c cs with
      | some (b, r) => some (c :: b, r)
      | none => none
  | .str, prev, c :: cs =>
    if c = '"' && prev != '\\' then
      match scanPh (.items true) c cs with
      | some (b, r) => some (c :: b, r)
      | none => none
    else match scanPh .str c cs with
      | some (b, r) => some (c :: b, r)
      | none => none

def flush (acc : Str) : List Piece := [.text acc.reverse]

/-- the pieces of a rule, in order: text, placeholder, text, …, text (texts may be empty, exactly
    as `append_regex(&rule[regex_i..start])` appends possibly empty slices). -/
def segF : Nat → Str → Str → List Piece
  | 0, _, acc => flush acc
  | _ + 1, [], acc => flush acc
  | n + 1, c :: cs, acc =>
    if c = '%' then
      match cs with
      | '{' :: body =>
        match scanPh (.items false) '{' body with
        | some (b, rest) => flush acc ++ (.ph ('%' :: '{' :: b) :: segF n rest [])
        | none => segF n cs (c :: acc)
      | _ => segF n cs (c :: acc)
    else segF n cs (c :: acc)

def seg (rule : Str) : List Piece := segF (rule.length + 1) rule []

/-! ## 2. Placeholder syntax: `lexer.rs` + `parser.lalrpop` -/

/-- Unicode `White_Space` (Rust `char::is_whitespace`). -/
def isWs (c : Char) : Bool :=
  let n := c.toNat
  (9 ≤ n && n ≤ 13) || n = 32 || n = 0x85 || n = 0xA0 || n = 0x1680 || (0x2000 ≤ n && n ≤ 0x200A)
    || n = 0x2028 || n = 0x2029 || n = 0x202F || n = 0x205F || n = 0x3000

def isDigit (c : Char) : Bool := '0' ≤ c && c ≤ '9'
def isIdentStart (c : Char) : Bool :=
  c = '$' || c = '@' || c = '_' || ('a' ≤ c && c ≤ 'z') || ('A' ≤ c && c ≤ 'Z')
def isIdentCont (c : Char) : Bool := isDigit c || c = '-' || isIdentStart c
def isFloatSym (c : Char) : Bool := c = 'e' || c = 'E' || c = '-' || c = '+' || c = '.'

inductive Tok where
  | lrule | rrule | lbr | rbr | colon | lpar | rpar | dot | comma
  | null | tru | fals
  | sign | invalid
  | int (i : Int)
  | float (bits : Nat)
  | str (s : Str)
  | ident (s : Str)
  | ext (s : Str)
  deriving DecidableEq, Repr

/-- `unescape_string_literal` (`\\n`, `\\r`, `\\t` — backslash backslash letter — first, then
    `\'`, `\"`, `\\`; any other escape is an error). -/
def unesc : Str → Option Str
  | [] => some []
  | '\\' :: '\\' :: 'n' :: r => (unesc r).map ('\n' :: ·)
  | '\\' :: '\\' :: 'r' :: r => (unesc r).map ('\r' :: ·)
  | '\\' :: '\\' :: 't' :: r => (unesc r).map ('\t' :: ·)
  | '\\' :: c :: r =>
    if c = '\'' || c = '"' || c = '\\' then (unesc r).map (c :: ·) else none
  | c :: r => if c = '\\' then none else (unesc r).map (c :: ·)

def natOfDigits (ds : Str) : Nat := ds.foldl (fun a d => a * 10 + (d.toNat - 48)) 0

def identTok (s : Str) : Tok :=
  if s = cs!"true" then .tru
  else if s = cs!"false" then .fals
  else if s = cs!"null" then .null
  else if s.any (fun c => c = '@' || c = '-') then .ext s
  else .ident s

def i64Max : Int := 9223372036854775807
def i64Min : Int := -9223372036854775808

/-- lexer states: the lexer of lexer.rs read as a character-by-character machine
    (identifiers, numbers and strings accumulate their text, most recent character first). -/
inductive LS where
  | start
  | pct                 -- after `%`
  | dot                 -- after `.`
  | ident (acc : Str)
  | num (acc : Str)
  | str (acc : Str)
  | strEsc (acc : Str)  -- after a backslash inside a string
  deriving DecidableEq, Repr

/-- outcome classes of reading one placeholder: a lexer/parser error (`InvalidGrokExpression`), or a
    float literal the `Prims` instance declines to parse. -/
inductive PhErr where
  | syntax
  | oom
  deriving DecidableEq, Repr

/-- `numeric_literal`: digits and `e E - + .`; a float if any of the latter occurs. -/
def finishNum (P : Prims) (acc : Str) : Except PhErr Tok :=
  let num := acc.reverse
  if num.any isFloatSym then
    match P.parseF64 num with
    | some (some bits) => .ok (.float bits)
    | some none => .error .syntax
    | none => .error .oom
  else
    let v : Int := natOfDigits num
    if v ≤ i64Max then .ok (.int v) else .error .syntax

def startStep (c : Char) : List Tok × LS :=
  if c = '%' then ([], .pct)
  else if c = '}' then ([.rrule], .start)
  else if c = '[' then ([.lbr], .start)
  else if c = ']' then ([.rbr], .start)
  else if c = '(' then ([.lpar], .start)
  else if c = ')' then ([.rpar], .start)
  else if c = '.' then ([], .dot)
  else if c = ':' then ([.colon], .start)
  else if c = ',' then ([.comma], .start)
  else if c = '"' then ([], .str [])
  else if c = '+' || c = '-' then ([.sign], .start)
  else if isIdentStart c then ([], .ident [c])
  else if isDigit c then ([], .num [c])
  else if isWs c then ([], .start)
  else ([.invalid], .start)

def lexStep (P : Prims) : LS → Char → Except PhErr (List Tok × LS)
  | .start, c => .ok (startStep c)
  | .pct, c =>
    if c = '{' then .ok ([.lrule], .start)
    else .ok (.invalid :: (startStep c).1, (startStep c).2)
  | .dot, c =>
    if isDigit c then .ok ([], .num [c, '.'])
    else .ok (.dot :: (startStep c).1, (startStep c).2)
  | .ident acc, c =>
    if isIdentCont c then .ok ([], .ident (c :: acc))
    else .ok (identTok acc.reverse :: (startStep c).1, (startStep c).2)
  | .num acc, c =>
    if isDigit c || isFloatSym c then .ok ([], .num (c :: acc))
    else match finishNum P acc with
      | .ok t => .ok (t :: (startStep c).1, (startStep c).2)
      | .error e => .error e
  | .str acc, c =>
    if c = '\\' then .ok ([], .strEsc (c :: acc))
    else if c = '"' then
      match unesc acc.reverse with
      | some t => .ok ([.str t], .start)
      | none => .error .syntax
    else .ok ([], .str (c :: acc))
  | .strEsc acc, c => .ok ([], .str (c :: acc))

def lexEnd (P : Prims) : LS → Except PhErr (List Tok)
  | .start => .ok []
  | .pct => .ok [.invalid]
  | .dot => .ok [.dot]
  | .ident acc => .ok [identTok acc.reverse]
  | .num acc =>
    match finishNum P acc with
    | .ok t => .ok [t]
    | .error e => .error e
  | .str _ | .strEsc _ => .error .syntax

/-- the lexer; every lexer error is the class `syntax`. -/
def lexFrom (P : Prims) : LS → Str → Except PhErr (List Tok)
  | st, [] => lexEnd P st
  | st, c :: cs =>
    match lexStep P st c with
    | .ok (ts, st') =>
      (match lexFrom P st' cs with
       | .ok rest => .ok (ts ++ rest)
       | .error e => .error e)
    | .error e => .error e

def lex (P : Prims) (s : Str) : Except PhErr (List Tok) := lexFrom P .start s

/-- scalar values as the grok code sees them: byte strings are always valid UTF-8 text here
    (literals of the placeholder syntax, matched substrings of a `&str`, `String` results). -/
inductive SV where
  | str (s : Str)
  | int (i : Int)
  | float (bits : Nat)
  | bool (b : Bool)
  | null
  deriving DecidableEq, Repr

def utf8 (s : Str) : List Nat := (String.ofList s).toUTF8.toList.map (·.toNat)

def SV.toValue : SV → Value
  | .str s => .bytes (utf8 s)
  | .int i => .int i
  | .float b => .float b
  | .bool b => .bool b
  | .null => .null

/-- a function argument: a literal, or a nested function reference (only its presence matters to
    the modelled filters). -/
inductive Arg where
  | lit (v : SV)
  | fn
  deriving DecidableEq

structure Fn where
  name : Str
  args : Option (List Arg)
  deriving DecidableEq

structure Dest where
  path : List Str
  filter : Option Fn
  deriving DecidableEq

/-- `ast::GrokPattern` -/
structure Pat where
  fn : Fn
  dest : Option Dest
  deriving DecidableEq

def joinDot : List Str → Str
  | [] => []
  | [a] => a
  | a :: rest => a ++ '.' :: joinDot rest

/-- `("." Identifier)*` -/
def qualTail : List Tok → Except PhErr (List Str × List Tok)
  | .dot :: .ident s :: r =>
    match qualTail r with
    | .ok (l, r') => .ok (s :: l, r')
    | .error e => .error e
  | .dot :: _ => .error .syntax
  | r => .ok ([], r)

/-- states of the argument-list reader (all nesting levels obey the same grammar, so a depth
    counter replaces the parser stack). -/
inductive AS where
  | argOrClose     -- after `(` or `,`
  | afterLit       -- after a literal or a closed nested call
  | afterName      -- after an identifier of a (qualified) function name
  | afterDot       -- after `.` inside a qualified name
  deriving DecidableEq, Repr

def litOfTok : Tok → Option SV
  | .int i => some (.int i)
  | .float b => some (.float b)
  | .str s => some (.str s)
  | .tru => some (.bool true)
  | .fals => some (.bool false)
  | .null => some .null
  | _ => none

/-- `CommaList<Arg> ")"` with `Arg = Literal | FunctionOrRef`, `CommaList = (Arg ",")* Arg?`.
    `depth` counts the open parentheses (≥ 1); only the arguments of the outermost list are kept
    (most recent first in `acc`), nested calls are checked for syntax and recorded as `Arg.fn`. -/
def argsGo : Nat → AS → List Arg → List Tok → Except PhErr (List Arg × List Tok)
  | _, _, _, [] => .error .syntax
  | depth, st, acc, t :: r =>
    let close : Except PhErr (List Arg × List Tok) :=
      if depth ≤ 1 then .ok (acc.reverse, r) else argsGo (depth - 1) .afterLit acc r
    match st with
    | .argOrClose =>
      if t = .rpar then close
      else match litOfTok t with
        | some v => argsGo depth .afterLit (if depth ≤ 1 then .lit v :: acc else acc) r
        | none =>
          match t with
          | .ident _ => argsGo depth .afterName (if depth ≤ 1 then .fn :: acc else acc) r
          | _ => .error .syntax
    | .afterLit =>
      if t = .comma then argsGo depth .argOrClose acc r
      else if t = .rpar then close
      else .error .syntax
    | .afterName =>
      if t = .dot then argsGo depth .afterDot acc r
      else if t = .lpar then argsGo (depth + 1) .argOrClose acc r
      else if t = .comma then argsGo depth .argOrClose acc r
      else if t = .rpar then close
      else .error .syntax
    | .afterDot =>
      match t with
      | .ident _ => argsGo depth .afterName acc r
      | _ => .error .syntax

/-- `FunctionOrRef` -/
def parseFn : List Tok → Except PhErr (Fn × List Tok)
  | .ident s :: r =>
    match qualTail r with
    | .ok (l, r1) =>
      (match r1 with
       | .lpar :: r2 =>
         (match argsGo 1 .argOrClose [] r2 with
          | .ok (args, r3) => .ok (⟨joinDot (s :: l), some args⟩, r3)
          | .error e => .error e)
       | _ => .ok (⟨joinDot (s :: l), none⟩, r1))
    | .error e => .error e
  | _ => .error .syntax

/-- `Lookup`: one or more `"."? Field | "[" String "]"`; returns the segments read (possibly none). -/
def lookupTail : List Tok → Except PhErr (List Str × List Tok)
  | .dot :: .ident s :: r => do let (l, r') ← lookupTail r; pure (s :: l, r')
  | .dot :: .ext s :: r => do let (l, r') ← lookupTail r; pure (s :: l, r')
  | .dot :: _ => .error .syntax
  | .ident s :: r => do let (l, r') ← lookupTail r; pure (s :: l, r')
  | .ext s :: r => do let (l, r') ← lookupTail r; pure (s :: l, r')
  | .lbr :: .str s :: .rbr :: r => do let (l, r') ← lookupTail r; pure (s :: l, r')
  | .lbr :: _ => .error .syntax
  | r => .ok ([], r)

/-- `GrokFilter` (the start symbol): the whole placeholder. -/
def parsePat (toks : List Tok) : Except PhErr Pat :=
  match toks with
  | .lrule :: r => do
    let (f, r1) ← parseFn r
    match r1 with
    | [.rrule] => pure ⟨f, none⟩
    | [.colon, .rrule] => pure ⟨f, none⟩
    | .colon :: .colon :: r2 => do
      let (g, r3) ← parseFn r2
      if r3 = [.rrule] then pure ⟨f, some ⟨[], some g⟩⟩ else .error .syntax
    | .colon :: r2 => do
      let (path, r3) ← lookupTail r2
      if path = [] then .error .syntax
      else match r3 with
        | [.rrule] => pure ⟨f, some ⟨path, none⟩⟩
        | .colon :: r4 => do
          let (g, r5) ← parseFn r4
          if r5 = [.rrule] then pure ⟨f, some ⟨path, some g⟩⟩ else .error .syntax
        | _ => .error .syntax
    | _ => .error .syntax
  | _ => .error .syntax

/-- `parse_grok_pattern` -/
def parsePlaceholder (P : Prims) (s : Str) : Except PhErr Pat :=
  match lex P s with
  | .ok toks => parsePat toks
  | .error e => .error e

/-! ## 3. Filters (`grok_filter.rs`) -/

inductive Filter where
  | integer | integerExt | number | numberExt
  | nullIf (s : Str)
  | scale (bits : Nat)
  | lowercase | uppercase | boolean
  /-- accepted by vrl, application not modelled (json, rubyhash, querystring, decodeuricomponent, xml) -/
  | other (name : Str)
  deriving DecidableEq, Repr

/-- the `match f.name.as_str()` of `GrokFilter::try_from`. -/
inductive FilterKind where
  | scale | integer | integerExt | number | numberExt | lowercase | uppercase | boolean | nullIf
  | opaque        -- json, rubyhash, querystring, decodeuricomponent, xml: accepted, application not modelled
  | unmodelled    -- array, keyvalue: own argument validation, outside the model
  | unknown
  deriving DecidableEq, Repr

def filterKind (n : Str) : FilterKind :=
  if n = cs!"scale" then .scale
  else if n = cs!"integer" then .integer
  else if n = cs!"integerExt" then .integerExt
  else if n = cs!"number" then .number
  else if n = cs!"numberExt" then .numberExt
  else if n = cs!"lowercase" then .lowercase
  else if n = cs!"uppercase" then .uppercase
  else if n = cs!"json" || n = cs!"rubyhash" || n = cs!"querystring" || n = cs!"decodeuricomponent" || n = cs!"xml" then
    .opaque
  else if n = cs!"boolean" then .boolean
  else if n = cs!"nullIf" then .nullIf
  else if n = cs!"array" || n = cs!"keyvalue" then .unmodelled
  else .unknown

/-- `GrokFilter::try_from(&Function)`. `nullIf()` with an empty argument list is rejected
    (`args.first()`; it used to index `args[0]` and panic — fixed in /repo). -/
def filterOf (f : Fn) : Out Filter :=
  match filterKind f.name with
  | .scale =>
    (match f.args with
     | some (.lit (.int i) :: _) => .ok (.scale (F64.ofInt i))
     | some (.lit (.float b) :: _) => .ok (.scale b)
     | _ => .err .invalidArgs)
  | .integer => .ok .integer
  | .integerExt => .ok .integerExt
  | .number => .ok .number
  | .numberExt => .ok .numberExt
  | .lowercase => .ok .lowercase
  | .uppercase => .ok .uppercase
  | .opaque => .ok (.other f.name)
  | .boolean => .ok .boolean
  | .nullIf =>
    (match f.args with
     | none => .err .invalidArgs
     | some [] => .err .invalidArgs
     | some (.lit (.str b) :: _) => .ok (.nullIf b)
     | some _ => .err .invalidArgs)
  | .unmodelled => .oom
  | .unknown => .err .unknownFilter

/-! ## 4. Rule → regular-expression source and fields (`parse_grok_rule`, `resolve_grok_pattern`) -/

/-- `GrokField` -/
structure Field where
  path : List Str
  filters : List Filter
  deriving DecidableEq, Repr

/-- `GrokRuleParseContext` (aliases are passed separately: they never change).
    `fields` is the `HashMap<String, GrokField>` keyed by `grok<N>`, held as an association list on `N`. -/
structure Ctx where
  regex : Str
  fields : List (Nat × Field)
  stack : List Str
  deriving DecidableEq, Repr

def Ctx.empty : Ctx := ⟨[], [], []⟩

def Ctx.append (c : Ctx) (s : Str) : Ctx := { c with regex := c.regex ++ s }

/-- `HashMap::insert` -/
def insertField : List (Nat × Field) → Nat → Field → List (Nat × Field)
  | [], n, f => [(n, f)]
  | (m, g) :: rest, n, f => if m = n then (m, f) :: rest else (m, g) :: insertField rest n f

/-- `entry(name).and_modify(|v| v.filters.insert(0, filter))` -/
def prependFilter : List (Nat × Field) → Nat → Filter → List (Nat × Field)
  | [], _, _ => []
  | (m, g) :: rest, n, f =>
    if m = n then (m, { g with filters := f :: g.filters }) :: rest else (m, g) :: prependFilter rest n f

def natDigits (n : Nat) : Str := Nat.toDigits 10 n

/-- `format!("grok{}", n)` -/
def grokName (n : Nat) : Str := cs!"grok" ++ natDigits n

def lookupAlias : List (Str × Str) → Str → Option Str
  | [], _ => none
  | (k, v) :: rest, q => if k = q then some v else lookupAlias rest q

/-- the `match match_fn.name.as_ref()` of `resolves_match_function`. -/
inductive MatcherKind where
  | regex | integer | integerExt | number | numberExt | date | other
  deriving DecidableEq, Repr

def matcherKind (n : Str) : MatcherKind :=
  if n = cs!"regex" then .regex
  else if n = cs!"integer" then .integer
  else if n = cs!"integerExt" then .integerExt
  else if n = cs!"number" then .number
  else if n = cs!"numberExt" then .numberExt
  else if n = cs!"date" then .date
  else .other

/-- a matcher with an implicit filter (`integer`, `number`, …): the filter goes to the front of the
    field's filters, the library pattern `s` into the expression. -/
def withFilter (grokAlias : Option Nat) (c : Ctx) (flt : Filter) (s : Str) : Ctx :=
  let c1 := match grokAlias with
    | some g => { c with fields := prependFilter c.fields g flt }
    | none => c
  c1.append s

/-- `resolves_match_function` -/
def resolveMatchFn (grokAlias : Option Nat) (p : Pat) (c : Ctx) : Out Ctx :=
  match matcherKind p.fn.name with
  | .regex =>
    (match p.fn.args with
     | some (.lit (.str b) :: _) => .ok (c.append b)
     | _ => .err .invalidArgs)
  | .integer => .ok (withFilter grokAlias c .integer cs!"integerStr")
  | .integerExt => .ok (withFilter grokAlias c .integerExt cs!"integerExtStr")
  | .number => .ok (withFilter grokAlias c .number cs!"numberStr")
  | .numberExt => .ok (withFilter grokAlias c .numberExt cs!"numberExtStr")
  | .date =>
    -- the date matcher itself (time_format_to_regex, strptime conversion) is outside the model
    (match p.fn.args with
     | some [.lit (.str _)] => .oom
     | some [.lit (.str _), _] => .oom
     | _ => .err .invalidArgs)
  | .other => .ok (c.append p.fn.name)

/-- `match_name == "regex" || match_name == "date" || match_name == "boolean"` -/
def isGroupMatcher (n : Str) : Bool := n = cs!"regex" || n = cs!"date" || n = cs!"boolean"

/-- the first `match` of `resolve_grok_pattern`: a placeholder with a destination registers a
    field under the next free name (`grok<fields.len()>`). -/
def registerDest (p : Pat) (c : Ctx) : Out Ctx :=
  match p.dest with
  | some ⟨path, some f⟩ =>
    (match filterOf f with
     | .ok flt => .ok { c with fields := insertField c.fields c.fields.length ⟨path, [flt]⟩ }
     | .err e => .err e
     | .panic => .panic
     | .oom => .oom
     | .fuel => .fuel)
  | some ⟨path, none⟩ => .ok { c with fields := insertField c.fields c.fields.length ⟨path, []⟩ }
  | none => .ok c

/-- `parse_alias`: `alias_stack` holds the aliases whose definitions are being expanded; a name
    that is already there is a circular dependency (reported with the *first* name of the stack). -/
def parseAlias (self : Str → Ctx → Out Ctx) (name def_ : Str) (c : Ctx) : Out Ctx :=
  if c.stack.contains name then
    .err (.circular (c.stack.headD []))
  else
    match self def_ { c with stack := c.stack ++ [name] } with
    | .ok c' => .ok { c' with stack := c'.stack.dropLast }
    | .err e => .err e
    | .panic => .panic
    | .oom => .oom
    | .fuel => .fuel

/-- `(?<grokN>` for a placeholder with a destination, `(?:` otherwise. -/
def openGroup (grokAlias : Option Nat) (c : Ctx) : Ctx :=
  match grokAlias with
  | some g => c.append (cs!"(?<" ++ grokName g ++ cs!">")
  | none => c.append cs!"(?:"

/-- `:grokN}` or `}`: the end of a "pure" grok reference. -/
def closePure (grokAlias : Option Nat) (c : Ctx) : Ctx :=
  match grokAlias with
  | some g => (c.append (':' :: grokName g)).append cs!"}"
  | none => c.append cs!"}"

/-- the matcher is not an alias: `regex`, `date`, `boolean` become a group of their own, anything
    else a "pure" grok reference `%{name}` / `%{name:grokN}` for `Grok::compile`. -/
def resolveBuiltin (grokAlias : Option Nat) (p : Pat) (c1 : Ctx) : Out Ctx :=
  if isGroupMatcher p.fn.name then
    match resolveMatchFn grokAlias p (openGroup grokAlias c1) with
    | .ok c3 => .ok (c3.append cs!")")
    | .err e => .err e
    | .panic => .panic
    | .oom => .oom
    | .fuel => .fuel
  else
    match resolveMatchFn grokAlias p (c1.append cs!"%{") with
    | .ok c3 => .ok (closePure grokAlias c3)
    | .err e => .err e
    | .panic => .panic
    | .oom => .oom
    | .fuel => .fuel

/-- `resolve_grok_pattern`; `self` is `parse_grok_rule` (used for alias definitions). -/
def resolvePat (aliases : List (Str × Str))
    (self : Str → Ctx → Out Ctx) (p : Pat) (c : Ctx) : Out Ctx :=
  let grokAlias : Option Nat := p.dest.map (fun _ => c.fields.length)
  match registerDest p c with
  | .ok c1 =>
    (match lookupAlias aliases p.fn.name with
     | some def_ =>
       (match grokAlias with
        | some _ =>
          (match parseAlias self p.fn.name def_ (openGroup grokAlias c1) with
           | .ok c2 => .ok (c2.append cs!")")
           | .err e => .err e
           | .panic => .panic
           | .oom => .oom
           | .fuel => .fuel)
        | none => parseAlias self p.fn.name def_ c1)
     | none => resolveBuiltin grokAlias p c1)
  | .err e => .err e
  | .panic => .panic
  | .oom => .oom
  | .fuel => .fuel

/-- the loop of `parse_grok_rule` over the pieces of a rule. -/
def resolvePieces (P : Prims) (aliases : List (Str × Str))
    (self : Str → Ctx → Out Ctx) : List Piece → Ctx → Out Ctx
  | [], c => .ok c
  | .text s :: rest, c => resolvePieces P aliases self rest (c.append s)
  | .ph s :: rest, c =>
    match parsePlaceholder P s with
    | .ok p =>
      (match resolvePat aliases self p c with
       | .ok c' => resolvePieces P aliases self rest c'
       | .err e => .err e
       | .panic => .panic
       | .oom => .oom
       | .fuel => .fuel)
    | .error .syntax => .err .syntax
    | .error .oom => .oom

/-- `parse_grok_rule`; the recursion through alias definitions is bounded by `fuel`
    (`aliases.length + 1` is always enough: C32.parseRule_terminates). -/
def parseRuleF (P : Prims) (aliases : List (Str × Str)) :
    Nat → Str → Ctx → Out Ctx
  | 0, _, _ => .fuel
  | n + 1, rule, c => resolvePieces P aliases (parseRuleF P aliases n) (seg rule) c

/-- `str::replace(from, to)`: non-overlapping occurrences, left to right. -/
def replaceAllF (frm to : Str) : Nat → Str → Str
  | 0, s => s
  | _ + 1, [] => []
  | n + 1, c :: cs =>
    if frm.isPrefixOf (c :: cs) && !frm.isEmpty then to ++ replaceAllF frm to n ((c :: cs).drop frm.length)
    else c :: replaceAllF frm to n cs

def replaceAll (frm to s : Str) : Str := replaceAllF frm to (s.length + 1) s

/-- the pattern handed to `Grok::compile` by `parse_pattern`: `(?m)\A` … `\z`. -/
def wrap (regex : Str) : Str :=
  cs!"(?m)\\A" ++ replaceAll cs!"(?-s)" cs!"(?-m)" (replaceAll cs!"(?s)" cs!"(?m)" regex)
    ++ cs!"\\z"

/-- `parse_grok_rule(pattern, &mut GrokRuleParseContext::new(aliases))`: regex source and fields. -/
def ruleSource (P : Prims) (aliases : List (Str × Str)) (rule : Str) :
    Out (Str × List (Nat × Field)) := do
  let c ← parseRuleF P aliases (aliases.length + 1) rule Ctx.empty
  pure (wrap c.regex, c.fields)

/-! ## 5. `Grok::compile`: expansion of `%{name}` / `%{name:alias}` with the pattern library -/

/-- `[A-z0-9]` -/
def isPatChar (c : Char) : Bool := ('A' ≤ c && c ≤ 'z') || isDigit c
/-- `[A-z0-9_:;\/\s\.]` -/
def isAliasChar (c : Char) : Bool := isPatChar c || c = '_' || c = ':' || c = ';' || c = '/' || c = '.' || isWs c

/-- a match of `GROK_PATTERN` at the head of `s` (which starts after `%{`):
    (pattern, alias, length of the match body up to and including `}`).
    `=definition` forms are outside the model (`none` of the outer option = no match here,
    `some none` = a definition form was met). -/
def grokAt (s : Str) : Option (Option (Str × Option Str × Str)) :=
  let pat := s.takeWhile isPatChar
  let r := s.dropWhile isPatChar
  if pat.isEmpty then none
  else match r with
    | '}' :: rest => some (some (pat, none, rest))
    | '=' :: _ => some none
    | ':' :: r1 =>
      let al := r1.takeWhile isAliasChar
      let r2 := r1.dropWhile isAliasChar
      if al.isEmpty then none
      else match r2 with
        | '}' :: rest => some (some (pat, some al, rest))
        | '=' :: _ => some none
        | _ => none
    | _ => none

/-- first (leftmost) match of `GROK_PATTERN` in `s`. -/
def findGrok : Str → Option (Option (Str × Option Str))
  | [] => none
  | c :: cs =>
    if c = '%' then
      match cs with
      | '{' :: body =>
        match grokAt body with
        | some (some (p, a, _)) => some (some (p, a))
        | some none => some none
        | none => findGrok cs
      | _ => findGrok cs
    else findGrok cs

/-- `str::matches(pat).count()` : non-overlapping occurrences. -/
def countOccF (pat : Str) : Nat → Str → Nat
  | 0, _ => 0
  | _ + 1, [] => 0
  | n + 1, c :: cs =>
    if pat.isPrefixOf (c :: cs) && !pat.isEmpty then 1 + countOccF pat n ((c :: cs).drop pat.length)
    else countOccF pat n cs

/-- `str::replacen(pat, to, 1)` -/
def replaceFirst (pat to : Str) : Str → Str
  | [] => []
  | c :: cs =>
    if pat.isPrefixOf (c :: cs) && !pat.isEmpty then to ++ (c :: cs).drop pat.length
    else c :: replaceFirst pat to cs

structure Expansion where
  regex : Str
  /-- `alias` map of `Grok::compile`: user-visible name ↦ engine group name (`name<index>`),
      a `BTreeMap` held as an association list (later insert of the same key replaces). -/
  alias : List (Str × Str)
  index : Nat

def setAssoc (l : List (Str × Str)) (k v : Str) : List (Str × Str) :=
  match l with
  | [] => [(k, v)]
  | (k', v') :: rest => if k' = k then (k, v) :: rest else (k', v') :: setAssoc rest k v

/-- the inner `for _ in 0..count` loop. -/
def expandOcc (lib : List (Str × Str)) (pat : Str) (al : Option Str) (name : Str) :
    Nat → Expansion → Out Expansion
  | 0, e => .ok e
  | k + 1, e =>
    match lookupAlias lib pat with
    | none => .err .undef
    | some def_ =>
      let needle := cs!"%{" ++ name ++ cs!"}"
      let e' : Expansion := match al with
        | none =>
          { e with regex := replaceFirst needle (cs!"(?:" ++ def_ ++ cs!")") e.regex, index := e.index + 1 }
        | some a =>
          let gname := cs!"name" ++ natDigits e.index
          { regex := replaceFirst needle (cs!"(?<" ++ gname ++ cs!">" ++ def_ ++ cs!")") e.regex,
            alias := setAssoc e.alias a gname, index := e.index + 1 }
      expandOcc lib pat al name k e'

/-- the `while continue_iteration` loop (`MAX_RECURSION` = 1024 iterations). -/
def expandF (lib : List (Str × Str)) : Nat → Expansion → Out Expansion
  | 0, _ => .err .regex            -- RecursionTooDeep
  | n + 1, e =>
    match findGrok e.regex with
    | none => .ok e
    | some none => .oom
    | some (some (pat, al)) =>
      let name := match al with
        | none => pat
        | some a => pat ++ ':' :: a
      let needle := cs!"%{" ++ name ++ cs!"}"
      match expandOcc lib pat al name (countOccF needle (e.regex.length + 1) e.regex) e with
      | .ok e' => expandF lib n e'
      | .err x => .err x
      | .panic => .panic
      | .oom => .oom
      | .fuel => .fuel

def grokExpand (lib : List (Str × Str)) (pattern : Str) : Out Expansion :=
  expandF lib 1024 ⟨pattern, [], 0⟩

/-! ## 6. The regular-expression engine (parameter) and `Pattern` -/

inductive CompileRes (ρ : Type) where
  | ok (r : ρ)
  | bad          -- the engine rejects the expression
  | unsupported  -- a reference engine declines (never returned by a real engine)
  deriving DecidableEq

/-- onig, as used by grok.rs: `Regex::new`, `foreach_name` (group names), `captures` (leftmost
    search; per named group the text of the first group of that name, `none` if it did not
    participate). -/
structure Engine where
  Rx : Type
  compile : Str → CompileRes Rx
  names : Rx → List Str
  captures : Rx → Str → Option (List (Str × Option Str))

/-- lexicographic order on code points (= `str::cmp`, UTF-8 byte order). -/
def strLt : Str → Str → Bool
  | [], [] => false
  | [], _ :: _ => true
  | _ :: _, [] => false
  | a :: as, b :: bs => if a < b then true else if a = b then strLt as bs else false

/-- `BTreeMap<String, _>::insert` on a list sorted by key. -/
def insertSorted (l : List (Str × Str)) (k v : Str) : List (Str × Str) :=
  match l with
  | [] => [(k, v)]
  | (k', v') :: rest =>
    if strLt k k' then (k, v) :: (k', v') :: rest
    else if k' = k then (k, v) :: rest
    else (k', v') :: insertSorted rest k v

/-- `Pattern::new`: visible name ↦ engine group name, sorted by visible name. -/
def patternNames (alias : List (Str × Str)) (engineNames : List Str) : List (Str × Str) :=
  engineNames.foldl (fun acc cap =>
    let name := match alias.find? (fun kv => kv.2 = cap) with
      | some kv => kv.1
      | none => cap
    insertSorted acc name cap) []

/-- a compiled `GrokRule`. -/
structure Rule (E : Engine) where
  rx : E.Rx
  names : List (Str × Str)
  fields : List (Nat × Field)

/-- `parse_pattern` for one rule. -/
def compileRule (P : Prims) (E : Engine) (lib aliases : List (Str × Str))
    (rule : Str) : Out (Rule E) := do
  let (src, fields) ← ruleSource P aliases rule
  let e ← grokExpand lib src
  match E.compile e.regex with
  | .ok rx => pure ⟨rx, patternNames e.alias (E.names rx), fields⟩
  | .bad => .err .regex
  | .unsupported => .oom

/-! ## 7. Filters at run time (`apply_filter`) -/

def isAsciiDigits (s : Str) : Bool := !s.isEmpty && s.all isDigit

/-- `str::parse::<i64>` -/
def parseI64 (s : Str) : Option Int :=
  let (neg, ds) := match s with
    | '-' :: r => (true, r)
    | '+' :: r => (false, r)
    | r => (false, r)
  if isAsciiDigits ds then
    let v : Int := if neg then -(natOfDigits ds : Int) else natOfDigits ds
    if i64Min ≤ v && v ≤ i64Max then some v else none
  else none

/-- `f as i64` (saturating, NaN ↦ 0) -/
def f64ToI64 (b : Nat) : Int :=
  if F64.isNaN b then 0
  else if F64.isInf b then (if F64.signBit b then i64Min else i64Max)
  else
    let m := F64.mant b
    let e := F64.expo b
    let mag : Nat := if e ≥ 0 then m * 2 ^ e.toNat else m / 2 ^ (-e).toNat
    let v : Int := if F64.signBit b then -(mag : Int) else mag
    if v < i64Min then i64Min else if v > i64Max then i64Max else v

/-- `Ok(Value::Float(v)) if (v as i64) as f64 == v => Integer(v as i64)` -/
def floatOrInt (b : Nat) : SV :=
  if F64.eq (F64.ofInt (f64ToI64 b)) b then .int (f64ToI64 b) else .float b

/-- `Value::from_f64_or_zero` -/
def f64OrZero (b : Nat) : Nat := if F64.isNaN b then 0 else b

inductive FRes where
  | val (v : SV)
  | failed          -- InternalError::FailedToApplyFilter
  | panic
  | oom
  deriving DecidableEq

def f64_1000 : Nat := F64.ofInt 1000

/-- the `Scale` arm: `x * (scale_factor * 1000.0 / 1000.0)`, `NotNan::new(..)` failing is
    `FailedToApplyFilter` (it used to be `.expect("NaN")`, a panic — fixed in /repo);
    `x = none` is a NaN parsed from the text. -/
def scaleBy (k : Nat) (x : Option Nat) : FRes :=
  let k' : Option Nat := (F64.mul k f64_1000).bind (fun y => F64.div y f64_1000)
  match x, k' with
  | some x, some k' =>
    (match F64.mul x k' with
     | some r => .val (floatOrInt r)
     | none => .failed)
  | _, _ => .failed

/-- `apply_filter` -/
def applyFilter (P : Prims) (v : SV) (f : Filter) : FRes :=
  match f with
  | .integer =>
    (match v with
     | .str s => (match parseI64 s with
        | some i => .val (.int i)
        | none => .failed)
     | _ => .failed)
  | .integerExt =>
    (match v with
     | .str s => (match P.parseF64 s with
        | some (some x) => .val (.int (f64ToI64 x))
        | some none => .failed
        | none => .oom)
     | _ => .failed)
  | .number | .numberExt =>
    (match v with
     | .str s => (match P.parseF64 s with
        | some (some x) => .val (floatOrInt (f64OrZero x))
        | some none => .failed
        | none => .oom)
     | _ => .failed)
  | .scale k =>
    (match v with
     | .int i => scaleBy k (some (F64.ofInt i))
     | .float x => scaleBy k (some x)
     | .str s => (match P.parseF64 s with
        | some (some x) => scaleBy k (if F64.isNaN x then none else some x)
        | some none => .failed
        | none => .oom)
     | _ => .failed)
  | .lowercase =>
    (match v with
     | .str s => (match P.lower s with
        | some t => .val (.str t)
        | none => .oom)
     | _ => .failed)
  | .uppercase =>
    (match v with
     | .str s => (match P.upper s with
        | some t => .val (.str t)
        | none => .oom)
     | _ => .failed)
  | .boolean =>
    (match v with
     | .str s => .val (.bool (s.map Char.toLower = cs!"true"))   -- eq_ignore_ascii_case
     | _ => .failed)
  | .nullIf t =>
    (match v with
     | .str s => if s = t then .val .null else .val v
     | _ => .failed)
  | .other _ => .oom

/-! ## 8. `apply_grok_rule`, `postprocess_value`, `parse_grok` -/

/-- the filter loop of `apply_grok_rule`: current value (`none` once dropped) and the number of
    internal errors. -/
def applyFilters (P : Prims) : List Filter → Option SV → Nat → Out (Option SV × Nat)
  | [], v, n => .ok (v, n)
  | f :: fs, v, n =>
    match v with
    | none => applyFilters P fs none n
    | some x =>
      match applyFilter P x f with
      | .val .null => applyFilters P fs none n
      | .val y => applyFilters P fs (some y) n
      | .failed => applyFilters P fs none (n + 1)
      | .panic => .panic
      | .oom => .oom

def fieldPath (p : List Str) : Path := p.map (fun s => Seg.field (utf8 s))

/-- store one extracted value at its destination. A root destination merges objects (only
    unmodelled filters produce them) and ignores anything else. -/
def storeField (parsed : Value) (path : List Str) (v : Value) : Value :=
  match path with
  | [] => parsed
  | _ =>
    let p := fieldPath path
    match parsed.get p with
    | some (.arr xs) => Value.insertOpt (some parsed) p (.arr (xs.append (.cons v .nil)))
    | some old => Value.insertOpt (some parsed) p (.arr (.cons old (.cons v .nil)))
    | none => Value.insertOpt (some parsed) p v

mutual
  /-- `postprocess_value`: drop nulls and empty objects from objects, recursively. -/
  def pp : Value → Value
    | .arr xs => .arr (ppL xs)
    | .obj m => .obj (ppM m)
    | v => v
  def ppL : VList → VList
    | .nil => .nil
    | .cons v vs => .cons (pp v) (ppL vs)
  def ppM : VMap → VMap
    | .nil => .nil
    | .cons k v m =>
      match pp v with
      | .null => ppM m
      | .obj .nil => ppM m
      | v' => .cons k v' (ppM m)
end

def grokIndex (name : Str) : Option Nat :=
  match name with
  | 'g' :: 'r' :: 'o' :: 'k' :: ds =>
    if isAsciiDigits ds && (ds.length = 1 || ds.head? != some '0') then some (natOfDigits ds) else none
  | _ => none

def lookupField : List (Nat × Field) → Nat → Option Field
  | [], _ => none
  | (m, f) :: rest, n => if m = n then some f else lookupField rest n

/-- result of matching one rule. -/
inductive MatchRes where
  | noMatch
  | matched (parsed : Value) (internalErrors : Nat)
  deriving DecidableEq

/-- `self.captures.at(idx).unwrap_or("")`: the text of an engine group (empty if it did not participate). -/
def capText (caps : List (Str × Option Str)) (cap : Str) : Str :=
  match caps.find? (fun kv => kv.1 = cap) with
  | some (_, some t) => t
  | _ => []

/-- the loop over `matches.iter()` (names in `BTreeMap` order). -/
def applyCaptures (P : Prims) (fields : List (Nat × Field))
    (caps : List (Str × Option Str)) : List (Str × Str) → Value → Nat → Out (Value × Nat)
  | [], parsed, n => .ok (parsed, n)
  | (name, cap) :: rest, parsed, n =>
    let text : Str := capText caps cap
    if text.isEmpty then applyCaptures P fields caps rest parsed n
    else
      match (grokIndex name).bind (lookupField fields) with
      | some fld =>
        match applyFilters P fld.filters (some (.str text)) n with
        | .ok (some v, n') => applyCaptures P fields caps rest (storeField parsed fld.path v.toValue) n'
        | .ok (none, n') => applyCaptures P fields caps rest parsed n'
        | .err e => .err e
        | .panic => .panic
        | .oom => .oom
        | .fuel => .fuel
      | none =>
        -- a named group written by the rule author: stored under its own name
        applyCaptures P fields caps rest
          (Value.insertOpt (some parsed) [Seg.field (utf8 name)] (.bytes (utf8 text))) n

/-- `apply_grok_rule` -/
def applyRule (P : Prims) (E : Engine) (r : Rule E) (input : Str) : Out MatchRes :=
  match E.captures r.rx input with
  | none => .ok .noMatch
  | some caps => do
    let (parsed, n) ← applyCaptures P r.fields caps r.names (.obj .nil) 0
    pure (.matched (pp parsed) n)

/-- `parse_grok_rules`: empty rules are skipped, the first error wins. -/
def compileRules (P : Prims) (E : Engine) (lib aliases : List (Str × Str)) :
    List Str → Out (List (Rule E))
  | [] => .ok []
  | r :: rs =>
    if r.isEmpty then compileRules P E lib aliases rs
    else do
      let x ← compileRule P E lib aliases r
      let xs ← compileRules P E lib aliases rs
      pure (x :: xs)

/-- `parse_grok`: the first rule that matches wins. -/
def parseGrok (P : Prims) (E : Engine) (input : Str) : List (Rule E) → Out MatchRes
  | [] => .ok .noMatch
  | r :: rs => do
    match ← applyRule P E r input with
    | .noMatch => parseGrok P E input rs
    | m => pure m

end Grok
