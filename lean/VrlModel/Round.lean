/-
  VrlModel.Round — float part of C29: `round` / `ceil` / `floor` with precision
  (src/stdlib/{round,ceil,floor}.rs, `util::round_to_precision`), `Value::from_f64_or_zero`,
  `to_float`, `parse_float`, on binary64 bit patterns (`F64`).

    round_to_precision(num, precision, fun) =
        let multiplier = 10_f64.powf(precision as f64);  fun(num * multiplier) / multiplier

  `10f64.powf(p as f64)` is libm: a *parameter* `pow10 : Int → Nat` (bit pattern).  The
  multiplication and the division are the soft-float's, `f64::{round,ceil,floor,trunc}` are
  modelled exactly (`rint`).  Decimal parsing (`str::parse::<f64>`) is a parameter too.
  In `F64`, an operation whose IEEE result is NaN returns `none`.
-/
import VrlModel.Value
import VrlModel.F64
import VrlModel.Str.Fns

namespace Round
open F64
open Str (R)

inductive Mode where
  | round | ceil | floor | trunc
  deriving DecidableEq, Repr

/-- `f64::round` (half away from zero) / `ceil` / `floor` / `trunc` of a non-NaN pattern: exact.
    A finite value with a fractional part is `±mant·2^expo` with `expo < 0`; its integer part
    `mant / 2^-expo` is below `2^52`, so the rounded integer is representable. The sign is kept
    (`ceil(-0.5) = -0.0`). -/
def rint (m : Mode) (b : Nat) : Nat :=
  if isNaN b || isInf b then b
  else if expo b ≥ 0 then b
  else
    let sh := (-(expo b)).toNat
    let q := mant b / 2 ^ sh
    let r := mant b % 2 ^ sh
    let neg := signBit b
    let up : Bool := match m with
      | .trunc => false
      | .round => decide (2 ^ sh ≤ 2 * r)
      | .ceil => !neg && r != 0
      | .floor => neg && r != 0
    withSign neg (roundMag (if up then q + 1 else q) 0)

/-- `fun(num * multiplier) / multiplier`; `none` = NaN (NaN propagates through `fun` and `/`). -/
def roundToPrecision (m10 : Nat) (mode : Mode) (x : Nat) : Option Nat :=
  match mul x m10 with
  | none => none
  | some p => div (rint mode p) m10

/-- `Value::from_f64_or_zero`: NaN becomes `0.0`. -/
def orZero : Option Nat → Nat
  | some b => if isNaN b then 0 else b
  | none => 0

/-- `round(value, precision)` etc.; `precision` absent = `0`. -/
def roundFn (mode : Mode) (pow10 : Int → Nat) (value : Value) (precision : Option Value) : R Value :=
  match precision.getD (.int 0) with
  | .int p =>
    match value with
    | .float x => .ok (.float (orZero (roundToPrecision (pow10 p) mode x)))
    | .int i => .ok (.int i)
    | _ => .err
  | _ => .err

def oneBits : Nat := 0x3FF0000000000000
def e9Bits : Nat := 0x41CDCD6500000000

/-- `Conversion::Float.convert(bytes)`: `from_utf8_lossy`, `parse::<f64>()`, NaN rejected.
    `parse` receives the lossily decoded string (bytes). -/
def bytesToFloat (parse : List Nat → Option Nat) (b : List Nat) : R Value :=
  match parse (Str.lossy b) with
  | some f => if isNaN f then .err else .ok (.float f)
  | none => .err

/-- `to_float(value)`. -/
def toFloat (parse : List Nat → Option Nat) : Value → R Value
  | .float b => .ok (.float b)
  | .int i => .ok (.float (orZero (some (ofInt i))))
  | .bool b => .ok (.float (if b then oneBits else 0))
  | .null => .ok (.float 0)
  | .ts ns =>
    -- `timestamp_nanos_opt()`: `None` outside the `i64` range
    if -9223372036854775808 ≤ ns ∧ ns ≤ 9223372036854775807 then
      .ok (.float (orZero (div (ofInt ns) e9Bits)))
    else
      -- (was an `OutOfRange` error before the fix) seconds and the fraction converted separately:
      -- `timestamp() as f64 + f64::from(timestamp_subsec_nanos()) / 1e9`
      -- (`timestamp()` = floor, `timestamp_subsec_nanos()` = the non-negative remainder)
      .ok (.float (orZero
        (match div (ofInt (ns % 1000000000)) e9Bits with
         | some q => add (ofInt (ns / 1000000000)) q
         | none => none)))
  | .bytes b => bytesToFloat parse b
  | _ => .err

/-- `parse_float(value)`. -/
def parseFloat (parse : List Nat → Option Nat) : Value → R Value
  | .bytes b => bytesToFloat parse b
  | _ => .err

/-! ### Spec: the statement's three clauses, evaluated exactly on bit patterns -/

/-- `a · 2^e2 · 10^e10 ≤ 1` for a natural `a` (negative exponents moved to the right-hand side). -/
def leOne (a : Nat) (e2 e10 : Int) : Bool :=
  decide (a * 2 ^ e2.toNat * 10 ^ e10.toNat ≤ 2 ^ (-e2).toNat * 10 ^ (-e10).toNat)

/-- `|val r − val x| ≤ 10^-p + ulp(r)/2` for finite patterns: `r` is within `10^-p` of `x` up to the
    rounding of `r` itself (the exact answer `k/10^p` is in general not a double: already the
    correctly rounded `ceil(1e-300, 1) = RN(0.1) = 0.1000000000000000055…` is more than `0.1` above
    its input).  All quantities are integers in units of `2^e`, `e = min (expo x) (expo r) − 1`.
    For `p > 400` the bound `10^-p` is below `2^-1075`, for `p < -400` above every difference of
    finite doubles, so clamping `p` changes nothing (and keeps the powers small). -/
def within (x r : Nat) (p : Int) : Bool :=
  let e := min (expo x) (expo r) - 1
  let d := (signedMant r * (2 ^ (expo r - e).toNat : Nat) - signedMant x * (2 ^ (expo x - e).toNat : Nat)).natAbs
  let h := 2 ^ (expo r - 1 - e).toNat
  leOne (d - h) e (max (min p 400) (-400))

structure Obs where
  round : Nat
  ceil : Nat
  floor : Nat
  deriving DecidableEq, Repr

/-- "for finite inputs, round/ceil/floor with any precision return a finite value within
    10^-precision of the input (ceil never below, floor never above)". -/
def spec (x : Nat) (p : Int) (o : Obs) : Bool :=
  !isFinite x ||
  (isFinite o.round && isFinite o.ceil && isFinite o.floor &&
   within x o.round p && within x o.ceil p && within x o.floor p &&
   le x o.ceil && le o.floor x)

/-- `10^p` is a double (`0 ≤ p ≤ 22`) -/
def pow10Exact (p : Int) : Bool := decide (0 ≤ p) && decide (p ≤ 22)

/-- the float product `x · m` is the exact product -/
def mulExact (x m : Nat) : Bool :=
  match mul x m with
  | some r => isFinite r && decide (signedMant r * (2 ^ (expo r - min (expo r) (expo x + expo m)).toNat : Nat)
      = signedMant x * signedMant m * (2 ^ (expo x + expo m - min (expo r) (expo x + expo m)).toNat : Nat))
  | none => false

/-- finding classes of DESIGN §7 C29 / §8 items 21, 52, decided from the input, the precision and
    the multiplier `m10 = pow10 p` (first that applies). -/
inductive Cls where
  | overflowMult | underflowMult | productRounding | none
  deriving DecidableEq, Repr

def classify (x : Nat) (p : Int) (m10 : Nat) : Cls :=
  if isInf m10 || (match mul x m10 with | some r => isInf r | none => true) then .overflowMult
  else if !isNormal m10 || (!isZero x && (match mul x m10 with | some r => !isNormal r | none => true)) then .underflowMult
  else if !pow10Exact p || !mulExact x m10 then .productRounding
  else .none

end Round
