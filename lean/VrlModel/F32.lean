/-
  VrlModel.F32 — IEEE-754 binary32 (Rust `f32`) as far as the protobuf `float` fields need it:
  the narrowing cast `f64 as f32` (round to nearest, ties to even, overflow to ±∞), the exact
  widening `f64::from(f32)` and `i64 as f32`.  Patterns are `Nat`s (32 bit for binary32, 64 bit for
  binary64, as in `VrlModel.F64`).

    bits = sign·2^31 + expField·2^23 + frac
    expField = 0       : value = frac · 2^-149
    expField = 1..254  : value = (2^23 + frac) · 2^(expField-150)
    expField = 255     : frac = 0 → ±∞, otherwise NaN

  Validated against the hardware by the `f32.*` correspondence ops (harness/src/c26.rs).
-/
import VrlModel.F64

namespace F32

def p22 : Nat := 4194304
def p23 : Nat := 8388608
def p29 : Nat := 536870912
def p31 : Nat := 2147483648
/-- magnitude bits of ±∞ : 255 · 2^23 -/
def infBits : Nat := 2139095040

def signBit (b : Nat) : Bool := b / p31 % 2 == 1
def expField (b : Nat) : Nat := b / p23 % 256
def frac (b : Nat) : Nat := b % p23
def mag (b : Nat) : Nat := b % p31

def isNaN (b : Nat) : Bool := decide (infBits < mag b)
def isInf (b : Nat) : Bool := mag b == infBits

def mant (b : Nat) : Nat := if expField b = 0 then frac b else p23 + frac b
def expo (b : Nat) : Int := if expField b = 0 then -149 else (expField b : Int) - 150

def withSign (neg : Bool) (m : Nat) : Nat := if neg then p31 + m else m

/-- exponent of the last place of the rounded result: 24 significant bits, not below 2^-149. -/
def lastPlace (m : Nat) (e : Int) : Int := max (e + ((Nat.log2 m + 1 : Nat) : Int) - 24) (-149)

def clampInf (bits : Nat) : Nat := if infBits ≤ bits then infBits else bits

/-- the exact positive dyadic `m · 2^e` rounded to the nearest binary32 magnitude, ties to even. -/
def roundMag (m : Nat) (e : Int) : Nat :=
  if m = 0 then 0
  else clampInf ((lastPlace m e + 149).toNat * p23 + F64.roundQ m (lastPlace m e - e))

/-- `x as f32` for the binary64 pattern `x` (a NaN stays a quiet NaN carrying the top payload bits). -/
def ofF64 (b : Nat) : Nat :=
  if F64.isNaN b then withSign (F64.signBit b) (infBits + p22 + F64.frac b / p29 % p22)
  else if F64.isInf b then withSign (F64.signBit b) infBits
  else withSign (F64.signBit b) (roundMag (F64.mant b) (F64.expo b))

/-- `f64::from(x)` for the binary32 pattern `x`: exact (a NaN comes back quiet). -/
def toF64 (b : Nat) : Nat :=
  if isNaN b then
    F64.withSign (signBit b) (F64.infBits + (if frac b / p22 % 2 == 1 then frac b else frac b + p22) * p29)
  else if isInf b then F64.withSign (signBit b) F64.infBits
  else F64.withSign (signBit b) (F64.roundMag (mant b) (expo b))

/-- `i as f32` for an `i64`. -/
def ofInt (i : Int) : Nat := withSign (decide (i < 0)) (roundMag i.natAbs 0)

/-- the binary64 value survives the trip through binary32 unchanged (and is no NaN there). -/
def exact (b : Nat) : Bool := !isNaN (ofF64 b) && toF64 (ofF64 b) == b

end F32
