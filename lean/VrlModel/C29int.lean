/-
  VrlModel.C29int — Spec predicates of the integer/conversion part of C29, on observations.
-/
import VrlModel.Conv.Num

namespace C29
open Conv

/-- `abs` returns the magnitude; integers wrap only at the minimum integer
    (`abs(i64::MIN) = i64::MIN`, the magnitude 2⁶³ not being an `i64`). -/
def specAbs (n : Int) (r : Res Value) : Bool :=
  !inI64 n || r == .ok (.int (if n = i64Min then i64Min else (n.natAbs : Int)))

/-- truncated-remainder rules: `a = b·q + r` with `q` the quotient rounded toward zero,
    i.e. `|r| < |b|` and `r` is zero or has the sign of `a`, and `b` divides `a - r`. -/
def specMod (a b : Int) (r : Res Value) : Bool :=
  !(inI64 a && inI64 b && b != 0) ||
  (match r with
   | .ok (.int x) =>
     decide (x.natAbs < b.natAbs) && (decide (0 ≤ a) && decide (0 ≤ x) || decide (a ≤ 0) && decide (x ≤ 0)) &&
       (a - x) % b == 0
   | _ => false)

/-- `parse_int(to_string(i))` (with and without the base argument) and `to_int(to_string(i))`
    all give `i` back. -/
def specText (i : Int) (parsedAuto parsed10 viaToInt : Res Value) : Bool :=
  !inI64 i ||
  (parsedAuto == .ok (.int i) && parsed10 == .ok (.int i) && viaToInt == .ok (.int i))

end C29
