/-
  VrlModel.Utf8 — `String::from_utf8_lossy` / `<[u8]>::utf8_chunks` (core::str::lossy) on byte lists:
  every maximal invalid chunk is replaced by U+FFFD (`EF BF BD`).  A chunk's invalid part is the
  prefix of an ill-formed sequence that `Utf8Chunks::next` consumed before it broke off (1–3 bytes).
-/

namespace Utf8L

def isCont (b : Nat) : Bool := decide (128 ≤ b) && decide (b ≤ 191)

def replacement : List Nat := [239, 191, 189]

/-- second byte admissible after the lead byte `b0` of a three byte sequence -/
def ok3 (b0 b1 : Nat) : Bool :=
  (b0 == 224 && decide (160 ≤ b1) && decide (b1 ≤ 191)) ||
  (decide (225 ≤ b0) && decide (b0 ≤ 236) && isCont b1) ||
  (b0 == 237 && decide (128 ≤ b1) && decide (b1 ≤ 159)) ||
  (decide (238 ≤ b0) && decide (b0 ≤ 239) && isCont b1)

/-- second byte admissible after the lead byte `b0` of a four byte sequence -/
def ok4 (b0 b1 : Nat) : Bool :=
  (b0 == 240 && decide (144 ≤ b1) && decide (b1 ≤ 191)) ||
  (decide (241 ≤ b0) && decide (b0 ≤ 243) && isCont b1) ||
  (b0 == 244 && decide (128 ≤ b1) && decide (b1 ≤ 143))

/-- One step of `Utf8Chunks`: what is emitted for the sequence starting at the head of the list
    and how many bytes it consumes (at least one). -/
def step : List Nat → List Nat × Nat
  | [] => ([], 1)
  | b0 :: rest =>
    if b0 < 128 then ([b0], 1)
    else if 194 ≤ b0 ∧ b0 ≤ 223 then
      match rest with
      | b1 :: _ => if isCont b1 then ([b0, b1], 2) else (replacement, 1)
      | [] => (replacement, 1)
    else if 224 ≤ b0 ∧ b0 ≤ 239 then
      match rest with
      | b1 :: r1 =>
        if ok3 b0 b1 then
          match r1 with
          | b2 :: _ => if isCont b2 then ([b0, b1, b2], 3) else (replacement, 2)
          | [] => (replacement, 2)
        else (replacement, 1)
      | [] => (replacement, 1)
    else if 240 ≤ b0 ∧ b0 ≤ 244 then
      match rest with
      | b1 :: r1 =>
        if ok4 b0 b1 then
          match r1 with
          | b2 :: r2 =>
            if isCont b2 then
              match r2 with
              | b3 :: _ => if isCont b3 then ([b0, b1, b2, b3], 4) else (replacement, 3)
              | [] => (replacement, 3)
            else (replacement, 2)
          | [] => (replacement, 2)
        else (replacement, 1)
      | [] => (replacement, 1)
    else (replacement, 1)

def lossyFuel : Nat → List Nat → List Nat
  | 0, _ => []
  | _, [] => []
  | n + 1, s =>
    let (out, k) := step s
    out ++ lossyFuel n (s.drop k)

/-- `String::from_utf8_lossy(s)` as UTF-8 bytes. -/
def lossy (s : List Nat) : List Nat := lossyFuel s.length s

/-- `s` is valid UTF-8 (the lossy conversion leaves it alone). -/
def valid (s : List Nat) : Bool := lossy s == s

def lowerAscii (b : Nat) : Nat := if 65 ≤ b ∧ b ≤ 90 then b + 32 else b

/-- `str::eq_ignore_ascii_case` -/
def eqIgnoreAsciiCase (a b : List Nat) : Bool := a.map lowerAscii == b.map lowerAscii

end Utf8L
