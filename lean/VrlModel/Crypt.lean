/-
  VrlModel.Crypt — model of vrl's own glue in
    src/stdlib/encrypt.rs, src/stdlib/decrypt.rs          (algorithm dispatch, key/IV checks, padding)
    src/stdlib/encrypt_ip.rs, src/stdlib/decrypt_ip.rs    (mode dispatch, key check, address conversion)
  for property C23 "encryption round-trips".

  What is modelled in full (code shaped, quirks included):
    * the three algorithm-name tables: the `match` of `encrypt`, the `match` of `decrypt` (arms in source
      order, `|` alternatives kept), and `is_valid_algorithm` (used by both `compile`s);
    * `get_key_bytes::<N>` / `get_iv_bytes::<N>` (N from the cipher type), their order (key first) and errors;
    * the block paddings of `block-padding 0.4.2` for 16-byte blocks exactly as reached through
      `encrypt_padded_vec::<P>` / `decrypt_padded_vec::<P>` of `cipher 0.5.2`
      (`pad_detached`, `raw_pad`, `unpad_blocks`, `raw_unpad`), on `List Nat` bytes;
    * every `expect`/`assert` that is reachable: AEAD `decrypt(..).expect(..)`, AEAD `encrypt(..).expect(..)`,
      keystream exhaustion, `IpcryptPfx::new`'s `assert_ne!(k1, k2)`;
    * `ipcrypt_rs::common::{ip_to_bytes, bytes_to_ip}` (the IPv4-mapped detour every address takes).
  What is a parameter (third-party / std primitive; laws are hypotheses in VrlProofs, never axioms):
    * AES-CFB, the OFB/CTR keystreams, raw AES-CBC on whole blocks, the five AEADs, the ISO 10126 filler,
      `String::from_utf8_lossy + str::to_uppercase`, `str::parse::<IpAddr>`, `IpAddr::to_string`,
      the AES-128 block of `Ipcrypt`, `IpcryptPfx::{encrypt_bytes, decrypt_bytes}`.
  Bytes are `Nat`s (the paddings only ever write 0, 0x80 and 1..16).
-/
namespace Crypt

abbrev Bytes := List Nat

/-! ## Algorithms -/

inductive KeySize | k128 | k192 | k256
  deriving DecidableEq, Repr

inductive Pad | pkcs7 | ansix923 | iso7816 | iso10126
  deriving DecidableEq, Repr

/-- The cipher type an arm of the `match` instantiates. -/
inductive Alg
  | cfb (k : KeySize)              -- cfb_mode::{Encryptor,Decryptor}<AesK>
  | ofb (k : KeySize)              -- ofb::Ofb<AesK>
  | ctrLE (k : KeySize)            -- ctr::Ctr64LE<AesK>   ("-CTR" and "-CTR-LE")
  | ctrBE (k : KeySize)            -- ctr::Ctr64BE<AesK>
  | cbc (k : KeySize) (p : Pad)    -- cbc::{Encryptor,Decryptor}<AesK> with padding P
  | siv128 | siv256                -- aes_siv::{Aes128SivAead, Aes256SivAead}
  | chacha | xchacha               -- chacha20poly1305::{ChaCha20Poly1305, XChaCha20Poly1305}
  | xsalsa                         -- crypto_secretbox::XSalsa20Poly1305
  deriving DecidableEq, Repr

def KeySize.bytes : KeySize → Nat
  | .k128 => 16 | .k192 => 24 | .k256 => 32

/-- `N` of `get_key_bytes::<N>` (= `KeySize` of the cipher type). -/
def keyLen : Alg → Nat
  | .cfb k => k.bytes | .ofb k => k.bytes | .ctrLE k => k.bytes | .ctrBE k => k.bytes
  | .cbc k _ => k.bytes
  | .siv128 => 32 | .siv256 => 64
  | .chacha => 32 | .xchacha => 32 | .xsalsa => 32

/-- `N` of `get_iv_bytes::<N>` (= `IvSize` / `NonceSize` of the cipher type). -/
def ivLen : Alg → Nat
  | .cfb _ => 16 | .ofb _ => 16 | .ctrLE _ => 16 | .ctrBE _ => 16 | .cbc _ _ => 16
  | .siv128 => 16 | .siv256 => 16
  | .chacha => 12 | .xchacha => 24 | .xsalsa => 24

/-- One `match` arm: the string patterns (already upper-cased text, as bytes) and the cipher. -/
abbrev Arm := List Bytes × Alg

/-- first arm one of whose patterns equals `name`; `none` = the `other =>` arm. -/
def lookupArms : List Arm → Bytes → Option Alg
  | [], _ => none
  | (pats, a) :: rest, name => if pats.contains name then some a else lookupArms rest name

/-- the arms of `fn encrypt` (encrypt.rs), source order. -/
def encryptArms : List Arm := [
  -- "AES-256-CFB"
  ([[65,69,83,45,50,53,54,45,67,70,66]], .cfb .k256),
  -- "AES-192-CFB"
  ([[65,69,83,45,49,57,50,45,67,70,66]], .cfb .k192),
  -- "AES-128-CFB"
  ([[65,69,83,45,49,50,56,45,67,70,66]], .cfb .k128),
  -- "AES-256-OFB"
  ([[65,69,83,45,50,53,54,45,79,70,66]], .ofb .k256),
  -- "AES-192-OFB"
  ([[65,69,83,45,49,57,50,45,79,70,66]], .ofb .k192),
  -- "AES-128-OFB"
  ([[65,69,83,45,49,50,56,45,79,70,66]], .ofb .k128),
  -- "AES-256-CTR" | "AES-256-CTR-LE"
  ([[65,69,83,45,50,53,54,45,67,84,82], [65,69,83,45,50,53,54,45,67,84,82,45,76,69]], .ctrLE .k256),
  -- "AES-192-CTR" | "AES-192-CTR-LE"
  ([[65,69,83,45,49,57,50,45,67,84,82], [65,69,83,45,49,57,50,45,67,84,82,45,76,69]], .ctrLE .k192),
  -- "AES-128-CTR" | "AES-128-CTR-LE"
  ([[65,69,83,45,49,50,56,45,67,84,82], [65,69,83,45,49,50,56,45,67,84,82,45,76,69]], .ctrLE .k128),
  -- "AES-256-CTR-BE"
  ([[65,69,83,45,50,53,54,45,67,84,82,45,66,69]], .ctrBE .k256),
  -- "AES-192-CTR-BE"
  ([[65,69,83,45,49,57,50,45,67,84,82,45,66,69]], .ctrBE .k192),
  -- "AES-128-CTR-BE"
  ([[65,69,83,45,49,50,56,45,67,84,82,45,66,69]], .ctrBE .k128),
  -- "AES-256-CBC-PKCS7"
  ([[65,69,83,45,50,53,54,45,67,66,67,45,80,75,67,83,55]], .cbc .k256 .pkcs7),
  -- "AES-192-CBC-PKCS7"
  ([[65,69,83,45,49,57,50,45,67,66,67,45,80,75,67,83,55]], .cbc .k192 .pkcs7),
  -- "AES-128-CBC-PKCS7"
  ([[65,69,83,45,49,50,56,45,67,66,67,45,80,75,67,83,55]], .cbc .k128 .pkcs7),
  -- "AES-256-CBC-ANSIX923"
  ([[65,69,83,45,50,53,54,45,67,66,67,45,65,78,83,73,88,57,50,51]], .cbc .k256 .ansix923),
  -- "AES-192-CBC-ANSIX923"
  ([[65,69,83,45,49,57,50,45,67,66,67,45,65,78,83,73,88,57,50,51]], .cbc .k192 .ansix923),
  -- "AES-128-CBC-ANSIX923"
  ([[65,69,83,45,49,50,56,45,67,66,67,45,65,78,83,73,88,57,50,51]], .cbc .k128 .ansix923),
  -- "AES-256-CBC-ISO7816"
  ([[65,69,83,45,50,53,54,45,67,66,67,45,73,83,79,55,56,49,54]], .cbc .k256 .iso7816),
  -- "AES-192-CBC-ISO7816"
  ([[65,69,83,45,49,57,50,45,67,66,67,45,73,83,79,55,56,49,54]], .cbc .k192 .iso7816),
  -- "AES-128-CBC-ISO7816"
  ([[65,69,83,45,49,50,56,45,67,66,67,45,73,83,79,55,56,49,54]], .cbc .k128 .iso7816),
  -- "AES-256-CBC-ISO10126"
  ([[65,69,83,45,50,53,54,45,67,66,67,45,73,83,79,49,48,49,50,54]], .cbc .k256 .iso10126),
  -- "AES-192-CBC-ISO10126"
  ([[65,69,83,45,49,57,50,45,67,66,67,45,73,83,79,49,48,49,50,54]], .cbc .k192 .iso10126),
  -- "AES-128-CBC-ISO10126"
  ([[65,69,83,45,49,50,56,45,67,66,67,45,73,83,79,49,48,49,50,54]], .cbc .k128 .iso10126),
  -- "AES-128-SIV"
  ([[65,69,83,45,49,50,56,45,83,73,86]], .siv128),
  -- "AES-256-SIV"
  ([[65,69,83,45,50,53,54,45,83,73,86]], .siv256),
  -- "CHACHA20-POLY1305"
  ([[67,72,65,67,72,65,50,48,45,80,79,76,89,49,51,48,53]], .chacha),
  -- "XCHACHA20-POLY1305"
  ([[88,67,72,65,67,72,65,50,48,45,80,79,76,89,49,51,48,53]], .xchacha),
  -- "XSALSA20-POLY1305"
  ([[88,83,65,76,83,65,50,48,45,80,79,76,89,49,51,48,53]], .xsalsa)
]

/-- the arms of `fn decrypt` (decrypt.rs), source order. -/
def decryptArms : List Arm := [
  -- "AES-256-CFB"
  ([[65,69,83,45,50,53,54,45,67,70,66]], .cfb .k256),
  -- "AES-192-CFB"
  ([[65,69,83,45,49,57,50,45,67,70,66]], .cfb .k192),
  -- "AES-128-CFB"
  ([[65,69,83,45,49,50,56,45,67,70,66]], .cfb .k128),
  -- "AES-256-OFB"
  ([[65,69,83,45,50,53,54,45,79,70,66]], .ofb .k256),
  -- "AES-192-OFB"
  ([[65,69,83,45,49,57,50,45,79,70,66]], .ofb .k192),
  -- "AES-128-OFB"
  ([[65,69,83,45,49,50,56,45,79,70,66]], .ofb .k128),
  -- "AES-256-CTR" | "AES-256-CTR-LE"
  ([[65,69,83,45,50,53,54,45,67,84,82], [65,69,83,45,50,53,54,45,67,84,82,45,76,69]], .ctrLE .k256),
  -- "AES-192-CTR" | "AES-192-CTR-LE"
  ([[65,69,83,45,49,57,50,45,67,84,82], [65,69,83,45,49,57,50,45,67,84,82,45,76,69]], .ctrLE .k192),
  -- "AES-128-CTR" | "AES-128-CTR-LE"
  ([[65,69,83,45,49,50,56,45,67,84,82], [65,69,83,45,49,50,56,45,67,84,82,45,76,69]], .ctrLE .k128),
  -- "AES-256-CTR-BE"
  ([[65,69,83,45,50,53,54,45,67,84,82,45,66,69]], .ctrBE .k256),
  -- "AES-192-CTR-BE"
  ([[65,69,83,45,49,57,50,45,67,84,82,45,66,69]], .ctrBE .k192),
  -- "AES-128-CTR-BE"
  ([[65,69,83,45,49,50,56,45,67,84,82,45,66,69]], .ctrBE .k128),
  -- "AES-256-CBC-PKCS7"
  ([[65,69,83,45,50,53,54,45,67,66,67,45,80,75,67,83,55]], .cbc .k256 .pkcs7),
  -- "AES-192-CBC-PKCS7"
  ([[65,69,83,45,49,57,50,45,67,66,67,45,80,75,67,83,55]], .cbc .k192 .pkcs7),
  -- "AES-128-CBC-PKCS7"
  ([[65,69,83,45,49,50,56,45,67,66,67,45,80,75,67,83,55]], .cbc .k128 .pkcs7),
  -- "AES-256-CBC-ANSIX923"
  ([[65,69,83,45,50,53,54,45,67,66,67,45,65,78,83,73,88,57,50,51]], .cbc .k256 .ansix923),
  -- "AES-192-CBC-ANSIX923"
  ([[65,69,83,45,49,57,50,45,67,66,67,45,65,78,83,73,88,57,50,51]], .cbc .k192 .ansix923),
  -- "AES-128-CBC-ANSIX923"
  ([[65,69,83,45,49,50,56,45,67,66,67,45,65,78,83,73,88,57,50,51]], .cbc .k128 .ansix923),
  -- "AES-256-CBC-ISO7816"
  ([[65,69,83,45,50,53,54,45,67,66,67,45,73,83,79,55,56,49,54]], .cbc .k256 .iso7816),
  -- "AES-192-CBC-ISO7816"
  ([[65,69,83,45,49,57,50,45,67,66,67,45,73,83,79,55,56,49,54]], .cbc .k192 .iso7816),
  -- "AES-128-CBC-ISO7816"
  ([[65,69,83,45,49,50,56,45,67,66,67,45,73,83,79,55,56,49,54]], .cbc .k128 .iso7816),
  -- "AES-256-CBC-ISO10126"
  ([[65,69,83,45,50,53,54,45,67,66,67,45,73,83,79,49,48,49,50,54]], .cbc .k256 .iso10126),
  -- "AES-192-CBC-ISO10126"
  ([[65,69,83,45,49,57,50,45,67,66,67,45,73,83,79,49,48,49,50,54]], .cbc .k192 .iso10126),
  -- "AES-128-CBC-ISO10126"
  ([[65,69,83,45,49,50,56,45,67,66,67,45,73,83,79,49,48,49,50,54]], .cbc .k128 .iso10126),
  -- "AES-128-SIV"
  ([[65,69,83,45,49,50,56,45,83,73,86]], .siv128),
  -- "AES-256-SIV"
  ([[65,69,83,45,50,53,54,45,83,73,86]], .siv256),
  -- "CHACHA20-POLY1305"
  ([[67,72,65,67,72,65,50,48,45,80,79,76,89,49,51,48,53]], .chacha),
  -- "XCHACHA20-POLY1305"
  ([[88,67,72,65,67,72,65,50,48,45,80,79,76,89,49,51,48,53]], .xchacha),
  -- "XSALSA20-POLY1305"
  ([[88,83,65,76,83,65,50,48,45,80,79,76,89,49,51,48,53]], .xsalsa)
]

/-- the patterns of `is_valid_algorithm` (encrypt.rs), source order. -/
def validNames : List Bytes := [
  [65,69,83,45,50,53,54,45,67,70,66],  -- "AES-256-CFB"
  [65,69,83,45,49,57,50,45,67,70,66],  -- "AES-192-CFB"
  [65,69,83,45,49,50,56,45,67,70,66],  -- "AES-128-CFB"
  [65,69,83,45,50,53,54,45,79,70,66],  -- "AES-256-OFB"
  [65,69,83,45,49,57,50,45,79,70,66],  -- "AES-192-OFB"
  [65,69,83,45,49,50,56,45,79,70,66],  -- "AES-128-OFB"
  [65,69,83,45,50,53,54,45,67,84,82],  -- "AES-256-CTR"
  [65,69,83,45,49,57,50,45,67,84,82],  -- "AES-192-CTR"
  [65,69,83,45,49,50,56,45,67,84,82],  -- "AES-128-CTR"
  [65,69,83,45,50,53,54,45,67,84,82,45,76,69],  -- "AES-256-CTR-LE"
  [65,69,83,45,49,57,50,45,67,84,82,45,76,69],  -- "AES-192-CTR-LE"
  [65,69,83,45,49,50,56,45,67,84,82,45,76,69],  -- "AES-128-CTR-LE"
  [65,69,83,45,50,53,54,45,67,84,82,45,66,69],  -- "AES-256-CTR-BE"
  [65,69,83,45,49,57,50,45,67,84,82,45,66,69],  -- "AES-192-CTR-BE"
  [65,69,83,45,49,50,56,45,67,84,82,45,66,69],  -- "AES-128-CTR-BE"
  [65,69,83,45,50,53,54,45,67,66,67,45,80,75,67,83,55],  -- "AES-256-CBC-PKCS7"
  [65,69,83,45,49,57,50,45,67,66,67,45,80,75,67,83,55],  -- "AES-192-CBC-PKCS7"
  [65,69,83,45,49,50,56,45,67,66,67,45,80,75,67,83,55],  -- "AES-128-CBC-PKCS7"
  [65,69,83,45,50,53,54,45,67,66,67,45,65,78,83,73,88,57,50,51],  -- "AES-256-CBC-ANSIX923"
  [65,69,83,45,49,57,50,45,67,66,67,45,65,78,83,73,88,57,50,51],  -- "AES-192-CBC-ANSIX923"
  [65,69,83,45,49,50,56,45,67,66,67,45,65,78,83,73,88,57,50,51],  -- "AES-128-CBC-ANSIX923"
  [65,69,83,45,50,53,54,45,67,66,67,45,73,83,79,55,56,49,54],  -- "AES-256-CBC-ISO7816"
  [65,69,83,45,49,57,50,45,67,66,67,45,73,83,79,55,56,49,54],  -- "AES-192-CBC-ISO7816"
  [65,69,83,45,49,50,56,45,67,66,67,45,73,83,79,55,56,49,54],  -- "AES-128-CBC-ISO7816"
  [65,69,83,45,50,53,54,45,67,66,67,45,73,83,79,49,48,49,50,54],  -- "AES-256-CBC-ISO10126"
  [65,69,83,45,49,57,50,45,67,66,67,45,73,83,79,49,48,49,50,54],  -- "AES-192-CBC-ISO10126"
  [65,69,83,45,49,50,56,45,67,66,67,45,73,83,79,49,48,49,50,54],  -- "AES-128-CBC-ISO10126"
  [65,69,83,45,49,50,56,45,83,73,86],  -- "AES-128-SIV"
  [65,69,83,45,50,53,54,45,83,73,86],  -- "AES-256-SIV"
  [67,72,65,67,72,65,50,48,45,80,79,76,89,49,51,48,53],  -- "CHACHA20-POLY1305"
  [88,67,72,65,67,72,65,50,48,45,80,79,76,89,49,51,48,53],  -- "XCHACHA20-POLY1305"
  [88,83,65,76,83,65,50,48,45,80,79,76,89,49,51,48,53]  -- "XSALSA20-POLY1305"
]

def algOfEncrypt (name : Bytes) : Option Alg := lookupArms encryptArms name
def algOfDecrypt (name : Bytes) : Option Alg := lookupArms decryptArms name
def isValidAlgorithm (name : Bytes) : Bool := validNames.contains name

/-! ## Block padding (block-padding 0.4.2, block size 16) -/

/-- ISO 10126 filler: `fill n i` is the `i`-th filler byte when `n` bytes of padding are added.
    The standard asks for random bytes; the pinned crate writes PKCS#7 bytes (`implFill`). -/
abbrev Filler := Nat → Nat → Nat

/-- what `Iso10126::raw_pad` of block-padding 0.4.2 writes ("we simply use Pkcs7 padding"). -/
def implFill : Filler := fun n _ => n

/-- the bytes `P::raw_pad(block, pos)` writes into `block[pos..16]` (`pos < 16`, so none of the
    `pos >= block.len()` panics is reachable: `pos = len % 16`). -/
def padBytes (s : Pad) (fill : Filler) (pos : Nat) : Bytes :=
  let n := 16 - pos
  match s with
  | .pkcs7 => List.replicate n n
  | .iso10126 => (List.range (n - 1)).map (fill n) ++ [n]
  | .ansix923 => List.replicate (n - 1) 0 ++ [n]
  | .iso7816 => 0x80 :: List.replicate (n - 1) 0

/-- `Padding::pad_detached::<U16>(msg)` followed by re-assembly: the buffer CBC encrypts. -/
def pad (s : Pad) (fill : Filler) (msg : Bytes) : Bytes :=
  let full := msg.length / 16 * 16
  let blocks := msg.take full
  let tail := msg.drop full
  blocks ++ (tail ++ padBytes s fill tail.length)

/-- `Pkcs7::unpad(block, strict)`: length of the unpadded prefix. -/
def pkcs7Unpad (block : Bytes) (strict : Bool) : Option Nat :=
  let bs := block.length
  let n := block.getD (bs - 1) 0
  if n = 0 ∨ n > bs then none
  else
    let s := bs - n
    if strict && ((block.drop s).take (bs - 1 - s)).any (fun v => v != n) then none
    else some s

/-- `AnsiX923::raw_unpad`. -/
def ansiUnpad (block : Bytes) : Option Nat :=
  let bs := block.length
  let n := block.getD (bs - 1) 0
  if n = 0 ∨ n > bs then none
  else
    let s := bs - n
    if ((block.drop s).take (bs - 1 - s)).any (fun v => v != 0) then none
    else some s

/-- `Iso7816::raw_unpad`, on the reversed block: scan from the end. -/
def iso7816Scan : Bytes → Option Nat
  | [] => none
  | b :: rest =>
    if b = 0x80 then some rest.length
    else if b = 0 then iso7816Scan rest
    else none

/-- `P::raw_unpad(block)`: length of the unpadded prefix, `none` = `Err(Error)`. -/
def rawUnpad : Pad → Bytes → Option Nat
  | .pkcs7, b => pkcs7Unpad b true
  | .iso10126, b => pkcs7Unpad b false
  | .ansix923, b => ansiUnpad b
  | .iso7816, b => iso7816Scan b.reverse

/-- `Padding::unpad_blocks::<U16>(blocks)` on the flattened buffer (`buf.length % 16 = 0` is the
    caller's check): `split_last` fails on zero blocks; otherwise unpad the last block.
    (`assert!(unpad_len <= bs)` cannot fire: `raw_unpad` returns a prefix of the block.) -/
def unpadBlocks (s : Pad) (buf : Bytes) : Option Bytes :=
  if buf.length / 16 = 0 then none
  else
    let fullLen := buf.length - 16
    match rawUnpad s (buf.drop fullLen) with
    | none => none
    | some unpadLen => some (buf.take (fullLen + unpadLen))

/-! ## `encrypt` / `decrypt` -/

inductive Err
  | invalidAlgorithm                      -- "Invalid algorithm: {other}"
  | keySize (expected found : Nat)        -- "Invalid key size. Expected {N} bytes. Found {len} bytes"
  | ivSize (expected found : Nat)         -- "Invalid iv size. Expected {N} bytes. Found {len} bytes"
  | invalidInput                          -- "Invalid input" (decrypt_padded only)
  deriving DecidableEq, Repr

inductive Res (ε : Type)
  | ok (b : Bytes)
  | err (e : ε)
  | panic
  deriving DecidableEq, Repr

/-- Third-party and std primitives reached by `encrypt`/`decrypt`. -/
structure Prims where
  /-- `String::from_utf8_lossy(b).to_uppercase()` as bytes -/
  upper : Bytes → Bytes
  /-- `cfb_mode::Encryptor<AesK>::new(key, iv).encrypt_b2b` / `Decryptor … decrypt_b2b` -/
  cfbEnc : KeySize → Bytes → Bytes → Bytes → Bytes
  cfbDec : KeySize → Bytes → Bytes → Bytes → Bytes
  /-- `Ofb/Ctr64LE/Ctr64BE::new(key, iv).apply_keystream_b2b`, the same call on both sides;
      `none` = `StreamCipherError` (keystream exhausted), which `apply_keystream_b2b` unwraps -/
  keystream : Alg → Bytes → Bytes → Bytes → Option Bytes
  /-- raw AES-CBC over whole blocks (`encrypt_blocks` / `decrypt_blocks`) -/
  cbcEnc : KeySize → Bytes → Bytes → Bytes → Bytes
  cbcDec : KeySize → Bytes → Bytes → Bytes → Bytes
  /-- `Aead::encrypt` / `Aead::decrypt`; `none` = `aead::Error` -/
  aeadEnc : Alg → Bytes → Bytes → Bytes → Option Bytes
  aeadDec : Alg → Bytes → Bytes → Bytes → Option Bytes
  /-- ISO 10126 filler used by the padding crate -/
  fill : Filler

/-- `Option` from a primitive whose failure is `expect`ed/`unwrap`ped away. -/
def orPanic {ε : Type} : Option Bytes → Res ε
  | some b => .ok b
  | none => .panic

/-- `Option` from a primitive whose failure is mapped to the error "Invalid input". -/
def orInvalid : Option Bytes → Res Err
  | some b => .ok b
  | none => .err .invalidInput

/-- `get_key_bytes` then `get_iv_bytes` (argument order of `<$algorithm>::new(&Key.., &Iv..)`). -/
def checkSizes (a : Alg) (key iv : Bytes) : Option Err :=
  if key.length ≠ keyLen a then some (.keySize (keyLen a) key.length)
  else if iv.length ≠ ivLen a then some (.ivSize (ivLen a) iv.length)
  else none

/-- right-hand side of an `encrypt` arm once key and IV have the right sizes. -/
def encryptWith (P : Prims) (a : Alg) (key iv pt : Bytes) : Res Err :=
  match a with
  | .cfb k => .ok (P.cfbEnc k key iv pt)
  | .ofb _ => orPanic (P.keystream a key iv pt)
  | .ctrLE _ => orPanic (P.keystream a key iv pt)
  | .ctrBE _ => orPanic (P.keystream a key iv pt)
  | .cbc k s => .ok (P.cbcEnc k key iv (pad s P.fill pt))
  | .siv128 => orPanic (P.aeadEnc a key iv pt)
  | .siv256 => orPanic (P.aeadEnc a key iv pt)
  | .chacha => orPanic (P.aeadEnc a key iv pt)
  | .xchacha => orPanic (P.aeadEnc a key iv pt)
  | .xsalsa => orPanic (P.aeadEnc a key iv pt)

/-- right-hand side of a `decrypt` arm once key and IV have the right sizes. -/
def decryptWith (P : Prims) (a : Alg) (key iv ct : Bytes) : Res Err :=
  match a with
  | .cfb k => .ok (P.cfbDec k key iv ct)
  | .ofb _ => orPanic (P.keystream a key iv ct)
  | .ctrLE _ => orPanic (P.keystream a key iv ct)
  | .ctrBE _ => orPanic (P.keystream a key iv ct)
  | .cbc k s =>
    -- decrypt_padded_inout: a non-empty tail is an error; then decrypt_blocks; then unpad_blocks
    if ct.length % 16 ≠ 0 then .err .invalidInput
    else match unpadBlocks s (P.cbcDec k key iv ct) with
      | some p => .ok p
      | none => .err .invalidInput
  -- an input the AEAD does not authenticate is the error "Invalid input" (fix 2b6…: was `.expect`)
  | .siv128 => orInvalid (P.aeadDec a key iv ct)
  | .siv256 => orInvalid (P.aeadDec a key iv ct)
  | .chacha => orInvalid (P.aeadDec a key iv ct)
  | .xchacha => orInvalid (P.aeadDec a key iv ct)
  | .xsalsa => orInvalid (P.aeadDec a key iv ct)

/-- `fn encrypt(plaintext, algorithm: &str, key, iv)` (the `&str` is already upper-cased). -/
def encrypt (P : Prims) (name key iv pt : Bytes) : Res Err :=
  match algOfEncrypt name with
  | none => .err .invalidAlgorithm
  | some a =>
    match checkSizes a key iv with
    | some e => .err e
    | none => encryptWith P a key iv pt

/-- `fn decrypt(ciphertext, algorithm: &str, key, iv)`. -/
def decrypt (P : Prims) (name key iv ct : Bytes) : Res Err :=
  match algOfDecrypt name with
  | none => .err .invalidAlgorithm
  | some a =>
    match checkSizes a key iv with
    | some e => .err e
    | none => decryptWith P a key iv ct

/-- `EncryptFn::resolve`: `algorithm.try_bytes_utf8_lossy()?.to_uppercase()`, then `encrypt`. -/
def encryptFn (P : Prims) (algorithm key iv pt : Bytes) : Res Err :=
  encrypt P (P.upper algorithm) key iv pt

/-- `DecryptFn::resolve`. -/
def decryptFn (P : Prims) (algorithm key iv ct : Bytes) : Res Err :=
  decrypt P (P.upper algorithm) key iv ct

/-- `Encrypt::compile` / `Decrypt::compile` with a constant `algorithm`: `true` = accepted. -/
def compileAccepts (P : Prims) (algorithm : Bytes) : Bool :=
  isValidAlgorithm (P.upper algorithm)

/-- ciphertext length by cipher family. -/
def ctLen : Alg → Nat → Nat
  | .cfb _, n => n | .ofb _, n => n | .ctrLE _, n => n | .ctrBE _, n => n
  | .cbc _ _, n => (n / 16 + 1) * 16
  | .siv128, n => n + 16 | .siv256, n => n + 16
  | .chacha, n => n + 16 | .xchacha, n => n + 16 | .xsalsa, n => n + 16

def Alg.isAead : Alg → Bool
  | .siv128 | .siv256 | .chacha | .xchacha | .xsalsa => true
  | _ => false

def Alg.isKeystream : Alg → Bool
  | .ofb _ | .ctrLE _ | .ctrBE _ => true
  | _ => false

/-! ## `encrypt_ip` / `decrypt_ip` -/

/-- `std::net::IpAddr` by octets. -/
inductive Ip
  | v4 (octets : Bytes)
  | v6 (octets : Bytes)
  deriving DecidableEq, Repr

def Ip.isV4 : Ip → Bool
  | .v4 _ => true
  | .v6 _ => false

/-- bytes 0..12 of an IPv4-mapped address: ten zero bytes, `ff ff`. -/
def v4Prefix : Bytes := [0, 0, 0, 0, 0, 0, 0, 0, 0, 0, 255, 255]

/-- `ipcrypt_rs::common::ip_to_bytes`. -/
def ipToBytes : Ip → Bytes
  | .v4 o => v4Prefix ++ o
  | .v6 o => o

/-- the test of `bytes_to_ip`: `bytes[..10]` all zero and `bytes[10..12] == [0xFF; 2]`. -/
def isV4Form (b : Bytes) : Bool := b.take 12 == v4Prefix

/-- `ipcrypt_rs::common::bytes_to_ip`. -/
def bytesToIp (b : Bytes) : Ip :=
  if isV4Form b then .v4 (b.drop 12) else .v6 b

inductive Mode | aes128 | pfx
  deriving DecidableEq, Repr

/-- `match mode_str.as_ref() { "aes128" => …, "pfx" => …, other => … }`. The lossy UTF-8
    conversion is the identity on these ASCII strings and never produces them from anything else,
    so the comparison is on the raw bytes; there is no case folding. -/
def modeOf (m : Bytes) : Option Mode :=
  if m = [97, 101, 115, 49, 50, 56] then some .aes128
  else if m = [112, 102, 120] then some .pfx
  else none

def Mode.keyLen : Mode → Nat
  | .aes128 => 16
  | .pfx => 32

inductive IpErr
  | parse                                 -- "unable to parse IP address: {err}"
  | mode                                  -- "Invalid mode '{other}'. Must be 'aes128' or 'pfx'"
  | key (m : Mode) (isV4 : Bool)          -- "{mode} mode requires a {N}-byte key for {IPv4|IPv6}"
  | pfxHalves                             -- "pfx mode requires a key whose two 16-byte halves differ"
  deriving DecidableEq, Repr

structure IpPrims where
  /-- `str::parse::<IpAddr>` of the lossy text -/
  parseIp : Bytes → Option Ip
  /-- `IpAddr::to_string` -/
  showIp : Ip → Bytes
  /-- `Aes128::{encrypt_block, decrypt_block}` of `Ipcrypt` (key, block) -/
  aesEnc : Bytes → Bytes → Bytes
  aesDec : Bytes → Bytes → Bytes
  /-- `IpcryptPfx::{encrypt_bytes, decrypt_bytes}` (key, `ip.is_ipv4()`, 16 bytes) -/
  pfxEnc : Bytes → Bool → Bytes → Bytes
  pfxDec : Bytes → Bool → Bytes → Bytes

/-- `Ipcrypt::new(key).encrypt_ipaddr(ip)`. -/
def ipcryptEnc (P : IpPrims) (key : Bytes) (ip : Ip) : Ip :=
  bytesToIp (P.aesEnc key (ipToBytes ip))

def ipcryptDec (P : IpPrims) (key : Bytes) (ip : Ip) : Ip :=
  bytesToIp (P.aesDec key (ipToBytes ip))

/-- `IpcryptPfx::new(key)`: `assert_ne!(k1, k2)` on the two 16-byte halves. -/
def pfxKeyPanics (key : Bytes) : Bool := key.take 16 == key.drop 16

/-- `IpcryptPfx::encrypt_ipaddr` (after `new` succeeded). -/
def pfxIpEnc (P : IpPrims) (key : Bytes) (ip : Ip) : Ip :=
  bytesToIp (P.pfxEnc key ip.isV4 (ipToBytes ip))

def pfxIpDec (P : IpPrims) (key : Bytes) (ip : Ip) : Ip :=
  bytesToIp (P.pfxDec key ip.isV4 (ipToBytes ip))

/-- `fn encrypt_ip(ip, key, mode)`: parse, then mode, then `to_key::<N>`, then the cipher. -/
def encryptIp (P : IpPrims) (ipText key mode : Bytes) : Res IpErr :=
  match P.parseIp ipText with
  | none => .err .parse
  | some ip =>
    match modeOf mode with
    | none => .err .mode
    | some .aes128 =>
      if key.length ≠ 16 then .err (.key .aes128 ip.isV4)
      else .ok (P.showIp (ipcryptEnc P key ip))
    | some .pfx =>
      if key.length ≠ 32 then .err (.key .pfx ip.isV4)
      else if pfxKeyPanics key then .err .pfxHalves
      else .ok (P.showIp (pfxIpEnc P key ip))

/-- `fn decrypt_ip(ip, key, mode)`: as in the source, each mode matches again on the address family
    and the two branches are textually the same. -/
def decryptIp (P : IpPrims) (ipText key mode : Bytes) : Res IpErr :=
  match P.parseIp ipText with
  | none => .err .parse
  | some ip =>
    match modeOf mode with
    | none => .err .mode
    | some .aes128 =>
      match ip with
      | .v4 o =>
        if key.length ≠ 16 then .err (.key .aes128 true)
        else .ok (P.showIp (ipcryptDec P key (.v4 o)))
      | .v6 o =>
        if key.length ≠ 16 then .err (.key .aes128 false)
        else .ok (P.showIp (ipcryptDec P key (.v6 o)))
    | some .pfx =>
      match ip with
      | .v4 o =>
        if key.length ≠ 32 then .err (.key .pfx true)
        else if pfxKeyPanics key then .err .pfxHalves
        else .ok (P.showIp (pfxIpDec P key (.v4 o)))
      | .v6 o =>
        if key.length ≠ 32 then .err (.key .pfx false)
        else if pfxKeyPanics key then .err .pfxHalves
        else .ok (P.showIp (pfxIpDec P key (.v6 o)))

/-! ## Executable instances used by the line-protocol driver (and as non-vacuity witnesses) -/

/-- `from_utf8_lossy + to_uppercase`, exact on every character whose upper-case form contains an
    ASCII character (checked exhaustively over all scalar values by the harness op `c23.upper`);
    every other non-ASCII byte is left in place. Since the tables are pure ASCII, a name containing
    any other non-ASCII character is rejected either way. A two- or three-byte UTF-8 pattern in a
    byte string always decodes to that character (lead bytes are never continuation bytes), so the
    rewriting can be done on bytes. -/
def upperModel : Bytes → Bytes
  | [] => []
  | 0xC4 :: 0xB1 :: r => 73 :: upperModel r                        -- ı  → I
  | 0xC5 :: 0xBF :: r => 83 :: upperModel r                        -- ſ  → S
  | 0xC3 :: 0x9F :: r => 83 :: 83 :: upperModel r                  -- ß  → SS
  | 0xC5 :: 0x89 :: r => 0xCA :: 0xBC :: 78 :: upperModel r        -- ŉ  → ʼN
  | 0xC7 :: 0xB0 :: r => 74 :: 0xCC :: 0x8C :: upperModel r        -- ǰ  → J̌
  | 0xE1 :: 0xBA :: 0x96 :: r => 72 :: 0xCC :: 0xB1 :: upperModel r  -- ẖ → H̱
  | 0xE1 :: 0xBA :: 0x97 :: r => 84 :: 0xCC :: 0x88 :: upperModel r  -- ẗ → T̈
  | 0xE1 :: 0xBA :: 0x98 :: r => 87 :: 0xCC :: 0x8A :: upperModel r  -- ẘ → W̊
  | 0xE1 :: 0xBA :: 0x99 :: r => 89 :: 0xCC :: 0x8A :: upperModel r  -- ẙ → Y̊
  | 0xE1 :: 0xBA :: 0x9A :: r => 65 :: 0xCA :: 0xBE :: upperModel r  -- ẚ → Aʾ
  | 0xEF :: 0xAC :: 0x80 :: r => 70 :: 70 :: upperModel r          -- ﬀ → FF
  | 0xEF :: 0xAC :: 0x81 :: r => 70 :: 73 :: upperModel r          -- ﬁ → FI
  | 0xEF :: 0xAC :: 0x82 :: r => 70 :: 76 :: upperModel r          -- ﬂ → FL
  | 0xEF :: 0xAC :: 0x83 :: r => 70 :: 70 :: 73 :: upperModel r    -- ﬃ → FFI
  | 0xEF :: 0xAC :: 0x84 :: r => 70 :: 70 :: 76 :: upperModel r    -- ﬄ → FFL
  | 0xEF :: 0xAC :: 0x85 :: r => 83 :: 84 :: upperModel r          -- ﬅ → ST
  | 0xEF :: 0xAC :: 0x86 :: r => 83 :: 84 :: upperModel r          -- ﬆ → ST
  | b :: r => (if 97 ≤ b ∧ b ≤ 122 then b - 32 else b) :: upperModel r

/-- collapse every maximal run of non-ASCII bytes to one `?` (what `c23.upper` compares). -/
def asciiProjectionAux : Bool → Bytes → Bytes
  | _, [] => []
  | inRun, b :: r =>
    if b < 128 then b :: asciiProjectionAux false r
    else if inRun then asciiProjectionAux true r
    else 63 :: asciiProjectionAux true r

def asciiProjection (b : Bytes) : Bytes := asciiProjectionAux false b

/-- toy primitives with the right shapes: identity ciphers, AEAD tag = sixteen zero bytes. -/
def toyPrims : Prims where
  upper := upperModel
  cfbEnc := fun _ _ _ p => p
  cfbDec := fun _ _ _ c => c
  keystream := fun _ _ _ x => some x
  cbcEnc := fun _ _ _ b => b
  cbcDec := fun _ _ _ b => b
  aeadEnc := fun _ _ _ p => some (p ++ List.replicate 16 0)
  aeadDec := fun _ _ _ c =>
    if c.length ≥ 16 ∧ c.drop (c.length - 16) = List.replicate 16 0 then some (c.take (c.length - 16)) else none
  fill := implFill

/-- toy IP primitives: `parseIp`/`showIp` use a private one-to-one text form
    (`4` + 4 octets, `6` + 16 octets as raw bytes); the block cipher reverses the 16 bytes, the
    prefix-preserving cipher reverses the part it may touch (all 16 bytes, or the last 4 for IPv4). -/
def toyShowIp : Ip → Bytes
  | .v4 o => 52 :: o
  | .v6 o => 54 :: o

def toyParseIp : Bytes → Option Ip
  | 52 :: o => if o.length = 4 then some (.v4 o) else none
  | 54 :: o => if o.length = 16 then some (.v6 o) else none
  | _ => none

def toyIpPrims : IpPrims where
  parseIp := toyParseIp
  showIp := toyShowIp
  aesEnc := fun _ b => b.reverse
  aesDec := fun _ b => b.reverse
  pfxEnc := fun _ v4 b => if v4 then b.take 12 ++ (b.drop 12).reverse else b.reverse
  pfxDec := fun _ v4 b => if v4 then v4Prefix ++ (b.drop 12).reverse else b.reverse

/-! ## Spec predicates (evaluated by the driver on the implementation's observations, and proved of
    the model in `VrlProofs/Props/C23.lean`) -/

/-- what both `encrypt` and `decrypt` must answer before any cipher runs. -/
def precheck (name key iv : Bytes) : Option Err :=
  match algOfEncrypt name with
  | none => some .invalidAlgorithm
  | some a => checkSizes a key iv

/-- C23 on one observation: `enc` = outcome of `encrypt(pt, alg, key, iv)`, `dec` = outcome of
    `decrypt(c, alg, key, iv)` where `c` is the ciphertext when `enc` is `ok c` and `pt` otherwise.
    Either both sides reject with the same error (unknown name, key size, IV size), or encryption
    succeeds with the predicted length and decryption returns the plaintext. -/
def RoundTripObs (upper : Bytes → Bytes) (alg key iv pt : Bytes) (enc dec : Res Err) : Bool :=
  match algOfEncrypt (upper alg) with
  | none => enc == .err .invalidAlgorithm && dec == .err .invalidAlgorithm
  | some a =>
    match checkSizes a key iv with
    | some e => enc == .err e && dec == .err e
    | none =>
      match enc with
      | .ok c => dec == .ok pt && c.length == ctLen a pt.length
      | _ => false

/-- decrypting arbitrary bytes is never a panic. -/
def NoPanicObs (dec : Res Err) : Bool := dec != .panic

/-- finding class: AEAD `decrypt(..).expect(..)` on a ciphertext the AEAD rejects. -/
def D_aead_reject (upper : Bytes → Bytes) (alg key iv : Bytes) : Bool :=
  match algOfDecrypt (upper alg) with
  | some a => a.isAead && (checkSizes a key iv).isNone
  | none => false

/-- IP finding classes. -/
def D_v4mapped (ip : Ip) : Bool :=
  match ip with
  | .v6 o => isV4Form o
  | .v4 _ => false

def D_pfx_equal_halves (m : Mode) (key : Bytes) : Bool :=
  m == .pfx && key.length == 32 && pfxKeyPanics key

/-- pfx mode, IPv6 input whose ciphertext lands in `::ffff:0:0/96` and is therefore returned as an
    IPv4 address, which `decrypt_ip` then decrypts as a 32-bit address. -/
def D_pfx_v4form (m : Mode) (ip enc : Ip) : Bool :=
  m == .pfx && !ip.isV4 && enc.isV4

/-- C23 for addresses on one observation (addresses as parsed by std on both ends). -/
def IpRoundTripObs (ip : Ip) (dec : Option Ip) : Bool := dec == some ip

end Crypt
