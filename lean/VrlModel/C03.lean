/-
  VrlModel.C03 — signatures of the MODELLED stdlib functions (C03: "every stdlib function honours
  its declared signature").

  For every function `F : Fn` this file gives
    * `Fn.params F`      the parameter table (`Function::parameters()`: keyword, kind bitmask, required),
    * `Fn.returnMask F`  `Function::return_kind()`,
    * `declaredFn F as`  the function's own `type_def` (src/stdlib/<F>.rs `FunctionExpression::type_def`)
                         for arguments described by `Arg`s: a literal (its value is known at compile
                         time, kind = `Kind::from(&value)`) or a runtime-typed expression of a given kind,
    * `declared F as`    the TypeDef of the CALL as the compiler computes it
                         (`function_call.rs`: `Builder::new` rejects an argument whose kind does not
                         intersect the parameter kind; an argument kind that is not a subset of the
                         parameter kind makes the call fallible),
    * `model E F vs`     the value-level semantics (`resolve`), assembled from the models of the other
                         slices (Str/Coll/Conv/Round/Codec/Json/Arith) plus the argument type checks.

  Third-party primitives (case tables, `powf`, float parsing/printing, chrono printing, the regex
  engine's `splitn`) are fields of `Env`; the soundness theorems hold for every `Env`.

  Arguments are passed as *slots* in parameter order (`none` = optional argument absent), which is
  what `ArgumentList` is after keyword resolution.
-/
import VrlModel.KindSpec
import VrlModel.Arith
import VrlModel.Coll
import VrlModel.Conv.Num
import VrlModel.Conv.Entries
import VrlModel.Conv.Flatten
import VrlModel.Round
import VrlModel.Codec.Base16
import VrlModel.Codec.Base64
import VrlModel.Json
import VrlModel.Conversion

namespace C03
open Str (R)

/-! ### the modelled functions -/

inductive Fn where
  | string | int | float | bool | array | object | timestamp
  | isString | isInteger | isFloat | isBoolean | isNull | isArray | isObject | isTimestamp | isRegex
  | isNullish | isEmpty
  | length | strlen | push | pop | append
  | toInt | toFloat | toBool | toString
  | upcase | downcase | stripWhitespace | startsWith | endsWith | contains | truncate | slice | split
  | join
  | abs | mod | floor | ceil | round | formatInt | parseInt | parseFloat
  | encodeBase64 | decodeBase64 | encodeBase16 | decodeBase16 | encodeJson
  | keys | values | flatten | compact | unique | toEntries | fromEntries | unflatten | merge
  deriving DecidableEq, Repr

def Fn.all : List Fn :=
  [.string, .int, .float, .bool, .array, .object, .timestamp,
   .isString, .isInteger, .isFloat, .isBoolean, .isNull, .isArray, .isObject, .isTimestamp, .isRegex,
   .isNullish, .isEmpty,
   .length, .strlen, .push, .pop, .append,
   .toInt, .toFloat, .toBool, .toString,
   .upcase, .downcase, .stripWhitespace, .startsWith, .endsWith, .contains, .truncate, .slice, .split,
   .join,
   .abs, .mod, .floor, .ceil, .round, .formatInt, .parseInt, .parseFloat,
   .encodeBase64, .decodeBase64, .encodeBase16, .decodeBase16, .encodeJson,
   .keys, .values, .flatten, .compact, .unique, .toEntries, .fromEntries, .unflatten, .merge]

/-- `Function::identifier()` -/
def Fn.name : Fn → String
  | .string => "string" | .int => "int" | .float => "float" | .bool => "bool" | .array => "array"
  | .object => "object" | .timestamp => "timestamp"
  | .isString => "is_string" | .isInteger => "is_integer" | .isFloat => "is_float"
  | .isBoolean => "is_boolean" | .isNull => "is_null" | .isArray => "is_array"
  | .isObject => "is_object" | .isTimestamp => "is_timestamp" | .isRegex => "is_regex"
  | .isNullish => "is_nullish" | .isEmpty => "is_empty"
  | .length => "length" | .strlen => "strlen" | .push => "push" | .pop => "pop" | .append => "append"
  | .toInt => "to_int" | .toFloat => "to_float" | .toBool => "to_bool" | .toString => "to_string"
  | .upcase => "upcase" | .downcase => "downcase" | .stripWhitespace => "strip_whitespace"
  | .startsWith => "starts_with" | .endsWith => "ends_with" | .contains => "contains"
  | .truncate => "truncate" | .slice => "slice" | .split => "split" | .join => "join"
  | .abs => "abs" | .mod => "mod" | .floor => "floor" | .ceil => "ceil" | .round => "round"
  | .formatInt => "format_int" | .parseInt => "parse_int" | .parseFloat => "parse_float"
  | .encodeBase64 => "encode_base64" | .decodeBase64 => "decode_base64"
  | .encodeBase16 => "encode_base16" | .decodeBase16 => "decode_base16" | .encodeJson => "encode_json"
  | .keys => "keys" | .values => "values" | .flatten => "flatten" | .compact => "compact"
  | .unique => "unique" | .toEntries => "to_entries" | .fromEntries => "from_entries"
  | .unflatten => "unflatten" | .merge => "merge"

def Fn.ofName (s : String) : Option Fn := Fn.all.find? fun f => f.name == s

/-! ### kind bitmasks (`src/compiler/value/kind.rs`) -/

def mBytes : Nat := 2
def mInteger : Nat := 4
def mFloat : Nat := 8
def mBoolean : Nat := 16
def mObject : Nat := 32
def mArray : Nat := 64
def mTimestamp : Nat := 128
def mRegex : Nat := 256
def mNull : Nat := 512
def mUndefined : Nat := 1024
/-- `kind::ANY` (includes `UNDEFINED`) -/
def mAny : Nat := 2046

/-- is the (power of two) bit `k` set in `mask`? -/
def hasBit (mask k : Nat) : Bool := mask / k % 2 == 1

/-- the bit of the kind of a value (`Value::kind()` is exact). -/
def kindBit : Value → Nat
  | .bytes _ => 2 | .int _ => 4 | .float _ => 8 | .bool _ => 16 | .obj _ => 32 | .arr _ => 64
  | .ts _ => 128 | .regex _ => 256 | .null => 512

/-- `Parameter { keyword, kind, required }` -/
structure Param where
  keyword : String
  mask : Nat
  required : Bool
  deriving DecidableEq, Repr

/-- `Parameter::kind()` -/
def paramKind (m : Nat) : Kind :=
  .mk ⟨hasBit m 2, hasBit m 4, hasBit m 8, hasBit m 16, hasBit m 128, hasBit m 256, hasBit m 512,
       hasBit m 1024⟩
    (if hasBit m 64 then .some Col.any else .none) (if hasBit m 32 then .some Col.any else .none)

def req (k : String) (m : Nat) : Param := ⟨k, m, true⟩
def opt (k : String) (m : Nat) : Param := ⟨k, m, false⟩

/-- `Function::parameters()` -/
def Fn.params : Fn → List Param
  | .string | .int | .float | .bool | .array | .object | .timestamp
  | .isString | .isInteger | .isFloat | .isBoolean | .isNull | .isArray | .isObject | .isTimestamp
  | .isRegex | .isNullish => [req "value" mAny]
  | .isEmpty | .length => [req "value" (mBytes + mObject + mArray)]
  | .strlen => [req "value" mBytes]
  | .push => [req "value" mArray, req "item" mAny]
  | .pop => [req "value" mArray]
  | .append => [req "value" mArray, req "items" mArray]
  | .toInt | .toFloat | .toBool | .toString => [req "value" mAny]
  | .upcase | .downcase | .stripWhitespace => [req "value" mBytes]
  | .startsWith | .endsWith | .contains =>
    [req "value" mBytes, req "substring" mBytes, opt "case_sensitive" mBoolean]
  | .truncate => [req "value" mBytes, req "limit" mInteger, opt "suffix" mBytes]
  | .slice => [req "value" (mBytes + mArray), req "start" mInteger, opt "end" mInteger]
  | .split => [req "value" mBytes, req "pattern" (mBytes + mRegex), opt "limit" mInteger]
  | .join => [req "value" mArray, opt "separator" mBytes]
  | .abs => [req "value" (mInteger + mFloat)]
  | .mod => [req "value" (mInteger + mFloat), req "modulus" (mInteger + mFloat)]
  | .floor | .ceil | .round => [req "value" (mInteger + mFloat), opt "precision" mInteger]
  | .formatInt => [req "value" mInteger, opt "base" mInteger]
  | .parseInt => [req "value" mBytes, opt "base" mInteger]
  | .parseFloat => [req "value" mBytes]
  | .encodeBase64 => [req "value" mBytes, opt "padding" mBoolean, opt "charset" mBytes]
  | .decodeBase64 => [req "value" mBytes, opt "charset" mBytes]
  | .encodeBase16 | .decodeBase16 => [req "value" mBytes]
  | .encodeJson => [req "value" mAny, opt "pretty" mBoolean]
  | .keys | .values => [req "value" mObject]
  | .flatten => [req "value" (mObject + mArray), opt "separator" mBytes, opt "except" mArray]
  | .compact =>
    [req "value" (mObject + mArray), opt "recursive" mBoolean, opt "null" mBoolean,
     opt "string" mBoolean, opt "object" mBoolean, opt "array" mBoolean, opt "nullish" mBoolean]
  | .unique => [req "value" mArray]
  | .toEntries => [req "value" (mObject + mArray)]
  | .fromEntries => [req "value" mArray]
  | .unflatten => [req "value" mObject, opt "separator" mBytes, opt "recursive" mBoolean]
  | .merge => [req "to" mObject, req "from" mObject, opt "deep" mBoolean]

/-- `Function::return_kind()` -/
def Fn.returnMask : Fn → Nat
  | .string => mBytes | .int => mInteger | .float => mFloat | .bool => mBoolean
  | .array => mArray | .object => mObject | .timestamp => mTimestamp
  | .isString | .isInteger | .isFloat | .isBoolean | .isNull | .isArray | .isObject | .isTimestamp
  | .isRegex | .isNullish | .isEmpty => mBoolean
  | .length | .strlen => mInteger
  | .push | .pop | .append => mArray
  | .toInt => mInteger | .toFloat => mFloat | .toBool => mBoolean | .toString => mBytes
  | .upcase | .downcase | .stripWhitespace => mBytes
  | .startsWith | .endsWith | .contains => mBoolean
  | .truncate => mBytes
  | .slice => mBytes + mArray
  | .split => mArray
  | .join => mBytes
  | .abs | .mod | .floor | .ceil | .round => mInteger + mFloat
  | .formatInt => mBytes | .parseInt => mInteger | .parseFloat => mFloat
  | .encodeBase64 | .decodeBase64 | .encodeBase16 | .decodeBase16 | .encodeJson => mBytes
  | .keys | .values => mArray
  | .flatten | .compact => mObject + mArray
  | .unique | .toEntries => mArray
  | .fromEntries | .unflatten | .merge => mObject

/-! ### `TypeDef` (kind + fallibility; purity and `returns` play no role for a call of literals /
    event fields) and the description of an argument expression -/

structure TD where
  kind : Kind
  fallible : Bool
  deriving DecidableEq

/-- an argument expression as the compiler sees it. -/
inductive Arg where
  /-- a literal: the value is a compile-time constant (`resolve_constant`), its kind is exact -/
  | lit (v : Value)
  /-- any infallible expression without a constant value whose `type_def` has kind `k`
      (an event field `.p` has `Kind.any`) -/
  | dyn (k : Kind)

def Arg.kind : Arg → Kind
  | .lit v => v.kindOf
  | .dyn k => k

/-- `Expression::resolve_constant` -/
def Arg.const : Arg → Option Value
  | .lit v => some v
  | .dyn _ => none

/-- the run-time values an argument expression can evaluate to. -/
def Arg.admits : Arg → Value → Bool
  | .lit w, v => decide (v = w)
  | .dyn k, v => Spec.mem v k

abbrev Slots := List (Option Value)
abbrev ASlots := List (Option Arg)

/-- kind of the argument in slot `i` (`Kind.never` for an absent one; not used then). -/
def akind (as : ASlots) (i : Nat) : Kind :=
  match as[i]? with
  | some (some a) => a.kind
  | _ => Kind.never

def aconst (as : ASlots) (i : Nat) : Option Value :=
  match as[i]? with
  | some (some a) => a.const
  | _ => none

/-! ### `TypeDef` operations used by the type_defs (src/compiler/type_def.rs) -/

/-- `TypeDef::restrict_array` on the kind -/
def restrictArray (k : Kind) : Kind :=
  Kind.ofArray (match k.array with | some c => c | none => Col.any)

/-- `TypeDef::restrict_object` on the kind -/
def restrictObject (k : Kind) : Kind :=
  Kind.ofObject (match k.object with | some c => c | none => Col.any)

def anyArray : Kind := Kind.ofArray Col.any
def anyObject : Kind := Kind.ofObject Col.any

/-- `Kind::integer().or_float()` -/
def intOrFloat : Kind := Kind.integer.orFloat

/-- `push`: the collection after the item kind was added -/
def pushCol (c : Col) (item : Kind) : Col :=
  match c.exactLength with
  | some n => .mk (c.known.insert (Key.ofIdx n) item) c.unknown
  | none => c.setUnknown (c.unknownKind.union item)

/-- `append`: the collection of `value` after the kinds of `items` were added -/
def appendCol (self items : Col) : Col :=
  match self.exactLength with
  | some n =>
    let known := items.known.foldl (fun acc i k => acc.insert (Key.ofIdx (i.idx + n)) k) self.known
    (Col.mk known self.unknown).setUnknown items.unknownKind
  | none => self.setUnknown (self.unknownKind.union items.reducedKind)

/-- the array collection of a kind that went through `restrict_array` -/
def arrayCol (k : Kind) : Col := match k.array with | some c => c | none => Col.any
def objectCol (k : Kind) : Col := match k.object with | some c => c | none => Col.any

/-- `mod`: is the dividend a constant infinity? -/
def modValueInf : Option Value → Bool
  | some (.float b) => F64.isInf b
  | _ => false

/-- `mod` with a constant non-zero integer modulus: the remainder has the kind of the dividend
    (before the fix the kind was `integer` whatever the dividend: `mod(0.1, 1)`). -/
def modDividendKind (k0 : Kind) : Kind :=
  if k0.isInteger then Kind.integer else if k0.isFloat then Kind.float else Kind.float.orInteger

/-- `mod`: the TypeDef chosen from the constant modulus (`k0` = kind of the dividend) -/
def modTD (k0 : Kind) : Option Value → TD
  | some (.float b) => ⟨Kind.float, !F64.isNormal b⟩
  | some (.int i) => if i = 0 then ⟨Kind.integer, true⟩ else ⟨modDividendKind k0, false⟩
  | _ => ⟨Kind.float.orInteger, true⟩

/-- `FunctionExpression::type_def` of each function, for the argument slots `as`. -/
def declaredFn (F : Fn) (as : ASlots) : TD :=
  let k0 := akind as 0
  match F with
  | .string => ⟨Kind.bytes, !k0.isBytes⟩
  | .int => ⟨Kind.integer, !k0.isInteger⟩
  | .float => ⟨Kind.float, !k0.isFloat⟩
  | .bool => ⟨Kind.boolean, !k0.isBoolean⟩
  | .timestamp => ⟨Kind.timestamp, !k0.isTimestamp⟩
  | .array | .pop => ⟨restrictArray k0, !anyArray.isSuperset k0⟩
  | .object => ⟨restrictObject k0, !anyObject.isSuperset k0⟩
  | .isString | .isInteger | .isFloat | .isBoolean | .isNull | .isArray | .isObject | .isTimestamp
  | .isRegex | .isNullish | .isEmpty => ⟨Kind.boolean, false⟩
  | .length | .strlen => ⟨Kind.integer, false⟩
  | .push => ⟨Kind.ofArray (pushCol (arrayCol k0) (akind as 1).upgradeUndefined), false⟩
  | .append => ⟨Kind.ofArray (appendCol (arrayCol k0) (arrayCol (akind as 1))), false⟩
  | .toInt =>
    ⟨Kind.integer, k0.containsBytes || k0.containsArray || k0.containsObject || k0.containsRegex⟩
  | .toFloat =>
    ⟨Kind.float, k0.containsBytes || k0.containsArray || k0.containsObject || k0.containsRegex⟩
  | .toBool =>
    ⟨Kind.boolean, k0.containsBytes || k0.containsTimestamp || k0.containsArray || k0.containsObject
      || k0.containsRegex⟩
  | .toString => ⟨Kind.bytes, k0.containsArray || k0.containsObject || k0.containsRegex⟩
  | .upcase | .downcase | .stripWhitespace | .truncate | .encodeBase64 | .encodeBase16
  | .encodeJson => ⟨Kind.bytes, false⟩
  | .startsWith | .endsWith | .contains => ⟨Kind.boolean, false⟩
  | .slice =>
    if k0.isBytes then ⟨Kind.never.union k0, true⟩
    else if k0.isArray then ⟨Kind.never.union k0, true⟩
    else ⟨(Kind.never.orBytes).orArray Col.any, true⟩
  | .split => ⟨Kind.ofArray (Col.fromUnknown Kind.bytes), false⟩
  | .join | .formatInt | .decodeBase64 | .decodeBase16 => ⟨Kind.bytes, true⟩
  | .abs | .floor | .ceil | .round =>
    ⟨if k0.isFloat || k0.isInteger then k0 else intOrFloat, false⟩
  | .mod =>
    let td := modTD k0 (aconst as 1)
    if modValueInf (aconst as 0) then ⟨td.kind, true⟩ else td
  | .parseInt => ⟨Kind.integer, true⟩
  | .parseFloat => ⟨Kind.float, true⟩
  | .keys => ⟨Kind.ofArray (Col.empty.withUnknown Kind.bytes), false⟩
  | .values => ⟨Kind.ofArray (Col.empty.withUnknown (objectCol k0).reducedKind), false⟩
  | .flatten | .compact => ⟨if k0.isArray then anyArray else anyObject, false⟩
  | .unique | .toEntries => ⟨anyArray, false⟩
  | .fromEntries | .unflatten => ⟨anyObject, false⟩
  | .merge =>
    ⟨(restrictObject k0).merge (restrictObject (akind as 1)) .overwrite, false⟩

/-- outcome of the argument checks of `Builder::new` for one argument -/
inductive ArgCheck where
  | exact | unknownValidity | invalid
  deriving DecidableEq, Repr

def checkArg (p : Param) (a : Arg) : ArgCheck :=
  let pk := paramKind p.mask
  if !pk.intersects a.kind then .invalid
  else if !pk.isSuperset a.kind then .unknownValidity
  else .exact

/-- `some true` = at least one argument of unknown type validity; `none` = rejected (E110), or a
    required argument is missing (E106), or there are more slots than parameters. -/
def checkArgs : List Param → ASlots → Option Bool
  | [], [] => some false
  | p :: ps, none :: as => if p.required then none else checkArgs ps as
  | p :: ps, some a :: as =>
    match checkArg p a, checkArgs ps as with
    | .invalid, _ => none
    | _, none => none
    | .unknownValidity, some _ => some true
    | .exact, some b => some b
  | _, _ => none

/-- the TypeDef of the call `F(as)` as compiled (`FunctionCall::type_info`); `none` = the compiler
    rejects the call because of its argument kinds. -/
def declared (F : Fn) (as : ASlots) : Option TD :=
  match checkArgs F.params as with
  | none => none
  | some unk => let td := declaredFn F as; some ⟨td.kind, td.fallible || unk⟩

/-! ### value level -/

/-- third-party primitives -/
structure Env where
  /-- Unicode case tables of core (`to_uppercase` / `to_lowercase`) -/
  cm : Str.CaseMap
  /-- `10f64.powf(p as f64)` -/
  pow10 : Int → Nat
  /-- `str::parse::<f64>` on the (lossily decoded) text; `none` = parse error -/
  parseF : List Nat → Option Nat
  /-- `Display for f64` -/
  showFloat : Nat → List Nat
  /-- chrono `to_rfc3339_opts(AutoSi, true)` of nanoseconds since the epoch -/
  showTs : Int → List Nat
  /-- serde_json's primitives for `encode_json` -/
  json : Json.Prims
  /-- `regex::Regex::splitn(text, limit)`: pattern source, text (lossily decoded), limit -/
  regexSplit : List Nat → List Nat → Nat → List (List Nat)

def ofRes : Conv.Res Value → R Value
  | .ok v => .ok v
  | .err => .err
  | .panic => .panic

def ofArith : Arith.Res Value → R Value
  | .ok v => .ok v
  | .err _ => .err
  | .panic => .panic

def ofOpt : Option (List Nat) → R Value
  | some b => .ok (.bytes b)
  | none => .err

def boolR (b : Bool) : R Value := .ok (.bool b)

/-- `to_bool` (src/stdlib/to_bool.rs) -/
def toBool : Value → R Value
  | .bool b => .ok (.bool b)
  | .int i => .ok (.bool (i != 0))
  | .float b => .ok (.bool (!F64.isZero b))
  | .null => .ok (.bool false)
  | .bytes s =>
    match Cnv.parseBool (Str.lossy s) with
    | some b => .ok (.bool b)
    | none => .err
  | _ => .err

/-- `to_string` (src/stdlib/to_string.rs) -/
def toStringV (E : Env) : Value → R Value
  | .bytes b => .ok (.bytes b)
  | .int i => .ok (.bytes (Conv.Num.intText i))
  | .float b => .ok (.bytes (E.showFloat b))
  | .bool true => .ok (.bytes [116, 114, 117, 101])
  | .bool false => .ok (.bytes [102, 97, 108, 115, 101])
  | .ts t => .ok (.bytes (E.showTs t))
  | .null => .ok (.bytes [])
  | _ => .err

/-- `Vec::pop` on a copy -/
def popList : VList → VList
  | .nil => .nil
  | .cons _ .nil => .nil
  | .cons v (.cons w ws) => .cons v (popList (.cons w ws))

def rawBytesArr : List (List Nat) → VList
  | [] => .nil
  | p :: ps => .cons (.bytes p) (rawBytesArr ps)

/-- `split` with the regex branch through `Env.regexSplit` -/
def splitV (E : Env) (value pattern : Value) (limit : Option Value) : R Value :=
  match Str.split value pattern limit with
  | some r => r
  | none =>
    -- `Str.split` answers `none` exactly for a string value, an integer limit and a regex pattern
    match value, pattern, limit.getD (.int Str.defaultLimit) with
    | .bytes s, .regex p, .int l =>
      .ok (.arr (rawBytesArr (E.regexSplit p (Str.lossy s) (if l < 0 then 0 else l.toNat))))
    | _, _, _ => .err

/-- the literal `except` argument of `flatten`: an array of strings (checked at compile time) -/
def exceptKeys : Option Value → Option (List Key)
  | none => some []
  | some (.arr xs) => (Coll.toList xs).mapM fun v => Conv.bytesLossy v
  | some _ => none

/-! #### slot combinators: required arguments `some`, optional ones as they come; any other shape
    cannot be produced by an accepted call and is mapped to `err` -/

def un (f : Value → R Value) : Slots → R Value
  | [some v] => f v
  | _ => .err
def un1 (f : Value → Option Value → R Value) : Slots → R Value
  | [some v, o] => f v o
  | _ => .err
def un2 (f : Value → Option Value → Option Value → R Value) : Slots → R Value
  | [some v, o1, o2] => f v o1 o2
  | _ => .err
def un6 (f : Value → Option Value → Option Value → Option Value → Option Value → Option Value →
    Option Value → R Value) : Slots → R Value
  | [some v, o1, o2, o3, o4, o5, o6] => f v o1 o2 o3 o4 o5 o6
  | _ => .err
def bin (f : Value → Value → R Value) : Slots → R Value
  | [some a, some b] => f a b
  | _ => .err
def bin1 (f : Value → Value → Option Value → R Value) : Slots → R Value
  | [some a, some b, o] => f a b o
  | _ => .err

/-- the primitive state / container state a value has (`Value::kind()`). -/
inductive Tag where
  | bytes | integer | float | boolean | timestamp | regex | null | array | object
  deriving DecidableEq, Repr

def tagOf : Value → Tag
  | .bytes _ => .bytes | .int _ => .integer | .float _ => .float | .bool _ => .boolean
  | .ts _ => .timestamp | .regex _ => .regex | .null => .null | .arr _ => .array | .obj _ => .object

/-- the type assertions `string`, `int`, …: the value itself or an error -/
def assertV (t : Tag) (v : Value) : R Value := if tagOf v = t then .ok v else .err

/-- the type predicates `is_string`, … -/
def isV (t : Tag) (v : Value) : R Value := boolR (decide (tagOf v = t))

def isEmptyV : Value → R Value
  | .obj m => boolR m.isEmpty
  | .arr a => boolR a.isEmpty
  | .bytes b => boolR b.isEmpty
  | _ => .err

def pushV : Value → Value → R Value
  | .arr a, x => .ok (.arr (a.append (.cons x .nil)))
  | _, _ => .err

def popV : Value → R Value
  | .arr a => .ok (.arr (popList a))
  | _ => .err

def appendV : Value → Value → R Value
  | .arr a, .arr b => .ok (.arr (a.append b))
  | _, _ => .err

def stdCharset : Value := .bytes [115, 116, 97, 110, 100, 97, 114, 100]

def encodeBase64V (v : Value) (pad cs : Option Value) : R Value :=
  match v, pad.getD (.bool true), cs.getD stdCharset with
  | .bytes b, .bool p, .bytes c => ofOpt (Codec.Base64.encode b p c)
  | _, _, _ => .err

def decodeBase64V (v : Value) (cs : Option Value) : R Value :=
  match v, cs.getD stdCharset with
  | .bytes b, .bytes c =>
    (match Codec.Base64.decode b c with
     | .ok r => .ok (.bytes r)
     | _ => .err)
  | _, _ => .err

def encodeBase16V : Value → R Value
  | .bytes b => .ok (.bytes (Codec.Base16.encode b))
  | _ => .err

def decodeBase16V : Value → R Value
  | .bytes b => ofOpt (Codec.Base16.decode b)
  | _ => .err

def encodeJsonV (E : Env) (v : Value) (pretty : Option Value) : R Value :=
  match pretty.getD (.bool false) with
  | .bool p => .ok (.bytes (Json.encodeJson E.json p v))
  | _ => .err

def flattenV (v : Value) (sep except : Option Value) : R Value :=
  match exceptKeys except with
  | some ks => ofRes (Conv.Flat.flatten v (sep.getD (.bytes [46])) ks)
  | none => .err

def unflattenV (v : Value) (sep r : Option Value) : R Value :=
  ofRes (Conv.Flat.unflatten v (sep.getD (.bytes [46])) (r.getD (.bool true)))

/-- `FunctionExpression::resolve` of each function on already evaluated argument slots. -/
def model (E : Env) (F : Fn) : Slots → R Value :=
  match F with
  | .string => un (assertV .bytes)
  | .int => un (assertV .integer)
  | .float => un (assertV .float)
  | .bool => un (assertV .boolean)
  | .array => un (assertV .array)
  | .object => un (assertV .object)
  | .timestamp => un (assertV .timestamp)
  | .isString => un (isV .bytes)
  | .isInteger => un (isV .integer)
  | .isFloat => un (isV .float)
  | .isBoolean => un (isV .boolean)
  | .isNull => un (isV .null)
  | .isArray => un (isV .array)
  | .isObject => un (isV .object)
  | .isTimestamp => un (isV .timestamp)
  | .isRegex => un (isV .regex)
  | .isNullish => un fun v => boolR (Coll.isNullish v)
  | .isEmpty => un isEmptyV
  | .length => un Coll.length
  | .strlen => un Str.strlen
  | .push => bin pushV
  | .pop => un popV
  | .append => bin appendV
  | .toInt => un fun v => ofRes (Conv.Num.toInt v)
  | .toFloat => un (Round.toFloat E.parseF)
  | .toBool => un toBool
  | .toString => un (toStringV E)
  | .upcase => un (Str.upcaseV E.cm)
  | .downcase => un (Str.downcaseV E.cm)
  | .stripWhitespace => un Str.stripWhitespace
  | .startsWith => bin1 (Str.startsWith E.cm)
  | .endsWith => bin1 (Str.endsWith E.cm)
  | .contains => bin1 (Str.contains E.cm)
  | .truncate => bin1 Str.truncate
  | .slice => bin1 Coll.slice
  | .split => bin1 (splitV E)
  | .join => un1 Str.join
  | .abs => un fun v => ofRes (Conv.Num.abs v)
  | .mod => bin fun v m => ofArith (Arith.tryRem v m)
  | .floor => un1 (Round.roundFn .floor E.pow10)
  | .ceil => un1 (Round.roundFn .ceil E.pow10)
  | .round => un1 (Round.roundFn .round E.pow10)
  | .formatInt => un1 fun v b => ofRes (Conv.formatInt v (b.getD (.int 10)))
  | .parseInt => un1 fun v b => ofRes (Conv.parseInt v b)
  | .parseFloat => un (Round.parseFloat E.parseF)
  | .encodeBase64 => un2 encodeBase64V
  | .decodeBase64 => un1 decodeBase64V
  | .encodeBase16 => un encodeBase16V
  | .decodeBase16 => un decodeBase16V
  | .encodeJson => un1 (encodeJsonV E)
  | .keys => un Coll.keys
  | .values => un Coll.values
  | .flatten => un2 flattenV
  | .compact => un6 Coll.compact
  | .unique => un Coll.unique
  | .toEntries => un fun v => ofRes (Conv.toEntries v)
  | .fromEntries => un fun v => ofRes (Conv.fromEntries v)
  | .unflatten => un2 unflattenV
  | .merge => bin1 Coll.merge

/-- the argument values are values the argument expressions can evaluate to, slot by slot. -/
def Admits : ASlots → Slots → Bool
  | [], [] => true
  | none :: as, none :: vs => Admits as vs
  | some a :: as, some v :: vs => a.admits v && Admits as vs
  | _, _ => false

end C03
