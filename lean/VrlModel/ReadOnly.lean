/-
  VrlModel.ReadOnly — `CompileConfig::is_read_only_path` (compile_config.rs) with
  `OwnedValuePath::can_start_with` / `OwnedSegment::can_start_with` (path/mod.rs, path/owned.rs):
  the check `verify_mutable` (assignments) and `del` apply to every target path they write.
-/
import VrlModel.C18

namespace ReadOnly

structure RO where
  isMeta : Bool
  path : Path
  recursive : Bool
  deriving DecidableEq, Repr

/-- `self.can_start_with(prefix)`: `prefix` is a segment-wise prefix of `self`
    (indices are compared numerically, as written). -/
def startsWith : Path → Path → Bool
  | _, [] => true
  | [], _ :: _ => false
  | s :: self, p :: pre => decide (s = p) && startsWith self pre

/-- one entry of `is_read_only_path`'s loop -/
def hits (ro : RO) (m : Bool) (p : Path) : Bool :=
  ro.isMeta == m &&
    (startsWith ro.path p ||                       -- writing a parent of a read-only path
     (if ro.recursive then startsWith p ro.path    -- writing below a recursive read-only path
      else decide (p = ro.path)))

def isReadOnly (cfg : List RO) (m : Bool) (p : Path) : Bool := cfg.any (hits · m p)

def fieldOnly : Path → Bool
  | [] => true
  | .field _ :: rest => fieldOnly rest
  | .index _ :: _ => false

/-- Finding classes (why a read-only location changed although every write was accepted). -/
inductive Class where
  | nonrecursiveChild   -- write strictly below a non-recursive read-only path
  | negativeIndex       -- index segments compared as written: `[-1]` vs `[1]` alias at run time
  | coercion            -- write through a container of the other type replaces an ancestor
  | removeShift         -- removing an array element moves the later elements: `del(.a[0])` vs `.a[1]`
  | unknown
  deriving DecidableEq, Repr

def hasNeg : Path → Bool
  | [] => false
  | .index i :: rest => decide (i < 0) || hasNeg rest
  | .field _ :: rest => hasNeg rest

def hasIndex : Path → Bool
  | [] => false
  | .index _ :: _ => true
  | .field _ :: rest => hasIndex rest

/-- a removal at `w` can take an element out of an array through which `r` passes by a later (or,
    when compaction drops the emptied element, the same) index: `w` and `r` agree up to a position
    where `w` holds an index not above the one `r` holds there -/
def shiftsPast : Path → Path → Bool
  | .index i :: _, .index j :: _ => decide (i ≤ j)
  | s :: w, t :: r => decide (s = t) && shiftsPast w r
  | _, _ => false

/-- classify a violated read-only entry given the (accepted) write paths (inserts and removals) and
    the removal paths of the same target -/
def classify (ro : RO) (writes : List Path) (removals : List Path := []) : Class :=
  if !ro.recursive && writes.any (fun w => startsWith w ro.path && w != ro.path) then .nonrecursiveChild
  else if hasNeg ro.path || writes.any hasNeg then .negativeIndex
  else if removals.any (fun w => shiftsPast w ro.path) then .removeShift
  else if hasIndex ro.path || writes.any hasIndex then .coercion
  else .unknown

end ReadOnly
