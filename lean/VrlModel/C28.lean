/-
  VrlModel.C28 — the Spec side of C28: decidable predicates stating each law of the property on
  *observations* (inputs and results), written independently of the `Impl` functions of
  `Str/*.lean` and `Coll.lean` wherever the law is not itself a definition.  The theorems of
  `VrlProofs/Props/C28.lean` prove `spec… inputs (Impl inputs) = true` for all inputs; the oracle
  `o.c28.*` evaluates the same predicates on what the real functions returned.
-/
import VrlModel.Coll

namespace C28
open Str Coll

/-! ### strings -/

/-- `r` is `s` without a leading and a trailing run of whitespace, and `r` neither starts nor ends
    with whitespace ("removes exactly leading and trailing whitespace"); chars view. -/
def specTrim (s r : List Nat) : Bool :=
  let rest := s.drop (s.takeWhile isWhitespace).length
  r.isPrefixOf rest && (rest.drop r.length).all isWhitespace &&
  (match r.head? with | some c => !isWhitespace c | none => true) &&
  (match r.getLast? with | some c => !isWhitespace c | none => true)

/-- scalar values of a UTF-8 string = bytes that are not continuation bytes (`10xxxxxx`). -/
def countLeads (bs : List Nat) : Nat := (bs.filter (fun b => b / 64 != 2)).length

/-- `strlen` counts the scalar values of the (lossily decoded) string. -/
def specStrlen (s : List Nat) (n : Int) : Bool := n == (countLeads (lossy s) : Int)

/-- `sub` occurs in `v` at position `i`. -/
def subAt (v sub : List Nat) (i : Nat) : Bool := i + sub.length ≤ v.length && (v.drop i).take sub.length == sub

def specStartsWith (v sub : List Nat) (b : Bool) : Bool := b == subAt v sub 0
def specEndsWith (v sub : List Nat) (b : Bool) : Bool := b == subAt v sub (v.length - sub.length)
def specContains (v sub : List Nat) (b : Bool) : Bool := b == (List.range (v.length + 1)).any (subAt v sub)

/-! case-insensitive mode.  `ends_with` / `contains` lower-case both strings (`str::to_lowercase`,
    Final_Sigma rule included) and look for the position there: the oracle and the theorems evaluate
    `specStartsWith/EndsWith/Contains` on the two lower-cased chars views.  `starts_with` walks the
    two strings char by char instead (`ciPrefix`); the two readings coincide on `simpleLower` strings. -/

/-- `a` and `b` have the same complete lower-case expansion (`char::to_lowercase`). -/
def foldEq (cm : CaseMap) (a b : Nat) : Bool := cm.toLower a == cm.toLower b

/-- every char of `sub` has a partner with the same lower-case expansion at the same index of `v`. -/
def ciPrefix (cm : CaseMap) : List Nat → List Nat → Bool
  | [], _ => true
  | _ :: _, [] => false
  | a :: sub, b :: v => foldEq cm a b && ciPrefix cm sub v

/-- no `Σ` (U+03A3), the one char `str::to_lowercase` maps depending on its context. -/
def noSigma (s : List Nat) : Bool := !s.contains capSigma

/-- every char lower-cases to exactly one char (all of Unicode 16 except `İ` U+0130 ↦ `i̇`). -/
def singleLower (cm : CaseMap) (s : List Nat) : Bool := s.all fun c => (cm.toLower c).length == 1

/-- lower-casing the string is lower-casing it char by char, one char each. -/
def simpleLower (cm : CaseMap) (s : List Nat) : Bool := noSigma s && singleLower cm s

/-- `strlen(truncate(s, limit, suffix)) ≤ max(limit, 0) + strlen(suffix)`. -/
def specTruncate (limit : Int) (lenResult lenSuffix : Int) : Bool :=
  decide (lenResult ≤ (if limit < 0 then 0 else limit) + lenSuffix)

/-! ### slice = positional indexing -/

/-- VRL indexing `v[i]`: negative indices count from the end (as `VList.getIdx`). -/
def idx {α : Type} (xs : List α) (i : Int) : Option α :=
  if i ≥ 0 then xs[i.toNat]? else if (xs.length : Int) + i ≥ 0 then xs[((xs.length : Int) + i).toNat]? else none

/-- the slice `w` of `xs` for `start`/`end`: defined iff the normalised bounds satisfy
    `0 ≤ s ≤ len`, `s ≤ e`; then `w` has `min e len − s` elements and `w[k] = xs[start + k]`. -/
def specSliceL {α : Type} [BEq α] (xs : List α) (start : Int) (end_ : Option Int) (w : Option (List α)) : Bool :=
  let len : Int := xs.length
  let s := if start < 0 then start + len else start
  let e := match end_ with | some e => if e < 0 then e + len else e | none => len
  let valid := decide (0 ≤ s) && decide (s ≤ len) && decide (s ≤ e)
  match w with
  | none => !valid
  | some w =>
    valid && decide ((w.length : Int) = min e len - s) &&
    (List.range w.length).all fun k => w[k]? == idx xs (start + k)

/-! ### unique -/

/-- the elements with no equal element before them, in order; `pre` = all elements before. -/
def firstOccsFrom (pre : List Value) : List Value → List Value
  | [] => []
  | x :: xs =>
    if pre.any (fun y => veq y x) then firstOccsFrom (x :: pre) xs else x :: firstOccsFrom (x :: pre) xs

def firstOccs (xs : List Value) : List Value := firstOccsFrom [] xs

def distinct : List Value → Bool
  | [] => true
  | x :: xs => !xs.any (veq x) && distinct xs

def specUnique (xs out : List Value) : Bool := out == firstOccs xs && distinct out

/-! ### compact -/

mutual
  /-- no member is empty (per the options); nested members too when `recursive`. -/
  def cleanV (o : CompactOptions) : Value → Bool
    | .arr xs => cleanL o xs
    | .obj m => cleanM o m
    | _ => true
  def cleanL (o : CompactOptions) : VList → Bool
    | .nil => true
    | .cons v vs => !isEmpty o v && (!o.recursive || cleanV o v) && cleanL o vs
  def cleanM (o : CompactOptions) : VMap → Bool
    | .nil => true
    | .cons _ v m => !isEmpty o v && (!o.recursive || cleanV o v) && cleanM o m
end

mutual
  /-- `r` is `v` with members deleted (at every depth when `deep`), nothing else changed. -/
  def subV (deep : Bool) : Value → Value → Bool
    | .arr xs, .arr rs => subL deep xs rs
    | .obj m, .obj rm => subM deep m rm
    | .arr _, _ => false
    | .obj _, _ => false
    | v, r => v == r
  def subL (deep : Bool) : VList → VList → Bool
    | _, .nil => true
    | .nil, .cons _ _ => false
    | .cons x xs, .cons r rs =>
      ((if deep then subV deep x r else x == r) && subL deep xs rs) || subL deep xs (.cons r rs)
  def subM (deep : Bool) : VMap → VMap → Bool
    | _, .nil => true
    | .nil, .cons _ _ _ => false
    | .cons k x m, .cons l r rm =>
      (k == l && (if deep then subV deep x r else x == r) && subM deep m rm) || subM deep m (.cons l r rm)
end

/-- the three clauses of "removes exactly the empty items it is configured to":
    nothing empty is left, only deletions happened, and a value without empty items is unchanged. -/
def specCompact (o : CompactOptions) (v r : Value) : Bool :=
  cleanV o r && subV o.recursive v r && (!cleanV o v || v == r)

/-! ### keys / values / length -/

def entriesOK : VMap → List Value → List Value → Bool
  | .nil, [], [] => true
  | .cons k v m, .bytes k' :: ks, v' :: vs => k == k' && v == v' && entriesOK m ks vs
  | _, _, _ => false

def lookupOK (m : VMap) : List Value → List Value → Bool
  | .bytes k :: ks, v :: vs => m.get k == some v && lookupOK m ks vs
  | [], [] => true
  | _, _ => false

def specKVL (m : VMap) (ks vs : List Value) (n : Int) : Bool :=
  n == (m.length : Int) && n == (ks.length : Int) && n == (vs.length : Int) &&
  entriesOK m ks vs && lookupOK m ks vs

/-! ### merge -/

/-- keys: those of `a` that `b` lacks keep their value; `r` has no key from elsewhere. -/
def frameOK (a b r : VMap) : Bool :=
  (keysL a).all (fun k => (b.get k).isSome || r.get k == a.get k) &&
  (keysL r).all (fun k => (a.get k).isSome || (b.get k).isSome)

mutual
  /-- every entry of `b` is reflected in `r` (`a` = the object merged into). -/
  def mergeOK (deep : Bool) (a r : VMap) : VMap → Bool
    | .nil => true
    | .cons k v rest => fieldOK deep (a.get k) (r.get k) v && mergeOK deep a r rest
  /-- the value `r` holds under a key of `b`: `b`'s value; when `deep` and both `a` and `b` hold
      objects there, the merge of the two (recursively). -/
  def fieldOK (deep : Bool) (old res : Option Value) : Value → Bool
    | .obj c2 =>
      match deep, old, res with
      | true, some (.obj c1), some (.obj rc) => mergeOK deep c1 rc c2 && frameOK c1 c2 rc
      | true, some (.obj _), _ => false
      | _, _, res => res == some (.obj c2)
    | v => res == some v
end

def specMerge (deep : Bool) (a b r : VMap) : Bool := mergeOK deep a r b && frameOK a b r

end C28
