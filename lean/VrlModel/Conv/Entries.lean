/-
  VrlModel.Conv.Entries — `to_entries` (src/stdlib/to_entries.rs) and `from_entries`
  (src/stdlib/from_entries.rs).
-/
import VrlModel.Conv.Basic

namespace Conv

def kKey : Key := [107, 101, 121]            -- "key"
def kKeyU : Key := [75, 101, 121]            -- "Key"
def kName : Key := [110, 97, 109, 101]       -- "name"
def kNameU : Key := [78, 97, 109, 101]       -- "Name"
def kValue : Key := [118, 97, 108, 117, 101] -- "value"
def kValueU : Key := [86, 97, 108, 117, 101] -- "Value"

/-- `build_entry`: `{"key": key, "value": value}` (a `BTreeMap`: "key" < "value"). -/
def buildEntry (k v : Value) : Value := .obj (.cons kKey k (.cons kValue v .nil))

def entriesOfMap : VMap → VList
  | .nil => .nil
  | .cons k v m => .cons (buildEntry (.bytes k) v) (entriesOfMap m)

def entriesOfList : Nat → VList → VList
  | _, .nil => .nil
  | i, .cons v vs => .cons (buildEntry (.int i) v) (entriesOfList (i + 1) vs)

/-- `to_entries`. (`i64::try_from(index)` cannot fail for a `Vec` that fits in memory.) -/
def toEntries : Value → Res Value
  | .obj m => .ok (.arr (entriesOfMap m))
  | .arr a => .ok (.arr (entriesOfList 0 a))
  | _ => .err

def keyUsable : Value → Bool
  | .null => false
  | .bool false => false
  | _ => true

/-- `select_key`: first of `key`, `Key`, `name`, `Name` that is present and neither `null` nor
    `false`; `null` otherwise. -/
def selectKey (e : VMap) : Value :=
  match ([kKey, kKeyU, kName, kNameU].filterMap e.get).find? keyUsable with
  | some k => k
  | none => .null

/-- `entry.remove("value").or_else(|| entry.remove("Value")).unwrap_or(Null)` -/
def selectValue (e : VMap) : Value :=
  match e.get kValue with
  | some v => v
  | none =>
    match e.get kValueU with
    | some v => v
    | none => .null

/-- the `for entry in array` loop of `from_entries`; stops at the first bad entry. -/
def fromEntriesLoop : VList → VMap → Res Value
  | .nil, acc => .ok (.obj acc)
  | .cons (.obj e) rest, acc =>
    match selectKey e with
    | .bytes k => fromEntriesLoop rest (acc.insert (Utf8.lossy k) (selectValue e))
    | _ => .err
  | .cons _ _, _ => .err

/-- `from_entries` -/
def fromEntries : Value → Res Value
  | .arr a => fromEntriesLoop a .nil
  | _ => .err

end Conv
