/-
  VrlModel.Conv.Time — `to_unix_timestamp`, `from_unix_timestamp` (src/stdlib/*.rs over chrono's
  `DateTime<Utc>` range) and the vrl-owned glue of `format_timestamp` / `parse_timestamp`
  (src/stdlib/{format,parse}_timestamp.rs, src/compiler/conversion/mod.rs `Conversion::timestamp`,
  `datetime_to_utc`), with chrono's formatter/parser and chrono-tz's zone table as a parameter.
  A timestamp is `Value.ts ns`, nanoseconds since the epoch (leap-second representations, i.e.
  sub-second parts ≥ 10⁹, are not distinguished from the following second).
-/
import VrlModel.Conv.Basic

namespace Conv.Time
open Conv

inductive TUnit where
  | seconds | milliseconds | microseconds | nanoseconds
  deriving DecidableEq, Repr

/-- nanoseconds per unit -/
def TUnit.ns : TUnit → Int
  | .seconds => 1000000000
  | .milliseconds => 1000000
  | .microseconds => 1000
  | .nanoseconds => 1

/-- chrono: `DateTime::<Utc>::MIN_UTC` = -262143-01-01T00:00:00Z -/
def minSecs : Int := -8334601228800
/-- chrono: `DateTime::<Utc>::MAX_UTC` = +262142-12-31T23:59:59.999999999Z -/
def maxSecs : Int := 8210266876799
def tsMin : Int := minSecs * 1000000000
def tsMax : Int := maxSecs * 1000000000 + 999999999

/-- the instants a `DateTime<Utc>` can hold -/
def tsInRange (t : Int) : Bool := decide (tsMin ≤ t) && decide (t ≤ tsMax)

/-- `to_unix_timestamp(value, unit)`: `timestamp()`, `timestamp_millis()`, `timestamp_micros()`
    are floor divisions (they cannot overflow inside the `DateTime` range);
    `timestamp_nanos_opt()` is `None` outside the `i64` range. -/
def toUnix (u : TUnit) : Value → Res Value
  | .ts t =>
    match u with
    | .nanoseconds => if inI64 t then .ok (.int t) else .err
    | u => .ok (.int (t / u.ns))
  | _ => .err

/-- `from_unix_timestamp(value, unit)`: `Utc.timestamp_opt(v, 0)`, `timestamp_millis_opt(v)`,
    `timestamp_micros(v)` give `None` outside the `DateTime` range; `timestamp_nanos(v)` is total. -/
def fromUnix (u : TUnit) : Value → Res Value
  | .int n =>
    match u with
    | .nanoseconds => .ok (.ts n)
    | u => if tsInRange (n * u.ns) then .ok (.ts (n * u.ns)) else .err
  | _ => .err

/-! ### format_timestamp / parse_timestamp -/

inductive Zone where
  | utc
  | local
  | named (id : Nat)
  deriving DecidableEq, Repr

/-- What chrono / chrono-tz contribute (a parameter; the laws used by the theorems are explicit
    hypotheses about an instance, see `FullPrecision`). Texts and formats are byte strings. -/
structure Chrono where
  /-- `StrftimeItems::new(fmt)` yields no `Item::Error` -/
  validFormat : List Nat → Bool
  /-- `str::parse::<chrono_tz::Tz>()` -/
  tzByName : List Nat → Option Nat
  /-- `dt.with_timezone(zone).format_with_items(items)` written out; `none` = the `Display`
      implementation reports an error (items that exist only for parsing, e.g. `%#z`) -/
  format : Zone → Int → List Nat → Option (List Nat)
  /-- `DateTime::parse_from_str(s, fmt)`: seconds since the epoch and sub-second nanoseconds
      (`timestamp()`, `timestamp_subsec_nanos()`; the latter is ≥ 10⁹ for a leap second) -/
  parseFixed : List Nat → List Nat → Option (Int × Nat)
  /-- `tz.datetime_from_str(s, fmt)` for the zone given or configured -/
  parseIn : Zone → List Nat → List Nat → Option (Int × Nat)

/-- `TimeZone::parse`: `""` and `"local"` are the local zone, else a chrono-tz name. -/
def parseZone (c : Chrono) (name : List Nat) : Option Zone :=
  if name = [] ∨ name = [108, 111, 99, 97, 108] then some .local
  else (c.tzByName name).map .named

/-- `format_has_zone`: `%Z`, `%z`, `%:z`, `%#z` or `%+` occurs in the format. -/
def formatHasZone (fmt : List Nat) : Bool :=
  containsSub [37, 90] fmt || containsSub [37, 122] fmt || containsSub [37, 58, 122] fmt ||
  containsSub [37, 35, 122] fmt || containsSub [37, 43] fmt

/-- `try_bytes` + `String::from_utf8_lossy` of an optional timezone argument:
    `none` = type error. -/
def tzArg : Option Value → Option (Option (List Nat))
  | none => some none
  | some (.bytes b) => some (some (Utf8.lossy b))
  | some _ => none

/-- `DelayedFormat::to_string()`: panics when `Display` returned an error. -/
def toStringOrPanic : Option (List Nat) → Res Value
  | some t => .ok (.bytes t)
  | none => .panic

/-- `format_timestamp(value, format, timezone?)` -/
def formatTimestamp (c : Chrono) (v fmt : Value) (tz : Option Value) : Res Value :=
  match v with
  | .ts t =>
    match bytesLossy fmt with
    | none => .err
    | some f =>
      match tzArg tz with
      | none => .err
      | some tzName =>
        if !c.validFormat f then .err
        else
          match tzName with
          | none => toStringOrPanic (c.format .utc t f)
          | some name =>
            match parseZone c name with
            | none => .err
            | some z => toStringOrPanic (c.format z t f)
  | _ => .err

/-- `datetime_to_utc`: `ts.with_timezone(&Utc)` (since /repo 83f4a4b) — the same instant, chrono's
    leap-second representation included; it cannot fail. (It used to rebuild the instant with
    `Utc.timestamp_opt(secs, nanos).single().expect("invalid timestamp")` and panicked when the
    sub-second part was a leap-second representation not on second 59 of a UTC minute, possible
    after a zone offset that is not a whole number of minutes.) The value is observed as a
    nanosecond count, in which `(s, 10⁹ + f)` is the following second's `(s + 1, f)`. -/
def datetimeToUtc (p : Int × Nat) : Res Value := .ok (.ts (p.1 * 1000000000 + p.2))

/-- `parse_timestamp(value, format, timezone?)` with the configured zone `ctxZone`. -/
def parseTimestamp (c : Chrono) (ctxZone : Zone) (v fmt : Value) (tz : Option Value) : Res Value :=
  match v with
  | .bytes s =>
    match bytesLossy fmt with
    | none => .err
    | some f =>
      match tzArg tz with
      | none => .err
      | some tzName =>
        let zone : Option Zone :=
          match tzName with
          | none => some ctxZone
          | some name => parseZone c name
        match zone with
        | none => .err
        | some z =>
          let text := Utf8.lossy s
          let parsed := if formatHasZone f then c.parseFixed text f else c.parseIn z text f
          match parsed with
          | none => .err
          | some p => datetimeToUtc p
  | .ts t => .ok (.ts t)
  | _ => .err

end Conv.Time
