/-
  VrlModel.Conv.Basic — shared pieces of the C25/C29 conversion models:
  result type of a stdlib call, i64 range, `String::from_utf8_lossy`, ASCII helpers.
-/
import VrlModel.Value

namespace Conv

/-- Result of a stdlib call: a value, an `ExpressionError` (all messages collapsed), or a panic. -/
inductive Res (α : Type) where
  | ok (a : α)
  | err
  | panic
  deriving DecidableEq, Repr

def Res.map {α β : Type} (f : α → β) : Res α → Res β
  | .ok a => .ok (f a)
  | .err => .err
  | .panic => .panic

def Res.bind {α β : Type} (r : Res α) (f : α → Res β) : Res β :=
  match r with
  | .ok a => f a
  | .err => .err
  | .panic => .panic

def i64Min : Int := -9223372036854775808
def i64Max : Int := 9223372036854775807
def inI64 (n : Int) : Bool := decide (i64Min ≤ n) && decide (n ≤ i64Max)

/-- bytes of an ASCII string literal (only used for constants such as "key", "value"). -/
def ascii (s : String) : List Nat := s.toList.map Char.toNat

namespace Utf8

def isCont (b : Nat) : Bool := decide (128 ≤ b) && decide (b ≤ 191)

/-- U+FFFD in UTF-8 -/
def repl : List Nat := [239, 191, 189]

/-- second byte admissible after the lead byte of a 3-byte sequence (`Utf8Chunks::next`). -/
def ok3 (b c : Nat) : Bool :=
  (b == 224 && decide (160 ≤ c) && decide (c ≤ 191)) ||
  (decide (225 ≤ b) && decide (b ≤ 236) && isCont c) ||
  (b == 237 && decide (128 ≤ c) && decide (c ≤ 159)) ||
  (decide (238 ≤ b) && decide (b ≤ 239) && isCont c)

/-- second byte admissible after the lead byte of a 4-byte sequence. -/
def ok4 (b c : Nat) : Bool :=
  (b == 240 && decide (144 ≤ c) && decide (c ≤ 191)) ||
  (decide (241 ≤ b) && decide (b ≤ 243) && isCont c) ||
  (b == 244 && decide (128 ≤ c) && decide (c ≤ 143))

/-- `String::from_utf8_lossy` as bytes: every maximal invalid part (as delimited by
    `core::str::Utf8Chunks`) is replaced by one U+FFFD. The first argument bounds the number of
    steps (every step consumes at least one byte; `lossy` passes the length). -/
def lossyF : Nat → List Nat → List Nat
  | 0, _ => []
  | _, [] => []
  | fuel + 1, b :: t =>
    if b < 128 then b :: lossyF fuel t
    else if 194 ≤ b ∧ b ≤ 223 then
      match t with
      | c :: r => if isCont c then b :: c :: lossyF fuel r else repl ++ lossyF fuel t
      | [] => repl
    else if 224 ≤ b ∧ b ≤ 239 then
      match t with
      | c :: r =>
        if ok3 b c then
          match r with
          | d :: r' => if isCont d then b :: c :: d :: lossyF fuel r' else repl ++ lossyF fuel r
          | [] => repl
        else repl ++ lossyF fuel t
      | [] => repl
    else if 240 ≤ b ∧ b ≤ 244 then
      match t with
      | c :: r =>
        if ok4 b c then
          match r with
          | d :: r' =>
            if isCont d then
              match r' with
              | e :: r'' => if isCont e then b :: c :: d :: e :: lossyF fuel r'' else repl ++ lossyF fuel r'
              | [] => repl
            else repl ++ lossyF fuel r
          | [] => repl
        else repl ++ lossyF fuel t
      | [] => repl
    else repl ++ lossyF fuel t

def lossy (l : List Nat) : List Nat := lossyF l.length l

/-- the byte string is valid UTF-8: `from_utf8_lossy` leaves it unchanged
    (always true of a `KeyString`/`String`). -/
def fixed (k : List Nat) : Bool := lossy k == k

/-- the characters of a valid UTF-8 string (a lead byte with its continuation bytes). -/
def chars : List Nat → List (List Nat)
  | [] => []
  | b :: t =>
    match chars t with
    | [] => [[b]]
    | c :: cs =>
      match t with
      | n :: _ => if isCont n then (b :: c) :: cs else [b] :: c :: cs
      | [] => [[b]]

end Utf8

/-- `Value::try_bytes_utf8_lossy` -/
def bytesLossy : Value → Option (List Nat)
  | .bytes b => some (Utf8.lossy b)
  | _ => none

def isPrefix : List Nat → List Nat → Bool
  | [], _ => true
  | _ :: _, [] => false
  | a :: as, b :: bs => a == b && isPrefix as bs

/-- `str::contains(pat)` on bytes -/
def containsSub (pat : List Nat) : List Nat → Bool
  | [] => pat.isEmpty
  | c :: cs => isPrefix pat (c :: cs) || containsSub pat cs

end Conv
