/-
  VrlModel.Conv.Ip — `ip_aton`, `ip_ntoa`, `ip_pton`, `ip_ntop`, `ip_to_ipv6`, `ipv6_to_ipv4`
  (src/stdlib/*.rs) over a model of `core::net`'s text forms:
  * IPv4 `Display` and parser (`read_ipv4_addr`, `read_number`) are modelled exactly;
  * IPv6 text (`Display for Ipv6Addr`, `read_ipv6_addr`) is a *parameter* `V6Text` of the
    functions; the theorems assume its round-trip law. `V6Text.std` is an executable transcription
    of the std code, used by the driver so that the correspondence run samples it.
  Addresses: IPv4 = 4 octets, IPv6 = 8 segments (`List Nat`).
-/
import VrlModel.Conv.Int

namespace Conv.Ip

/-- decimal text of an octet (`{}` of a `u8`) -/
def showOctet (n : Nat) : List Nat :=
  if n < 10 then [48 + n]
  else if n < 100 then [48 + n / 10, 48 + n % 10]
  else [48 + n / 100, 48 + n / 10 % 10, 48 + n % 10]

/-- `Display for Ipv4Addr` -/
def showV4 : List Nat → List Nat
  | [a, b, c, d] => showOctet a ++ 46 :: showOctet b ++ 46 :: showOctet c ++ 46 :: showOctet d
  | _ => []

/-- the digits (values) at the front of the input that are valid in `radix`, and the rest. -/
def takeDigits (radix : Nat) : List Nat → List Nat × List Nat
  | [] => ([], [])
  | c :: cs =>
    match digitVal c with
    | some d =>
      if d < radix then
        let r := takeDigits radix cs
        (d :: r.1, r.2)
      else ([], c :: cs)
    | none => ([], c :: cs)

def digitsNat (radix : Nat) (ds : List Nat) : Nat := ds.foldl (fun acc d => acc * radix + d) 0

/-- `Parser::read_number(radix, Some(maxDigits), allow_zero_prefix)` into a type with maximum
    `maxVal`: all digits available are consumed; more than `maxDigits` digits, no digit, a zero
    prefix (when not allowed) or a value that does not fit fail. -/
def readNumber (radix maxDigits : Nat) (allowZero : Bool) (maxVal : Nat) (s : List Nat) :
    Option (Nat × List Nat) :=
  let r := takeDigits radix s
  let n := r.1.length
  if n = 0 then none
  else if n > maxDigits then none
  else if !allowZero && s.head? == some 48 && decide (n > 1) then none
  else if digitsNat radix r.1 ≤ maxVal then some (digitsNat radix r.1, r.2) else none

def readOctet (s : List Nat) : Option (Nat × List Nat) := readNumber 10 3 false 255 s

def expect (c : Nat) : List Nat → Option (List Nat)
  | d :: s => if d = c then some s else none
  | [] => none

/-- `read_ipv4_addr`: four octets separated by `.`; returns the unread rest. -/
def readV4 (s : List Nat) : Option (List Nat × List Nat) := do
  let (a, s) ← readOctet s
  let s ← expect 46 s
  let (b, s) ← readOctet s
  let s ← expect 46 s
  let (c, s) ← readOctet s
  let s ← expect 46 s
  let (d, s) ← readOctet s
  pure ([a, b, c, d], s)

/-- `Ipv4Addr::from_str`: at most 15 bytes, everything consumed. -/
def parseV4 (s : List Nat) : Option (List Nat) :=
  if s.length > 15 then none
  else
    match readV4 s with
    | some (a, []) => some a
    | _ => none

/-- the separator of `read_separator(':', index, …)` -/
def sepThen (i : Nat) (s : List Nat) : Option (List Nat) :=
  if i > 0 then expect 58 s else some s

/-- `read_groups` with `n` slots left, the next slot having index `i`: groups read, whether an
    embedded IPv4 address ended the list, unread rest. -/
def readGroups : Nat → Nat → List Nat → List Nat × Bool × List Nat
  | 0, _, s => ([], false, s)
  | n + 1, i, s =>
    let v4 := if n ≥ 1 then (sepThen i s).bind readV4 else none
    match v4 with
    | some ([a, b, c, d], rest) => ([a * 256 + b, c * 256 + d], true, rest)
    | _ =>
      match (sepThen i s).bind (readNumber 16 4 true 65535) with
      | some (g, rest) =>
        let r := readGroups n (i + 1) rest
        (g :: r.1, r.2.1, r.2.2)
      | none => ([], false, s)

/-- `read_ipv6_addr` -/
def readV6 (s : List Nat) : Option (List Nat × List Nat) :=
  let h := readGroups 8 0 s
  if h.1.length = 8 then some (h.1, h.2.2)
  else if h.2.1 then none
  else
    match h.2.2 with
    | 58 :: 58 :: s2 =>
      let t := readGroups (8 - (h.1.length + 1)) 0 s2
      some (h.1 ++ List.replicate (8 - h.1.length - t.1.length) 0 ++ t.1, t.2.2)
    | _ => none

def hexDigits (n : Nat) : List Nat :=
  if n < 16 then [digitChar n]
  else if n < 256 then [digitChar (n / 16), digitChar (n % 16)]
  else if n < 4096 then [digitChar (n / 256), digitChar (n / 16 % 16), digitChar (n % 16)]
  else [digitChar (n / 4096 % 16), digitChar (n / 256 % 16), digitChar (n / 16 % 16), digitChar (n % 16)]

/-- `fmt_subslice`: segments in lower-case hex joined by `:` -/
def showSegs : List Nat → List Nat
  | [] => []
  | [g] => hexDigits g
  | g :: gs => hexDigits g ++ 58 :: showSegs gs

/-- longest run of zero segments (first one among equals): (start, len). -/
def longestZeros : List Nat → Nat → (Nat × Nat) → (Nat × Nat) → Nat × Nat
  | [], _, _, longest => longest
  | g :: gs, i, cur, longest =>
    if g = 0 then
      let cur' := (if cur.2 = 0 then i else cur.1, cur.2 + 1)
      longestZeros gs (i + 1) cur' (if cur'.2 > longest.2 then cur' else longest)
    else longestZeros gs (i + 1) (0, 0) longest

/-- `Display for Ipv6Addr` -/
def showV6 (g : List Nat) : List Nat :=
  match g with
  | [0, 0, 0, 0, 0, 65535, ab, cd] =>
    [58, 58, 102, 102, 102, 102, 58] ++ showV4 [ab / 256, ab % 256, cd / 256, cd % 256]
  | _ =>
    let z := longestZeros g 0 (0, 0) (0, 0)
    if z.2 > 1 then showSegs (g.take z.1) ++ [58, 58] ++ showSegs (g.drop (z.1 + z.2))
    else showSegs g

/-- The text form of IPv6 addresses (std's `Display` and parser): a parameter of the model. -/
structure V6Text where
  show6 : List Nat → List Nat
  /-- `read_ipv6_addr` followed by the end-of-input check of `parse_with` -/
  parse6 : List Nat → Option (List Nat)

/-- transcription of std (used by the driver; the theorems do not depend on it) -/
def V6Text.std : V6Text where
  show6 := showV6
  parse6 := fun s =>
    match readV6 s with
    | some (g, []) => some g
    | _ => none

inductive Addr where
  | v4 (o : List Nat)
  | v6 (g : List Nat)
  deriving DecidableEq, Repr

/-- `IpAddr::from_str`: `read_ipv4_addr` first, `read_ipv6_addr` only if that failed; then
    the whole input must have been consumed. -/
def parseIp (c : V6Text) (s : List Nat) : Option Addr :=
  match readV4 s with
  | some (a, rest) => if rest.isEmpty then some (.v4 a) else none
  | none => (c.parse6 s).map .v6

def segsOfBytes : List Nat → List Nat
  | a :: b :: rest => (a * 256 + b) :: segsOfBytes rest
  | _ => []

def bytesOfSegs : List Nat → List Nat
  | [] => []
  | g :: gs => g / 256 :: g % 256 :: bytesOfSegs gs

/-- `Ipv4Addr::to_ipv6_mapped` -/
def mapped : List Nat → List Nat
  | [a, b, c, d] => [0, 0, 0, 0, 0, 65535, a * 256 + b, c * 256 + d]
  | _ => []

/-- `Ipv6Addr::to_ipv4`: `::a.b.c.d` and `::ffff:a.b.c.d` -/
def toIpv4 : List Nat → Option (List Nat)
  | [0, 0, 0, 0, 0, x, ab, cd] =>
    if x = 0 ∨ x = 65535 then some [ab / 256, ab % 256, cd / 256, cd % 256] else none
  | _ => none

def u32OfOctets : List Nat → Nat
  | [a, b, c, d] => ((a * 256 + b) * 256 + c) * 256 + d
  | _ => 0

def octetsOfU32 (n : Nat) : List Nat := [n / 16777216 % 256, n / 65536 % 256, n / 256 % 256, n % 256]

open Conv

/-- `ip_aton` -/
def ipAton (v : Value) : Res Value :=
  match bytesLossy v with
  | some s =>
    match parseV4 s with
    | some a => .ok (.int (u32OfOctets a))
    | none => .err
  | none => .err

/-- `ip_ntoa` -/
def ipNtoa : Value → Res Value
  | .int n => if 0 ≤ n ∧ n ≤ 4294967295 then .ok (.bytes (showV4 (octetsOfU32 n.toNat))) else .err
  | _ => .err

/-- `ip_pton` -/
def ipPton (c : V6Text) (v : Value) : Res Value :=
  match bytesLossy v with
  | some s =>
    match parseIp c s with
    | some (.v4 a) => .ok (.bytes a)
    | some (.v6 g) => .ok (.bytes (bytesOfSegs g))
    | none => .err
  | none => .err

/-- `ip_ntop` (no lossy conversion: the bytes are the address) -/
def ipNtop (c : V6Text) : Value → Res Value
  | .bytes b =>
    if b.length = 4 then .ok (.bytes (showV4 b))
    else if b.length = 16 then .ok (.bytes (c.show6 (segsOfBytes b)))
    else .err
  | _ => .err

/-- `ip_to_ipv6` -/
def ipToIpv6 (c : V6Text) (v : Value) : Res Value :=
  match bytesLossy v with
  | some s =>
    match parseIp c s with
    | some (.v4 a) => .ok (.bytes (c.show6 (mapped a)))
    | some (.v6 g) => .ok (.bytes (c.show6 g))
    | none => .err
  | none => .err

/-- `ipv6_to_ipv4` -/
def ipv6ToIpv4 (c : V6Text) (v : Value) : Res Value :=
  match bytesLossy v with
  | some s =>
    match parseIp c s with
    | some (.v4 a) => .ok (.bytes (showV4 a))
    | some (.v6 g) =>
      match toIpv4 g with
      | some a => .ok (.bytes (showV4 a))
      | none => .err
    | none => .err
  | none => .err

end Conv.Ip
