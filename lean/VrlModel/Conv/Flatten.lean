/-
  VrlModel.Conv.Flatten — `flatten` (src/stdlib/flatten.rs: `MapFlatten`, `ArrayFlatten`) and
  `unflatten` (src/stdlib/unflatten.rs: `do_unflatten`, `do_unflatten_entries`,
  `do_unflatten_entry`). Keys and separators are byte strings (`str::split_once`/`split` find
  the same positions on bytes as on chars, UTF-8 being self-synchronising).
-/
import VrlModel.Conv.Basic

namespace Conv.Flat
open Conv

abbrev Entries := List (Key × Value)

def toList : VMap → Entries
  | .nil => []
  | .cons k v m => (k, v) :: toList m

/-- `collect::<BTreeMap<_, _>>()`: later entries replace earlier ones with the same key. -/
def ofList (es : Entries) : VMap := es.foldl (fun acc e => acc.insert e.1 e.2) .nil

/-- `MapFlatten::new_key` -/
def newKey (sep : Key) (parent : Option Key) (k : Key) : Key :=
  match parent with
  | none => k
  | some p => p ++ sep ++ k

mutual
  /-- what `MapFlatten` yields for the object `m` below `parent`: nested objects are entered
      (unless their key is listed in `except`), everything else — arrays included — is a leaf;
      an empty nested object yields nothing. -/
  def flattenMap (sep : Key) (except : List Key) (parent : Option Key) : VMap → Entries
    | .nil => []
    | .cons k v rest =>
      flattenField sep except (newKey sep parent k) (except.contains k) v
        ++ flattenMap sep except parent rest
  def flattenField (sep : Key) (except : List Key) (key : Key) (keep : Bool) : Value → Entries
    | .obj m => if keep then [(key, .obj m)] else flattenMap sep except (some key) m
    | v => [(key, v)]
end

/-- what `ArrayFlatten` yields: nested arrays are spliced in, depth first. -/
def flattenList : VList → VList
  | .nil => .nil
  | .cons (.arr a) rest => (flattenList a).append (flattenList rest)
  | .cons v rest => .cons v (flattenList rest)

/-- `flatten(value, separator, except)`; `separator` absent = `"."`, `except` absent = `[]`. -/
def flatten (v sep : Value) (except : List Key) : Res Value :=
  match bytesLossy sep with
  | none => .err
  | some s =>
    match v with
    | .arr a => .ok (.arr (flattenList a))
    | .obj m => .ok (.obj (ofList (flattenMap s except none m)))
    | _ => .err

/-- `key.split_once(sep)`: around the first occurrence of `sep`. An empty `sep` matches at 0. -/
def splitOnce (sep : Key) : Key → Option (Key × Key)
  | [] => if sep.isEmpty then some ([], []) else none
  | c :: cs =>
    if isPrefix sep (c :: cs) then some ([], (c :: cs).drop sep.length)
    else (splitOnce sep cs).map fun p => (c :: p.1, p.2)

/-- `key.split(sep)` for a non-empty `sep` (`fuel` > length of the key). -/
def splitAllF (sep : Key) : Nat → Key → List Key
  | 0, key => [key]
  | fuel + 1, key =>
    match splitOnce sep key with
    | none => [key]
    | some (h, r) => h :: splitAllF sep fuel r

/-- `key.split(sep)`; for the empty separator std yields `""`, every char, `""`. -/
def splitAll (sep key : Key) : List Key :=
  if sep.isEmpty then [] :: Utf8.chars key ++ [[]] else splitAllF sep (key.length + 1) key

/-- the loop of `do_unflatten_entry`: `{k₁: {k₂: … v}}` -/
def nestSingle : List Key → Value → Value
  | [], v => v
  | k :: ks, v => .obj (.cons k (nestSingle ks v) .nil)

/-- head and optional rest of a flattened key -/
def headRest (sep key : Key) : Key × Option Key :=
  match splitOnce sep key with
  | some (h, r) => (h, some r)
  | none => (key, none)

/-- the distinct elements of a list (last occurrences kept; the order does not matter for the
    result, a `HashMap` iterated into a `BTreeMap`). -/
def dedup : List Key → List Key
  | [] => []
  | a :: l => if l.contains a then dedup l else a :: dedup l

abbrev Triple := Key × Option Key × Value

/-- `do_unflatten(value)` given the recursion `recur` into `do_unflatten_entries`: only objects
    are unflattened (not arrays, nor objects inside arrays), and only when `recursive`. -/
def leafWith (recur : Entries → Option VMap) (recursive : Bool) (v : Value) : Option Value :=
  if recursive then
    match v with
    | .obj m => (recur (toList m)).map .obj
    | v => some v
  else some v

/-- the value built for one group of entries sharing a head: a single entry without rest is a
    top-level value; a single entry with a rest is `do_unflatten_entry` (split the rest at every
    separator, nest); otherwise the entries that have a rest are unflattened again (an entry
    without rest is dropped: "a": 3 next to "a.b": 2). -/
def groupValueWith (recur : Entries → Option VMap) (sep : Key) (recursive : Bool) :
    List Triple → Option Value
  | [(_, none, v)] => leafWith recur recursive v
  | [(_, some rest, v)] => (leafWith recur recursive v).map (nestSingle (splitAll sep rest))
  | grp => (recur (grp.filterMap fun t => t.2.1.map fun r => (r, t.2.2))).map .obj

def triplesOf (sep : Key) (es : Entries) : List Triple :=
  es.map fun e => ((headRest sep e.1).1, (headRest sep e.1).2, e.2)

/-- one level of `do_unflatten_entries`: group by head (`into_group_map_by`), build each group's
    value, collect into a `BTreeMap`. -/
def unflattenStep (recur : Entries → Option VMap) (sep : Key) (recursive : Bool) (es : Entries) :
    Option VMap :=
  let triples := triplesOf sep es
  ((dedup (triples.map (·.1))).mapM fun h =>
    (groupValueWith recur sep recursive (triples.filter fun t => t.1 == h)).map fun v => (h, v)).map ofList

/-- `do_unflatten_entries` (with `do_unflatten`, `do_unflatten_entry` inlined).
    `fuel` bounds the recursion depth; `none` = depth exhausted, which on the real code is the
    stack overflow of `separator: ""` with two or more entries (DESIGN §8 #48). -/
def unflattenEntries : Nat → Key → Bool → Entries → Option VMap
  | 0, _, _, _ => none
  | fuel + 1, sep, recursive, es =>
    unflattenStep (fun es' => unflattenEntries fuel sep recursive es') sep recursive es

mutual
  /-- size of a value: number of nodes plus bytes of all object keys -/
  def weight : Value → Nat
    | .arr a => weightL a + 1
    | .obj m => weightM m + 1
    | _ => 1
  def weightL : VList → Nat
    | .nil => 0
    | .cons v vs => weight v + weightL vs
  def weightM : VMap → Nat
    | .nil => 0
    | .cons k v m => k.length + 1 + weight v + weightM m
end

/-- `unflatten(value, separator, recursive)`; absent arguments are `"."` and `true`.
    `.panic` stands for the stack overflow (process abort) of the empty separator. -/
def unflatten (v sep recursive : Value) : Res Value :=
  match bytesLossy sep with
  | none => .err
  | some s =>
    if s = [] then .err else              -- "separator must not be empty" (was: stack overflow)
    match recursive with
    | .bool r =>
      match v with
      | .obj m =>
        match unflattenEntries (weight (.obj m) + 1) s r (toList m) with
        | some m' => .ok (.obj m')
        | none => .panic
      | _ => .err
    | _ => .err

end Conv.Flat
