/-
  VrlModel.Conv.Num — integer/conversion part of C29: `abs` (src/stdlib/abs.rs), `mod`
  (src/stdlib/mod_func.rs → `Value::try_rem`, src/compiler/value/arithmetic.rs), `to_int`
  (src/stdlib/to_int.rs, `Conversion::Integer`), `to_string` (src/stdlib/to_string.rs).
  Float arithmetic (`%` on floats) and float/timestamp printing are not part of this model:
  the functions return `none` ("outside this model") there.
-/
import VrlModel.Conv.Int

namespace Conv.Num
open Conv

/-- `abs(value)`: `i64::wrapping_abs` (the magnitude; `i64::MIN` wraps to itself);
    `f64::abs` clears the sign bit (`from_f64_or_zero` never sees a NaN here). -/
def abs : Value → Res Value
  | .int i => if i = i64Min then .ok (.int i64Min) else .ok (.int (if i < 0 then -i else i))
  | .float bits => .ok (.float (bits % 9223372036854775808))
  | _ => .err

def isNumber : Value → Bool
  | .int _ => true
  | .float _ => true
  | _ => false

/-- `0.0` or `-0.0` -/
def floatIsZero (bits : Nat) : Bool := bits % 9223372036854775808 == 0

/-- `mod(value, modulus)` = `Value::try_rem`. A zero modulus is an error whatever `value` is;
    integers use `i64::wrapping_rem` (truncated remainder; `i64::MIN % -1 = 0`);
    `none` = a float is involved (IEEE remainder, modelled in the float part of C29). -/
def mod (value modulus : Value) : Option (Res Value) :=
  match modulus with
  | .int 0 => some .err
  | .float b =>
    if floatIsZero b then some .err
    else if isNumber value then none else some .err
  | .int b =>
    match value with
    | .int a => some (.ok (.int (Int.tmod a b)))
    | .float _ => none
    | _ => some .err
  | _ => some .err

/-- `f as i64`: truncation toward zero, saturating at the `i64` range (no NaN in a `NotNan`). -/
def f64ToI64 (bits : Nat) : Int :=
  let neg := bits / 9223372036854775808 % 2 == 1
  let e := bits / 4503599627370496 % 2048
  let m := bits % 4503599627370496
  let mag : Nat :=
    if e = 0 then 0
    else if e = 2047 then 2 ^ 64
    else if e ≥ 1075 then (4503599627370496 + m) * 2 ^ (e - 1075)
    else (4503599627370496 + m) / 2 ^ (1075 - e)
  if neg then (if (mag : Int) ≥ 9223372036854775808 then i64Min else -(mag : Int))
  else (if (mag : Int) > i64Max then i64Max else (mag : Int))

/-- `to_int(value)` -/
def toInt : Value → Res Value
  | .int i => .ok (.int i)
  | .float bits => .ok (.int (f64ToI64 bits))
  | .bool b => .ok (.int (if b then 1 else 0))
  | .null => .ok (.int 0)
  | .bytes s => (optToRes (fromStrRadix (Utf8.lossy s) 10)).map .int
  | .ts t => .ok (.int (t / 1000000000))
  | _ => .err

/-- `i64::to_string()`: decimal, `-` for negatives (no overflow at `i64::MIN`). -/
def intText (n : Int) : List Nat :=
  if n < 0 then 45 :: magText 10 (-n).toNat else magText 10 n.toNat

/-- `to_string(value)`; `none` = float or timestamp text (std / chrono printing, not modelled). -/
def toString : Value → Option (Res Value)
  | .bytes b => some (.ok (.bytes b))
  | .int i => some (.ok (.bytes (intText i)))
  | .bool true => some (.ok (.bytes [116, 114, 117, 101]))
  | .bool false => some (.ok (.bytes [102, 97, 108, 115, 101]))
  | .null => some (.ok (.bytes []))
  | .float _ => none
  | .ts _ => none
  | _ => some .err

end Conv.Num
