/-
  VrlModel.Conv.Int — `format_int` (src/stdlib/format_int.rs, incl. `format_radix`) and
  `parse_int` (src/stdlib/parse_int.rs, incl. std's `i64::from_str_radix`).
  Strings are byte lists (the functions only look at ASCII).
-/
import VrlModel.Conv.Basic

namespace Conv

/-- `std::char::from_digit(m, radix)` for `m < radix ≤ 36`: lower-case digits. -/
def digitChar (d : Nat) : Nat := if d < 10 then 48 + d else 87 + d

/-- `char::to_digit(36)`: value of an ASCII alphanumeric, upper or lower case. -/
def digitVal (c : Nat) : Option Nat :=
  if 48 ≤ c ∧ c ≤ 57 then some (c - 48)
  else if 97 ≤ c ∧ c ≤ 122 then some (c - 87)
  else if 65 ≤ c ∧ c ≤ 90 then some (c - 55)
  else none

/-- digits of `x` in base `b`, least significant first: the `loop` of `format_radix`
    (runs at least once, stops when the quotient is 0). `fuel` bounds the iterations. -/
def digitsRev (b : Nat) : Nat → Nat → List Nat
  | 0, _ => []
  | fuel + 1, x => (x % b) :: (if x / b = 0 then [] else digitsRev b fuel (x / b))

/-- text of the magnitude `x` (`push_front` of each digit). 64 iterations suffice for a `u64`. -/
def magText (b x : Nat) : List Nat := ((digitsRev b 64 x).map digitChar).reverse

/-- `format_radix(x, radix)`: sign, then the digits of `x.unsigned_abs()` (defined for every `i64`). -/
def formatRadix (n : Int) (b : Nat) : Res (List Nat) :=
  if n < 0 then .ok (45 :: magText b (-n).toNat)
  else .ok (magText b n.toNat)

/-- `format_int(value, base)`; an absent `base` argument is `10` (`formatInt v (.int 10)`). -/
def formatInt (v base : Value) : Res Value :=
  match v with
  | .int n =>
    match base with
    | .int b =>
      if 2 ≤ b ∧ b ≤ 36 then (formatRadix n b.toNat).map .bytes else .err
    | _ => .err
  | _ => .err

/-- value of a digit string in `radix` (most significant first), `none` on an invalid digit. -/
def digitsValue (radix : Nat) : List Nat → Nat → Option Nat
  | [], acc => some acc
  | c :: cs, acc =>
    match digitVal c with
    | some d => if d < radix then digitsValue radix cs (acc * radix + d) else none
    | none => none

/-- `i64::from_str_radix(s, radix)`: optional sign, at least one digit, range check
    (std checks `checked_mul`/`checked_add|sub` per digit; partial values are monotone, so this is
    the same as checking the final value). -/
def fromStrRadix (s : List Nat) (radix : Nat) : Option Int :=
  let pos : List Nat → Option Int := fun ds =>
    (digitsValue radix ds 0).bind fun m => if (m : Int) ≤ i64Max then some (m : Int) else none
  let neg : List Nat → Option Int := fun ds =>
    (digitsValue radix ds 0).bind fun m => if i64Min ≤ -(m : Int) then some (-(m : Int)) else none
  match s with
  | [] => none
  | c :: rest =>
    if c = 43 then (if rest.isEmpty then none else pos rest)
    else if c = 45 then (if rest.isEmpty then none else neg rest)
    else pos (c :: rest)

def optToRes {α : Type} : Option α → Res α
  | some a => .ok a
  | none => .err

/-- `parse_int(value, base)`; `base = none` when the argument is absent: the base is taken from
    the prefix (`0b`, `0o`, `0x`, a leading `0` alone means octal *including the `0`*, else 10).
    The text after the prefix goes to `from_str_radix` as it is (so `0x-5` is `-5`). -/
def parseInt (v : Value) (base : Option Value) : Res Value :=
  match v with
  | .bytes s =>
    match base with
    | some (.int b) =>
      if 2 ≤ b ∧ b ≤ 36 then (optToRes (fromStrRadix s b.toNat)).map .int else .err
    | some _ => .err
    | none =>
      match s with
      | [] => .err
      | c :: rest =>
        if c = 48 then
          match rest with
          | 98 :: r => (optToRes (fromStrRadix r 2)).map .int
          | 111 :: r => (optToRes (fromStrRadix r 8)).map .int
          | 120 :: r => (optToRes (fromStrRadix r 16)).map .int
          | _ => (optToRes (fromStrRadix (48 :: rest) 8)).map .int
        else (optToRes (fromStrRadix (c :: rest) 10)).map .int
  | _ => .err

end Conv
