/-
  VrlModel.C22 — the Spec predicate of C22 ("decoding what the matching encoder produced returns
  the original bytes"), the composite decode∘encode of the fully modelled codecs, and the
  decidable finding classes. Used by the theorems (VrlProofs/Props/C22.lean) and by the oracle
  (Driver/C22.lean).
-/
import VrlModel.Codec.Utf8
import VrlModel.Codec.Base16
import VrlModel.Codec.Base64
import VrlModel.Codec.Percent
import VrlModel.Codec.Param

namespace C22
open Codec

/-- Spec: the decoder's result is `Ok(original)`. -/
def RoundTrip (original : Bytes) (decoded : Res Bytes) : Prop := decoded = .ok original

instance (a : Bytes) (r : Res Bytes) : Decidable (RoundTrip a r) :=
  inferInstanceAs (Decidable (r = .ok a))

def resOfOption : Option Bytes → Res Bytes
  | some b => .ok b
  | none => .err

def resOfB64 : Base64.DecodeResult → Res Bytes
  | .ok b => .ok b
  | _ => .err

/-- `decode_base16(encode_base16(b))`. -/
def base16 (b : Bytes) : Res Bytes := resOfOption (Base16.decode (Base16.encode b))

/-- `decode_base64(encode_base64(b, padding, charset), charset)`. -/
def base64 (b : Bytes) (padding : Bool) (charset : Bytes) : Res Bytes :=
  match Base64.encode b padding charset with
  | some e => resOfB64 (Base64.decode e charset)
  | none => .err

/-- `decode_percent(encode_percent(b, ascii_set))`. -/
def percent (set : Percent.AsciiSet) (b : Bytes) : Res Bytes :=
  .ok (Percent.decode (Percent.encode set b))

/-- decoder applied to an encoder result (errors and panics of the encoder propagate). -/
def andThen (r : Res Bytes) (f : Bytes → Res Bytes) : Res Bytes :=
  match r with
  | .ok e => f e
  | .err => .err
  | .panic => .panic

/-- Finding class of the percent codec: the set leaves `%` alone and the text contains a `%`
    followed by two hex digits, which the decoder reads as an escape. -/
def D_percent_literal (set : Percent.AsciiSet) (s : Bytes) : Bool := !Percent.roundTripOK set s

/-- Finding class of lz4 with `prepend_size`: the little-endian length prefix equals the lz4
    frame magic, so `decode_lz4` takes the output for a frame. -/
def D_lz4_size_is_magic (len : Nat) : Bool := len % 4294967296 == Lz4.magicAsSize

end C22
