/-
  VrlModel.Hash.MD5 — MD5 as defined in RFC 1321 (section 3), executable.
-/
import VrlModel.Hash.Basic

namespace Hash.MD5
open Hash

/-- RFC 1321 §3.4: `T[i] = floor(4294967296 * abs(sin(i)))`, i = 1..64 (the table printed in the
    RFC's reference implementation). -/
def T : List Nat := [
  0xd76aa478, 0xe8c7b756, 0x242070db, 0xc1bdceee, 0xf57c0faf, 0x4787c62a, 0xa8304613, 0xfd469501,
  0x698098d8, 0x8b44f7af, 0xffff5bb1, 0x895cd7be, 0x6b901122, 0xfd987193, 0xa679438e, 0x49b40821,
  0xf61e2562, 0xc040b340, 0x265e5a51, 0xe9b6c7aa, 0xd62f105d, 0x02441453, 0xd8a1e681, 0xe7d3fbc8,
  0x21e1cde6, 0xc33707d6, 0xf4d50d87, 0x455a14ed, 0xa9e3e905, 0xfcefa3f8, 0x676f02d9, 0x8d2a4c8a,
  0xfffa3942, 0x8771f681, 0x6d9d6122, 0xfde5380c, 0xa4beea44, 0x4bdecfa9, 0xf6bb4b60, 0xbebfbc70,
  0x289b7ec6, 0xeaa127fa, 0xd4ef3085, 0x04881d05, 0xd9d4d039, 0xe6db99e5, 0x1fa27cf8, 0xc4ac5665,
  0xf4292244, 0x432aff97, 0xab9423a7, 0xfc93a039, 0x655b59c3, 0x8f0ccc92, 0xffeff47d, 0x85845dd1,
  0x6fa87e4f, 0xfe2ce6e0, 0xa3014314, 0x4e0811a1, 0xf7537e82, 0xbd3af235, 0x2ad7d2bb, 0xeb86d391]

/-- per-step left-rotation amounts (rounds 1–4, four values each repeated four times). -/
def S : List Nat := [
  7, 12, 17, 22, 7, 12, 17, 22, 7, 12, 17, 22, 7, 12, 17, 22,
  5, 9, 14, 20, 5, 9, 14, 20, 5, 9, 14, 20, 5, 9, 14, 20,
  4, 11, 16, 23, 4, 11, 16, 23, 4, 11, 16, 23, 4, 11, 16, 23,
  6, 10, 15, 21, 6, 10, 15, 21, 6, 10, 15, 21, 6, 10, 15, 21]

/-- §3.1/3.2: append bit 1, then 0 bits up to 448 mod 512, then the bit length as 64 bits,
    low-order word first (little-endian). -/
def pad (m : Bytes) : Bytes :=
  m ++ 0x80 :: List.replicate ((119 - m.length % 64) % 64) 0 ++ toLE 8 (m.length * 8 % M64)

/-- the auxiliary function of step `i` (0-based) and the index `k` of the message word it uses. -/
def aux (i b c d : Nat) : Nat :=
  if i < 16 then (b &&& c) ||| (not32 b &&& d)          -- F
  else if i < 32 then (b &&& d) ||| (c &&& not32 d)     -- G
  else if i < 48 then b ^^^ c ^^^ d                     -- H
  else c ^^^ (b ||| not32 d)                            -- I

def wordIndex (i : Nat) : Nat :=
  if i < 16 then i else if i < 32 then (5 * i + 1) % 16
  else if i < 48 then (3 * i + 5) % 16 else (7 * i) % 16

structure St where
  a : Nat
  b : Nat
  c : Nat
  d : Nat

/-- one operation `[abcd k s i]`: `a = b + ((a + f(b,c,d) + X[k] + T[i]) <<< s)`, followed by
    the cyclic renaming of the registers. -/
def step (x : List Nat) (st : St) (i : Nat) : St :=
  let t := (st.a + aux i st.b st.c st.d + x.getD (wordIndex i) 0 + T.getD i 0) % M32
  let nb := (st.b + rotl32 t (S.getD i 0)) % M32
  ⟨st.d, nb, st.b, st.c⟩

def block (st : St) (blk : Bytes) : St :=
  let x := (chunks 4 blk).map leNat
  let r := (List.range 64).foldl (step x) st
  ⟨(st.a + r.a) % M32, (st.b + r.b) % M32, (st.c + r.c) % M32, (st.d + r.d) % M32⟩

def init : St := ⟨0x67452301, 0xefcdab89, 0x98badcfe, 0x10325476⟩

/-- the 16-byte digest. -/
def digest (m : Bytes) : Bytes :=
  let r := (chunks 64 (pad m)).foldl block init
  toLE 4 r.a ++ toLE 4 r.b ++ toLE 4 r.c ++ toLE 4 r.d

end Hash.MD5
