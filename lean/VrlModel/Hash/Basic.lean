/-
  VrlModel.Hash.Basic — words, byte order and encodings shared by the reference specifications of
  C27 (digests and checksums).

  Conventions: a byte string is a `List Nat` whose elements are `< 256`; an n-bit word is a `Nat`
  kept `< 2^n` by explicit `% 2^n`.  Everything is structurally recursive (or recursion on an
  explicit fuel) so that the Lean kernel can evaluate the published test vectors by `decide`.
-/

namespace Hash

abbrev Bytes := List Nat

def M32 : Nat := 4294967296
def M64 : Nat := 18446744073709551616

def rotl32 (x n : Nat) : Nat := ((x <<< n) ||| (x >>> (32 - n))) % M32
def rotr32 (x n : Nat) : Nat := ((x >>> n) ||| (x <<< (32 - n))) % M32
def rotl64 (x n : Nat) : Nat := ((x <<< n) ||| (x >>> (64 - n))) % M64
def rotr64 (x n : Nat) : Nat := ((x >>> n) ||| (x <<< (64 - n))) % M64

/-- bitwise complement of a word `< 2^32` / `< 2^64`. -/
def not32 (x : Nat) : Nat := x ^^^ 0xFFFFFFFF
def not64 (x : Nat) : Nat := x ^^^ 0xFFFFFFFFFFFFFFFF

/-- little-endian value of a byte string (first byte least significant). -/
def leNat : Bytes → Nat
  | [] => 0
  | b :: bs => b + 256 * leNat bs

/-- big-endian value of a byte string (first byte most significant). -/
def beNat (bs : Bytes) : Nat := bs.foldl (fun acc b => acc * 256 + b) 0

/-- the `k` low-order bytes of `n`, least significant first. -/
def toLE : Nat → Nat → Bytes
  | 0, _ => []
  | k + 1, n => n % 256 :: toLE k (n / 256)

/-- the `k` low-order bytes of `n`, most significant first. -/
def toBE (k n : Nat) : Bytes := (toLE k n).reverse

/-- split into consecutive chunks of `n` elements (the last one may be shorter). -/
def chunksAux (n : Nat) : Nat → List α → List (List α)
  | 0, _ => []
  | fuel + 1, l =>
    match l with
    | [] => []
    | _ :: _ => l.take n :: chunksAux n fuel (l.drop n)

def chunks (n : Nat) (l : List α) : List (List α) := chunksAux n l.length l

/-- the bytes of an ASCII string (for writing test vectors). -/
def ascii (s : String) : Bytes := s.toList.map Char.toNat

/-! ### Encodings used by vrl for the results -/

def hexDigit (n : Nat) : Char :=
  if n < 10 then Char.ofNat (48 + n) else Char.ofNat (87 + n)

/-- lower-case hexadecimal digits of a byte string, as characters (what `hex::encode` returns). -/
def hexChars : Bytes → List Char
  | [] => []
  | b :: bs => hexDigit (b / 16) :: hexDigit (b % 16) :: hexChars bs

/-- the same as ASCII bytes (the content of the `Value::Bytes` that md5/sha1/sha2/sha3 return). -/
def hexAscii (bs : Bytes) : Bytes := (hexChars bs).map Char.toNat

/-- decimal digits of a natural number (what `to_string()` prints for unsigned integers). -/
def decDigitsAux : Nat → Nat → List Nat → List Nat
  | 0, _, acc => acc
  | fuel + 1, n, acc =>
    if n < 10 then (48 + n) :: acc else decDigitsAux fuel (n / 10) ((48 + n % 10) :: acc)

/-- ASCII decimal representation (at most 40 digits are ever needed here: values `< 2^128`). -/
def decAscii (n : Nat) : Bytes := decDigitsAux 64 n []

/-- `u64 as i64`: two's complement reinterpretation. -/
def asI64 (n : Nat) : Int := if n < 9223372036854775808 then (n : Int) else (n : Int) - 18446744073709551616

/-- ASCII upper-casing (the part of `str::to_uppercase` that matters for the variant names). -/
def asciiUpper (s : String) : String :=
  String.ofList (s.toList.map fun c => if 'a' ≤ c ∧ c ≤ 'z' then Char.ofNat (c.toNat - 32) else c)

end Hash
