/-
  VrlModel.Hash.SeaHash — SeaHash (version 4, the `seahash` crate's published specification:
  module `seahash::reference`, "a slow, but clear reference implementation"), executable.
-/
import VrlModel.Hash.Basic

namespace Hash.SeaHash
open Hash

/-- the diffusion function: `x *= p; x ^= (x >> 32) >> (x >> 60); x *= p` with
    `p = 0x6eed0e9da4d94a4f`, all modulo 2^64. -/
def diffuse (x : Nat) : Nat :=
  let x := x * 0x6eed0e9da4d94a4f % M64
  let x := x ^^^ ((x >>> 32) >>> (x >>> 60))
  x * 0x6eed0e9da4d94a4f % M64

/-- absorb one little-endian word: `a ← diffuse(a ⊕ x)` and rotate the four lanes. -/
def write (st : List Nat) (x : Nat) : List Nat :=
  match st with
  | [a, b, c, d] => [b, c, d, diffuse (a ^^^ x)]
  | _ => st

def seeds : List Nat :=
  [0x16f11fe89b0d677c, 0xb480a793d8e6c86c, 0x6fe2e5aaf078ebc9, 0x14f994a4c5259381]

/-- the input is read in 8-byte little-endian words (the last one zero-extended); the result is
    `diffuse(a ⊕ b ⊕ c ⊕ d ⊕ length)`. -/
def hashSeeded (ks : List Nat) (m : Bytes) : Nat :=
  let st := ((chunks 8 m).map leNat).foldl write ks
  diffuse (st.foldl (· ^^^ ·) (m.length % M64))

def hash (m : Bytes) : Nat := hashSeeded seeds m

end Hash.SeaHash
