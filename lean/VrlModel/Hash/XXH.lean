/-
  VrlModel.Hash.XXH — XXH32 and XXH64 as defined in the xxHash specification
  (doc/xxhash_spec.md of the xxHash project, "XXH32 Algorithm Description" and "XXH64 Algorithm
  Description"), executable, with an arbitrary seed (vrl always uses seed 0).
-/
import VrlModel.Hash.Basic

namespace Hash.XXH
open Hash

def P32_1 : Nat := 0x9E3779B1
def P32_2 : Nat := 0x85EBCA77
def P32_3 : Nat := 0xC2B2AE3D
def P32_4 : Nat := 0x27D4EB2F
def P32_5 : Nat := 0x165667B1

def P64_1 : Nat := 0x9E3779B185EBCA87
def P64_2 : Nat := 0xC2B2AE3D27D4EB4F
def P64_3 : Nat := 0x165667B19E3779F9
def P64_4 : Nat := 0x85EBCA77C2B2AE63
def P64_5 : Nat := 0x27D4EB2F165667C5

/-! ### XXH32 -/

def round32 (acc lane : Nat) : Nat :=
  rotl32 ((acc + lane * P32_2) % M32) 13 * P32_1 % M32

/-- step 2: consume one 16-byte stripe (four little-endian 32-bit lanes). -/
def stripe32 (accs : List Nat) (stripe : Bytes) : List Nat :=
  List.zipWith round32 accs ((chunks 4 stripe).map leNat)

/-- step 5: the remaining input (< 16 bytes): 4-byte lanes, then single bytes. -/
def tail32 : Nat → Nat → Bytes → Nat
  | 0, acc, _ => acc
  | fuel + 1, acc, rest =>
    match rest with
    | [] => acc
    | b0 :: b1 :: b2 :: b3 :: rest' =>
      tail32 fuel (rotl32 ((acc + leNat [b0, b1, b2, b3] * P32_3) % M32) 17 * P32_4 % M32) rest'
    | b :: rest' =>
      tail32 fuel (rotl32 ((acc + b * P32_5) % M32) 11 * P32_1 % M32) rest'

/-- step 6: final mix. -/
def avalanche32 (acc : Nat) : Nat :=
  let acc := (acc ^^^ (acc >>> 15)) * P32_2 % M32
  let acc := (acc ^^^ (acc >>> 13)) * P32_3 % M32
  acc ^^^ (acc >>> 16)

def xxh32 (seed : Nat) (m : Bytes) : Nat :=
  let n := m.length
  let nStripes := n / 16
  let acc :=
    if n < 16 then (seed + P32_5) % M32
    else
      let accs := ((chunks 16 m).take nStripes).foldl stripe32
        [(seed + P32_1 + P32_2) % M32, (seed + P32_2) % M32, seed % M32, (seed + M32 - P32_1) % M32]
      match accs with
      | [a1, a2, a3, a4] => (rotl32 a1 1 + rotl32 a2 7 + rotl32 a3 12 + rotl32 a4 18) % M32
      | _ => 0
  let acc := (acc + n) % M32
  avalanche32 (tail32 16 acc (m.drop (16 * nStripes)))

/-! ### XXH64 -/

def round64 (acc lane : Nat) : Nat :=
  rotl64 ((acc + lane * P64_2) % M64) 31 * P64_1 % M64

def stripe64 (accs : List Nat) (stripe : Bytes) : List Nat :=
  List.zipWith round64 accs ((chunks 8 stripe).map leNat)

def mergeAcc (acc accN : Nat) : Nat :=
  ((acc ^^^ round64 0 accN) * P64_1 + P64_4) % M64

/-- step 5: the remaining input (< 32 bytes): 8-byte lanes, then one 4-byte lane, then bytes. -/
def tail64 : Nat → Nat → Bytes → Nat
  | 0, acc, _ => acc
  | fuel + 1, acc, rest =>
    match rest with
    | [] => acc
    | b0 :: b1 :: b2 :: b3 :: b4 :: b5 :: b6 :: b7 :: rest' =>
      tail64 fuel
        ((rotl64 (acc ^^^ round64 0 (leNat [b0, b1, b2, b3, b4, b5, b6, b7])) 27 * P64_1 + P64_4) % M64)
        rest'
    | b0 :: b1 :: b2 :: b3 :: rest' =>
      tail64 fuel ((rotl64 (acc ^^^ (leNat [b0, b1, b2, b3] * P64_1 % M64)) 23 * P64_2 + P64_3) % M64) rest'
    | b :: rest' =>
      tail64 fuel (rotl64 (acc ^^^ (b * P64_5 % M64)) 11 * P64_1 % M64) rest'

def avalanche64 (acc : Nat) : Nat :=
  let acc := (acc ^^^ (acc >>> 33)) * P64_2 % M64
  let acc := (acc ^^^ (acc >>> 29)) * P64_3 % M64
  acc ^^^ (acc >>> 32)

def xxh64 (seed : Nat) (m : Bytes) : Nat :=
  let n := m.length
  let nStripes := n / 32
  let acc :=
    if n < 32 then (seed + P64_5) % M64
    else
      let accs := ((chunks 32 m).take nStripes).foldl stripe64
        [(seed + P64_1 + P64_2) % M64, (seed + P64_2) % M64, seed % M64, (seed + M64 - P64_1) % M64]
      match accs with
      | [a1, a2, a3, a4] =>
        let acc := (rotl64 a1 1 + rotl64 a2 7 + rotl64 a3 12 + rotl64 a4 18) % M64
        mergeAcc (mergeAcc (mergeAcc (mergeAcc acc a1) a2) a3) a4
      | _ => 0
  let acc := (acc + n) % M64
  avalanche64 (tail64 32 acc (m.drop (32 * nStripes)))

end Hash.XXH
