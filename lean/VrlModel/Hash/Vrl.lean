/-
  VrlModel.Hash.Vrl — model of the vrl stdlib functions `md5`, `sha1`, `sha2`, `sha3`, `hmac`,
  `crc`, `xxhash`, `seahash` (src/stdlib/{md5,sha1,sha2,sha3,hmac,crc,xxhash,seahash}.rs):
  variant-name dispatch (with the default variants), and the encoding of the result as a vrl
  `Value`; the digests themselves are the reference specifications of `VrlModel.Hash.*`.

  * md5/sha1/sha2/sha3 return the lower-case hex text of the digest (`hex::encode`), as bytes;
  * hmac returns the raw MAC bytes;
  * crc returns the checksum printed in decimal (`to_string()`), as bytes;
  * xxhash returns an integer for XXH32 (`i64::from(u32)`), XXH64 and XXH3-64 (`u64 as i64`, i.e.
    wrapped to two's complement) and the decimal text of the `u128` for XXH3-128;
  * seahash returns `u64 as i64`.

  `sha2`/`sha3` take their variant as a compile-time enum (`optional_enum`): an unknown literal is
  a compile error. `hmac`, `crc`, `xxhash` take it at run time, upper-case it (`to_uppercase`,
  modelled for ASCII names) and fail with a run-time error for unknown names.
-/
import VrlModel.Value
import VrlModel.Hash.Basic
import VrlModel.Hash.MD5
import VrlModel.Hash.SHA
import VrlModel.Hash.SHA3
import VrlModel.Hash.HMAC
import VrlModel.Hash.CRC
import VrlModel.Hash.XXH
import VrlModel.Hash.XXH3
import VrlModel.Hash.SeaHash

namespace Hash.Vrl
open Hash

/-- outcome of a call: a value, or an error (compile-time for enum parameters, run-time
    otherwise; the correspondence does not distinguish them). -/
inductive Res where
  | ok (v : Value)
  | err

def hexValue (digest : Bytes) : Value := .bytes (hexAscii digest)

def md5 (b : Bytes) : Res := .ok (hexValue (MD5.digest b))
def sha1 (b : Bytes) : Res := .ok (hexValue (SHA.SHA1.digest b))

/-! ### sha2 / sha3: compile-time enum, defaults `SHA-512/256` and `SHA3-512` -/

def sha2Variants : List (String × (Bytes → Bytes)) := [
  ("SHA-224", SHA.sha224), ("SHA-256", SHA.sha256), ("SHA-384", SHA.sha384),
  ("SHA-512", SHA.sha512), ("SHA-512/224", SHA.sha512_224), ("SHA-512/256", SHA.sha512_256)]

def sha2Default : String := "SHA-512/256"

def sha3Variants : List (String × (Bytes → Bytes)) := [
  ("SHA3-224", SHA3.sha3_224), ("SHA3-256", SHA3.sha3_256),
  ("SHA3-384", SHA3.sha3_384), ("SHA3-512", SHA3.sha3_512)]

def sha3Default : String := "SHA3-512"

def lookupFn (tbl : List (String × α)) (name : String) : Option α :=
  (tbl.find? (·.1 == name)).map (·.2)

def sha2 (variant : Option String) (b : Bytes) : Res :=
  match lookupFn sha2Variants (variant.getD sha2Default) with
  | some h => .ok (hexValue (h b))
  | none => .err

def sha3 (variant : Option String) (b : Bytes) : Res :=
  match lookupFn sha3Variants (variant.getD sha3Default) with
  | some h => .ok (hexValue (h b))
  | none => .err

/-! ### hmac: run-time algorithm name, upper-cased, default `SHA-256`; raw bytes -/

def hmacAlgorithms : List (String × HMAC.HashFn) := [
  ("SHA1", ⟨64, SHA.SHA1.digest⟩), ("SHA-224", ⟨64, SHA.sha224⟩), ("SHA-256", ⟨64, SHA.sha256⟩),
  ("SHA-384", ⟨128, SHA.sha384⟩), ("SHA-512", ⟨128, SHA.sha512⟩)]

def hmacDefault : String := "SHA-256"

def hmac (algorithm : Option String) (value key : Bytes) : Res :=
  match lookupFn hmacAlgorithms (asciiUpper (algorithm.getD hmacDefault)) with
  | some h => .ok (.bytes (HMAC.hmac h key value))
  | none => .err

/-! ### crc: run-time algorithm name, upper-cased, default `CRC_32_ISO_HDLC`; decimal text -/

def crcDefault : String := "CRC_32_ISO_HDLC"

def crc (algorithm : Option String) (b : Bytes) : Res :=
  match CRC.lookup (asciiUpper (algorithm.getD crcDefault)) with
  | some p => .ok (.bytes (decAscii (CRC.crc p b)))
  | none => .err

/-! ### xxhash: run-time variant name, upper-cased, default `XXH32`, seed 0 -/

def xxhashVariants : List (String × (Bytes → Value)) := [
  ("XXH32", fun b => .int (XXH.xxh32 0 b)),
  ("XXH64", fun b => .int (asI64 (XXH.xxh64 0 b))),
  ("XXH3-64", fun b => .int (asI64 (XXH3.xxh3_64 b))),
  ("XXH3-128", fun b => .bytes (decAscii (XXH3.xxh3_128 b)))]

def xxhashDefault : String := "XXH32"

def xxhash (variant : Option String) (b : Bytes) : Res :=
  match lookupFn xxhashVariants (asciiUpper (variant.getD xxhashDefault)) with
  | some f => .ok (f b)
  | none => .err

def seahash (b : Bytes) : Res := .ok (.int (asI64 (SeaHash.hash b)))

end Hash.Vrl
