/-
  VrlModel.Hash.XXH3 — XXH3-64 and XXH3-128 as defined in the xxHash specification
  (doc/xxhash_spec.md, "XXH3 Algorithm Overview"), for seed 0 and the default 192-byte secret
  `kSecret` (this is how vrl calls them: `xxh3_64(bytes)`, `xxh3_128(bytes)`), executable.

  All 64-bit quantities are `Nat` reduced `% 2^64`; `sub64` is wrapping subtraction.
-/
import VrlModel.Hash.Basic
import VrlModel.Hash.XXH

namespace Hash.XXH3
open Hash Hash.XXH

def PRIME_MX1 : Nat := 0x165667919E3779F9
def PRIME_MX2 : Nat := 0x9FB21C651E98DF25

/-- the default secret `kSecret` of the specification. -/
def secret : Bytes := [
  0xb8, 0xfe, 0x6c, 0x39, 0x23, 0xa4, 0x4b, 0xbe, 0x7c, 0x01, 0x81, 0x2c, 0xf7, 0x21, 0xad, 0x1c,
  0xde, 0xd4, 0x6d, 0xe9, 0x83, 0x90, 0x97, 0xdb, 0x72, 0x40, 0xa4, 0xa4, 0xb7, 0xb3, 0x67, 0x1f,
  0xcb, 0x79, 0xe6, 0x4e, 0xcc, 0xc0, 0xe5, 0x78, 0x82, 0x5a, 0xd0, 0x7d, 0xcc, 0xff, 0x72, 0x21,
  0xb8, 0x08, 0x46, 0x74, 0xf7, 0x43, 0x24, 0x8e, 0xe0, 0x35, 0x90, 0xe6, 0x81, 0x3a, 0x26, 0x4c,
  0x3c, 0x28, 0x52, 0xbb, 0x91, 0xc3, 0x00, 0xcb, 0x88, 0xd0, 0x65, 0x8b, 0x1b, 0x53, 0x2e, 0xa3,
  0x71, 0x64, 0x48, 0x97, 0xa2, 0x0d, 0xf9, 0x4e, 0x38, 0x19, 0xef, 0x46, 0xa9, 0xde, 0xac, 0xd8,
  0xa8, 0xfa, 0x76, 0x3f, 0xe3, 0x9c, 0x34, 0x3f, 0xf9, 0xdc, 0xbb, 0xc7, 0xc7, 0x0b, 0x4f, 0x1d,
  0x8a, 0x51, 0xe0, 0x4b, 0xcd, 0xb4, 0x59, 0x31, 0xc8, 0x9f, 0x7e, 0xc9, 0xd9, 0x78, 0x73, 0x64,
  0xea, 0xc5, 0xac, 0x83, 0x34, 0xd3, 0xeb, 0xc3, 0xc5, 0x81, 0xa0, 0xff, 0xfa, 0x13, 0x63, 0xeb,
  0x17, 0x0d, 0xdd, 0x51, 0xb7, 0xf0, 0xda, 0x49, 0xd3, 0x16, 0x55, 0x26, 0x29, 0xd4, 0x68, 0x9e,
  0x2b, 0x16, 0xbe, 0x58, 0x7d, 0x47, 0xa1, 0xfc, 0x8f, 0xf8, 0xb8, 0xd1, 0x7a, 0xd0, 0x31, 0xce,
  0x45, 0xcb, 0x3a, 0x8f, 0x95, 0x16, 0x04, 0x28, 0xaf, 0xd7, 0xfb, 0xca, 0xbb, 0x4b, 0x40, 0x7e]

def secretSize : Nat := 192

/-- little-endian reads at a byte offset. -/
def rd32 (l : Bytes) (off : Nat) : Nat := leNat ((l.drop off).take 4)
def rd64 (l : Bytes) (off : Nat) : Nat := leNat ((l.drop off).take 8)
def sec64 (off : Nat) : Nat := rd64 secret off
def sec32 (off : Nat) : Nat := rd32 secret off

def bswap32 (x : Nat) : Nat := beNat (toLE 4 x)
def bswap64 (x : Nat) : Nat := beNat (toLE 8 x)
def sub64 (a b : Nat) : Nat := (a + M64 - b % M64) % M64
def xorshift (x s : Nat) : Nat := x ^^^ (x >>> s)

/-- full 64×64→128 multiplication, then xor of the two halves. -/
def mulFold (a b : Nat) : Nat := let p := a * b; (p % M64) ^^^ (p / M64)

def avalanche (h : Nat) : Nat :=
  let h := xorshift h 37 * PRIME_MX1 % M64
  xorshift h 32

/-- `XXH64_avalanche`. -/
def avalanche64 (h : Nat) : Nat := XXH.avalanche64 h

def rrmxmx (h len : Nat) : Nat :=
  let h := h ^^^ rotl64 h 49 ^^^ rotl64 h 24
  let h := h * PRIME_MX2 % M64
  let h := (h ^^^ ((h >>> 35) + len)) * PRIME_MX2 % M64
  xorshift h 28

/-- `XXH3_mix16B` with seed 0: 16 input bytes at `off` against 16 secret bytes at `soff`. -/
def mix16 (m : Bytes) (off soff : Nat) : Nat :=
  mulFold (rd64 m off ^^^ sec64 soff) (rd64 m (off + 8) ^^^ sec64 (soff + 8))

/-! ### long inputs (> 240 bytes): stripes of 64 bytes, 8 accumulators -/

def initAcc : List Nat := [P32_3, P64_1, P64_2, P64_3, P64_4, P32_2, P64_5, P32_1]

def swapPairs : List Nat → List Nat
  | a :: b :: r => b :: a :: swapPairs r
  | l => l

def zip3With (f : Nat → Nat → Nat → Nat) : List Nat → List Nat → List Nat → List Nat
  | a :: as, b :: bs, c :: cs => f a b c :: zip3With f as bs cs
  | _, _, _ => []

/-- `XXH3_accumulate_512`: lane `i` adds the 32×32 product of the halves of `data[i] ⊕ key[i]`,
    lane `i ⊕ 1` adds `data[i]`. -/
def accumulate (acc : List Nat) (stripe : Bytes) (soff : Nat) : List Nat :=
  let d := (chunks 8 stripe).map leNat
  let k := (chunks 8 ((secret.drop soff).take 64)).map leNat
  zip3With (fun a dsw dk => (a + dsw + (dk % M32) * (dk / M32)) % M64)
    acc (swapPairs d) (List.zipWith (· ^^^ ·) d k)

/-- consecutive stripes use the secret at offsets 0, 8, 16, … -/
def accStripes : List Nat → List Bytes → Nat → List Nat
  | acc, [], _ => acc
  | acc, s :: ss, i => accStripes (accumulate acc s (8 * i)) ss (i + 1)

/-- `XXH3_scrambleAcc` with the last 64 secret bytes. -/
def scramble (acc : List Nat) : List Nat :=
  let k := (chunks 8 (secret.drop (secretSize - 64))).map leNat
  List.zipWith (fun a key => (xorshift a 47 ^^^ key) * P32_1 % M64) acc k

def longAcc (m : Bytes) : List Nat :=
  let len := m.length
  let nbBlocks := (len - 1) / 1024
  let acc := ((chunks 1024 m).take nbBlocks).foldl
    (fun acc blk => scramble (accStripes acc (chunks 64 blk) 0)) initAcc
  let nbStripes := ((len - 1) - 1024 * nbBlocks) / 64
  let acc := accStripes acc ((chunks 64 (m.drop (1024 * nbBlocks))).take nbStripes) 0
  accumulate acc (m.drop (len - 64)) (secretSize - 64 - 7)

/-- `XXH3_mergeAccs`. -/
def mergeAccs (acc : List Nat) (soff start : Nat) : Nat :=
  match acc with
  | [a0, a1, a2, a3, a4, a5, a6, a7] =>
    avalanche ((start
      + mulFold (a0 ^^^ sec64 soff) (a1 ^^^ sec64 (soff + 8))
      + mulFold (a2 ^^^ sec64 (soff + 16)) (a3 ^^^ sec64 (soff + 24))
      + mulFold (a4 ^^^ sec64 (soff + 32)) (a5 ^^^ sec64 (soff + 40))
      + mulFold (a6 ^^^ sec64 (soff + 48)) (a7 ^^^ sec64 (soff + 56))) % M64)
  | _ => 0

/-! ### XXH3-64 -/

def sum (l : List Nat) : Nat := l.foldl (· + ·) 0

def xxh3_64 (m : Bytes) : Nat :=
  let len := m.length
  if len = 0 then avalanche64 (sec64 56 ^^^ sec64 64)
  else if len ≤ 3 then
    let c1 := m.getD 0 0; let c2 := m.getD (len / 2) 0; let c3 := m.getD (len - 1) 0
    let combined := (c1 <<< 16) ||| (c2 <<< 24) ||| c3 ||| (len <<< 8)
    avalanche64 (combined ^^^ (sec32 0 ^^^ sec32 4))
  else if len ≤ 8 then
    let in1 := rd32 m 0; let in2 := rd32 m (len - 4)
    let keyed := (in2 + (in1 <<< 32)) ^^^ (sec64 8 ^^^ sec64 16)
    rrmxmx keyed len
  else if len ≤ 16 then
    let lo := rd64 m 0 ^^^ (sec64 24 ^^^ sec64 32)
    let hi := rd64 m (len - 8) ^^^ (sec64 40 ^^^ sec64 48)
    avalanche ((len + bswap64 lo + hi + mulFold lo hi) % M64)
  else if len ≤ 128 then
    let nb := (len - 1) / 32      -- number of (front, back) pairs minus one: 0..3
    let pairs := (List.range (nb + 1)).map fun i =>
      mix16 m (16 * i) (32 * i) + mix16 m (len - 16 * (i + 1)) (32 * i + 16)
    avalanche ((len * P64_1 + sum pairs) % M64)
  else if len ≤ 240 then
    let nbRounds := len / 16
    let acc := (len * P64_1 + sum ((List.range 8).map fun i => mix16 m (16 * i) (16 * i))) % M64
    let acc := avalanche acc
    let acc := acc + sum ((List.range (nbRounds - 8)).map fun j => mix16 m (16 * (j + 8)) (16 * j + 3))
    avalanche ((acc + mix16 m (len - 16) (136 - 17)) % M64)
  else
    mergeAccs (longAcc m) 11 (len * P64_1 % M64)

/-! ### XXH3-128 (result = `high * 2^64 + low`) -/

/-- `XXH128_mix32B` with seed 0 on a pair (low, high). -/
def mix32 (acc : Nat × Nat) (m : Bytes) (o1 o2 soff : Nat) : Nat × Nat :=
  let lo := (acc.1 + mix16 m o1 soff) % M64
  let lo := lo ^^^ ((rd64 m o2 + rd64 m (o2 + 8)) % M64)
  let hi := (acc.2 + mix16 m o2 (soff + 16)) % M64
  let hi := hi ^^^ ((rd64 m o1 + rd64 m (o1 + 8)) % M64)
  (lo, hi)

def finish128 (acc : Nat × Nat) (len : Nat) : Nat :=
  let low := avalanche ((acc.1 + acc.2) % M64)
  let high := sub64 0 (avalanche ((acc.1 * P64_1 + acc.2 * P64_4 + len * P64_2) % M64))
  high * M64 + low

def xxh3_128 (m : Bytes) : Nat :=
  let len := m.length
  if len = 0 then
    avalanche64 (sec64 80 ^^^ sec64 88) * M64 + avalanche64 (sec64 64 ^^^ sec64 72)
  else if len ≤ 3 then
    let c1 := m.getD 0 0; let c2 := m.getD (len / 2) 0; let c3 := m.getD (len - 1) 0
    let cl := (c1 <<< 16) ||| (c2 <<< 24) ||| c3 ||| (len <<< 8)
    let ch := rotl32 (bswap32 cl) 13
    avalanche64 (ch ^^^ (sec32 8 ^^^ sec32 12)) * M64 + avalanche64 (cl ^^^ (sec32 0 ^^^ sec32 4))
  else if len ≤ 8 then
    let ilo := rd32 m 0; let ihi := rd32 m (len - 4)
    let keyed := (ilo + (ihi <<< 32)) ^^^ (sec64 16 ^^^ sec64 24)
    let p := keyed * ((P64_1 + (len <<< 2)) % M64)
    let lo := p % M64; let hi := p / M64
    let hi := (hi + (lo <<< 1)) % M64
    let lo := lo ^^^ (hi >>> 3)
    let lo := xorshift lo 35 * PRIME_MX2 % M64
    let lo := xorshift lo 28
    avalanche hi * M64 + lo
  else if len ≤ 16 then
    let bfl := sec64 32 ^^^ sec64 40
    let bfh := sec64 48 ^^^ sec64 56
    let ilo := rd64 m 0; let ihi := rd64 m (len - 8)
    let p := (ilo ^^^ ihi ^^^ bfl) * P64_1
    let mlo := (p % M64 + ((len - 1) <<< 54)) % M64
    let ihi := ihi ^^^ bfh
    let mhi := (p / M64 + ihi + (ihi % M32) * (P32_2 - 1)) % M64
    let mlo := mlo ^^^ bswap64 mhi
    let h := mlo * P64_2
    let hlo := h % M64
    let hhi := (h / M64 + mhi * P64_2) % M64
    avalanche hhi * M64 + avalanche hlo
  else if len ≤ 128 then
    let nb := (len - 1) / 32
    let acc := (List.range (nb + 1)).reverse.foldl
      (fun acc i => mix32 acc m (16 * i) (len - 16 * (i + 1)) (32 * i)) (len * P64_1 % M64, 0)
    finish128 acc len
  else if len ≤ 240 then
    let acc := (List.range 4).foldl
      (fun acc j => mix32 acc m (32 * j) (32 * j + 16) (32 * j)) (len * P64_1 % M64, 0)
    let acc := (avalanche acc.1, avalanche acc.2)
    let acc := (List.range (len / 32 - 4)).foldl
      (fun acc j => mix32 acc m (128 + 32 * j) (128 + 32 * j + 16) (3 + 32 * j)) acc
    let acc := mix32 acc m (len - 16) (len - 32) (136 - 17 - 16)
    finish128 acc len
  else
    let acc := longAcc m
    let low := mergeAccs acc 11 (len * P64_1 % M64)
    let high := mergeAccs acc (secretSize - 64 - 11) (not64 (len * P64_2 % M64))
    high * M64 + low

end Hash.XXH3
