/-
  VrlModel.Hash.HMAC — HMAC as defined in RFC 2104 (section 2), over an arbitrary iterated hash
  function with block size `B` bytes.
-/
import VrlModel.Hash.Basic

namespace Hash.HMAC
open Hash

/-- an iterated hash function `H` with its compression block length `B` (bytes). -/
structure HashFn where
  blockBytes : Nat
  hash : Bytes → Bytes

/-- RFC 2104 §2 steps (1)–(7):
    `H((K₀ ⊕ opad) ‖ H((K₀ ⊕ ipad) ‖ text))` where `K₀` is the key zero-padded to `B` bytes,
    after replacing a key longer than `B` bytes by `H(key)`; `ipad = 0x36…`, `opad = 0x5c…`. -/
def hmac (h : HashFn) (key text : Bytes) : Bytes :=
  let k := if key.length > h.blockBytes then h.hash key else key
  let k0 := k ++ List.replicate (h.blockBytes - k.length) 0
  h.hash (k0.map (· ^^^ 0x5c) ++ h.hash (k0.map (· ^^^ 0x36) ++ text))

end Hash.HMAC
