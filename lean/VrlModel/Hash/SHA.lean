/-
  VrlModel.Hash.SHA — SHA-1, SHA-224, SHA-256, SHA-384, SHA-512, SHA-512/224, SHA-512/256 as
  defined in FIPS 180-4 (sections 4–6), executable.
-/
import VrlModel.Hash.Basic

namespace Hash.SHA
open Hash

/-- §5.1: append bit 1, `k` zero bits, and the message length in bits as a `lenBytes`-byte
    big-endian integer, so that the result is a multiple of the block size `blk` (bytes). -/
def pad (blk lenBytes : Nat) (m : Bytes) : Bytes :=
  let z := (2 * blk - 1 - lenBytes - m.length % blk) % blk
  m ++ 0x80 :: List.replicate z 0 ++ toBE lenBytes (m.length * 8 % 256 ^ lenBytes)

/-! ### SHA-1 (§4.1.1, §4.2.1, §6.1) -/
namespace SHA1

def f (t b c d : Nat) : Nat :=
  if t < 20 then (b &&& c) ^^^ (not32 b &&& d)                 -- Ch
  else if t < 40 then b ^^^ c ^^^ d                             -- Parity
  else if t < 60 then (b &&& c) ^^^ (b &&& d) ^^^ (c &&& d)     -- Maj
  else b ^^^ c ^^^ d                                            -- Parity

def K (t : Nat) : Nat :=
  if t < 20 then 0x5a827999 else if t < 40 then 0x6ed9eba1
  else if t < 60 then 0x8f1bbcdc else 0xca62c1d6

/-- message schedule, kept reversed (head = most recent word):
    `W_t = ROTL¹(W_{t-3} ⊕ W_{t-8} ⊕ W_{t-14} ⊕ W_{t-16})`. -/
def schedule : Nat → List Nat → List Nat
  | 0, ws => ws
  | n + 1, ws =>
    schedule n (rotl32 (ws.getD 2 0 ^^^ ws.getD 7 0 ^^^ ws.getD 13 0 ^^^ ws.getD 15 0) 1 :: ws)

def round (st : List Nat) (tw : Nat × Nat) : List Nat :=
  match st with
  | [a, b, c, d, e] =>
    let t := (rotl32 a 5 + f tw.1 b c d + e + K tw.1 + tw.2) % M32
    [t, a, rotl32 b 30, c, d]
  | _ => st

def block (h : List Nat) (blk : Bytes) : List Nat :=
  let w := (schedule 64 ((chunks 4 blk).map beNat).reverse).reverse
  let r := ((List.range 80).zip w).foldl round h
  List.zipWith (fun x y => (x + y) % M32) h r

def init : List Nat := [0x67452301, 0xefcdab89, 0x98badcfe, 0x10325476, 0xc3d2e1f0]

def digest (m : Bytes) : Bytes :=
  ((chunks 64 (pad 64 8 m)).foldl block init).flatMap (toBE 4)

end SHA1

/-! ### SHA-2 (§4.1.2/4.1.3, §4.2.2/4.2.3, §6.2–6.7) -/

/-- the two word sizes of the SHA-2 family. -/
structure Core where
  wordBytes : Nat
  modulus : Nat
  rotr : Nat → Nat → Nat
  compl : Nat → Nat
  /-- rotation/shift amounts of Σ0, Σ1 (three rotations) and σ0, σ1 (two rotations, one shift) -/
  S0 : Nat × Nat × Nat
  S1 : Nat × Nat × Nat
  s0 : Nat × Nat × Nat
  s1 : Nat × Nat × Nat
  K : List Nat
  lenBytes : Nat

def K256 : List Nat := [
  0x428a2f98, 0x71374491, 0xb5c0fbcf, 0xe9b5dba5, 0x3956c25b, 0x59f111f1, 0x923f82a4, 0xab1c5ed5,
  0xd807aa98, 0x12835b01, 0x243185be, 0x550c7dc3, 0x72be5d74, 0x80deb1fe, 0x9bdc06a7, 0xc19bf174,
  0xe49b69c1, 0xefbe4786, 0x0fc19dc6, 0x240ca1cc, 0x2de92c6f, 0x4a7484aa, 0x5cb0a9dc, 0x76f988da,
  0x983e5152, 0xa831c66d, 0xb00327c8, 0xbf597fc7, 0xc6e00bf3, 0xd5a79147, 0x06ca6351, 0x14292967,
  0x27b70a85, 0x2e1b2138, 0x4d2c6dfc, 0x53380d13, 0x650a7354, 0x766a0abb, 0x81c2c92e, 0x92722c85,
  0xa2bfe8a1, 0xa81a664b, 0xc24b8b70, 0xc76c51a3, 0xd192e819, 0xd6990624, 0xf40e3585, 0x106aa070,
  0x19a4c116, 0x1e376c08, 0x2748774c, 0x34b0bcb5, 0x391c0cb3, 0x4ed8aa4a, 0x5b9cca4f, 0x682e6ff3,
  0x748f82ee, 0x78a5636f, 0x84c87814, 0x8cc70208, 0x90befffa, 0xa4506ceb, 0xbef9a3f7, 0xc67178f2]

def K512 : List Nat := [
  0x428a2f98d728ae22, 0x7137449123ef65cd, 0xb5c0fbcfec4d3b2f, 0xe9b5dba58189dbbc,
  0x3956c25bf348b538, 0x59f111f1b605d019, 0x923f82a4af194f9b, 0xab1c5ed5da6d8118,
  0xd807aa98a3030242, 0x12835b0145706fbe, 0x243185be4ee4b28c, 0x550c7dc3d5ffb4e2,
  0x72be5d74f27b896f, 0x80deb1fe3b1696b1, 0x9bdc06a725c71235, 0xc19bf174cf692694,
  0xe49b69c19ef14ad2, 0xefbe4786384f25e3, 0x0fc19dc68b8cd5b5, 0x240ca1cc77ac9c65,
  0x2de92c6f592b0275, 0x4a7484aa6ea6e483, 0x5cb0a9dcbd41fbd4, 0x76f988da831153b5,
  0x983e5152ee66dfab, 0xa831c66d2db43210, 0xb00327c898fb213f, 0xbf597fc7beef0ee4,
  0xc6e00bf33da88fc2, 0xd5a79147930aa725, 0x06ca6351e003826f, 0x142929670a0e6e70,
  0x27b70a8546d22ffc, 0x2e1b21385c26c926, 0x4d2c6dfc5ac42aed, 0x53380d139d95b3df,
  0x650a73548baf63de, 0x766a0abb3c77b2a8, 0x81c2c92e47edaee6, 0x92722c851482353b,
  0xa2bfe8a14cf10364, 0xa81a664bbc423001, 0xc24b8b70d0f89791, 0xc76c51a30654be30,
  0xd192e819d6ef5218, 0xd69906245565a910, 0xf40e35855771202a, 0x106aa07032bbd1b8,
  0x19a4c116b8d2d0c8, 0x1e376c085141ab53, 0x2748774cdf8eeb99, 0x34b0bcb5e19b48a8,
  0x391c0cb3c5c95a63, 0x4ed8aa4ae3418acb, 0x5b9cca4f7763e373, 0x682e6ff3d6b2b8a3,
  0x748f82ee5defb2fc, 0x78a5636f43172f60, 0x84c87814a1f0ab72, 0x8cc702081a6439ec,
  0x90befffa23631e28, 0xa4506cebde82bde9, 0xbef9a3f7b2c67915, 0xc67178f2e372532b,
  0xca273eceea26619c, 0xd186b8c721c0c207, 0xeada7dd6cde0eb1e, 0xf57d4f7fee6ed178,
  0x06f067aa72176fba, 0x0a637dc5a2c898a6, 0x113f9804bef90dae, 0x1b710b35131c471b,
  0x28db77f523047d84, 0x32caab7b40c72493, 0x3c9ebe0a15c9bebc, 0x431d67c49c100d4c,
  0x4cc5d4becb3e42b6, 0x597f299cfc657e2a, 0x5fcb6fab3ad6faec, 0x6c44198c4a475817]

def core32 : Core :=
  { wordBytes := 4, modulus := M32, rotr := rotr32, compl := not32,
    S0 := (2, 13, 22), S1 := (6, 11, 25), s0 := (7, 18, 3), s1 := (17, 19, 10),
    K := K256, lenBytes := 8 }

def core64 : Core :=
  { wordBytes := 8, modulus := M64, rotr := rotr64, compl := not64,
    S0 := (28, 34, 39), S1 := (14, 18, 41), s0 := (1, 8, 7), s1 := (19, 61, 6),
    K := K512, lenBytes := 16 }

def maj (x y z : Nat) : Nat := (x &&& y) ^^^ (x &&& z) ^^^ (y &&& z)

namespace Core
variable (c : Core)

def bigSigma (r : Nat × Nat × Nat) (x : Nat) : Nat :=
  c.rotr x r.1 ^^^ c.rotr x r.2.1 ^^^ c.rotr x r.2.2

def smallSigma (r : Nat × Nat × Nat) (x : Nat) : Nat :=
  c.rotr x r.1 ^^^ c.rotr x r.2.1 ^^^ (x >>> r.2.2)

def ch (x y z : Nat) : Nat := (x &&& y) ^^^ (c.compl x &&& z)

/-- message schedule, kept reversed:
    `W_t = σ1(W_{t-2}) + W_{t-7} + σ0(W_{t-15}) + W_{t-16}`. -/
def schedule : Nat → List Nat → List Nat
  | 0, ws => ws
  | n + 1, ws =>
    schedule n ((c.smallSigma c.s1 (ws.getD 1 0) + ws.getD 6 0
                 + c.smallSigma c.s0 (ws.getD 14 0) + ws.getD 15 0) % c.modulus :: ws)

def round (st : List Nat) (kw : Nat × Nat) : List Nat :=
  match st with
  | [a, b, cc, d, e, f, g, h] =>
    let t1 := (h + c.bigSigma c.S1 e + c.ch e f g + kw.1 + kw.2) % c.modulus
    let t2 := (c.bigSigma c.S0 a + maj a b cc) % c.modulus
    [(t1 + t2) % c.modulus, a, b, cc, (d + t1) % c.modulus, e, f, g]
  | _ => st

def block (h : List Nat) (blk : Bytes) : List Nat :=
  let w := (c.schedule (c.K.length - 16) ((chunks c.wordBytes blk).map beNat).reverse).reverse
  let r := (c.K.zip w).foldl c.round h
  List.zipWith (fun x y => (x + y) % c.modulus) h r

/-- the final hash value `H^(N)` as words. -/
def hashWords (iv : List Nat) (m : Bytes) : List Nat :=
  (chunks (16 * c.wordBytes) (pad (16 * c.wordBytes) c.lenBytes m)).foldl c.block iv

/-- the left-most `outBytes` bytes of `H_0 ‖ H_1 ‖ …`. -/
def digest (iv : List Nat) (outBytes : Nat) (m : Bytes) : Bytes :=
  ((c.hashWords iv m).flatMap (toBE c.wordBytes)).take outBytes

end Core

/-! initial hash values, §5.3.2–5.3.6 -/
def iv224 : List Nat :=
  [0xc1059ed8, 0x367cd507, 0x3070dd17, 0xf70e5939, 0xffc00b31, 0x68581511, 0x64f98fa7, 0xbefa4fa4]
def iv256 : List Nat :=
  [0x6a09e667, 0xbb67ae85, 0x3c6ef372, 0xa54ff53a, 0x510e527f, 0x9b05688c, 0x1f83d9ab, 0x5be0cd19]
def iv384 : List Nat :=
  [0xcbbb9d5dc1059ed8, 0x629a292a367cd507, 0x9159015a3070dd17, 0x152fecd8f70e5939,
   0x67332667ffc00b31, 0x8eb44a8768581511, 0xdb0c2e0d64f98fa7, 0x47b5481dbefa4fa4]
def iv512 : List Nat :=
  [0x6a09e667f3bcc908, 0xbb67ae8584caa73b, 0x3c6ef372fe94f82b, 0xa54ff53a5f1d36f1,
   0x510e527fade682d1, 0x9b05688c2b3e6c1f, 0x1f83d9abfb41bd6b, 0x5be0cd19137e2179]
def iv512_224 : List Nat :=
  [0x8c3d37c819544da2, 0x73e1996689dcd4d6, 0x1dfab7ae32ff9c82, 0x679dd514582f9fcf,
   0x0f6d2b697bd44da8, 0x77e36f7304c48942, 0x3f9d85a86a1d36c8, 0x1112e6ad91d692a1]
def iv512_256 : List Nat :=
  [0x22312194fc2bf72c, 0x9f555fa3c84c64c2, 0x2393b86b6f53b151, 0x963877195940eabd,
   0x96283ee2a88effe3, 0xbe5e1e2553863992, 0x2b0199fc2c85b8aa, 0x0eb72ddc81c52ca2]

/-- §5.3.6 "SHA-512/t IV generation function": SHA-512 started from `H^(0) ⊕ a5a5…a5`, applied
    to the ASCII string `SHA-512/t`. (`C27.iv512_224_generated` / `iv512_256_generated` prove that
    the two tables above are what this function yields.) -/
def ivGen (name : Bytes) : List Nat :=
  core64.hashWords (iv512.map (· ^^^ 0xa5a5a5a5a5a5a5a5)) name

def sha224 (m : Bytes) : Bytes := core32.digest iv224 28 m
def sha256 (m : Bytes) : Bytes := core32.digest iv256 32 m
def sha384 (m : Bytes) : Bytes := core64.digest iv384 48 m
def sha512 (m : Bytes) : Bytes := core64.digest iv512 64 m
def sha512_224 (m : Bytes) : Bytes := core64.digest iv512_224 28 m
def sha512_256 (m : Bytes) : Bytes := core64.digest iv512_256 32 m

end Hash.SHA
