/-
  VrlModel.Hash.SHA3 — SHA3-224/256/384/512 as defined in FIPS 202: the permutation
  KECCAK-p[1600, 24] (§3.2–3.4), the sponge construction with pad10*1 (§4, §5.1) and the domain
  separation suffix `01` of the SHA-3 hash functions (§6.1), executable.

  State: 25 lanes of 64 bits, lane `(x, y)` at list index `x + 5*y`; in the byte string view of
  the state (§B.1) lane `i` holds bytes `8i … 8i+7`, least significant first.
-/
import VrlModel.Hash.Basic

namespace Hash.SHA3
open Hash

/-! ### the tables, as they are *defined* by FIPS 202 -/

/-- Algorithm 5 `rc(t)`: one output bit of the LFSR `x^8 + x^6 + x^5 + x^4 + 1`.
    `R` is the list of bits `R[0..7]`. -/
def rcStep (r : List Nat) : List Nat :=
  match r with
  | [r0, r1, r2, r3, r4, r5, r6, r7] =>
    -- R = 0 ‖ R; R[0] ^= R[8]; R[4] ^= R[8]; R[5] ^= R[8]; R[6] ^= R[8]; R = Trunc8[R]
    [r7, r0, r1, r2, r3 ^^^ r7, r4 ^^^ r7, r5 ^^^ r7, r6]
  | _ => r

def rcIter : Nat → List Nat → List Nat
  | 0, r => r
  | n + 1, r => rcIter n (rcStep r)

def rcBit (t : Nat) : Nat := (rcIter (t % 255) [1, 0, 0, 0, 0, 0, 0, 0]).getD 0 0

/-- Algorithm 6 step 2–3: `RC[2^j − 1] = rc(j + 7·ir)` for `j = 0..6`. -/
def rcGen (ir : Nat) : Nat :=
  (List.range 7).foldl (fun acc j => acc ||| (rcBit (j + 7 * ir) <<< (2 ^ j - 1))) 0

/-- Algorithm 2 (ρ): offsets `(t+1)(t+2)/2 mod 64` along the walk `(x,y) ← (y, 2x+3y mod 5)`
    starting at `(1,0)`; entry `x + 5y` of the result is the offset of lane `(x,y)`. -/
def rhoGen : Nat → Nat → Nat → Nat → List Nat → List Nat
  | 0, _, _, _, acc => acc
  | n + 1, t, x, y, acc =>
    rhoGen n (t + 1) y ((2 * x + 3 * y) % 5) (acc.set (x + 5 * y) ((t + 1) * (t + 2) / 2 % 64))

/-! ### the same tables as literals (used by the executable; `C27.keccak_rc_generated` and
    `C27.keccak_rho_generated` prove them equal to the definitions above) -/

def RC : List Nat := [
  0x0000000000000001, 0x0000000000008082, 0x800000000000808a, 0x8000000080008000,
  0x000000000000808b, 0x0000000080000001, 0x8000000080008081, 0x8000000000008009,
  0x000000000000008a, 0x0000000000000088, 0x0000000080008009, 0x000000008000000a,
  0x000000008000808b, 0x800000000000008b, 0x8000000000008089, 0x8000000000008003,
  0x8000000000008002, 0x8000000000000080, 0x000000000000800a, 0x800000008000000a,
  0x8000000080008081, 0x8000000000008080, 0x0000000080000001, 0x8000000080008008]

def RHO : List Nat := [
  0, 1, 62, 28, 27,
  36, 44, 6, 55, 20,
  3, 10, 43, 25, 39,
  41, 45, 15, 21, 8,
  18, 2, 61, 56, 14]

/-! ### the step mappings -/

def lane (a : List Nat) (x y : Nat) : Nat := a.getD (x % 5 + 5 * (y % 5)) 0

/-- all 25 positions in index order `x + 5y`. -/
def positions : List (Nat × Nat) :=
  (List.range 25).map fun i => (i % 5, i / 5)

/-- θ: `C[x] = ⊕_y A[x,y]`, `D[x] = C[x−1] ⊕ ROT(C[x+1], 1)`, `A'[x,y] = A[x,y] ⊕ D[x]`. -/
def theta (a : List Nat) : List Nat :=
  let c := (List.range 5).map fun x =>
    lane a x 0 ^^^ lane a x 1 ^^^ lane a x 2 ^^^ lane a x 3 ^^^ lane a x 4
  let d := (List.range 5).map fun x => c.getD ((x + 4) % 5) 0 ^^^ rotl64 (c.getD ((x + 1) % 5) 0) 1
  positions.map fun (x, y) => lane a x y ^^^ d.getD x 0

/-- ρ: rotate every lane by its offset. -/
def rho (a : List Nat) : List Nat :=
  List.zipWith (fun l r => rotl64 l r) a RHO

/-- π: `A'[x,y] = A[(x + 3y) mod 5, x]`. -/
def pi (a : List Nat) : List Nat :=
  positions.map fun (x, y) => lane a (x + 3 * y) x

/-- χ: `A'[x,y] = A[x,y] ⊕ (¬A[x+1,y] ∧ A[x+2,y])`. -/
def chi (a : List Nat) : List Nat :=
  positions.map fun (x, y) => lane a x y ^^^ (not64 (lane a (x + 1) y) &&& lane a (x + 2) y)

/-- ι: `A'[0,0] = A[0,0] ⊕ RC[ir]`. -/
def iota (rc : Nat) (a : List Nat) : List Nat :=
  match a with
  | [] => []
  | l :: ls => (l ^^^ rc) :: ls

def round (a : List Nat) (rc : Nat) : List Nat := iota rc (chi (pi (rho (theta a))))

/-- KECCAK-f[1600] = KECCAK-p[1600, 24]. -/
def keccakF (a : List Nat) : List Nat := RC.foldl round a

/-! ### sponge -/

/-- `M ‖ 01 ‖ pad10*1(r, |M|+2)` in bytes (bits are numbered from the least significant bit of
    each byte): suffix bits `0,1` then `1 0* 1` give `0x06 … 0x80`, or `0x86` when they share a byte. -/
def pad (rate : Nat) (m : Bytes) : Bytes :=
  let q := rate - m.length % rate
  if q = 1 then m ++ [0x86] else m ++ 0x06 :: List.replicate (q - 2) 0 ++ [0x80]

/-- xor one `rate`-byte block into the state and permute. -/
def absorb (a : List Nat) (blk : Bytes) : List Nat :=
  let ls := (chunks 8 blk).map leNat
  keccakF (List.zipWith (· ^^^ ·) a (ls ++ List.replicate (25 - ls.length) 0))

/-- SHA3-d for a digest of `out` bytes: capacity `2·out` bytes, rate `200 − 2·out`; the digest
    is the first `out` bytes of the state (always `out ≤ rate` here). -/
def sha3 (out : Nat) (m : Bytes) : Bytes :=
  let rate := 200 - 2 * out
  let a := (chunks rate (pad rate m)).foldl absorb (List.replicate 25 0)
  (a.flatMap (toLE 8)).take out

def sha3_224 (m : Bytes) : Bytes := sha3 28 m
def sha3_256 (m : Bytes) : Bytes := sha3 32 m
def sha3_384 (m : Bytes) : Bytes := sha3 48 m
def sha3_512 (m : Bytes) : Bytes := sha3 64 m

end Hash.SHA3
