/-
  VrlModel.Hash.SHA3 — SHA3-224/256/384/512 as defined in FIPS 202: the permutation
  KECCAK-p[1600, 24] (§3.2–3.4), the sponge construction with pad10*1 (§4, §5.1) and the domain
  separation suffix `01` of the SHA-3 hash functions (§6.1), executable.

  State: the 1600-bit string as one `Nat` (bit `i` of the number = `S[i]`), lanes are 64-bit
  slices; see "the step mappings" below.
-/
import VrlModel.Hash.Basic

namespace Hash.SHA3
open Hash

/-! ### the tables, as they are *defined* by FIPS 202 -/

/-- Algorithm 5 `rc(t)`: one output bit of the LFSR `x^8 + x^6 + x^5 + x^4 + 1`.
    `R` is the list of bits `R[0..7]`. -/
def rcStep (r : List Nat) : List Nat :=
  match r with
  | [r0, r1, r2, r3, r4, r5, r6, r7] =>
    -- R = 0 ‖ R; R[0] ^= R[8]; R[4] ^= R[8]; R[5] ^= R[8]; R[6] ^= R[8]; R = Trunc8[R]
    [r7, r0, r1, r2, r3 ^^^ r7, r4 ^^^ r7, r5 ^^^ r7, r6]
  | _ => r

def rcIter : Nat → List Nat → List Nat
  | 0, r => r
  | n + 1, r => rcIter n (rcStep r)

def rcBit (t : Nat) : Nat := (rcIter (t % 255) [1, 0, 0, 0, 0, 0, 0, 0]).getD 0 0

/-- Algorithm 6 step 2–3: `RC[2^j − 1] = rc(j + 7·ir)` for `j = 0..6`. -/
def rcGen (ir : Nat) : Nat :=
  (List.range 7).foldl (fun acc j => acc ||| (rcBit (j + 7 * ir) <<< (2 ^ j - 1))) 0

/-- Algorithm 2 (ρ): offsets `(t+1)(t+2)/2 mod 64` along the walk `(x,y) ← (y, 2x+3y mod 5)`
    starting at `(1,0)`; entry `x + 5y` of the result is the offset of lane `(x,y)`. -/
def rhoGen : Nat → Nat → Nat → Nat → List Nat → List Nat
  | 0, _, _, _, acc => acc
  | n + 1, t, x, y, acc =>
    rhoGen n (t + 1) y ((2 * x + 3 * y) % 5) (acc.set (x + 5 * y) ((t + 1) * (t + 2) / 2 % 64))

/-! ### the same tables as literals (used by the executable; `C27.keccak_rc_generated` and
    `C27.keccak_rho_generated` prove them equal to the definitions above) -/

def RC : List Nat := [
  0x0000000000000001, 0x0000000000008082, 0x800000000000808a, 0x8000000080008000,
  0x000000000000808b, 0x0000000080000001, 0x8000000080008081, 0x8000000000008009,
  0x000000000000008a, 0x0000000000000088, 0x0000000080008009, 0x000000008000000a,
  0x000000008000808b, 0x800000000000008b, 0x8000000000008089, 0x8000000000008003,
  0x8000000000008002, 0x8000000000000080, 0x000000000000800a, 0x800000008000000a,
  0x8000000080008081, 0x8000000000008080, 0x0000000080000001, 0x8000000080008008]

def RHO : List Nat := [
  0, 1, 62, 28, 27,
  36, 44, 6, 55, 20,
  3, 10, 43, 25, 39,
  41, 45, 15, 21, 8,
  18, 2, 61, 56, 14]

/-! ### the step mappings

  The state is the 1600-bit string `S` of FIPS 202 §3.1, held as one `Nat` whose bit `i` is `S[i]`
  (so the byte string view of §B.1 is the little-endian byte representation of the number), and
  `A[x, y, z] = S[64·(5y + x) + z]` (§3.1.2): lane `(x, y)` is the 64-bit slice at bit offset
  `64·(5y + x)`. -/

def lane (s : Nat) (x y : Nat) : Nat := (s >>> (64 * (x % 5 + 5 * (y % 5)))) % M64

/-- all 25 positions `(x, y)`. -/
def positions : List (Nat × Nat) :=
  (List.range 25).map fun i => (i % 5, i / 5)

/-- the state whose lane `(x, y)` is `f x y` (each `< 2^64`). -/
def build (f : Nat → Nat → Nat) : Nat :=
  positions.foldl (fun acc p => acc ||| (f p.1 p.2 <<< (64 * (p.1 + 5 * p.2)))) 0

/-- θ: `C[x] = ⊕_y A[x,y]`, `D[x] = C[x−1] ⊕ ROT(C[x+1], 1)`, `A'[x,y] = A[x,y] ⊕ D[x]`. -/
def theta (s : Nat) : Nat :=
  let c := (List.range 5).map fun x =>
    lane s x 0 ^^^ lane s x 1 ^^^ lane s x 2 ^^^ lane s x 3 ^^^ lane s x 4
  let d := (List.range 5).map fun x => c.getD ((x + 4) % 5) 0 ^^^ rotl64 (c.getD ((x + 1) % 5) 0) 1
  build fun x y => lane s x y ^^^ d.getD x 0

/-- ρ: rotate every lane by its offset. -/
def rho (s : Nat) : Nat :=
  build fun x y => rotl64 (lane s x y) (RHO.getD (x + 5 * y) 0)

/-- π: `A'[x,y] = A[(x + 3y) mod 5, x]`. -/
def pi (s : Nat) : Nat :=
  build fun x y => lane s (x + 3 * y) x

/-- χ: `A'[x,y] = A[x,y] ⊕ (¬A[x+1,y] ∧ A[x+2,y])`. -/
def chi (s : Nat) : Nat :=
  build fun x y => lane s x y ^^^ (not64 (lane s (x + 1) y) &&& lane s (x + 2) y)

/-- ι: `A'[0,0] = A[0,0] ⊕ RC[ir]` (lane (0,0) is the low 64 bits). -/
def iota (rc : Nat) (s : Nat) : Nat := s ^^^ rc

def round (s : Nat) (rc : Nat) : Nat := iota rc (chi (pi (rho (theta s))))

/-- KECCAK-f[1600] = KECCAK-p[1600, 24]. -/
def keccakF (s : Nat) : Nat := RC.foldl round s

/-! ### sponge -/

/-- `M ‖ 01 ‖ pad10*1(r, |M|+2)` in bytes (bits are numbered from the least significant bit of
    each byte): suffix bits `0,1` then `1 0* 1` give `0x06 … 0x80`, or `0x86` when they share a byte. -/
def pad (rate : Nat) (m : Bytes) : Bytes :=
  let q := rate - m.length % rate
  if q = 1 then m ++ [0x86] else m ++ 0x06 :: List.replicate (q - 2) 0 ++ [0x80]

/-- xor one `rate`-byte block (`P_i ‖ 0^c`) into the state and permute. -/
def absorb (s : Nat) (blk : Bytes) : Nat := keccakF (s ^^^ leNat blk)

/-- SHA3-d for a digest of `out` bytes: capacity `2·out` bytes, rate `200 − 2·out`; the digest
    is the first `out` bytes of the state (always `out ≤ rate` here). -/
def sha3 (out : Nat) (m : Bytes) : Bytes :=
  let rate := 200 - 2 * out
  toLE out ((chunks rate (pad rate m)).foldl absorb 0)

def sha3_224 (m : Bytes) : Bytes := sha3 28 m
def sha3_256 (m : Bytes) : Bytes := sha3 32 m
def sha3_384 (m : Bytes) : Bytes := sha3 48 m
def sha3_512 (m : Bytes) : Bytes := sha3 64 m

end Hash.SHA3
