/-
  VrlModel.C11 — Spec of property C11: what the documented numeric semantics demands of
  `+ - * / mod` for the operand pairs the property speaks about, written independently of the
  code-shaped model (`Arith`): integers through `BitVec 64`, strings through `List` operations,
  floats through the IEEE operations of `F64`.  Used by VrlProofs/Props/C11.lean and by `o.c11`.
-/
import VrlModel.Arith

namespace C11
open Arith

inductive Op5 where | add | sub | mul | div | mod
  deriving DecidableEq, Repr

def bv (i : Int) : BitVec 64 := BitVec.ofInt 64 i

/-- the model's result for one of the five operators -/
def model : Op5 → Value → Value → Res Value
  | .add => tryAdd
  | .sub => trySub
  | .mul => tryMul
  | .div => tryDiv
  | .mod => tryRem

/-- a float result is never NaN: NaN-producing operations fail with `NanFloat`. -/
def ofFloat : Option Nat → Res Value
  | none => .err .nanFloat
  | some b => if F64.isNaN b then .err .nanFloat else .ok (.float b)

def f64op : Op5 → Nat → Nat → Option Nat
  | .add => F64.add
  | .sub => F64.sub
  | .mul => F64.mul
  | .div => F64.div
  | .mod => F64.rem

/-- float ⊙ float; `/` and `mod` fail on a zero divisor (of either sign). -/
def floatSpec (op : Op5) (a b : Nat) : Res Value :=
  if (op = .div ∨ op = .mod) ∧ F64.isZero b then .err .divideByZero else ofFloat (f64op op a b)

/-- `s` repeated `max n 0` times.  (Equal to `(List.replicate (max n 0).toNat s).flatten` for every
    `s` — theorem `C11.replicateBytes_eq`; the empty string is answered first only to keep the
    oracle executable for huge `n`.) -/
def replicateBytes (s : List Nat) (n : Int) : List Nat :=
  if s.isEmpty then [] else (List.replicate (max n 0).toNat s).flatten

/-- The documented semantics; `none` where the property is silent (other operand types). -/
def expected : Op5 → Value → Value → Option (Res Value)
  -- integers: 64-bit two's-complement wrapping
  | .add, .int a, .int b => some (.ok (.int (bv a + bv b).toInt))
  | .sub, .int a, .int b => some (.ok (.int (bv a - bv b).toInt))
  | .mul, .int a, .int b => some (.ok (.int (bv a * bv b).toInt))
  -- `/` always yields a float and fails when the divisor is zero
  | .div, .int a, .int b =>
    some (if b = 0 then .err .divideByZero else floatSpec .div (F64.ofInt a) (F64.ofInt b))
  -- remainder: truncated (sign of the dividend), fails on zero
  | .mod, .int a, .int b => some (if b = 0 then .err .divideByZero else .ok (.int (Int.tmod a b)))
  -- floats
  | op, .float a, .float b => some (floatSpec op a b)
  -- mixing an integer and a float = the float operation on the converted integer
  | op, .int a, .float b => some (floatSpec op (F64.ofInt a) b)
  | op, .float a, .int b => some (floatSpec op a (F64.ofInt b))
  -- strings
  | .add, .bytes a, .bytes b => some (.ok (.bytes (a ++ b)))
  | .add, .bytes a, .null => some (.ok (.bytes (a ++ [])))
  | .add, .null, .bytes b => some (.ok (.bytes ([] ++ b)))
  | .mul, .bytes s, .int n => some (.ok (.bytes (replicateBytes s n)))
  | .mul, .int n, .bytes s => some (.ok (.bytes (replicateBytes s n)))
  | _, _, _ => none

/-- Finding class: a repeat whose result would exceed `isize::MAX` bytes (`[u8]::repeat` panics). -/
def D_capacity (s : List Nat) (n : Int) : Bool := decide ((9223372036854775807 : Int) < (s.length : Int) * max n 0)

def D_capacityV : Value → Value → Bool
  | .bytes s, .int n => D_capacity s n
  | .int n, .bytes s => D_capacity s n
  | _, _ => false

def notNaNRes : Res Value → Bool
  | .ok (.float b) => !F64.isNaN b
  | _ => true

def opName : Op5 → String
  | .add => "add" | .sub => "sub" | .mul => "mul" | .div => "div" | .mod => "mod"

def isMixed : Value → Value → Bool
  | .int _, .float _ => true
  | .float _, .int _ => true
  | _, _ => false

/-- one operator of the oracle: observation `r` for `a ⊙ b`, and (mixed pairs) `rc` observed on the
    pair with the integer converted by the hardware. -/
def checkOp (op : Op5) (a b : Value) (r : Res Value) (rc : Option (Res Value)) : Option String :=
  if !notNaNRes r then some ("never_nan_" ++ opName op ++ ":-")
  else if op = .mul ∧ D_capacityV a b then
    -- the demanded result is larger than any Rust allocation: nothing the code answers can satisfy
    -- the property; the panic of `[u8]::repeat` is the listed class
    (if r = .panic then some "repeat:D_capacity_overflow" else some "mul:-")
  else
    match expected op a b with
    | some e =>
      if r = e then
        (match rc with
         | some rc => if isMixed a b && rc ≠ r then some ("mixed_" ++ opName op ++ ":-") else none
         | none => none)
      else some (opName op ++ ":-")
    | none => if r = .panic then some ("panic_" ++ opName op ++ ":-") else none

def ops5 : List Op5 := [.add, .sub, .mul, .div, .mod]

/-- The oracle: first failing clause over the five operators (`none` entries = not observed). -/
def check (a b : Value) (rs : List (Option (Res Value))) (rcs : List (Option (Res Value))) : Option String :=
  let rec go : List Op5 → List (Option (Res Value)) → List (Option (Res Value)) → Option String
    | op :: ops, r :: rs, rc :: rcs =>
      (match r with
       | some r => checkOp op a b r rc
       | none => none) <|> go ops rs rcs
    | _, _, _ => none
  go ops5 rs rcs

end C11
