/-
  VrlModel.ProtoWire — text form of descriptor pools and abstract wire values for the line protocol
  (mirrored by harness/src/c26.rs).

    pool  := P <#msgs> <#enums> msg* enum*
    msg   := m <0|1 isTimestamp> <#fields> field*
    field := f n:<hex name> <number> kind card
    kind  := s:<scalar> | e:<enum index> | m:<message index>
    card  := sing | opt | rep | map:<scalar>
    enum  := e <default number> <#values> (n:<hex name> <number>)*

    pv    := B:t | B:f | i32:<dec> | i64:<dec> | u32:<dec> | u64:<dec> | f32:<8 hex> | f64:<16 hex>
           | s:<hex> | y:<hex> | en:<dec> | M <ref> { (<number> pv)* } | L [ pv* ] | P ( (key pv)* )
    key   := kb:t | kb:f | ki32:<dec> | ki64:<dec> | ku32:<dec> | ku64:<dec> | ks:<hex>

  Shown values are canonical: message fields by number, map entries by key token.
-/
import VrlModel.Wire
import VrlModel.Proto

namespace ProtoWire
open Proto Wire

def scalarOfString : String → Option Scalar
  | "double" => some .double | "float" => some .float
  | "int32" => some .int32 | "int64" => some .int64
  | "uint32" => some .uint32 | "uint64" => some .uint64
  | "sint32" => some .sint32 | "sint64" => some .sint64
  | "fixed32" => some .fixed32 | "fixed64" => some .fixed64
  | "sfixed32" => some .sfixed32 | "sfixed64" => some .sfixed64
  | "bool" => some .bool | "string" => some .string | "bytes" => some .bytes
  | _ => none

def natOf (s : String) : Option Nat := s.toNat?

def kindOfString (t : String) : Option Kind :=
  if t.startsWith "s:" then (scalarOfString (dropPrefix t 2)).map .scalar
  else if t.startsWith "e:" then (natOf (dropPrefix t 2)).map .enum
  else if t.startsWith "m:" then (natOf (dropPrefix t 2)).map .message
  else none

def cardOfString (t : String) : Option Card :=
  if t == "sing" then some .singular
  else if t == "opt" then some .optional
  else if t == "rep" then some .repeated
  else if t.startsWith "map:" then (scalarOfString (dropPrefix t 4)).map .map
  else none

def nameOf (t : String) : Option (List Nat) :=
  if t.startsWith "n:" then bytesOfHex (dropPrefix t 2) else none

partial def parseFields : Nat → List String → Option (List Field × List String)
  | 0, r => some ([], r)
  | n + 1, "f" :: nm :: num :: k :: c :: r => do
    let f : Field := { name := ← nameOf nm, number := ← natOf num, kind := ← kindOfString k, card := ← cardOfString c }
    let (fs, r') ← parseFields n r
    pure (f :: fs, r')
  | _, _ => none

partial def parseMsgs : Nat → List String → Option (List MsgDesc × List String)
  | 0, r => some ([], r)
  | n + 1, "m" :: ts :: nf :: r => do
    let (fs, r1) ← parseFields (← natOf nf) r
    let (ms, r2) ← parseMsgs n r1
    pure ({ fields := fs, isTimestamp := ts == "1" } :: ms, r2)
  | _, _ => none

partial def parseEnumValues : Nat → List String → Option (List (List Nat × Int) × List String)
  | 0, r => some ([], r)
  | n + 1, nm :: num :: r => do
    let (vs, r') ← parseEnumValues n r
    pure ((← nameOf nm, ← parseInt num) :: vs, r')
  | _, _ => none

partial def parseEnums : Nat → List String → Option (List EnumDesc × List String)
  | 0, r => some ([], r)
  | n + 1, "e" :: d :: nv :: r => do
    let (vs, r1) ← parseEnumValues (← natOf nv) r
    let (es, r2) ← parseEnums n r1
    pure ({ values := vs, dflt := ← parseInt d } :: es, r2)
  | _, _ => none

def poolOfString (s : String) : Option Pool :=
  match tokens s with
  | "P" :: nm :: ne :: r => do
    let (ms, r1) ← parseMsgs (← natOf nm) r
    let (es, r2) ← parseEnums (← natOf ne) r1
    if r2.isEmpty then pure { msgs := ms, enums := es } else none
  | _ => none

/-! abstract wire values -/

def hex8 (n : Nat) : String :=
  String.ofList ((List.range 8).reverse.map fun k => hexDigit (n / 16 ^ k % 16))

def showKey : MapKey → String
  | .bool b => if b then "kb:t" else "kb:f"
  | .i32 i => "ki32:" ++ toString i
  | .i64 i => "ki64:" ++ toString i
  | .u32 i => "ku32:" ++ toString i
  | .u64 i => "ku64:" ++ toString i
  | .str s => "ks:" ++ hexOfBytes s

def insertSorted {α : Type} (lt : α → α → Bool) (x : α) : List α → List α
  | [] => [x]
  | y :: ys => if lt x y then x :: y :: ys else y :: insertSorted lt x ys

def sortBy {α : Type} (lt : α → α → Bool) (xs : List α) : List α := xs.foldl (fun acc x => insertSorted lt x acc) []

mutual
  partial def showPV : PValue → String
    | .bool b => if b then "B:t" else "B:f"
    | .i32 i => "i32:" ++ toString i
    | .i64 i => "i64:" ++ toString i
    | .u32 i => "u32:" ++ toString i
    | .u64 i => "u64:" ++ toString i
    | .f32 b => "f32:" ++ hex8 b
    | .f64 b => "f64:" ++ hex16 b
    | .string s => "s:" ++ hexOfBytes s
    | .bytes b => "y:" ++ hexOfBytes b
    | .enumNumber n => "en:" ++ toString n
    | .message r fs =>
      let items := sortBy (fun (a b : Nat × String) => a.1 < b.1) (fieldItems fs)
      "M " ++ toString r ++ " {" ++ String.join (items.map fun p => " " ++ toString p.1 ++ " " ++ p.2) ++ " }"
    | .list xs => "L [" ++ String.join ((listItems xs).map fun s => " " ++ s) ++ " ]"
    | .map es =>
      let items := sortBy (fun (a b : String × String) => a.1 < b.1) (mapItems es)
      "P (" ++ String.join (items.map fun p => " " ++ p.1 ++ " " ++ p.2) ++ " )"
  partial def fieldItems : PFields → List (Nat × String)
    | .nil => []
    | .cons n v rest => (n, showPV v) :: fieldItems rest
  partial def listItems : PList → List String
    | .nil => []
    | .cons v vs => showPV v :: listItems vs
  partial def mapItems : PMap → List (String × String)
    | .nil => []
    | .cons k v rest => (showKey k, showPV v) :: mapItems rest
end

def keyOfString (t : String) : Option MapKey :=
  if t == "kb:t" then some (.bool true)
  else if t == "kb:f" then some (.bool false)
  else if t.startsWith "ki32:" then (parseInt (dropPrefix t 5)).map .i32
  else if t.startsWith "ki64:" then (parseInt (dropPrefix t 5)).map .i64
  else if t.startsWith "ku32:" then (parseInt (dropPrefix t 5)).map .u32
  else if t.startsWith "ku64:" then (parseInt (dropPrefix t 5)).map .u64
  else if t.startsWith "ks:" then (bytesOfHex (dropPrefix t 3)).map .str
  else none

mutual
  partial def parsePV : List String → Option (PValue × List String)
    | [] => none
    | "M" :: r :: "{" :: rest => do
      let (fs, r') ← parsePFields rest
      pure (.message (← natOf r) fs, r')
    | "L" :: "[" :: rest => (parsePList rest).map fun (xs, r) => (.list xs, r)
    | "P" :: "(" :: rest => (parsePMap rest).map fun (es, r) => (.map es, r)
    | tok :: rest =>
      if tok == "B:t" then some (.bool true, rest)
      else if tok == "B:f" then some (.bool false, rest)
      else if tok.startsWith "i32:" then (parseInt (dropPrefix tok 4)).map fun i => (.i32 i, rest)
      else if tok.startsWith "i64:" then (parseInt (dropPrefix tok 4)).map fun i => (.i64 i, rest)
      else if tok.startsWith "u32:" then (parseInt (dropPrefix tok 4)).map fun i => (.u32 i, rest)
      else if tok.startsWith "u64:" then (parseInt (dropPrefix tok 4)).map fun i => (.u64 i, rest)
      else if tok.startsWith "f32:" then (natOfHexChars (tok.toList.drop 4)).map fun n => (.f32 n, rest)
      else if tok.startsWith "f64:" then (natOfHexChars (tok.toList.drop 4)).map fun n => (.f64 n, rest)
      else if tok.startsWith "s:" then (bytesOfHex (dropPrefix tok 2)).map fun b => (.string b, rest)
      else if tok.startsWith "y:" then (bytesOfHex (dropPrefix tok 2)).map fun b => (.bytes b, rest)
      else if tok.startsWith "en:" then (parseInt (dropPrefix tok 3)).map fun i => (.enumNumber i, rest)
      else none
  partial def parsePFields : List String → Option (PFields × List String)
    | [] => none
    | tok :: rest =>
      if tok == "}" then some (.nil, rest)
      else do
        let n ← natOf tok
        let (v, r) ← parsePV rest
        let (fs, r') ← parsePFields r
        pure (.cons n v fs, r')
  partial def parsePList : List String → Option (PList × List String)
    | [] => none
    | tok :: rest =>
      if tok == "]" then some (.nil, rest)
      else do
        let (v, r) ← parsePV (tok :: rest)
        let (vs, r') ← parsePList r
        pure (.cons v vs, r')
  partial def parsePMap : List String → Option (PMap × List String)
    | [] => none
    | tok :: rest =>
      if tok == ")" then some (.nil, rest)
      else do
        let k ← keyOfString tok
        let (v, r) ← parsePV rest
        let (es, r') ← parsePMap r
        pure (.cons k v es, r')
end

def pvOfString (s : String) : Option PValue :=
  match parsePV (tokens s) with
  | some (v, []) => some v
  | _ => none

end ProtoWire
