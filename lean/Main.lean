import VrlModel.Driver.C18
import VrlModel.Driver.Lang
import VrlModel.Driver.Arith
import VrlModel.Driver.Search

/-- Line protocol driver: one case per line `op <tab> arg…`, one reply line per case. -/
def handlers : List (String → List String → Option String) := [
  Driver.C18.handle,
  Driver.LangRun.handle,
  Driver.ArithOps.handle,
  Driver.SearchOps.handle
]

def dispatch (op : String) (args : List String) : String :=
  match handlers.findSome? (fun h => h op args) with
  | some s => s
  | none => "bad-op"

partial def loop (h : IO.FS.Stream) (out : IO.FS.Stream) : IO Unit := do
  let line ← h.getLine
  if line.isEmpty then return ()
  let line := if line.endsWith "\n" then (line.dropEnd 1).toString else line
  match line.splitOn "\t" with
  | [] => out.putStrLn "bad-op"
  | op :: args => out.putStrLn (dispatch op args)
  loop h out

def main : IO Unit := do
  let stdin ← IO.getStdin
  let stdout ← IO.getStdout
  loop stdin stdout
