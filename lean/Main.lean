import VrlModel.Driver.C18
import VrlModel.Driver.Lang
import VrlModel.Driver.C15
import VrlModel.Driver.Sweep
import VrlModel.Driver.Typed
import VrlModel.Driver.Arith
import VrlModel.Driver.C25
import VrlModel.Driver.C29int
import VrlModel.Driver.C20
import VrlModel.Driver.C22
import VrlModel.Driver.C23
import VrlModel.Driver.C24
import VrlModel.Driver.C35
import VrlModel.Driver.C36
import VrlModel.Driver.C27
import VrlModel.Driver.C26
import VrlModel.Driver.C28
import VrlModel.Driver.C29f
import VrlModel.Driver.C21
import VrlModel.Driver.C19
import VrlModel.Driver.C32
import VrlModel.Driver.C33
import VrlModel.Driver.C34
import VrlModel.Driver.C03
import VrlModel.Driver.C08d
import VrlModel.Driver.C03Decl
import VrlModel.Driver.Search
import VrlModel.Driver.TypeInfo

/-- Line protocol driver: one case per line `op <tab> arg…`, one reply line per case. -/
def handlers : List (String → List String → Option String) := [
  Driver.C18.handle,
  Driver.LangRun.handle,
  Driver.C15.handle,
  Driver.Sweep.handle,
  Driver.Typed.handle,
  Driver.ArithOps.handle,
  Driver.C25.handle,
  Driver.C29int.handle,
  Driver.C20.handle,
  Driver.C22.handle,
  Driver.C23.handle,
  Driver.C24.handle,
  Driver.C35.handle,
  Driver.C36.handle,
  Driver.C27.handle,
  Driver.C26.handle,
  Driver.C28.handle,
  Driver.C29f.handle,
  Driver.C21.handle,
  Driver.C19.handle,
  Driver.C32.handle,
  Driver.C33.handle,
  Driver.C34.handle,
  Driver.C03.handle,
  Driver.C08d.handle,
  Driver.C03Decl.handle,
  Driver.SearchOps.handle,
  Driver.TypeInfo.handle
]

def dispatch (op : String) (args : List String) : String :=
  match handlers.findSome? (fun h => h op args) with
  | some s => s
  | none => "bad-op"

partial def loop (h : IO.FS.Stream) (out : IO.FS.Stream) : IO Unit := do
  let line ← h.getLine
  if line.isEmpty then return ()
  let line := if line.endsWith "\n" then (line.dropEnd 1).toString else line
  match line.splitOn "\t" with
  | [] => out.putStrLn "bad-op"
  | op :: args => out.putStrLn (dispatch op args)
  loop h out

def main : IO Unit := do
  let stdin ← IO.getStdin
  let stdout ← IO.getStdout
  loop stdin stdout
