import VrlModel.Spans
namespace Spans

def Chain (src : List Nat) : Nat → List (Nat × Nat) → Prop
  | lo, [] => lo = src.length
  | lo, (p, c) :: rest =>
    p = lo ∧ isCharBoundary src p = true ∧ ∃ w, 1 ≤ w ∧ (c < 128 → w = 1) ∧ Chain src (p + w) rest

theorem boundary_len (src : List Nat) : isCharBoundary src src.length = true := by
  unfold isCharBoundary
  cases h : src.length with
  | zero => rfl
  | succ n =>
    have : src[n + 1]? = none := by
      apply List.getElem?_eq_none_iff.mpr; omega
    simp [this]

/-- what a chain starting at `lo` says about `lo` itself -/
theorem chain_start {src : List Nat} {lo : Nat} {cs : List (Nat × Nat)} (h : Chain src lo cs) :
    lo ≤ src.length ∧ isCharBoundary src lo = true ∧ nextIndex src.length cs = lo := by
  induction cs generalizing lo with
  | nil => simp only [Chain] at h; subst h; exact ⟨Nat.le_refl _, boundary_len src, rfl⟩
  | cons x rest ih =>
    obtain ⟨p, c⟩ := x
    simp only [Chain] at h
    obtain ⟨hp, hb, w, hw, _, hr⟩ := h
    subst hp
    have := ih hr
    exact ⟨by omega, hb, rfl⟩

/-- a pending backslash at `bs`: one-byte character on boundaries, before the unread input -/
def StB (src : List Nat) (lo : Nat) : StrSt → Prop
  | .normal => True
  | .esc bs => isCharBoundary src bs = true ∧ isCharBoundary src (bs + 1) = true ∧ bs + 1 ≤ lo
  | .uni bs => isCharBoundary src bs = true ∧ isCharBoundary src (bs + 1) = true ∧ bs + 1 ≤ lo
  | .hex bs _ _ => isCharBoundary src bs = true ∧ isCharBoundary src (bs + 1) = true ∧ bs + 1 ≤ lo

def charSpanClass : LexErr → Bool
  | .escapeChar _ (some c) => decide (128 ≤ c)
  | _ => false

theorem scanString_label_wf (src : List Nat) (start : Nat)
    (hs0 : isCharBoundary src start = true) (hs1 : isCharBoundary src (start + 1) = true)
    (hs2 : start + 1 ≤ src.length) :
    ∀ (cs : List (Nat × Nat)) (st : StrSt) (lo : Nat) (e : LexErr),
    Chain src lo cs → StB src lo st → scanString src.length start st cs = .error e →
    charSpanClass e = false → WF src e.label := by
  intro cs
  induction cs with
  | nil =>
    intro st lo e hc hst h hcl
    have hl := chain_start hc
    cases st <;> simp [scanString] at h <;> subst h <;> simp only [StB] at hst <;>
      simp only [LexErr.label, WF] <;> (first | exact ⟨by omega, by omega, hs0, hs1⟩ | exact ⟨by omega, by omega, hst.1, hst.2.1⟩)
  | cons x rest ih =>
    intro st lo e hc hst h hcl
    obtain ⟨p, c⟩ := x
    simp only [Chain] at hc
    obtain ⟨hp, hb, w, hw, hw1, hr⟩ := hc
    subst hp
    have hn := chain_start hr
    cases st with
    | normal =>
      simp only [scanString] at h
      split at h
      · cases h
      · split at h
        · rename_i hc92
          have : w = 1 := hw1 (by omega)
          subst this
          exact ih _ _ _ hr (by simp only [StB]; exact ⟨hb, hn.2.1, Nat.le_refl _⟩) h hcl
        · exact ih _ _ _ hr (by simp [StB]) h hcl
    | esc bs =>
      simp only [scanString] at h
      simp only [StB] at hst
      split at h
      · exact ih _ _ _ hr (by simp [StB]) h hcl
      · split at h
        · exact ih _ _ _ hr (by simp only [StB]; exact ⟨hst.1, hst.2.1, by omega⟩) h hcl
        · cases h
          simp only [charSpanClass, decide_eq_false_iff_not, Nat.not_le] at hcl
          have : w = 1 := hw1 hcl
          subst this
          exact ⟨by simp [LexErr.label], by simp only [LexErr.label]; omega, hb, hn.2.1⟩
    | uni bs =>
      simp only [scanString] at h
      simp only [StB] at hst
      split at h
      · exact ih _ _ _ hr (by simp only [StB]; exact ⟨hst.1, hst.2.1, by omega⟩) h hcl
      · cases h
        simp only [charSpanClass, decide_eq_false_iff_not, Nat.not_le] at hcl
        have : w = 1 := hw1 hcl
        subst this
        exact ⟨by simp [LexErr.label], by simp only [LexErr.label]; omega, hb, hn.2.1⟩
    | hex bs n v =>
      simp only [scanString] at h
      simp only [StB] at hst
      split at h
      · split at h
        · cases h
          refine ⟨?_, ?_, hst.1, ?_⟩ <;> simp only [LexErr.label] <;> rw [hn.2.2]
          · omega
          · exact hn.1
          · exact hn.2.1
        · split at h
          · exact ih _ _ _ hr (by simp [StB]) h hcl
          · cases h
            refine ⟨?_, ?_, hst.1, ?_⟩ <;> simp only [LexErr.label] <;> rw [hn.2.2]
            · omega
            · exact hn.1
            · exact hn.2.1
      · split at h
        · exact ih _ _ _ hr (by simp only [StB]; exact ⟨hst.1, hst.2.1, by omega⟩) h hcl
        · cases h
          simp only [charSpanClass, decide_eq_false_iff_not, Nat.not_le] at hcl
          have : w = 1 := hw1 hcl
          subst this
          exact ⟨by simp [LexErr.label], by simp only [LexErr.label]; omega, hb, hn.2.1⟩

end Spans
