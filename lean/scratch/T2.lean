import VrlModel.Spans
namespace Spans

theorem boundary_of_ascii {src : List Nat} {i b : Nat} (h : src[i]? = some b) (hb : b < 128) :
    isCharBoundary src i = true := by
  unfold isCharBoundary
  cases i with
  | zero => rfl
  | succ n =>
    simp only [h]
    simp [isCont]; omega

theorem getElem?_of_take_drop {src c : List Nat} {a : Nat}
    (h : (src.drop a).take c.length = c) (j : Nat) (hj : j < c.length) :
    src[a + j]? = c[j]? := by
  have h2 : c[j]? = ((src.drop a).take c.length)[j]? := by rw [h]
  rw [h2, List.getElem?_take]
  simp [hj, List.getElem?_drop]

theorem fitsB_le (segs : List Seg) : ∀ (start stop : Nat), fitsB start stop segs = true → start ≤ stop := by
  induction segs with
  | nil => intro a b h; simpa [fitsB] using h
  | cons s rest ih =>
    intro a b h
    simp only [fitsB, Bool.and_eq_true, decide_eq_true_eq] at h
    have := ih _ _ h.2
    omega

theorem popStep_parent_stop (p : Span) (s : Seg) :
    (popStep p s).2.stop = p.stop - (displayLen s + dotLen s) := by
  cases s <;> simp [popStep, dotLen] <;> omega

theorem popStep_seg_start (p : Span) (s : Seg) :
    (popStep p s).1.start = p.stop - displayLen s := by
  cases s <;> rfl

theorem popStep_parent_start (p : Span) (s : Seg) : (popStep p s).2.start = p.start := by
  cases s <;> rfl

theorem walk_ordered (segs : List Seg) : ∀ (parent : Span),
    fitsB parent.start parent.stop segs = true →
    ∀ x ∈ walk parent segs, x.2.start ≤ x.2.stop ∧ parent.start ≤ x.1.start := by
  induction segs with
  | nil => intro p _ x h; simp [walk] at h
  | cons s rest ih =>
    intro p hf x h
    simp only [fitsB, Bool.and_eq_true, decide_eq_true_eq] at hf
    simp only [walk, List.mem_cons] at h
    have h1 := popStep_parent_stop p s
    have h2 := popStep_seg_start p s
    have h3 := popStep_parent_start p s
    have hle := fitsB_le _ _ _ hf.2
    rcases h with h | h
    · subst h; omega
    · have hf' : fitsB (popStep p s).2.start (popStep p s).2.stop rest = true := by
        rw [h1, h3]; exact hf.2
      have := ih _ hf' x h
      omega
end Spans
