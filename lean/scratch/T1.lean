import VrlModel.Spans
namespace Spans

theorem popStep_parent_start (p : Span) (s : Seg) : (popStep p s).2.start = p.start := by
  cases s <;> rfl

theorem popStep_bounds (p : Span) (s : Seg) :
    (popStep p s).1.start ≤ (popStep p s).1.stop ∧ (popStep p s).1.stop = p.stop ∧
    (popStep p s).2.stop ≤ p.stop := by
  cases s <;> simp [popStep] <;> omega

/-- unconditional part -/
theorem walk_bounds (segs : List Seg) : ∀ (parent : Span) (x : Span × Span), x ∈ walk parent segs →
    x.1.start ≤ x.1.stop ∧ x.1.stop ≤ parent.stop ∧ x.2.stop ≤ parent.stop ∧ x.2.start = parent.start := by
  induction segs with
  | nil => intro p x h; simp [walk] at h
  | cons s rest ih =>
    intro p x h
    simp only [walk, List.mem_cons] at h
    have hb := popStep_bounds p s
    have hs := popStep_parent_start p s
    rcases h with h | h
    · subst h; omega
    · have := ih _ x h
      omega
end Spans
