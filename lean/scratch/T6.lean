import VrlModel.Spans
