import VrlModel.Spans
namespace Spans

/-- offsets strictly increase and stay inside `[lo, len)` -/
def PosOK (len : Nat) : Nat → List (Nat × Nat) → Prop
  | _, [] => True
  | lo, (p, _) :: rest => lo ≤ p ∧ p < len ∧ PosOK len (p + 1) rest

theorem PosOK_mono {len : Nat} (cs : List (Nat × Nat)) : ∀ {lo lo' : Nat}, lo' ≤ lo → PosOK len lo cs → PosOK len lo' cs := by
  cases cs with
  | nil => intros; trivial
  | cons x rest =>
    intro lo lo' h hp
    obtain ⟨p, c⟩ := x
    simp only [PosOK] at hp ⊢
    exact ⟨by omega, hp.2.1, hp.2.2⟩

theorem PosOK_cast {len len' lo lo' : Nat} {cs : List (Nat × Nat)} (h1 : len = len') (h2 : lo' ≤ lo)
    (h : PosOK len lo cs) : PosOK len' lo' cs := by
  subst h1; exact PosOK_mono cs h2 h

theorem posOK_charIndicesFrom (pos : Nat) (src : List Nat) :
    PosOK (pos + src.length) pos (charIndicesFrom pos src) := by
  fun_induction charIndicesFrom pos src <;> simp_all [PosOK]
  all_goals (refine PosOK_cast ?_ ?_ ‹_› <;> omega)

theorem nextIndex_bounds {len lo : Nat} {cs : List (Nat × Nat)} (h : PosOK len lo cs) (hl : lo ≤ len) :
    lo ≤ nextIndex len cs ∧ nextIndex len cs ≤ len := by
  cases cs with
  | nil => simp [nextIndex]; omega
  | cons x rest => obtain ⟨p, c⟩ := x; simp only [PosOK] at h; simp [nextIndex]; omega

/-- invariant of the scanner state: a pending backslash lies before the unread characters -/
def StOK (lo len : Nat) : StrSt → Prop
  | .normal => True
  | .esc bs => bs < lo ∧ bs < len
  | .uni bs => bs < lo ∧ bs < len
  | .hex bs _ _ => bs < lo ∧ bs < len

/-- every error of `string_literal` carries a label that is non-empty, ordered and inside the
    source (for ANY source, ASCII or not) -/
theorem scanString_label_range (len start : Nat) (hs : start < len) :
    ∀ (cs : List (Nat × Nat)) (st : StrSt) (lo : Nat) (e : LexErr),
    PosOK len lo cs → lo ≤ len → StOK lo len st → scanString len start st cs = .error e →
    e.label.start < e.label.stop ∧ e.label.stop ≤ len := by
  intro cs
  induction cs with
  | nil =>
    intro st lo e _ _ hst h
    cases st <;> simp [scanString] at h <;> subst h <;> simp [LexErr.label, StOK] at * <;> omega
  | cons x rest ih =>
    intro st lo e hp hl hst h
    obtain ⟨p, c⟩ := x
    simp only [PosOK] at hp
    obtain ⟨h1, h2, h3⟩ := hp
    have hn := nextIndex_bounds h3 (by omega)
    cases st with
    | normal =>
      simp only [scanString] at h
      split at h
      · cases h
      · split at h
        · exact ih _ _ _ h3 (by omega) (by simp [StOK]; omega) h
        · exact ih _ _ _ h3 (by omega) (by simp [StOK]) h
    | esc bs =>
      simp only [scanString] at h
      simp only [StOK] at hst
      split at h
      · exact ih _ _ _ h3 (by omega) (by simp [StOK]) h
      · split at h
        · exact ih _ _ _ h3 (by omega) (by simp [StOK]; omega) h
        · cases h; simp [LexErr.label]; omega
    | uni bs =>
      simp only [scanString] at h
      simp only [StOK] at hst
      split at h
      · exact ih _ _ _ h3 (by omega) (by simp [StOK]; omega) h
      · cases h; simp [LexErr.label]; omega
    | hex bs n v =>
      simp only [scanString] at h
      simp only [StOK] at hst
      split at h
      · split at h
        · cases h; simp [LexErr.label]; omega
        · split at h
          · exact ih _ _ _ h3 (by omega) (by simp [StOK]) h
          · cases h; simp [LexErr.label]; omega
      · split at h
        · exact ih _ _ _ h3 (by omega) (by simp [StOK]; omega) h
        · cases h; simp [LexErr.label]; omega

end Spans
