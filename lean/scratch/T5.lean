namespace T5
def isCont (b : Nat) : Bool := decide (128 ≤ b) && decide (b < 192)

def charIndicesFrom : Nat → List Nat → List (Nat × Nat)
  | _, [] => []
  | pos, b0 :: rest =>
    if b0 < 128 then (pos, b0) :: charIndicesFrom (pos + 1) rest
    else if b0 < 224 then
      match rest with
      | b1 :: r => (pos, (b0 % 32) * 64 + b1 % 64) :: charIndicesFrom (pos + 2) r
      | [] => []
    else if b0 < 240 then
      match rest with
      | b1 :: b2 :: r => (pos, ((b0 % 16) * 64 + b1 % 64) * 64 + b2 % 64) :: charIndicesFrom (pos + 3) r
      | _ => []
    else
      match rest with
      | b1 :: b2 :: b3 :: r =>
        (pos, (((b0 % 8) * 64 + b1 % 64) * 64 + b2 % 64) * 64 + b3 % 64) :: charIndicesFrom (pos + 4) r
      | _ => []

def wfUtf8 : List Nat → Bool
  | [] => true
  | b0 :: rest =>
    if b0 < 128 then wfUtf8 rest
    else if b0 < 192 then false
    else if b0 < 224 then
      match rest with
      | b1 :: r => isCont b1 && decide (128 ≤ (b0 % 32) * 64 + b1 % 64) && wfUtf8 r
      | [] => false
    else if b0 < 240 then
      match rest with
      | b1 :: b2 :: r =>
        isCont b1 && isCont b2 && decide (128 ≤ ((b0 % 16) * 64 + b1 % 64) * 64 + b2 % 64) && wfUtf8 r
      | _ => false
    else if b0 < 248 then
      match rest with
      | b1 :: b2 :: b3 :: r =>
        isCont b1 && isCont b2 && isCont b3 &&
          decide (128 ≤ (((b0 % 8) * 64 + b1 % 64) * 64 + b2 % 64) * 64 + b3 % 64) && wfUtf8 r
      | _ => false
    else false


def isCharBoundary (src : List Nat) (i : Nat) : Bool :=
  match i with
  | 0 => true
  | _ =>
    match src[i]? with
    | none => i == src.length
    | some b => !isCont b

/-- the decoded characters tile the source: each starts on a boundary, an ASCII code point is one
    byte wide, and the last one ends at the end of the source -/
def Chain (src : List Nat) : Nat → List (Nat × Nat) → Prop
  | lo, [] => lo = src.length
  | lo, (p, c) :: rest =>
    p = lo ∧ isCharBoundary src p = true ∧ ∃ w, 1 ≤ w ∧ (c < 128 → w = 1) ∧ Chain src (p + w) rest

theorem boundary_len (src : List Nat) : isCharBoundary src src.length = true := by
  unfold isCharBoundary
  cases h : src.length with
  | zero => rfl
  | succ n =>
    have : src[n + 1]? = none := by
      apply List.getElem?_eq_none_iff.mpr; omega
    simp [this]

theorem boundary_lead (pre : List Nat) (b : Nat) (rest : List Nat) (hb : isCont b = false) :
    isCharBoundary (pre ++ b :: rest) pre.length = true := by
  unfold isCharBoundary
  cases h : pre.length with
  | zero => rfl
  | succ n =>
    have : (pre ++ b :: rest)[n + 1]? = some b := by
      rw [← h]; simp
    simp [this, hb]

theorem not_cont_of_lt {b : Nat} (h : b < 128) : isCont b = false := by simp [isCont]; omega
theorem not_cont_of_ge {b : Nat} (h : 192 ≤ b) : isCont b = false := by simp [isCont]; omega

theorem chain_charIndicesFrom (pos : Nat) (suf : List Nat) :
    ∀ (pre : List Nat), pre.length = pos → wfUtf8 suf = true →
    Chain (pre ++ suf) pos (charIndicesFrom pos suf) := by
  fun_induction charIndicesFrom pos suf with
  | case1 pos =>
    intro pre hp _; simp [Chain, hp]
  | case2 pos b0 rest h ih =>
    intro pre hp hw
    unfold wfUtf8 at hw; simp only [h, if_true] at hw
    refine ⟨rfl, ?_, 1, Nat.le_refl _, fun _ => rfl, ?_⟩
    · rw [← hp]; exact boundary_lead pre b0 rest (not_cont_of_lt h)
    · have := ih (pre ++ [b0]) (by simp [hp]) hw
      simpa [List.append_assoc] using this
  | case3 pos b0 h1 h2 b1 r ih =>
    intro pre hp hw
    have h3 : ¬ b0 < 192 := by
      intro h; (unfold wfUtf8 at hw; simp [h1, h] at hw)
    unfold wfUtf8 at hw; simp only [h1, h2, h3, if_true, if_false, Bool.and_eq_true, decide_eq_true_eq] at hw
    refine ⟨rfl, ?_, 2, by omega, fun hc => by omega, ?_⟩
    · rw [← hp]; exact boundary_lead pre b0 _ (not_cont_of_ge (by omega))
    · have := ih (pre ++ [b0, b1]) (by simp [hp]) hw.2
      simpa [List.append_assoc] using this
  | case4 pos b0 h1 h2 =>
    intro pre hp hw
    by_cases h3' : b0 < 192
    · (unfold wfUtf8 at hw; simp [h1, h3'] at hw)
    · (unfold wfUtf8 at hw; simp [h1, h2, h3'] at hw)
  | case5 pos b0 h1 h2 h3 b1 b2 r ih =>
    intro pre hp hw
    have h4 : ¬ b0 < 192 := by omega
    unfold wfUtf8 at hw; simp only [h1, h2, h3, h4, if_true, if_false, Bool.and_eq_true, decide_eq_true_eq] at hw
    refine ⟨rfl, ?_, 3, by omega, fun hc => by omega, ?_⟩
    · rw [← hp]; exact boundary_lead pre b0 _ (not_cont_of_ge (by omega))
    · have := ih (pre ++ [b0, b1, b2]) (by simp [hp]) hw.2
      simpa [List.append_assoc] using this
  | case6 pos b0 rest h1 h2 h3 hne =>
    intro pre hp hw
    have h4 : ¬ b0 < 192 := by omega
    exfalso
    cases rest with
    | nil => (unfold wfUtf8 at hw; simp [h1, h2, h3, h4] at hw)
    | cons b1 r =>
      cases r with
      | nil => (unfold wfUtf8 at hw; simp [h1, h2, h3, h4] at hw)
      | cons b2 r2 => exact hne b1 b2 r2 rfl
  | case7 pos b0 h1 h2 h3 b1 b2 b3 r ih =>
    intro pre hp hw
    have h4 : ¬ b0 < 192 := by omega
    have h5 : b0 < 248 := by
      apply Classical.byContradiction; intro h; (unfold wfUtf8 at hw; simp [h1, h2, h3, h4, h] at hw)
    unfold wfUtf8 at hw; simp only [h1, h2, h3, h4, h5, if_true, if_false, Bool.and_eq_true, decide_eq_true_eq] at hw
    refine ⟨rfl, ?_, 4, by omega, fun hc => by omega, ?_⟩
    · rw [← hp]; exact boundary_lead pre b0 _ (not_cont_of_ge (by omega))
    · have := ih (pre ++ [b0, b1, b2, b3]) (by simp [hp]) hw.2
      simpa [List.append_assoc] using this
  | case8 pos b0 rest h1 h2 h3 hne =>
    intro pre hp hw
    have h4 : ¬ b0 < 192 := by omega
    exfalso
    by_cases h5 : b0 < 248
    · cases rest with
      | nil => (unfold wfUtf8 at hw; simp [h1, h2, h3, h4, h5] at hw)
      | cons b1 r =>
        cases r with
        | nil => (unfold wfUtf8 at hw; simp [h1, h2, h3, h4, h5] at hw)
        | cons b2 r2 =>
          cases r2 with
          | nil => (unfold wfUtf8 at hw; simp [h1, h2, h3, h4, h5] at hw)
          | cons b3 r3 => exact hne b1 b2 b3 r3 rfl
    · (unfold wfUtf8 at hw; simp [h1, h2, h3, h4, h5] at hw)

/-X-/ example : charIndicesFrom 0 [34, 92, 228, 187, 172] = [(0,34),(1,92),(2,20204)] := by decide
example : wfUtf8 [34, 92, 228, 187, 172, 240, 159, 152, 128] = true := by decide
#print axioms charIndicesFrom
end T5
