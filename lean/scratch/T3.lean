import VrlModel.Spans
namespace Spans

theorem boundary_of_ascii {src : List Nat} {i b : Nat} (h : src[i]? = some b) (hb : b < 128) :
    isCharBoundary src i = true := by
  unfold isCharBoundary
  cases i with
  | zero => rfl
  | succ n =>
    simp only [h]
    simp [isCont]; omega

theorem getElem?_of_take_drop {src c : List Nat} {a : Nat}
    (h : (src.drop a).take c.length = c) (j : Nat) (hj : j < c.length) :
    src[a + j]? = c[j]? := by
  have h2 : c[j]? = ((src.drop a).take c.length)[j]? := by rw [h]
  rw [h2, List.getElem?_take]
  simp [hj, List.getElem?_drop]

theorem popStep_parent_stop (p : Span) (s : Seg) :
    (popStep p s).2.stop = p.stop - (displayLen s + dotLen s) := by
  cases s <;> simp [popStep, dotLen] <;> omega

theorem popStep_seg_start (p : Span) (s : Seg) :
    (popStep p s).1.start = p.stop - displayLen s := by
  cases s <;> rfl

theorem popStep_seg_stop (p : Span) (s : Seg) : (popStep p s).1.stop = p.stop := by
  cases s <;> rfl

theorem popStep_parent_start (p : Span) (s : Seg) : (popStep p s).2.start = p.start := by
  cases s <;> rfl

theorem isFieldChar_lt {b : Nat} (h : isFieldChar b = true) : b < 128 := by
  simp [isFieldChar, isDigit, isAlphaU] at h
  omega

/-- the `Display` text of a segment is never empty and starts with an ASCII byte -/
theorem displayBytes_head (s : Seg) : ∃ b tl, displayBytes s = b :: tl ∧ b < 128 := by
  cases s with
  | field f =>
    by_cases hv : validField f = true
    · simp only [displayBytes, hv, if_true]
      cases f with
      | nil => simp [validField] at hv
      | cons b tl =>
        refine ⟨b, tl, rfl, ?_⟩
        simp only [validField, List.all_cons, Bool.and_eq_true] at hv
        exact isFieldChar_lt hv.1.1
    · simp only [displayBytes, hv]
      exact ⟨34, f ++ [34], by simp, by omega⟩
  | index i =>
    by_cases hi : i < 0
    · simp only [displayBytes, hi, if_true]
      exact ⟨91, _, rfl, by omega⟩
    · simp only [displayBytes, hi]
      exact ⟨91, _, rfl, by omega⟩

theorem canon_length (s : Seg) : (canon s).length = displayLen s + dotLen s := by
  cases s <;> simp [canon, displayLen, dotLen]

/-- byte `dotLen s` of the canonical spelling is the first byte of the `Display` text; byte 0 is
    ASCII as well (the dot or `[`) -/
theorem canon_bytes (s : Seg) : ∃ b0 b1, (canon s)[0]? = some b0 ∧ b0 < 128 ∧
    (canon s)[dotLen s]? = some b1 ∧ b1 < 128 := by
  obtain ⟨b, tl, hd, hb⟩ := displayBytes_head s
  cases s with
  | field f => exact ⟨46, b, by simp [canon], by omega, by simp [canon, dotLen, hd], hb⟩
  | index i => exact ⟨b, b, by simp [canon, hd], hb, by simp [canon, dotLen, hd], hb⟩

theorem canonAtB_le (src : List Nat) (segs : List Seg) : ∀ (start stop : Nat),
    canonAtB src start stop segs = true → start ≤ stop := by
  induction segs with
  | nil => intro a b h; simpa [canonAtB] using h
  | cons s rest ih =>
    intro a b h
    simp only [canonAtB, Bool.and_eq_true, decide_eq_true_eq] at h
    have := ih _ _ h.2
    omega

theorem walk_wf (src : List Nat) (segs : List Seg) : ∀ (parent : Span),
    parent.stop ≤ src.length →
    isCharBoundary src parent.start = true → isCharBoundary src parent.stop = true →
    canonAtB src parent.start parent.stop segs = true →
    ∀ x ∈ walk parent segs, WF src x.1 ∧ WF src x.2 := by
  induction segs with
  | nil => intro p _ _ _ _ x h; simp [walk] at h
  | cons s rest ih =>
    intro p hlen hbs hbe hc x h
    simp only [canonAtB, Bool.and_eq_true, decide_eq_true_eq, beq_iff_eq] at hc
    obtain ⟨⟨hcl, heq⟩, hrest⟩ := hc
    have hle := canonAtB_le _ _ _ _ hrest
    have hcl' := canon_length s
    obtain ⟨b0, b1, h0, hb0, h1, hb1⟩ := canon_bytes s
    have hdot : dotLen s < (canon s).length := by
      have ⟨b, tl, hd, _⟩ := displayBytes_head s
      have : 0 < displayLen s := by simp [displayLen, hd]
      omega
    have hpos : 0 < (canon s).length := by omega
    have e0 := getElem?_of_take_drop heq 0 hpos
    have e1 := getElem?_of_take_drop heq (dotLen s) hdot
    rw [h0] at e0
    rw [h1] at e1
    have bnd0 := boundary_of_ascii e0 hb0
    have bnd1 := boundary_of_ascii e1 hb1
    have q1 := popStep_parent_stop p s
    have q2 := popStep_seg_start p s
    have q3 := popStep_parent_start p s
    have q4 := popStep_seg_stop p s
    have ea : p.stop - (canon s).length + 0 = (popStep p s).2.stop := by omega
    have eb : p.stop - (canon s).length + dotLen s = (popStep p s).1.start := by omega
    rw [ea] at bnd0
    rw [eb] at bnd1
    simp only [walk, List.mem_cons] at h
    rcases h with h | h
    · subst h
      refine ⟨⟨by omega, by omega, bnd1, by rw [q4]; exact hbe⟩, ⟨by omega, by omega, by rw [q3]; exact hbs, bnd0⟩⟩
    · refine ih (popStep p s).2 (by omega) (by rw [q3]; exact hbs) bnd0 ?_ x h
      rw [q3, q1, ← hcl']; exact hrest

end Spans
