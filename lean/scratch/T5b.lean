namespace T5
def isCont (b : Nat) : Bool := decide (128 ≤ b) && decide (b < 192)

def charIndicesFrom : Nat → List Nat → List (Nat × Nat)
  | _, [] => []
  | pos, b0 :: rest =>
    if b0 < 128 then (pos, b0) :: charIndicesFrom (pos + 1) rest
    else if b0 < 224 then
      match rest with
      | b1 :: r => (pos, (b0 % 32) * 64 + b1 % 64) :: charIndicesFrom (pos + 2) r
      | [] => []
    else if b0 < 240 then
      match rest with
      | b1 :: b2 :: r => (pos, ((b0 % 16) * 64 + b1 % 64) * 64 + b2 % 64) :: charIndicesFrom (pos + 3) r
      | _ => []
    else
      match rest with
      | b1 :: b2 :: b3 :: r =>
        (pos, (((b0 % 8) * 64 + b1 % 64) * 64 + b2 % 64) * 64 + b3 % 64) :: charIndicesFrom (pos + 4) r
      | _ => []

def wfUtf8 : List Nat → Bool
  | [] => true
  | b0 :: rest =>
    if b0 < 128 then wfUtf8 rest
    else if b0 < 192 then false
    else if b0 < 224 then
      match rest with
      | b1 :: r => isCont b1 && decide (128 ≤ (b0 % 32) * 64 + b1 % 64) && wfUtf8 r
      | [] => false
    else if b0 < 240 then
      match rest with
      | b1 :: b2 :: r =>
        isCont b1 && isCont b2 && decide (128 ≤ ((b0 % 16) * 64 + b1 % 64) * 64 + b2 % 64) && wfUtf8 r
      | _ => false
    else if b0 < 248 then
      match rest with
      | b1 :: b2 :: b3 :: r =>
        isCont b1 && isCont b2 && isCont b3 &&
          decide (128 ≤ (((b0 % 8) * 64 + b1 % 64) * 64 + b2 % 64) * 64 + b3 % 64) && wfUtf8 r
      | _ => false
    else false


#check @charIndicesFrom.induct
end T5
