import VrlModel.Value
import VrlModel.Wire
import VrlModel.C18
import VrlModel.Driver.C18
